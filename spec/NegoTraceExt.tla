----------------------------- MODULE NegoTraceExt -----------------------------
(***************************************************************************)
(* Trace specification of the Negotiation family for an EXTERNAL server    *)
(* (`openssl s_server`; check X10: C10 / C11 / C17 against an independent  *)
(* implementation).  A copy of NegoTrace whose rules are conditional on    *)
(* what a black-box server lets one observe; scenarios carry               *)
(* external = TRUE.  Events (harness cmd ossl, chronological per scenario) *)
(*   Scn    the scenario (client id, s_server configuration, build)        *)
(*   CH k   k-th ClientHello, taken from the TCP stream the client wrote   *)
(*   SMSG t every handshake message the server sent in plaintext records,  *)
(*          taken from the TCP stream the client read:                     *)
(*          TLS 1.3: HelloRetryRequest, ServerHello;                       *)
(*          TLS <= 1.2: ServerHello, Certificate, ServerKeyExchange,       *)
(*          ServerHelloDone, NewSessionTicket                              *)
(*   Result the client's error with origin and ConnectionState, the data   *)
(*          round trip, and what s_server printed about the connection     *)
(*          (cipher, ALPN protocol, session reuse, SNI, exported keying    *)
(*          material; ev.sknown lists the fields it printed)               *)
(*                                                                         *)
(* What differs from NegoTrace, and what is required instead:              *)
(*  * There is no hook in the server: in TLS 1.3 nothing after the         *)
(*    ServerHello is visible (EncryptedExtensions .. Finished are          *)
(*    encrypted), so "the server's flight was complete" (NegoTrace         *)
(*    FlightComplete, Finished seen) cannot be observed.  Required         *)
(*    instead: the server is a compliant independent implementation; once  *)
(*    its ServerHello selected parameters the hello offered (CheckSH = ""),*)
(*    the client must complete the handshake AND the data round trip       *)
(*    through the server must succeed in both directions (XEchoOK) - a     *)
(*    client that derived wrong keys or mis-read the encrypted flight      *)
(*    cannot pass that.  Below TLS 1.3 ServerHelloDone is on the wire and  *)
(*    FlightComplete is as in NegoTrace.                                   *)
(*  * The server's ConnectionState and errors do not exist.  Agreement     *)
(*    (C11) compares the client's view with the plaintext ServerHello /    *)
(*    ServerKeyExchange on the wire and with the fields s_server printed   *)
(*    (XAgreeProblems); exporters are compared when s_server exported.     *)
(*  * A server refusal is allowed only where OsslCanSelect is false;       *)
(*    a completion where it is false is a calibration problem of the rule. *)
(*  * binding: the plaintext ServerHello must show the version, suite and  *)
(*    group the scenario configured (otherwise the run did not test the    *)
(*    grid point TLC enumerated: machinery, not a verdict).                *)
(*  * extsrv: a message of the external server that the specification     *)
(*    says a client must refuse - either the server or the specification   *)
(*    is wrong; reported for examination, never silently skipped.          *)
(* ALPS (C22) and the hooked deviations (C12, C13) need the in-tree server *)
(* and are not part of this module.                                        *)
(***************************************************************************)
EXTENDS NegotiationExt
Trace == ndJsonDeserialize("negox_trace.ndjson")

VARIABLES l, st, rej, stats
vars == <<l, st, rej, stats>>

Idle == [sc |-> -1, scn |-> [id |-> "", mode |-> ""], nch |-> 0, raw1 |-> <<>>, o |-> NoOffer, o1 |-> NoOffer,
         hrrSeen |-> FALSE, hrr |-> BadSH, nHRR |-> 0, shSeen |-> FALSE, sh |-> BadSH, must |-> "", seen |-> {}, done |-> FALSE,
         ske |-> 0]
NoStats == [done |-> <<0, 0, 0, 0>>, hrrCookie |-> 0, hrrCookieOnly |-> 0, hrrGroup |-> 0, refused |-> 0, agree |-> 0, ekm |-> 0, sni |-> 0]
Init == l = 1 /\ st = Idle /\ rej = {} /\ stats = NoStats

SpecMinOf(id) == IF id \in IDs THEN EffMin(Specs[id]) ELSE 769
Fail(kind, detail) == {<<st.sc, kind, ToString(detail)>>}

\* ---- Scn
OnScn(ev) == /\ st' = [Idle EXCEPT !.sc = ev.sc, !.scn = ev]
             /\ rej' = rej \cup (IF st.sc >= 0 /\ ~st.done THEN Fail("order", "no-result") ELSE {})
                           \cup (IF ~ev.external THEN {<<ev.sc, "order", "not-an-external-scenario">>} ELSE {})
             /\ UNCHANGED stats

\* ---- CH: SendCH1 / SendCH2
\* C17 speaks about classical groups, no PSK, no real ECH; a HelloRetryRequest that only carries a cookie is in scope
InC17Scope == st.o1.npsk = 0 /\ SHGroup(st.hrr) \in {0, 23, 24, 25, 29}
OnCH(ev) ==
  LET o == WireOffer(ev.raw, SpecMinOf(st.scn.id)) IN
  /\ UNCHANGED stats
  /\ IF ev.k = 1 THEN
       /\ st' = [st EXCEPT !.nch = 1, !.raw1 = ev.raw, !.o = o, !.o1 = o]
       /\ rej' = rej \cup (IF ~o.ok THEN Fail("share", "unparsable-hello") ELSE {})
                     \cup {<<st.sc, "share", ToString(p)>> : p \in ShareProblems(o)}
     ELSE
       /\ st' = [st EXCEPT !.nch = ev.k, !.o = o]
       /\ rej' = rej \cup (IF ~st.hrrSeen \/ ev.k > 2 THEN Fail("order", "second-hello-without-hrr") ELSE {})
                     \cup (IF st.hrrSeen /\ st.must # "" THEN Fail("safety", <<"continued-after", st.must>>) ELSE {})
                     \cup (IF st.hrrSeen /\ st.must = "" /\ InC17Scope
                           THEN {<<st.sc, "ch2", ToString(p)>> : p \in CH2Problems(st.raw1, ev.raw, st.hrr) \cup CH2KeepsShares(st.raw1, ev.raw, st.hrr)}
                           ELSE {})
                     \cup {<<st.sc, "share", ToString(p)>> : p \in ShareProblems(o)}

\* ---- SMSG: the client's required reaction to each plaintext server message
First(a, b) == IF a # "" THEN a ELSE b
OnSMSG(ev) ==
  /\ rej' = rej /\ UNCHANGED stats
  /\ IF ev.t = 2 THEN
       LET sh == ParseSH(ev.raw) IN
       IF ~sh.ok THEN st' = [st EXCEPT !.must = First(st.must, "malformed-server-hello"), !.seen = st.seen \cup {2}]
       ELSE IF IsHRR(sh) THEN
            st' = [st EXCEPT !.must = First(st.must, CheckHRR(st.o, sh, st.nHRR)), !.hrr = sh, !.hrrSeen = TRUE, !.nHRR = st.nHRR + 1]
       ELSE st' = [st EXCEPT !.must = First(st.must, CheckSH(st.o, sh, st.hrrSeen, st.hrr)), !.sh = sh, !.shSeen = TRUE, !.seen = st.seen \cup {2}]
     ELSE IF ev.t = 12 THEN
       st' = [st EXCEPT !.must = First(st.must, CheckSKE(st.o, ev.raw)), !.seen = st.seen \cup {12}, !.ske = SKECurve(ev.raw)]
     ELSE st' = [st EXCEPT !.seen = st.seen \cup {ev.t}]

\* ---- Result
Version == IF st.shSeen THEN SHVersion(st.sh) ELSE 0
\* what stands in for NegoTrace!FlightComplete (see the module comment)
XFlightComplete == st.shSeen /\ (IF Version = 772 THEN TRUE ELSE 14 \in st.seen)
Compliant == st.scn.mode = "compliant"
CanSelect == OsslCanSelect(st.o1, st.scn)
\* A refusal of a selectable offer is the client's fault when its hello breaks a MUST of RFC 8446 4.2.8 ("each
\* KeyShareEntry MUST correspond to a group offered in supported_groups ... servers MAY check and abort with
\* illegal_parameter"): OpenSSL checks, the in-tree server does not.  Still a rejection (the fingerprint does not
\* complete with a compliant server), but named so that it can be told from a refusal nobody can explain.
RefusalClass == IF ShareOutsideGroups(st.o1) # {}
                THEN "server-refused-hello-with-share-outside-supported-groups"
                ELSE "server-refused-selectable-offer"
\* the ServerHello shows what the scenario configured
BindingProblems ==
  IF ~st.shSeen THEN {} ELSE
     (IF Version # st.scn.ver THEN {"version"} ELSE {})
  \cup (IF st.sh.suite # st.scn.suite THEN {"suite"} ELSE {})
  \cup (IF Version = 772 /\ SHGroup(st.sh) # st.scn.group THEN {"group"} ELSE {})
  \cup (IF Version < 772 /\ 12 \in st.seen /\ st.scn.group # 0 /\ st.ske # st.scn.group THEN {"curve"} ELSE {})
  \cup (IF st.scn.stateless /\ ~(st.hrrSeen /\ SHCookie(st.hrr) # <<>>) THEN {"no-cookie-although-stateless"} ELSE {})
OnResult(ev) ==
  /\ st' = [st EXCEPT !.done = TRUE]
  /\ stats' = [stats EXCEPT
        !.done = IF ev.cok /\ Version \in 769..772 THEN [@ EXCEPT ![Version - 768] = @ + 1] ELSE @,   \* TLS 1.0 .. 1.3
        !.hrrCookie = @ + (IF ev.cok /\ st.hrrSeen /\ SHCookie(st.hrr) # <<>> /\ st.nch = 2 THEN 1 ELSE 0),
        !.hrrCookieOnly = @ + (IF ev.cok /\ st.hrrSeen /\ SHCookie(st.hrr) # <<>> /\ SHGroup(st.hrr) = 0 THEN 1 ELSE 0),
        !.hrrGroup = @ + (IF ev.cok /\ st.hrrSeen /\ SHGroup(st.hrr) # 0 THEN 1 ELSE 0),
        !.refused = @ + (IF ~ev.cok /\ ev.corigin = "alert" /\ ~st.shSeen THEN 1 ELSE 0),
        !.agree = @ + (IF ev.cok /\ "suite" \in Range(ev.sknown) THEN 1 ELSE 0),
        !.ekm = @ + (IF ev.cok /\ Len(ev.cekm) = Len(ev.sekm) /\ \E i \in DOMAIN ev.cekm : ev.cekm[i] # <<>> /\ ev.sekm[i] # <<>> THEN 1 ELSE 0),
        !.sni = @ + (IF ev.cok /\ "sni" \in Range(ev.sknown) THEN 1 ELSE 0)]
  /\ rej' = rej
       \* the external server sent something a client must refuse: the server or the specification is wrong
       \cup (IF st.must # "" THEN Fail("extsrv", st.must) ELSE {})
       \* safety: a client that must abort never completes
       \cup (IF st.must # "" /\ (ev.cok \/ ev.hsok) THEN Fail("safety", st.must) ELSE {})
       \* progress (C10): acceptable parameters selected => the client completes and data round-trips
       \cup (IF st.must = "" /\ XFlightComplete /\ ~ev.cok /\ ev.corigin = "local"
             THEN Fail("progress", <<"client-abort-on-acceptable-flight", ev.corigin>>) ELSE {})
       \* ... a connection that just ends or stalls after an acceptable ServerHello, with no complaint of the server
       \cup (IF st.must = "" /\ XFlightComplete /\ ~ev.cok /\ ev.corigin = "transport" /\ ev.sorigin = "none"
             THEN Fail("stall", <<"client-abort-on-acceptable-flight", ev.corigin>>) ELSE {})
       \cup (IF st.must = "" /\ st.hrrSeen /\ st.nch < 2 /\ ~ev.cok THEN Fail("progress", "no-second-hello-after-valid-hrr") ELSE {})
       \cup (IF st.must = "" /\ ~XFlightComplete /\ ~ev.cok /\ ev.corigin = "local" THEN Fail("progress", "client-local-abort") ELSE {})
       \cup (IF ev.hsok /\ ev.cok /\ ~XEchoOK(ev) THEN Fail("progress", "echo") ELSE {})
       \cup (IF ev.cok /\ ev.sout /\ ~ev.sok THEN Fail("progress", "server-failed-after-client-done") ELSE {})
       \* a compliant server may refuse only what it cannot select
       \cup (IF Compliant /\ st.must = "" /\ ~ev.cok /\ ev.corigin # "local" /\ st.o.ok /\ CanSelect
                /\ ~(XFlightComplete /\ ev.corigin = "transport" /\ ev.sorigin = "none")
             THEN Fail("refusal", <<RefusalClass, ev.corigin>>) ELSE {})
       \cup (IF Compliant /\ ev.cok /\ st.o.ok /\ ~CanSelect THEN Fail("calibration", "server-selected-what-the-model-excludes") ELSE {})
       \* the run tested the grid point TLC enumerated; a handshake cannot complete without a ServerHello on the wire
       \cup {<<st.sc, "binding", ToString(p)>> : p \in BindingProblems}
       \cup (IF (ev.cok \/ ev.hsok) /\ (~st.shSeen \/ st.nch = 0) THEN Fail("order", "completed-without-hello-on-the-wire") ELSE {})
       \* agreement (C11)
       \cup (IF ev.cok /\ st.shSeen
             THEN {<<st.sc, "agree", ToString(p)>> : p \in XAgreeProblems(ev.cs, st.sh, st.ske, ev.ss, Range(ev.sknown), st.o, ev.cekm, ev.sekm)} ELSE {})
       \* the client's view never shows an unoffered value
       \cup (IF ev.cok /\ st.o.ok /\ (ev.cs.version \notin st.o.versions \/ ev.cs.suite \notin st.o.suites
                                      \/ (ev.cs.proto # <<>> /\ ev.cs.proto \notin st.o.alpn))
             THEN Fail("safety", "connection-state-shows-unoffered-value") ELSE {})

Step == /\ l <= Len(Trace)
        /\ l' = l + 1
        /\ LET ev == Trace[l] IN
           CASE ev.ev = "Scn" -> OnScn(ev)
             [] ev.ev = "CH" -> OnCH(ev)
             [] ev.ev = "SMSG" -> OnSMSG(ev)
             [] ev.ev = "Result" -> OnResult(ev)
             [] OTHER -> st' = st /\ UNCHANGED stats /\ rej' = rej \cup Fail("order", <<"unknown-event", ev.ev>>)
Next == Step
Report == (l = Len(Trace) + 1) =>
            /\ PrintT(<<"DONE", l - 1>>)
            /\ PrintT(<<"STAT", ToJson(stats)>>)
            /\ \A r \in rej : PrintT(<<"REJ", ToJson(r)>>)
=============================================================================
