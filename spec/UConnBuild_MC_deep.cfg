CONSTANTS
  MaxLen = 4
  Classes = {"parrot", "shuffle", "randomized", "custom", "psk"}
  Servers = {"plain", "hrr", "hrrcookie"}
  Modes = {"never", "before"}
  Kinds = {"SetClientRandom", "SetSNI", "RemoveSNI", "EditSuites", "EditSessionId", "ExtInsert", "ExtRemove", "ExtALPN"}
  SNIAll = FALSE
  SkipVerify = FALSE
  FixRemoveSNI = TRUE
INIT Init
NEXT Next
INVARIANT WireIsRaw
INVARIANT EditsVisible
INVARIANT RawIsLastSent
INVARIANT NothingSentWhenRefused
INVARIANT Emit
CHECK_DEADLOCK FALSE
