-------------------------- MODULE PubViews_MC --------------------------
(* Input grid for C31: every combination of field presence of a ServerHello / TLS 1.3 CertificateRequest view and
   short lists of key shares, PSK identities and ticket keys.  The scenario is the initial state; TLC emits each as
   JSON (SCN) and the harness builds the corresponding Go values. *)
EXTENDS Integers, Sequences, FiniteSets, TLC, Json
CONSTANT Full
VARIABLE scn
SHGrid == [kind : {"SH"}, vers : {771}, sid : IF Full THEN {0, 32} ELSE {32}, npn : {0, 1, 2}, ocsp : {0, 1}, scts : {0, 2},
           ems : {0, 1}, ticket : {0, 1}, reneg : {0, 1, 2}, alpn : {0, 1}, sv : {0, 772}, share : {0, 1}, psk : {0, 1},
           cookie : {0, 8}, selgrp : {0, 23}, comp : {0}, suite : {4865}, rawjunk : IF Full THEN {0, 1} ELSE {0}]
\* key_share carries either the server share (ServerHello) or the selected group (HelloRetryRequest), never both
\* (RFC 8446 4.2.8); the Go encoder would emit the extension twice and no parser accepts that
ValidSH(s) == ~(s.share = 1 /\ s.selgrp # 0)
CRGrid == [kind : {"CR"}, ocsp : {0, 1}, scts : {0, 1}, sigs : {1, 3}, sigscert : {0, 2}, cas : {0, 1, 2}]
UpTo2(S) == {<<>>} \cup {<<a>> : a \in S} \cup {<<a, b>> : a \in S, b \in S}
ListGrid == [kind : {"KS"}, items : UpTo2({<<29, 32>>, <<23, 65>>, <<4588, 0>>, <<2570, 1>>})]
       \cup [kind : {"PSK"}, items : UpTo2({<<0, 0>>, <<16, 2>>, <<1, 4>>, <<3, 3>>})]
       \cup [kind : {"TK"}, items : UpTo2({<<1>>, <<200>>})]
Init == scn \in {s \in SHGrid : ValidSH(s)} \cup CRGrid \cup ListGrid
Next == UNCHANGED scn
Emit == PrintT(<<"SCN", ToJson(scn)>>)
=============================================================================
