-------------------------- MODULE PubViews_MC --------------------------
(* Input grid for C31: every combination of field presence of a ServerHello / TLS 1.3 CertificateRequest view and
   short lists of key shares, PSK identities and ticket keys.  The scenario is the initial state; TLC emits each as
   JSON (SCN) and the harness builds the corresponding Go values. *)
EXTENDS TLSWire, Json
CONSTANT Full
VARIABLE scn
SHGrid == [kind : {"SH"}, vers : {771}, sid : IF Full THEN {0, 32} ELSE {32}, npn : {0, 1, 2}, ocsp : {0, 1}, scts : {0, 2},
           ems : {0, 1}, ticket : {0, 1}, reneg : {0, 1, 2}, alpn : {0, 1}, sv : {0, 772}, share : {0, 1}, psk : {0, 1},
           cookie : {0, 8}, selgrp : {0, 23}, comp : {0}, suite : {4865}, rawjunk : IF Full THEN {0, 1} ELSE {0}]
\* key_share carries either the server share (ServerHello) or the selected group (HelloRetryRequest), never both
\* (RFC 8446 4.2.8); the Go encoder would emit the extension twice and no parser accepts that
ValidSH(s) == ~(s.share = 1 /\ s.selgrp # 0)
CRGrid == [kind : {"CR"}, ocsp : {0, 1}, scts : {0, 1}, sigs : {1, 3}, sigscert : {0, 2}, cas : {0, 1, 2}]
UpTo2(S) == {<<>>} \cup {<<a>> : a \in S} \cup {<<a, b>> : a \in S, b \in S}
ListGrid == [kind : {"KS"}, items : UpTo2({<<29, 32>>, <<23, 65>>, <<4588, 0>>, <<2570, 1>>})]
       \cup [kind : {"PSK"}, items : UpTo2({<<0, 0>>, <<16, 2>>, <<1, 4>>, <<3, 3>>})]
       \cup [kind : {"TK"}, items : UpTo2({<<1>>, <<200>>})]

\* ---------------------------------------------------------------- ClientHello views over presence combinations
\* Optional members of a ClientHello as Go's clientHelloMsg knows them; each is "absent", present with a "small"
\* value, or (where the grammar and Go's parser allow an empty body/list) present "empty".  List members also come
\* "special": with code points that have a meaning of their own or no meaning at all - a GREASE value and a duplicate in
\* supported_groups / signature_algorithms / supported_versions, a GREASE key share.  cipher_suites (never absent) is
\* "small", or carries TLS_EMPTY_RENEGOTIATION_INFO_SCSV 0x00ff (which Go's parser turns into secureRenegotiationSupported,
\* with or without a renegotiation_info extension next to it), TLS_FALLBACK_SCSV 0x5600, both, a GREASE value, a duplicate.
Members == {"suites", "sni", "ocsp", "groups", "points", "ticket", "sigs", "sigscert", "reneg", "ems", "alpn", "sct", "versions",
            "cookie", "shares", "pskmodes", "earlydata", "quic", "sid", "psk"}
\* server_name values: a DNS name, IP literals (which a client would not normally send but the codec carries: RFC 6066
\* only says "literal IPv4 and IPv6 addresses are not permitted" to senders), a zoned / bracketed literal, a 253-byte name
SNIName(v) == CASE v = "ipv4" -> <<49, 57, 50, 46, 48, 46, 50, 46, 55>>
                [] v = "ipv6" -> <<50, 48, 48, 49, 58, 100, 98, 56, 58, 58, 49>>
                [] v = "bracketed" -> <<91, 50, 48, 48, 49, 58, 100, 98, 56, 58, 58, 49, 93>>
                [] v = "zoned" -> <<102, 101, 56, 48, 58, 58, 49, 37, 101, 116, 104, 48>>
                [] v = "long" -> [i \in 1..253 |-> IF i % 64 = 0 THEN 46 ELSE 97 + (i % 26)]
                [] OTHER -> <<97, 46, 101, 120, 97, 109, 112, 108, 101>>
Vals(m) == CASE m = "sni" -> {"absent", "small", "ipv4", "ipv6", "bracketed", "zoned", "long"}
             [] m = "suites" -> {"small", "scsv", "fallback", "both", "grease", "dup"}
             [] m = "shares" -> {"absent", "small", "empty", "special"}
             [] m \in {"ticket", "reneg", "quic"} -> {"absent", "small", "empty"}
             [] m \in {"groups", "sigs", "versions"} -> {"absent", "small", "special"}
             [] OTHER -> {"absent", "small"}
SuiteList(v) == CASE v = "scsv" -> <<4865, 49199, 47, 255>>
                  [] v = "fallback" -> <<4865, 49199, 47, 22016>>
                  [] v = "both" -> <<4865, 255, 22016, 47>>
                  [] v = "grease" -> <<2570, 4865, 49199, 47>>
                  [] v = "dup" -> <<4865, 49199, 4865, 47>>
                  [] OTHER -> <<4865, 49199, 47>>
Seq32(k) == [i \in 1..32 |-> (i * 7 + k) % 256]
ExtOf(m, v) ==
  IF v = "absent" THEN <<>> ELSE
  CASE m = "sni" -> Ext(0, Vec16(<<0>> \o Vec16(SNIName(v))))
    [] m = "ocsp" -> Ext(5, <<1, 0, 0, 0, 0>>)
    [] m = "groups" -> Ext(10, Vec16(U16List(IF v = "special" THEN <<2570, 29, 23, 29>> ELSE <<29, 23>>)))
    [] m = "points" -> Ext(11, Vec8(<<0>>))
    [] m = "ticket" -> Ext(35, IF v = "empty" THEN <<>> ELSE <<1, 2, 3, 4>>)
    [] m = "sigs" -> Ext(13, Vec16(U16List(IF v = "special" THEN <<1027, 6682, 2052, 1027>> ELSE <<1027, 2052>>)))
    [] m = "sigscert" -> Ext(50, Vec16(U16List(<<1025>>)))
    [] m = "reneg" -> Ext(65281, Vec8(IF v = "empty" THEN <<>> ELSE <<5, 6, 7, 8>>))
    [] m = "ems" -> Ext(23, <<>>)
    [] m = "alpn" -> Ext(16, Vec16(ProtoList(<< <<104, 50>>, <<104, 116, 116, 112, 47, 49, 46, 49>> >>)))
    [] m = "sct" -> Ext(18, <<>>)
    [] m = "versions" -> Ext(43, Vec8(U16List(IF v = "special" THEN <<10794, 772, 771, 772>> ELSE <<772, 771>>)))
    [] m = "cookie" -> Ext(44, Vec16(<<9, 8, 7>>))
    [] m = "shares" -> Ext(51, Vec16(IF v = "empty" THEN <<>>
                                     ELSE (IF v = "special" THEN U16(2570) \o Vec16(<<0>>) ELSE <<>>) \o U16(29) \o Vec16(Seq32(3))))
    [] m = "pskmodes" -> Ext(45, Vec8(<<1>>))
    [] m = "earlydata" -> Ext(42, <<>>)
    \* pre_shared_key: two identities (label, obfuscated_ticket_age) and two 32-byte binders; always the last extension
    [] m = "psk" -> Ext(41, Vec16(Vec16(<<80, 83, 75>>) \o <<0, 0, 3, 232>> \o Vec16(<<105, 100>>) \o <<0, 1, 0, 7>>)
                            \o Vec16(Vec8(Seq32(5)) \o Vec8(Seq32(6))))
    [] m = "quic" -> Ext(57, IF v = "empty" THEN <<>> ELSE <<1, 2, 64, 100>>)
    [] OTHER -> <<>>
\* order of Go's encoder (handshake_messages.go marshalMsg); any order is a valid ClientHello
ExtOrder == <<"sni", "ocsp", "groups", "points", "ticket", "sigs", "sigscert", "reneg", "ems", "alpn", "sct", "versions",
              "cookie", "shares", "earlydata", "pskmodes", "quic", "psk">>
EncodeCH(f) ==
  LET exts == Flat([i \in DOMAIN ExtOrder |-> ExtOf(ExtOrder[i], f[ExtOrder[i]])])
      sid == IF f.sid = "absent" THEN <<>> ELSE Seq32(1)
      body == U16(771) \o Seq32(0) \o Vec8(sid) \o Vec16(U16List(SuiteList(f.suites))) \o Vec8(<<0>>)
              \o (IF exts = <<>> THEN <<>> ELSE Vec16(exts))
  IN <<1>> \o U24(Len(body)) \o body
\* all-pairs (K = 2) / all-triples (K = 3) coverage: every combination of values of any K members occurs, the other
\* members being all absent or all present
Bases == {[m \in Members |-> IF m = "suites" THEN "small" ELSE "absent"], [m \in Members |-> "small"]}
Over(base, a, va) == [base EXCEPT ![a] = va]
\* all-pairs (quick) / all-triples (Full) coverage: every combination of values of any 2 (3) members occurs, the other
\* members being all absent or all present
Pairs == UNION { {Over(Over(base, a, va), b, vb) : va \in Vals(a), vb \in Vals(b)} : base \in Bases, a \in Members, b \in Members }
CHFields == IF Full THEN UNION { {Over(p, c, vc) : vc \in Vals(c)} : p \in Pairs, c \in Members } ELSE Pairs
CHGrid == {[kind |-> "CHW", f |-> f, raw |-> EncodeCH(f)] : f \in CHFields}
ASSUME \A g \in CHGrid : ValidClientHello(g.raw)

Init == scn \in {s \in SHGrid : ValidSH(s)} \cup CRGrid \cup ListGrid \cup CHGrid
Next == UNCHANGED scn
Emit == PrintT(<<"SCN", ToJson(scn)>>)
=============================================================================
