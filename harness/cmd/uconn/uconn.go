package main

import (
	"crypto/sha256"
	"encoding/hex"
	"encoding/json"
	"errors"
	"fmt"
	"strings"
	"sync"
	"time"

	tls "github.com/refraction-networking/utls"
	"verif/harness/hlib"
)

// ---------------------------------------------------------------- scenario format (written by TLC, UConnBuild_MC)

// One public call made on the UConn before Handshake.
type opDesc struct {
	Op     string  `json:"op"`     // ApplyPreset Build BuildNoSess SetClientRandom SetSNI RemoveSNI EditSuites EditSessionId ExtInsert ExtRemove ExtALPN ExtSNIField
	R      []int   `json:"r"`      // SetClientRandom
	Name   []int   `json:"name"`   // SetSNI, ExtSNIField
	Kind   string  `json:"kind"`   // EditSuites: set | append | droplast
	List   []int   `json:"list"`   // EditSuites set
	V      int     `json:"v"`      // EditSuites append
	Sid    []int   `json:"sid"`    // EditSessionId
	Pos    int     `json:"pos"`    // ExtInsert: index in UConn.Extensions
	ID     int     `json:"id"`     // ExtInsert: GenericExtension.Id
	Data   []int   `json:"data"`   // ExtInsert: GenericExtension.Data
	T      int     `json:"t"`      // ExtRemove: extension type
	Protos [][]int `json:"protos"` // ExtALPN
	What   string  `json:"what"`   // Break: pad2 | extfail | badbinder | emptypsk | shortrandom; InPlace: alpn | generic | groups | versions | sid
	B      int     `json:"b"`      // InPlace: the new value of the edited element ...
	B2     int     `json:"b2"`     // ... or this one if it already has that value
	Share  string  `json:"share"`  // BBuild: spec (the very ClientHelloSpec value of this connection) | slices (a spec sharing its slices)
}

type scn struct {
	Sc         int      `json:"sc"`
	ID         string   `json:"id"`         // ClientHelloID name, "Custom" (hand-written spec) or "Custom:<parrot>" (HelloCustom + that parrot's spec)
	Server     string   `json:"server"`     // plain | hrr | hrrcookie
	Cookie     []int    `json:"cookie"`     // HRR cookie bytes (server hrrcookie)
	SkipVerify bool     `json:"skipverify"` // Config.InsecureSkipVerify (scenarios with names no certificate carries, or no name at all)
	StrictPsk  bool     `json:"strictpsk"`  // Config.OmitEmptyPsk stays false
	Sess       bool     `json:"sess"`       // a TLS 1.3 session of an earlier connection to the same server is in the client's cache
	Ops        []opDesc `json:"ops"`
}

// ---------------------------------------------------------------- client construction

func customSpec() *tls.ClientHelloSpec {
	return &tls.ClientHelloSpec{
		CipherSuites: []uint16{tls.GREASE_PLACEHOLDER, 0x1301, 0x1302, 0x1303, 0xc02b, 0xc02f, 0xc02c, 0xc030,
			0xcca9, 0xcca8, 0xc013, 0xc014, 0x009c, 0x009d, 0x002f, 0x0035},
		CompressionMethods: []byte{0},
		Extensions: []tls.TLSExtension{
			&tls.UtlsGREASEExtension{},
			&tls.SNIExtension{},
			&tls.ExtendedMasterSecretExtension{},
			&tls.RenegotiationInfoExtension{Renegotiation: tls.RenegotiateOnceAsClient},
			&tls.SupportedCurvesExtension{Curves: []tls.CurveID{tls.GREASE_PLACEHOLDER, tls.X25519, tls.CurveP256, tls.CurveP384}},
			&tls.SupportedPointsExtension{SupportedPoints: []byte{0}},
			&tls.SessionTicketExtension{},
			&tls.ALPNExtension{AlpnProtocols: []string{"h2", "http/1.1"}},
			&tls.StatusRequestExtension{},
			&tls.SignatureAlgorithmsExtension{SupportedSignatureAlgorithms: []tls.SignatureScheme{
				tls.ECDSAWithP256AndSHA256, tls.PSSWithSHA256, tls.PKCS1WithSHA256, tls.ECDSAWithP384AndSHA384,
				tls.PSSWithSHA384, tls.PKCS1WithSHA384, tls.PSSWithSHA512, tls.PKCS1WithSHA512}},
			&tls.SCTExtension{},
			&tls.KeyShareExtension{KeyShares: []tls.KeyShare{{Group: tls.CurveID(tls.GREASE_PLACEHOLDER), Data: []byte{0}}, {Group: tls.X25519}}},
			&tls.PSKKeyExchangeModesExtension{Modes: []uint8{tls.PskModeDHE}},
			&tls.SupportedVersionsExtension{Versions: []uint16{tls.GREASE_PLACEHOLDER, tls.VersionTLS13, tls.VersionTLS12}},
			&tls.UtlsGREASEExtension{},
			&tls.GenericExtension{Id: 65300, Data: []byte{1, 2, 3, 4}},
			&tls.UtlsPaddingExtension{GetPaddingLen: tls.BoringPaddingStyle},
		},
	}
}

// resolveID maps a scenario id to the ClientHelloID to construct the UConn with and, for custom ids,
// the spec the caller applies with ApplyPreset.
func resolveID(s *scn) (tls.ClientHelloID, func() (*tls.ClientHelloSpec, error), error) {
	if s.ID == "Custom" {
		return tls.HelloCustom, func() (*tls.ClientHelloSpec, error) { return customSpec(), nil }, nil
	}
	if strings.HasPrefix(s.ID, "Custom:") {
		base, err := hlib.LookupID(strings.TrimPrefix(s.ID, "Custom:"))
		if err != nil {
			return base, nil, err
		}
		return tls.HelloCustom, func() (*tls.ClientHelloSpec, error) {
			sp, err := tls.UTLSIdToSpec(base)
			return &sp, err
		}, nil
	}
	id, err := hlib.LookupID(s.ID)
	if err != nil {
		return id, nil, err
	}
	if strings.HasPrefix(id.Client, "Randomized") {
		// a fixed seed per scenario: the throw-away connection used to choose the HRR group sees the same spec
		var seed tls.PRNGSeed
		hlib.NewRand(int64(s.Sc)).Read(seed[:])
		id.Seed = &seed
	}
	return id, nil, nil
}

// hrrGroup builds a throw-away UConn of the same kind and returns a classical group its hello lists in
// supported_groups without sending a key share for it (0: there is none, e.g. a TLS 1.2 hello).
func hrrGroup(s *scn, ccfg *tls.Config) int {
	id, specFn, err := resolveID(s)
	if err != nil {
		return 0
	}
	c, _ := hlib.BufPipe()
	u := tls.UClient(c, ccfg.Clone(), id)
	g := 0
	func() {
		defer func() { recover() }()
		if specFn != nil {
			sp, err := specFn()
			if err != nil || u.ApplyPreset(sp) != nil {
				return
			}
		}
		if u.BuildHandshakeState() != nil {
			return
		}
		var curves []tls.CurveID
		shares := map[tls.CurveID]bool{}
		hasShares := false
		for _, e := range u.Extensions {
			switch x := e.(type) {
			case *tls.SupportedCurvesExtension:
				curves = x.Curves
			case *tls.KeyShareExtension:
				hasShares = true
				for _, k := range x.KeyShares {
					shares[k.Group] = true
				}
			}
		}
		if !hasShares {
			return
		}
		for _, c := range curves {
			if (c == tls.CurveP256 || c == tls.CurveP384 || c == tls.CurveP521 || c == tls.X25519) && !shares[c] {
				g = int(c)
				return
			}
		}
	}()
	return g
}

// extension type code -> the struct kinds of UConn.Extensions that encode it (only the kinds ExtRemove is used with)
func extHasType(e tls.TLSExtension, t int) bool {
	switch x := e.(type) {
	case *tls.GenericExtension:
		return int(x.Id) == t
	case *tls.StatusRequestExtension:
		return t == 5
	case *tls.SupportedPointsExtension:
		return t == 11
	case *tls.ALPNExtension:
		return t == 16
	case *tls.SCTExtension:
		return t == 18
	case *tls.ExtendedMasterSecretExtension:
		return t == 23
	case *tls.UtlsCompressCertExtension:
		return t == 27
	case *tls.PSKKeyExchangeModesExtension:
		return t == 45
	case *tls.RenegotiationInfoExtension:
		return t == 65281
	}
	return false
}

// failingExt is an extension whose serialisation fails (everything else is a GenericExtension's).
type failingExt struct{ *tls.GenericExtension }

func (failingExt) Read(b []byte) (int, error) {
	return 0, errors.New("verif extension: refuses to be serialised")
}

// sibling returns a second spec of the same shape whose cipher-suite list and whose curves / ALPN / versions lists are
// the very slices of s (two specs built from one set of lists).
func sibling(s *tls.ClientHelloSpec) *tls.ClientHelloSpec {
	n := customSpec()
	n.CipherSuites = s.CipherSuites
	for i, e := range n.Extensions {
		if i >= len(s.Extensions) {
			break
		}
		switch x := e.(type) {
		case *tls.SupportedCurvesExtension:
			if y, ok := s.Extensions[i].(*tls.SupportedCurvesExtension); ok {
				x.Curves = y.Curves
			}
		case *tls.ALPNExtension:
			if y, ok := s.Extensions[i].(*tls.ALPNExtension); ok {
				x.AlpnProtocols = y.AlpnProtocols
			}
		case *tls.SupportedVersionsExtension:
			if y, ok := s.Extensions[i].(*tls.SupportedVersionsExtension); ok {
				x.Versions = y.Versions
			}
		}
	}
	return n
}

// otherOp acts on a second connection B that lives next to the connection under test.
func otherOp(b **tls.UConn, o *opDesc, spec *tls.ClientHelloSpec, pk *hlib.PKI) (map[string]any, error) {
	obs := map[string]any{}
	if spec == nil {
		return obs, fmt.Errorf("harness: second connection without a spec to share")
	}
	mk := func(share string) error {
		c, _ := hlib.BufPipe()
		u := tls.UClient(c, &tls.Config{ServerName: "example.com", RootCAs: pk.Pool, OmitEmptyPsk: true}, tls.HelloCustom)
		sp := spec
		if share == "slices" {
			sp = sibling(spec)
		}
		if err := u.ApplyPreset(sp); err != nil {
			return err
		}
		*b = u
		return u.BuildHandshakeState()
	}
	switch o.Op {
	case "BBuild":
		return obs, mk(o.Share)
	case "BPoke":
		if *b == nil {
			if err := mk("spec"); err != nil {
				return obs, err
			}
		}
		h := (*b).HandshakeState.Hello
		obs["bbefore"] = hlib.U16s(h.CipherSuites)
		if len(h.CipherSuites) >= 2 {
			h.CipherSuites[1] = uint16(o.V)
		}
		obs["bafter"] = hlib.U16s(h.CipherSuites)
	}
	return obs, nil
}

// applyOp performs one public call / documented edit and returns what it observed.
func applyOp(u *tls.UConn, o *opDesc, specFn func() (*tls.ClientHelloSpec, error)) (obs map[string]any, err error) {
	obs = map[string]any{}
	switch o.Op {
	case "ApplyPreset":
		if specFn == nil {
			return obs, fmt.Errorf("harness: ApplyPreset on a non-custom id")
		}
		sp, e := specFn()
		if e != nil {
			return obs, e
		}
		err = u.ApplyPreset(sp)
	case "Build":
		err = u.BuildHandshakeState()
	case "BuildNoSess":
		err = u.BuildHandshakeStateWithoutSession()
	case "SetClientRandom":
		err = u.SetClientRandom(hlib.Unints(o.R))
	case "SetSNI":
		name := string(hlib.Unints(o.Name))
		obs["norm"] = hlib.Ints([]byte(tls.VerifHostnameInSNI(name)))
		u.SetSNI(name)
	case "ExtSNIField":
		// a direct edit of the SNIExtension object in UConn.Extensions
		name := string(hlib.Unints(o.Name))
		obs["norm"] = hlib.Ints([]byte(tls.VerifHostnameInSNI(name)))
		n := 0
		for _, e := range u.Extensions {
			if x, ok := e.(*tls.SNIExtension); ok {
				x.ServerName = name
				n++
			}
		}
		obs["found"] = n
	case "InPlace":
		// same-length edits in place: the extension object stays in the list, one element of one of its fields changes
		repl := func(x int) int {
			if x == o.B {
				return o.B2
			}
			return o.B
		}
		obs["found"], obs["before"], obs["after"] = 0, []int{}, []int{}
		for _, e := range u.Extensions {
			switch x := e.(type) {
			case *tls.ALPNExtension:
				if o.What == "alpn" && len(x.AlpnProtocols) > 0 && len(x.AlpnProtocols[0]) > 0 {
					obs["before"] = protoInts(x.AlpnProtocols)
					p := []byte(x.AlpnProtocols[0])
					p[len(p)-1] = byte(repl(int(p[len(p)-1])))
					x.AlpnProtocols[0] = string(p)
					obs["after"], obs["found"] = protoInts(x.AlpnProtocols), 1
				}
			case *tls.GenericExtension:
				if o.What == "generic" && int(x.Id) == o.ID && len(x.Data) > 0 {
					obs["before"] = hlib.Ints(x.Data)
					x.Data[0] = byte(repl(int(x.Data[0])))
					obs["after"], obs["found"] = hlib.Ints(x.Data), 1
				}
			case *tls.SupportedCurvesExtension:
				if o.What == "groups" && len(x.Curves) > 0 {
					obs["before"] = hlib.U16s(x.Curves)
					x.Curves[len(x.Curves)-1] = tls.CurveID(repl(int(x.Curves[len(x.Curves)-1])))
					obs["after"], obs["found"] = hlib.U16s(x.Curves), 1
				}
			case *tls.SupportedVersionsExtension:
				if o.What == "versions" && len(x.Versions) > 0 {
					obs["before"] = hlib.U16s(x.Versions)
					x.Versions[len(x.Versions)-1] = uint16(repl(int(x.Versions[len(x.Versions)-1])))
					obs["after"], obs["found"] = hlib.U16s(x.Versions), 1
				}
			}
		}
		if h := u.HandshakeState.Hello; o.What == "sid" && h != nil && len(h.SessionId) > 0 {
			obs["before"] = hlib.Ints(h.SessionId)
			h.SessionId[0] = byte(repl(int(h.SessionId[0])))
			obs["after"], obs["found"] = hlib.Ints(h.SessionId), 1
		}
	case "Break":
		// edits of Hello / Extensions that leave something the marshaller has to refuse
		obs["nbefore"] = len(u.Extensions)
		switch o.What {
		case "pad2":
			u.Extensions = append(append([]tls.TLSExtension{}, u.Extensions...),
				&tls.UtlsPaddingExtension{PaddingLen: 16, WillPad: true}, &tls.UtlsPaddingExtension{PaddingLen: 8, WillPad: true})
		case "extfail":
			u.Extensions = append([]tls.TLSExtension{failingExt{&tls.GenericExtension{Id: 65100, Data: []byte{1}}}}, u.Extensions...)
		case "badbinder":
			u.Extensions = append(append([]tls.TLSExtension{}, u.Extensions...), &tls.FakePreSharedKeyExtension{
				Identities: []tls.PskIdentity{{Label: []byte("verif"), ObfuscatedTicketAge: 1}}, Binders: [][]byte{{1, 2, 3}}})
		case "emptypsk":
			u.Extensions = append(append([]tls.TLSExtension{}, u.Extensions...), &tls.UtlsPreSharedKeyExtension{})
		case "shortrandom":
			u.HandshakeState.Hello.Random = make([]byte, 16)
		default:
			return obs, fmt.Errorf("harness: unknown Break %q", o.What)
		}
	case "RemoveSNI":
		err = u.RemoveSNIExtension()
	case "EditSuites":
		h := u.HandshakeState.Hello
		obs["before"] = hlib.U16s(h.CipherSuites)
		switch o.Kind {
		case "set":
			l := make([]uint16, len(o.List))
			for i, v := range o.List {
				l[i] = uint16(v)
			}
			h.CipherSuites = l
		case "append":
			h.CipherSuites = append(append([]uint16{}, h.CipherSuites...), uint16(o.V))
		case "droplast":
			if n := len(h.CipherSuites); n > 0 {
				h.CipherSuites = append([]uint16{}, h.CipherSuites[:n-1]...)
			}
		case "keep":
			// the caller only looks at the list
		case "poke":
			if len(h.CipherSuites) >= 2 {
				h.CipherSuites[1] = uint16(o.V)
			}
		default:
			return obs, fmt.Errorf("harness: unknown EditSuites kind %q", o.Kind)
		}
	case "EditSessionId":
		u.HandshakeState.Hello.SessionId = hlib.Unints(o.Sid)
	case "ExtInsert":
		obs["nbefore"] = len(u.Extensions)
		p := o.Pos
		if p > len(u.Extensions) {
			p = len(u.Extensions)
		}
		g := &tls.GenericExtension{Id: uint16(o.ID), Data: hlib.Unints(o.Data)}
		ne := make([]tls.TLSExtension, 0, len(u.Extensions)+1)
		ne = append(ne, u.Extensions[:p]...)
		ne = append(ne, g)
		ne = append(ne, u.Extensions[p:]...)
		u.Extensions = ne
		obs["at"] = p
	case "ExtRemove":
		ne := make([]tls.TLSExtension, 0, len(u.Extensions))
		n := 0
		for _, e := range u.Extensions {
			if extHasType(e, o.T) {
				n++
				continue
			}
			ne = append(ne, e)
		}
		u.Extensions = ne
		obs["found"] = n
	case "ExtALPN":
		n := 0
		for _, e := range u.Extensions {
			if a, ok := e.(*tls.ALPNExtension); ok {
				ps := make([]string, len(o.Protos))
				for i, p := range o.Protos {
					ps[i] = string(hlib.Unints(p))
				}
				a.AlpnProtocols = ps
				n++
			}
		}
		obs["found"] = n
	default:
		return obs, fmt.Errorf("harness: unknown op %q", o.Op)
	}
	return obs, err
}

func protoInts(ps []string) [][]int {
	r := make([][]int, len(ps))
	for i, p := range ps {
		r[i] = hlib.Ints([]byte(p))
	}
	return r
}

func hexOf(b []byte) string { return hex.EncodeToString(b) }

// bytesOf logs one byte string: as hex, its length, and its SHA-256 (the specification compares byte strings
// through the digest; the runner forwards the digest and keeps the hex for replays and the binding canary)
func bytesOf(m map[string]any, b []byte) {
	d := sha256.Sum256(b)
	m["n"], m["sha"] = len(b), hex.EncodeToString(d[:])
	if logFull {
		m["hex"] = hexOf(b)
	}
}

// logFull: also log every byte string in full (request field "full"; replays of rejected scenarios, canary material)
var logFull bool

func helloView(u *tls.UConn, m map[string]any) {
	h := u.HandshakeState.Hello
	if h == nil {
		bytesOf(m, nil)
		m["sid"], m["suites"], m["nexts"] = []int{}, []int{}, len(u.Extensions)
		return
	}
	bytesOf(m, h.Raw)
	if logFull {
		m["random"] = hlib.Ints(h.Random)
	}
	m["sid"] = hlib.Ints(h.SessionId)
	m["suites"] = hlib.U16s(h.CipherSuites)
	m["nexts"] = len(u.Extensions)
}

const maxRecs = 8

func runScn(s scn, rawScn json.RawMessage, pk *hlib.PKI, certs []tls.Certificate, out *[]map[string]any) {
	var emu sync.Mutex
	emit := func(m map[string]any) { emu.Lock(); m["sc"] = s.Sc; *out = append(*out, m); emu.Unlock() }
	id, specFn0, err := resolveID(&s)
	// the spec the caller applies is one value for the whole scenario: a second connection may be given the same one
	var theSpec *tls.ClientHelloSpec
	var specFn func() (*tls.ClientHelloSpec, error)
	if specFn0 != nil {
		specFn = func() (*tls.ClientHelloSpec, error) {
			if theSpec != nil {
				return theSpec, nil
			}
			sp, err := specFn0()
			if err == nil {
				theSpec = sp
			}
			return sp, err
		}
	}
	var other *tls.UConn
	if err != nil {
		emit(map[string]any{"ev": "Error", "err": err.Error()})
		return
	}
	ccfg := &tls.Config{ServerName: "example.com", RootCAs: pk.Pool, OmitEmptyPsk: !s.StrictPsk, InsecureSkipVerify: s.SkipVerify}
	scfg := &tls.Config{Certificates: certs, MinVersion: tls.VersionTLS10, MaxVersion: tls.VersionTLS13}
	group := 0
	if s.Server == "hrr" || s.Server == "hrrcookie" {
		group = hrrGroup(&s, ccfg)
		if group != 0 {
			scfg.CurvePreferences = []tls.CurveID{tls.CurveID(group)}
		}
	}
	var scnMap map[string]any
	json.Unmarshal(rawScn, &scnMap)
	scnMap["ev"] = "Scn"
	scnMap["hrr_group"] = group
	emit(scnMap)

	sov := &tls.VerifOverride{}
	if s.Server == "hrrcookie" {
		sov.HRRCookie = hlib.Unints(s.Cookie)
	}
	// every plaintext ServerHello / HelloRetryRequest the server sends, before it reaches the transport
	seeding := s.Sess
	sov.Outgoing = func(c *tls.Conn, d []byte) []byte {
		if len(d) > 0 && d[0] == 2 && !seeding {
			emit(map[string]any{"ev": "SH", "raw": hlib.Ints(d)})
		}
		return d
	}
	tls.VerifSetOverride(scfg, sov)
	// hook H1: Hello.Raw right after the internal BuildHandshakeState of Handshake
	var uref *tls.UConn
	tls.VerifSetOverride(ccfg, &tls.VerifOverride{Emit: func(ev string, data []byte) {
		if ev == "hello_rebuilt" {
			m := map[string]any{"ev": "Rebuilt", "raw": hlib.Ints(data)}
			bytesOf(m, data)
			emit(m)
		}
	}, Outgoing: func(c *tls.Conn, d []byte) []byte {
		// hook H2 on the client: a ClientHello message is about to be written; what does Hello.Raw hold right now?
		if len(d) > 0 && d[0] == 1 && uref != nil && uref.HandshakeState.Hello != nil {
			m := map[string]any{"ev": "AtSend"}
			bytesOf(m, uref.HandshakeState.Hello.Raw)
			emit(m)
		}
		return d
	}})
	if s.Sess {
		// an earlier, unedited connection of the same kind to the same server leaves its session ticket in the cache
		cache := tls.NewLRUClientSessionCache(4)
		seedCfg := &tls.Config{ServerName: "example.com", RootCAs: pk.Pool, OmitEmptyPsk: true, ClientSessionCache: cache}
		sid, _, _ := resolveID(&s)
		saved := scfg.CurvePreferences
		scfg.CurvePreferences = nil
		sr := hlib.RunHandshake(seedCfg, scfg, sid, hlib.HSOpts{Timeout: 5 * time.Second, Echo: []int{3}, Prep: func(u *tls.UConn) error {
			if specFn != nil {
				sp, err := specFn()
				if err != nil {
					return err
				}
				return u.ApplyPreset(sp)
			}
			return nil
		}})
		scfg.CurvePreferences = saved
		seeding = false
		ccfg.ClientSessionCache = cache
		emit(map[string]any{"ev": "Seed", "cerr": hlib.ErrStr(sr.CErr), "serr": hlib.ErrStr(sr.SErr)})
	}
	nrec := 0
	r := hlib.RunHandshake(ccfg, scfg, id, hlib.HSOpts{Timeout: 5 * time.Second, Echo: []int{3},
		OnClientWrite: func(b []byte) {
			// every handshake record the client hands to the transport (payload as hex; the first bytes and
			// the length as numbers so that the specification can recognise a plaintext ClientHello)
			for len(b) >= 5 {
				n := int(b[3])<<8 | int(b[4])
				if 5+n > len(b) {
					break
				}
				if b[0] == 22 && nrec < maxRecs {
					nrec++
					p := b[5 : 5+n]
					hd := p
					if len(hd) > 4 {
						hd = hd[:4]
					}
					m := map[string]any{"ev": "Rec", "k": nrec, "head": hlib.Ints(hd)}
					bytesOf(m, p)
					emit(m)
				}
				b = b[5+n:]
			}
		},
		Prep: func(u *tls.UConn) error {
			uref = u
			nev := map[string]any{"ev": "New"}
			helloView(u, nev)
			emit(nev)
			for i := range s.Ops {
				o := &s.Ops[i]
				var obs map[string]any
				var cerr error
				pan := ""
				func() {
					defer func() {
						if p := recover(); p != nil {
							pan = fmt.Sprint(p)
						}
					}()
					if o.Op == "BBuild" || o.Op == "BPoke" {
						obs, cerr = otherOp(&other, o, theSpec, pk)
					} else {
						obs, cerr = applyOp(u, o, specFn)
					}
				}()
				if obs == nil {
					obs = map[string]any{}
				}
				obs["ev"], obs["i"], obs["op"], obs["err"], obs["panic"] = "Call", i+1, o.Op, hlib.ErrStr(cerr), pan
				helloView(u, obs)
				emit(obs)
				if cerr != nil && strings.HasPrefix(cerr.Error(), "harness:") {
					return cerr
				}
			}
			return nil
		}})
	done := map[string]any{"ev": "Done", "cerr": hlib.ErrStr(r.CErr), "serr": hlib.ErrStr(r.SErr), "cok": r.CErr == nil,
		"sok": r.SErr == nil, "panic": r.CPanic, "echo": r.EchoOK, "version": int(r.CS.Version)}
	if r.UC != nil {
		helloView(r.UC, done)
	} else {
		bytesOf(done, nil)
		done["sid"], done["suites"], done["nexts"] = []int{}, []int{}, 0
	}
	emit(done)
}

// build: {"scenarios":[scn...], "full": bool} -> per scenario, chronologically: Scn (echo of the scenario + chosen HRR group),
// New (the UConn as UClient returns it), Call i (each public call: error, Hello.Raw and the hello fields after it), Rebuilt (hook H1), AtSend (Hello.Raw at
// the moment a ClientHello message is handed to the record layer), Rec k (client handshake records as written),
// SH (server hellos as sent), Done (errors, Hello.Raw after Handshake).
func init() {
	hlib.Register("build", func(in []byte, out *hlib.Out) error {
		var req struct {
			Scenarios []json.RawMessage
			Full      bool
		}
		if err := json.Unmarshal(in, &req); err != nil {
			return err
		}
		logFull = req.Full
		pk := hlib.NewPKI()
		names := []string{"example.com", "edited.example", "second.example", "third.example", "fourth.example"}
		certs := []tls.Certificate{pk.Std("ecdsa", names...), pk.Std("rsa", names...)}
		res := make([][]map[string]any, len(req.Scenarios))
		hlib.Parallel(len(req.Scenarios), func(i int) {
			var s scn
			if err := json.Unmarshal(req.Scenarios[i], &s); err != nil {
				res[i] = append(res[i], map[string]any{"ev": "Error", "sc": i, "err": err.Error()})
				return
			}
			func() {
				defer func() {
					if p := recover(); p != nil {
						res[i] = append(res[i], map[string]any{"ev": "Error", "sc": s.Sc, "err": fmt.Sprint("harness panic: ", p)})
					}
				}()
				runScn(s, req.Scenarios[i], pk, certs, &res[i])
			}()
		})
		for _, evs := range res {
			for _, e := range evs {
				out.Emit(e)
			}
		}
		return nil
	})
}
