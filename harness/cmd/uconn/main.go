// uconn replays TLC-generated build/edit/handshake paths (spec/UConnBuild_MC.tla, property C01) on real
// UConns against the package's own tls.Server and logs what it observed as ndjson.
// It contains no expected values: every judgement is made by TLC (spec/UConnBuild_Trace.tla).
// usage: uconn <command> <in.json> <out.ndjson>
package main

import "verif/harness/hlib"

func main() { hlib.Main() }
