package main

import (
	"reflect"

	tls "github.com/refraction-networking/utls"
	"verif/harness/hlib"
)

// ids: {} -> one event per usable ClientHelloID (every predefined parrot, the randomized ids, the custom ids) with the
// facts the runner needs to spread the TLC-generated paths over ids: does the spec carry a pre_shared_key / GREASE ECH /
// key_share extension, does the order of its extensions differ between two calls of UTLSIdToSpec.
func init() {
	hlib.Register("ids", func(in []byte, out *hlib.Out) error {
		for _, id := range hlib.ParrotIDs {
			ev := map[string]any{"ev": "Id", "id": id.Str(), "kind": "parrot", "psk": false, "ech": false, "keyshare": false, "shuffles": false}
			var first []string
			for n := 0; n < 6; n++ {
				sp, err := tls.UTLSIdToSpec(id)
				if err != nil {
					ev["err"] = err.Error()
					break
				}
				var kinds []string
				for _, e := range sp.Extensions {
					kinds = append(kinds, reflect.TypeOf(e).String())
					switch e.(type) {
					case tls.PreSharedKeyExtension:
						ev["psk"] = true
					case *tls.GREASEEncryptedClientHelloExtension:
						ev["ech"] = true
					case *tls.KeyShareExtension:
						ev["keyshare"] = true
					}
				}
				if n == 0 {
					first = kinds
				} else if !reflect.DeepEqual(first, kinds) {
					ev["shuffles"] = true
				}
			}
			out.Emit(ev)
		}
		for _, n := range []string{"Randomized-0", "Randomized-ALPN-0", "Randomized-NoALPN-0"} {
			out.Emit(map[string]any{"ev": "Id", "id": n, "kind": "randomized", "psk": false, "ech": false, "keyshare": true, "shuffles": false})
		}
		out.Emit(map[string]any{"ev": "Id", "id": "Custom", "kind": "custom", "psk": false, "ech": false, "keyshare": true, "shuffles": false})
		return nil
	})
}
