// session replays TLC-generated session-resumption scenarios (spec/Session.tla, properties C19/C20)
// on real UConns against the package's own tls.Server and logs what it observed as ndjson.
// It contains no expected values: every judgement is made by TLC (spec/Session_Trace.tla).
// usage: session <command> <in.json> <out.ndjson>
package main

import "verif/harness/hlib"

func main() { hlib.Main() }
