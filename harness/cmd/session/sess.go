package main

import (
	"encoding/json"
	"fmt"
	"net"
	"runtime"
	"sync"
	"time"

	tls "github.com/refraction-networking/utls"
	"verif/harness/hlib"
)

// ---------------------------------------------------------------- scenario format (written by TLC)

type specDesc struct {
	Base    string   `json:"base"`    // ClientHelloID name
	Custom  bool     `json:"custom"`  // HelloCustom + ApplyPreset(spec of Base minus Drop)
	Drop    []string `json:"drop"`    // extension kinds (Go type names) removed from the spec
	SkipNil bool     `json:"skipnil"` // Config.PreferSkipResumptionOnNilExtension
	OmitPsk bool     `json:"omitpsk"` // Config.OmitEmptyPsk
	Alpn    string   `json:"alpn"`    // custom specs: "none" drops the ALPN extension, "other" offers http/1.1 only; else as in the spec
}

type srvDesc struct {
	Max     int      `json:"max"`     // MaxVersion (771 / 772)
	HRR     bool     `json:"hrr"`     // CurvePreferences = [P-384]: every parrot used here needs a HelloRetryRequest
	Keys    int      `json:"keys"`    // which ticket key / ticket store the server owns
	Store   bool     `json:"store"`   // true: WrapSession/UnwrapSession label store; false: SetSessionTicketKeys
	Cookie  int      `json:"cookie"`  // > 0: the HelloRetryRequest carries a cookie of this many bytes (verif hook)
	Alpn    []string `json:"alpn"`    // Config.NextProtos of the server
	Nonce   int      `json:"nonce"`   // > 0: TLS 1.3 tickets carry a ticket_nonce of this many bytes (verif hook)
	Suite13 int      `json:"suite13"` // > 0: the TLS 1.3 server selects this cipher suite (verif hook)
}

type opDesc struct {
	Op    string `json:"op"`    // SetCache Preset BuildNoSess Build SetRandom SetTicket SetPsk Handshake Yield
	Arg   string `json:"arg"`   // SetTicket: init|uninit|nil   SetPsk: real|fake|uninit|nil
	From  string `json:"from"`  // cache the injected session is taken from
	Forge bool   `json:"forge"` // rebuild the session with MakeClientSessionState under Label
	Label []int  `json:"label"` // forged ticket / fake identity bytes
}

type connDesc struct {
	Spec     specDesc `json:"spec"`
	Name     string   `json:"name"`
	Srv      srvDesc  `json:"srv"`
	Clock    int      `json:"clock"`    // days added to both clocks
	Cache    string   `json:"cache"`    // name of the ClientSessionCache this connection works with
	CfgCache bool     `json:"cfgcache"` // Config.ClientSessionCache set when the UConn is created
	Ops      []opDesc `json:"ops"`
	Alias    []int    `json:"alias"` // store mode: the state wrapped on this connection is also reachable under this label
	Ctl      bool     `json:"ctl"`   // also run the same connection in a fresh world (empty cache) and log whether it worked
}

type scenario struct {
	Sid   int        `json:"sid"`
	Conns []connDesc `json:"conns"`
}

// ---------------------------------------------------------------- per-scenario world

type world struct {
	pki    *hlib.PKI
	certs  map[string]tls.Certificate
	caches map[string]tls.ClientSessionCache
	base   time.Time
	mu     sync.Mutex
	stores map[int]map[string]*tls.SessionState // store id -> label -> state
	nlabel int
	sid    int
}

var (
	pkiOnce  sync.Once
	thePKI   *hlib.PKI
	theCerts = map[string]tls.Certificate{}
	certMu   sync.Mutex
)

func sharedPKI() *hlib.PKI {
	pkiOnce.Do(func() { thePKI = hlib.NewPKI() })
	return thePKI
}

func certFor(name string) tls.Certificate {
	certMu.Lock()
	defer certMu.Unlock()
	if c, ok := theCerts[name]; ok {
		return c
	}
	c := sharedPKI().Leaf("ecdsa", []string{name}, time.Now().Add(-time.Hour), time.Now().Add(90*24*time.Hour))
	theCerts[name] = c
	return c
}

func newWorld(sid int) *world {
	return &world{pki: sharedPKI(), caches: map[string]tls.ClientSessionCache{}, base: time.Now(),
		stores: map[int]map[string]*tls.SessionState{}, sid: sid}
}

func (w *world) cache(name string) tls.ClientSessionCache {
	c, ok := w.caches[name]
	if !ok {
		c = tls.NewLRUClientSessionCache(16)
		w.caches[name] = c
	}
	return c
}

func ticketKey(k int) [32]byte {
	var b [32]byte
	for i := range b {
		b[i] = byte(k*37 + i)
	}
	return b
}

func (w *world) clock(days int) func() time.Time {
	t := w.base.Add(time.Duration(days) * 24 * time.Hour)
	return func() time.Time { return t }
}

func (w *world) serverConfig(cd *connDesc, wrapped *[][]byte) *tls.Config {
	cfg := &tls.Config{Certificates: []tls.Certificate{certFor(cd.Name)}, MaxVersion: uint16(cd.Srv.Max), Time: w.clock(cd.Clock)}
	if cd.Srv.HRR {
		cfg.CurvePreferences = []tls.CurveID{tls.CurveP384}
	}
	cfg.NextProtos = cd.Srv.Alpn
	if cd.Srv.Cookie > 0 || cd.Srv.Nonce > 0 || cd.Srv.Suite13 > 0 {
		ov := &tls.VerifOverride{ForceSuite13: uint16(cd.Srv.Suite13)}
		if cd.Srv.Cookie > 0 {
			ov.HRRCookie = make([]byte, cd.Srv.Cookie)
			for i := range ov.HRRCookie {
				ov.HRRCookie[i] = byte(0xc0 + i%32)
			}
		}
		if cd.Srv.Nonce > 0 {
			ov.TicketNonce = make([]byte, cd.Srv.Nonce)
			for i := range ov.TicketNonce {
				ov.TicketNonce[i] = byte(0x11 + 3*i)
			}
		}
		tls.VerifSetOverride(cfg, ov)
	}
	if cd.Srv.Store {
		id := cd.Srv.Keys
		cfg.WrapSession = func(cs tls.ConnectionState, ss *tls.SessionState) ([]byte, error) {
			w.mu.Lock()
			defer w.mu.Unlock()
			w.nlabel++
			label := []byte(fmt.Sprintf("stk:%06d:%03d:k%d", w.sid%1000000, w.nlabel, id))
			if w.stores[id] == nil {
				w.stores[id] = map[string]*tls.SessionState{}
			}
			w.stores[id][string(label)] = ss
			if len(cd.Alias) > 0 {
				w.stores[id][string(hlib.Unints(cd.Alias))] = ss
			}
			*wrapped = append(*wrapped, label)
			return label, nil
		}
		cfg.UnwrapSession = func(identity []byte, cs tls.ConnectionState) (*tls.SessionState, error) {
			w.mu.Lock()
			defer w.mu.Unlock()
			return w.stores[id][string(identity)], nil
		}
	} else {
		cfg.SetSessionTicketKeys([][32]byte{ticketKey(cd.Srv.Keys)})
	}
	return cfg
}

func (w *world) clientConfig(cd *connDesc) *tls.Config {
	cfg := &tls.Config{ServerName: cd.Name, RootCAs: w.pki.Pool, Time: w.clock(cd.Clock),
		OmitEmptyPsk: cd.Spec.OmitPsk, PreferSkipResumptionOnNilExtension: cd.Spec.SkipNil}
	if cd.CfgCache {
		cfg.ClientSessionCache = w.cache(cd.Cache)
	}
	return cfg
}

// ---------------------------------------------------------------- observations

type opObs struct {
	Op    string `json:"op"`
	Arg   string `json:"arg"`
	Res   string `json:"res"` // ok | err | panic | notrun
	Msg   []int  `json:"msg"` // error / panic text as bytes (classified in TLA+)
	RtErr bool   `json:"rterr"`
	Given given  `json:"given"` // what this call handed to the library (setters with a session only)
}

type given struct {
	Set    bool  `json:"set"`
	Ticket []int `json:"ticket"`
	PskID  []int `json:"pskid"`
	Binder []int `json:"binder"`
}

func noGiven() given { return given{Ticket: []int{}, PskID: []int{}, Binder: []int{}} }

type stored struct {
	Present bool  `json:"present"`
	Ticket  []int `json:"ticket"`
	Vers    int   `json:"vers"`
	Ems     bool  `json:"ems"`
	Suite   int   `json:"suite"`
}

func lookAt(c tls.ClientSessionCache, key string) stored {
	s := stored{Ticket: []int{}}
	if c == nil {
		return s
	}
	css, ok := c.Get(key)
	if !ok || css == nil {
		return s
	}
	t, st, _ := css.ResumptionState()
	if st == nil {
		return s
	}
	s.Present = true
	s.Ticket = hlib.Ints(t)
	s.Vers = int(css.Vers())
	s.Ems = css.EMS()
	s.Suite = int(css.CipherSuite())
	return s
}

func recoverInto(o *opObs) {
	if p := recover(); p != nil {
		o.Res = "panic"
		o.Msg = hlib.Ints([]byte(fmt.Sprint(p)))
		if _, ok := p.(runtime.Error); ok {
			o.RtErr = true
		}
	}
}

// makeUConn creates the UConn; for a custom spec it also returns the ClientHelloSpec that the "Preset" call applies.
func makeUConn(c net.Conn, cfg *tls.Config, sd *specDesc) (*tls.UConn, *tls.ClientHelloSpec, error) {
	id, err := hlib.LookupID(sd.Base)
	if err != nil {
		return nil, nil, err
	}
	if !sd.Custom {
		return tls.UClient(c, cfg, id), nil, nil
	}
	spec, err := tls.UTLSIdToSpec(id)
	if err != nil {
		return nil, nil, err
	}
	drop := map[string]bool{}
	for _, d := range sd.Drop {
		drop[d] = true
	}
	var exts []tls.TLSExtension
	for _, e := range spec.Extensions {
		if drop[fmt.Sprintf("%T", e)[len("*tls."):]] {
			continue
		}
		if _, ok := e.(*tls.ALPNExtension); ok {
			if sd.Alpn == "none" {
				continue
			} else if sd.Alpn == "other" {
				e = &tls.ALPNExtension{AlpnProtocols: []string{"http/1.1"}}
			}
		}
		exts = append(exts, e)
	}
	spec.Extensions = exts
	return tls.UClient(c, cfg, tls.HelloCustom), &spec, nil
}

// sessionFrom returns the client session stored in cache `from` for this server name, optionally
// re-created through the public constructor under a different ticket label.
func (w *world) sessionFrom(cd *connDesc, od *opDesc) *tls.ClientSessionState {
	css, ok := w.cache(od.From).Get(cd.Name)
	if !ok || css == nil {
		return nil
	}
	if !od.Forge {
		return css
	}
	f := tls.MakeClientSessionState(hlib.Unints(od.Label), css.Vers(), css.CipherSuite(), css.MasterSecret(), css.ServerCertificates(), css.VerifiedChains())
	f.SetEMS(css.EMS())
	return f
}

// pskFrom builds an initialised UtlsPreSharedKeyExtension through the public API: a probe UConn loads the
// session (from cache `from`, or the forged copy of it) and its public handshake state feeds InitializeByUtls.
func (w *world) pskFrom(cd *connDesc, od *opDesc) (*tls.UtlsPreSharedKeyExtension, error) {
	css := w.sessionFrom(cd, od)
	if css == nil {
		return nil, fmt.Errorf("no session in cache %q", od.From)
	}
	pc := tls.NewLRUClientSessionCache(2)
	if od.Forge {
		// a TLS 1.3 ClientSessionState needs its ticket-age fields; they have setters but no getters
		now := uint64(w.base.Unix())
		css.SetCreatedAt(now)
		css.SetUseBy(now + 6*24*3600)
		css.SetAgeAdd(0)
		pc.Put(cd.Name, css)
	} else {
		pc.Put(cd.Name, css)
	}
	a, _ := hlib.BufPipe()
	cfg := &tls.Config{ServerName: cd.Name, RootCAs: w.pki.Pool, Time: w.clock(cd.Clock), ClientSessionCache: pc, OmitEmptyPsk: true}
	probe := tls.UClient(a, cfg, tls.HelloChrome_100_PSK)
	if err := probe.BuildHandshakeState(); err != nil {
		return nil, err
	}
	hs := probe.HandshakeState
	if hs.Session == nil || len(hs.Hello.PskIdentities) == 0 {
		return nil, fmt.Errorf("probe loaded no TLS 1.3 session")
	}
	ext := &tls.UtlsPreSharedKeyExtension{}
	ext.InitializeByUtls(hs.Session, hs.State13.EarlySecret, hs.State13.BinderKey, hs.Hello.PskIdentities)
	return ext, nil
}

// connRun is one connection of a scenario. Its calls are executed in rounds: a "Yield" call ends the round, so that
// several connections of one history can be built (BuildHandshakeState) before any of them performs its handshake.
type connRun struct {
	w         *world
	sid, k    int
	cd        *connDesc
	wrapped   [][]byte
	mainCache tls.ClientSessionCache
	before    stored
	c, s      *hlib.BufConn
	srv       *tls.Conn
	serr      error
	sstate    tls.ConnectionState
	cstate    tls.ConnectionState
	sdone     chan struct{}
	ops       []opObs
	prep      opObs
	u         *tls.UConn
	custom    *tls.ClientHelloSpec
	next      int
	stop      bool
	hsCalled  bool
	hsOK      bool
	cTimeout  bool
}

func startConn(w *world, sid, k int, cd *connDesc) *connRun {
	r := &connRun{w: w, sid: sid, k: k, cd: cd, sdone: make(chan struct{})}
	scfg := w.serverConfig(cd, &r.wrapped)
	ccfg := w.clientConfig(cd)
	r.mainCache = w.cache(cd.Cache)
	r.before = lookAt(r.mainCache, cd.Name)
	r.c, r.s = hlib.BufPipe()
	r.srv = tls.Server(r.s, scfg)
	go func() {
		defer close(r.sdone)
		defer func() {
			if p := recover(); p != nil {
				r.serr = fmt.Errorf("server panic: %v", p)
			}
		}()
		r.serr = r.srv.Handshake()
		if r.serr == nil {
			r.sstate = r.srv.ConnectionState()
			r.srv.Write([]byte{42}) // lets the client's Read return after it processed any NewSessionTicket
		} else {
			r.s.Close() // a server whose handshake failed hangs up
		}
	}()
	r.ops = make([]opObs, len(cd.Ops))
	for i := range r.ops {
		r.ops[i] = opObs{Op: cd.Ops[i].Op, Arg: cd.Ops[i].Arg, Res: "notrun", Msg: []int{}, Given: noGiven()}
	}
	r.prep = opObs{Op: "New", Res: "ok", Msg: []int{}, Given: noGiven()}
	func() {
		defer recoverInto(&r.prep)
		var err error
		r.u, r.custom, err = makeUConn(r.c, ccfg, &cd.Spec)
		if err != nil {
			r.prep.Res = "err"
			r.prep.Msg = hlib.Ints([]byte(err.Error()))
		}
	}()
	r.stop = r.prep.Res == "panic" || r.u == nil
	return r
}

// step runs the calls of the next round; it returns true if the connection yielded (more calls follow).
func (r *connRun) step() bool {
	w, cd, u, mainCache := r.w, r.cd, r.u, r.mainCache
	for r.next < len(cd.Ops) {
		if r.stop {
			return false
		}
		i := r.next
		r.next++
		od := &cd.Ops[i]
		o := &r.ops[i]
		gv := &o.Given
		if od.Op == "Yield" {
			o.Res = "ok"
			return true
		}
		func() {
			defer recoverInto(o)
			var err error
			switch od.Op {
			case "SetCache":
				u.SetSessionCache(mainCache)
			case "SetRandom": // an edit of the built hello that the documentation allows (SetClientRandom)
				rnd := make([]byte, 32) // a value of the application's choosing, different for every connection
				for j := range rnd {
					rnd[j] = byte(0x50 + j + 31*r.k + 7*r.sid)
				}
				err = u.SetClientRandom(rnd)
			case "Preset":
				if r.custom == nil {
					panic("harness: Preset on a predefined ClientHelloID")
				}
				err = u.ApplyPreset(r.custom)
			case "BuildNoSess":
				err = u.BuildHandshakeStateWithoutSession()
			case "Build":
				err = u.BuildHandshakeState()
			case "SetTicket":
				switch od.Arg {
				case "nil":
					err = u.SetSessionTicketExtension(nil)
				case "uninit":
					err = u.SetSessionTicketExtension(&tls.SessionTicketExtension{})
				default:
					css := w.sessionFrom(cd, od)
					if css == nil {
						panic("harness: no session to inject")
					}
					t, st, _ := css.ResumptionState()
					gv.Set, gv.Ticket = true, hlib.Ints(t)
					err = u.SetSessionTicketExtension(&tls.SessionTicketExtension{Session: st, Ticket: t, Initialized: true})
				}
			case "SetPsk":
				switch od.Arg {
				case "nil":
					err = u.SetPskExtension(nil)
				case "uninit":
					err = u.SetPskExtension(&tls.UtlsPreSharedKeyExtension{})
				case "fake":
					b := make([]byte, 32)
					for j := range b {
						b[j] = byte(0xb0 + j%16)
					}
					gv.Set, gv.PskID, gv.Binder = true, append([]int{}, od.Label...), hlib.Ints(b)
					err = u.SetPskExtension(&tls.FakePreSharedKeyExtension{
						Identities: []tls.PskIdentity{{Label: hlib.Unints(od.Label), ObfuscatedTicketAge: 7}}, Binders: [][]byte{b}})
				default:
					ext, perr := w.pskFrom(cd, od)
					if perr != nil {
						panic("harness: " + perr.Error())
					}
					gv.Set, gv.PskID = true, hlib.Ints(ext.Identities[0].Label)
					err = u.SetPskExtension(ext)
				}
			case "Handshake":
				r.hsCalled = true
				dl := time.Now().Add(6 * time.Second)
				r.c.SetDeadline(dl)
				r.s.SetDeadline(dl)
				err = u.Handshake()
				if err == nil {
					r.hsOK = true
					func() {
						defer func() { recover() }()
						r.cstate = u.ConnectionState()
						u.SetReadDeadline(time.Now().Add(3 * time.Second))
						var one [1]byte
						u.Read(one[:]) // processes any NewSessionTicket: the cache is up to date before the next call
					}()
				} else if ne, ok := err.(net.Error); ok && ne.Timeout() {
					r.cTimeout = true
				}
			default:
				panic("harness: unknown op " + od.Op)
			}
			if err != nil {
				o.Res = "err"
				o.Msg = hlib.Ints([]byte(err.Error()))
			} else {
				o.Res = "ok"
			}
		}()
		if o.Res == "panic" {
			r.stop = true // the UConn is in no defined state after a panic
		}
	}
	return false
}

func (r *connRun) finish() map[string]any {
	r.c.Close()
	<-r.sdone
	r.s.Close()
	after := lookAt(r.mainCache, r.cd.Name)
	hellos := [][]int{}
	for _, h := range hlib.ClientHellos(r.c.Written()) {
		hellos = append(hellos, hlib.Ints(h))
	}
	wl := [][]int{}
	for _, l := range r.wrapped {
		wl = append(wl, hlib.Ints(l))
	}
	cs, ss := r.cstate, r.sstate
	return map[string]any{"ev": "Conn", "sid": r.sid, "k": r.k, "prep": r.prep, "ops": r.ops,
		"hs_called": r.hsCalled, "hs_ok": r.hsOK, "c_timeout": r.cTimeout,
		"serr": hlib.Ints([]byte(hlib.ErrStr(r.serr))), "s_ok": r.serr == nil,
		"c_resumed": cs.DidResume, "s_resumed": ss.DidResume, "c_vers": int(cs.Version), "s_vers": int(ss.Version),
		"c_suite": int(cs.CipherSuite), "s_suite": int(ss.CipherSuite),
		"c_alpn": hlib.Ints([]byte(cs.NegotiatedProtocol)), "s_alpn": hlib.Ints([]byte(ss.NegotiatedProtocol)),
		"c_sni": hlib.Ints([]byte(cs.ServerName)), "s_sni": hlib.Ints([]byte(ss.ServerName)),
		"hellos": hellos, "before": r.before, "after": after, "wrapped": wl}
}

// runConn runs one connection from its first to its last call (used for the control twin).
func runConn(w *world, sid, k int, cd *connDesc) map[string]any {
	r := startConn(w, sid, k, cd)
	for r.step() {
	}
	return r.finish()
}

// runScenario runs the connections of a scenario in their order; a connection that yields is continued, again in
// order, after all connections have had their turn.
func runScenario(sc *scenario, out *hlib.Out) {
	w := newWorld(sc.Sid)
	evs := make([]map[string]any, len(sc.Conns))
	var waiting []*connRun
	done := func(r *connRun) {
		ev := r.finish()
		if r.cd.Ctl {
			twin := runConn(newWorld(sc.Sid), sc.Sid, r.k, r.cd)
			ev["ctl_ok"] = twin["hs_ok"].(bool) && twin["s_ok"].(bool)
		}
		evs[r.k-1] = ev
	}
	for k := range sc.Conns {
		r := startConn(w, sc.Sid, k+1, &sc.Conns[k])
		if r.step() {
			waiting = append(waiting, r)
		} else {
			done(r)
		}
	}
	for len(waiting) > 0 {
		var again []*connRun
		for _, r := range waiting {
			if r.step() {
				again = append(again, r)
			} else {
				done(r)
			}
		}
		waiting = again
	}
	for _, ev := range evs {
		out.Emit(ev)
	}
}

func init() {
	hlib.Register("replay", func(in []byte, out *hlib.Out) error {
		var req struct {
			Scenarios []scenario `json:"scenarios"`
		}
		if err := json.Unmarshal(in, &req); err != nil {
			return err
		}
		sharedPKI()
		hlib.Parallel(len(req.Scenarios), func(i int) {
			runScenario(&req.Scenarios[i], out)
		})
		return nil
	})
}
