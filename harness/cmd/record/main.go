// Command record is the conformance harness of the record-layer family (C25, C27, C28).
// It replays scenarios chosen by TLC (spec/Record_MC.tla) on real connections and logs what it
// observed: wire record headers, bytes returned by Read, error strings, the record-layer counters
// of both connections. It contains no expected values: spec/Record_Trace.tla judges the log.
package main

import "verif/harness/hlib"

func main() { hlib.Main() }
