package main

import (
	"bufio"
	"encoding/json"
	"fmt"
	mrand "math/rand"
	"os"
	"os/exec"
	"path/filepath"

	tls "github.com/refraction-networking/utls"
	"verif/harness/hlib"
)

// A process history (C27): calls made one after the other in ONE process, because the suite table
// (utlsSupportedCipherSuites, EnableWeakCiphers) is process-global state.
type procOp struct {
	Op     string `json:"op"` // forge | hs | enable
	ID     int    `json:"id"`
	Vers   int    `json:"vers"`
	ECSign bool   `json:"ecsign"`
}

type procHist struct {
	H   int      `json:"h"` // history id; the scenarios of its calls are numbered 100*h + position
	Ops []procOp `json:"ops"`
}

// proc1: {"hist": {...}} -> replays the history in THIS process: a Proc event, then per call either an
// Enable event or the events of a small scenario (both ends forged / a real handshake, then 100 bytes
// each way read back), exactly as cmd run logs them.
func init() {
	hlib.Register("proc1", func(in []byte, out *hlib.Out) error {
		var req struct {
			Hist procHist `json:"hist"`
		}
		if err := json.Unmarshal(in, &req); err != nil {
			return err
		}
		h := req.Hist
		rng := mrand.New(mrand.NewSource(hlib.Seed()*104729 + int64(h.H)))
		out.Emit(map[string]any{"ev": "Proc", "sc": 100 * h.H})
		for i, o := range h.Ops {
			sc := 100*h.H + i + 1
			switch o.Op {
			case "enable":
				tls.EnableWeakCiphers()
				out.Emit(map[string]any{"ev": "Enable", "sc": sc})
			case "forge", "hs":
				pat := map[string][]int{}
				for _, x := range []string{"c", "s"} {
					p := make([]int, 251)
					for k := range p {
						p[k] = rng.Intn(256)
					}
					pat[x] = p
				}
				mode := "forged"
				if o.Op == "hs" {
					mode = "hs"
				}
				s := &scenario{Sc: sc, Mode: mode, Vers: o.Vers, Suite: o.ID, Dyn: true, ECSign: o.ECSign, Pat: pat, Run: 7, TO: 25, Proc: true,
					Ops: []op{{Op: "W", X: "c", N: 100}, {Op: "W", X: "s", N: 100}, {Op: "D", X: "s"}, {Op: "D", X: "c"}}}
				for _, ev := range runScenario(s) {
					out.Emit(ev)
				}
			default:
				return fmt.Errorf("history %d: unknown call %q", h.H, o.Op)
			}
		}
		return nil
	})

	// procs: {"histories": [...]} -> runs every history in a FRESH child process (this binary, command proc1)
	// and passes the children's events through, history by history in input order.
	hlib.Register("procs", func(in []byte, out *hlib.Out) error {
		var req struct {
			Histories []procHist `json:"histories"`
		}
		if err := json.Unmarshal(in, &req); err != nil {
			return err
		}
		self, err := os.Executable()
		if err != nil {
			return err
		}
		dir, err := os.MkdirTemp("", "record-procs-")
		if err != nil {
			return err
		}
		defer os.RemoveAll(dir)
		errs := make([]error, len(req.Histories))
		hlib.Parallel(len(req.Histories), func(i int) {
			fin := filepath.Join(dir, fmt.Sprintf("%d.in.json", i))
			fout := filepath.Join(dir, fmt.Sprintf("%d.out.ndjson", i))
			b, _ := json.Marshal(map[string]any{"hist": req.Histories[i]})
			if errs[i] = os.WriteFile(fin, b, 0o600); errs[i] != nil {
				return
			}
			cmd := exec.Command(self, "proc1", fin, fout)
			cmd.Env = os.Environ()
			if o, err := cmd.CombinedOutput(); err != nil {
				errs[i] = fmt.Errorf("history %d: child failed: %v: %s", req.Histories[i].H, err, o)
			}
		})
		for i := range req.Histories {
			if errs[i] != nil {
				return errs[i]
			}
			f, err := os.Open(filepath.Join(dir, fmt.Sprintf("%d.out.ndjson", i)))
			if err != nil {
				return err
			}
			r := bufio.NewReaderSize(f, 1<<20)
			dec := json.NewDecoder(r)
			for dec.More() {
				var ev map[string]any
				if err := dec.Decode(&ev); err != nil {
					f.Close()
					return err
				}
				out.Emit(ev)
			}
			f.Close()
		}
		return nil
	})
}
