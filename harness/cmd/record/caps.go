package main

import (
	tls "github.com/refraction-networking/utls"
	"verif/harness/hlib"
)

// caps: which optional verif methods the checkout under test has (the padded-record writer is a method of
// *tls.Conn so that this harness builds with and without it).
func init() {
	hlib.Register("caps", func(in []byte, out *hlib.Out) error {
		_, pad := any(&tls.Conn{}).(interface {
			VerifWritePaddedRecord(data []byte, pad int) error
		})
		out.Emit(map[string]any{"ev": "Caps", "pad": pad})
		return nil
	})
}
