package main

import (
	"encoding/json"
	"fmt"
	"io"
	mrand "math/rand"
	"sort"
	"sync"
	"sync/atomic"
	"time"

	tls "github.com/refraction-networking/utls"
	"verif/harness/hlib"
)

// ---------------------------------------------------------------- scenario (input chosen by TLC / the runner)

type op struct {
	Op    string `json:"op"`    // W write, R read, KU key update, K GetOutKeystream, C close, CW CloseWrite, WD expired write deadline, M mutate, D drain
	X     string `json:"x"`     // acting side "c" | "s"; for M the side that WROTE the record
	N     int    `json:"n"`     // W: bytes, K: keystream length
	K     int    `json:"k"`     // R: buffer size
	Req   bool   `json:"req"`   // KU: update_requested
	I     int    `json:"i"`     // M: 1-based index among the records of X not yet delivered
	Kind  string `json:"kind"`  // M: flip | trunc_keep | trunc_fix
	Where string `json:"where"` // M/flip: type | ver | len | first | mid | last
	Pos   int    `json:"pos"`   // M/flip/mid: body offset = Pos mod body length
	Mask  int    `json:"mask"`  // M/flip: xor mask 1..255
	Pad   int    `json:"pad"`   // WP: zero bytes of record padding
}

type scenario struct {
	Sc     int              `json:"sc"`
	Mode   string           `json:"mode"` // "hs" real handshake (UConn vs Server) | "forged" MakeConnWithCompleteHandshake x2
	Vers   int              `json:"vers"`
	Suite  int              `json:"suite"`
	Weak   bool             `json:"weak"`
	Dyn    bool             `json:"dyn"`    // dynamic record sizing left on
	ECSign bool             `json:"ecsign"` // certificate kind the suite needs (from the dumped suite table)
	Pat    map[string][]int `json:"pat"`    // per writer side: stream byte p = pat[(p / run) mod len(pat)]
	Run    int              `json:"run"`
	CT     bool             `json:"ct"`   // log full record bodies (C28)
	TO     int              `json:"to"`   // read deadline in ms
	Proc   bool             `json:"proc"` // one call of a process history (cmd proc1): the suite table is whatever the earlier calls made it
	Ops    []op             `json:"ops"`
}

// ---------------------------------------------------------------- the link: two transports, explicit delivery

type wrec struct {
	raw []byte // header + body as written
}

type side struct {
	name   string
	tr     *hlib.BufConn // transport handed to the TLS connection of this side
	inj    *hlib.BufConn // other end of tr's pipe: Write = bytes arrive at this side, CloseWrite = EOF
	rw     io.ReadWriteCloser
	conn   *tls.Conn
	uc     *tls.UConn
	seen   int    // bytes of tr.Written() already split into records
	pend   []wrec // written by this side, not yet handed to the peer's transport
	cut    bool   // a record of this side was mutated: the attacker closes this direction after delivery
	closed bool
	eof    bool // EOF already signalled to the peer
	off    int  // bytes accepted by Write so far
}

type session struct {
	sc   *scenario
	s    map[string]*side
	live atomic.Bool
	evs  []map[string]any
}

func peer(x string) string {
	if x == "c" {
		return "s"
	}
	return "c"
}

func newSession(sc *scenario) *session {
	se := &session{sc: sc, s: map[string]*side{}}
	ctr, cinj := hlib.BufPipe()
	sinj, str := hlib.BufPipe()
	se.s["c"] = &side{name: "c", tr: ctr, inj: cinj}
	se.s["s"] = &side{name: "s", tr: str, inj: sinj}
	se.live.Store(true)
	// while live, everything one side writes arrives at the other at once (handshake phase)
	ctr.OnWrite = func(b []byte) {
		if se.live.Load() {
			se.s["s"].inj.Write(b)
		}
	}
	str.OnWrite = func(b []byte) {
		if se.live.Load() {
			se.s["c"].inj.Write(b)
		}
	}
	return se
}

func recJ(raw []byte, full bool) map[string]any {
	m := map[string]any{"t": 255, "v": 0, "n": 0, "h": []int{}, "b": []int{}, "raw": len(raw)}
	if len(raw) >= 5 {
		m["t"] = int(raw[0])
		m["v"] = int(raw[1])<<8 | int(raw[2])
		m["n"] = int(raw[3])<<8 | int(raw[4])
		body := raw[5:]
		h := body
		if len(h) > 8 {
			h = h[:8]
		}
		m["h"] = hlib.Ints(h)
		if full {
			m["b"] = hlib.Ints(body)
		}
	}
	return m
}

// collect splits what side x wrote since the last call into records, queues them for delivery
// (unless the direction was cut) and returns their wire description.
func (se *session) collect(x string) []any {
	sd := se.s[x]
	all := sd.tr.Written()
	b := all[sd.seen:]
	sd.seen = len(all)
	out := []any{}
	for len(b) > 0 {
		n := len(b)
		if len(b) >= 5 {
			n = 5 + (int(b[3])<<8 | int(b[4]))
			if n > len(b) {
				n = len(b)
			}
		}
		r := wrec{raw: append([]byte{}, b[:n]...)}
		out = append(out, recJ(r.raw, se.sc.CT))
		if !sd.cut {
			sd.pend = append(sd.pend, r)
		}
		b = b[n:]
	}
	return out
}

// deliver hands everything the peer of x has written (and the attacker kept in flight) to x's transport.
func (se *session) deliver(x string) {
	p := se.s[peer(x)]
	me := se.s[x]
	for _, r := range p.pend {
		me.inj.Write(r.raw)
	}
	p.pend = nil
	if (p.cut || p.closed) && !p.eof {
		me.inj.CloseWrite()
		p.eof = true
	}
}

func (se *session) state() map[string]any {
	m := map[string]any{}
	for _, x := range []string{"c", "s"} {
		sd := se.s[x]
		if sd.conn == nil {
			m[x] = map[string]any{"o": -1, "i": -1, "b": -1}
			continue
		}
		st := tls.VerifRecordStateOf(sd.conn)
		m[x] = map[string]any{"o": int(st.OutSeq), "i": int(st.InSeq), "b": st.InputLen}
	}
	return m
}

func (se *session) emit(ev map[string]any) {
	ev["sc"] = se.sc.Sc
	ev["wrote"] = map[string]any{"c": se.collect("c"), "s": se.collect("s")}
	ev["st"] = se.state()
	se.evs = append(se.evs, ev)
}

// rle codes b losslessly as runs [value, count, offset of the run in b].
func rle(b []byte) []any {
	out := []any{}
	for i := 0; i < len(b); {
		j := i
		for j < len(b) && b[j] == b[i] {
			j++
		}
		out = append(out, []int{int(b[i]), j - i, i})
		i = j
	}
	return out
}

func (se *session) streamBytes(x string, off, n int) []byte {
	pat := se.sc.Pat[x]
	run := se.sc.Run
	d := make([]byte, n)
	for i := range d {
		d[i] = byte(pat[((off+i)/run)%len(pat)])
	}
	return d
}

// ---------------------------------------------------------------- connection set-up

var (
	pkiOnce sync.Once
	pki     *hlib.PKI
	certEC  tls.Certificate
	certRSA tls.Certificate
)

func certs() {
	pkiOnce.Do(func() {
		pki = hlib.NewPKI()
		certEC = pki.Std("ecdsa", "example.com")
	})
}

var rsaOnce sync.Once

// the RSA key is only generated when an RSA suite is actually used (a process history is one short-lived process)
func rsaCert() tls.Certificate {
	certs()
	rsaOnce.Do(func() { certRSA = pki.Std("rsa", "example.com") })
	return certRSA
}

func helloSpec(vers, suite uint16) *tls.ClientHelloSpec {
	exts := []tls.TLSExtension{
		&tls.SNIExtension{},
		&tls.ExtendedMasterSecretExtension{},
		&tls.RenegotiationInfoExtension{Renegotiation: tls.RenegotiateOnceAsClient},
		&tls.SupportedCurvesExtension{Curves: []tls.CurveID{tls.X25519, tls.CurveP256}},
		&tls.SupportedPointsExtension{SupportedPoints: []byte{0}},
		&tls.SignatureAlgorithmsExtension{SupportedSignatureAlgorithms: []tls.SignatureScheme{
			tls.ECDSAWithP256AndSHA256, tls.PSSWithSHA256, tls.PKCS1WithSHA256, tls.ECDSAWithP384AndSHA384,
			tls.PSSWithSHA384, tls.PKCS1WithSHA384, tls.PSSWithSHA512, tls.PKCS1WithSHA512, tls.PKCS1WithSHA1, tls.ECDSAWithSHA1}},
	}
	if vers == tls.VersionTLS13 {
		exts = append(exts,
			&tls.KeyShareExtension{KeyShares: []tls.KeyShare{{Group: tls.X25519}}},
			&tls.PSKKeyExchangeModesExtension{Modes: []uint8{tls.PskModeDHE}},
			&tls.SupportedVersionsExtension{Versions: []uint16{tls.VersionTLS13}})
	}
	return &tls.ClientHelloSpec{TLSVersMin: vers, TLSVersMax: vers, CipherSuites: []uint16{suite},
		CompressionMethods: []byte{0}, Extensions: exts}
}

func (se *session) initHS() map[string]any {
	sc := se.sc
	certs()
	vers, suite := uint16(sc.Vers), uint16(sc.Suite)
	crt := certEC
	if !sc.ECSign && vers != tls.VersionTLS13 {
		crt = rsaCert()
	}
	scfg := &tls.Config{Certificates: []tls.Certificate{crt}, MinVersion: vers, MaxVersion: vers,
		CipherSuites: []uint16{suite}, SessionTicketsDisabled: true, DynamicRecordSizingDisabled: !sc.Dyn}
	if vers != tls.VersionTLS13 {
		// the in-tree server never selects the legacy ChaCha20 / EnableWeakCiphers suites by itself
		tls.VerifSetOverride(scfg, &tls.VerifOverride{ForceSuite12: suite})
	}
	ccfg := &tls.Config{ServerName: "example.com", RootCAs: pki.Pool, MinVersion: vers, MaxVersion: vers,
		DynamicRecordSizingDisabled: !sc.Dyn}
	c, s := se.s["c"], se.s["s"]
	dl := time.Now().Add(5 * time.Second)
	c.tr.SetDeadline(dl)
	s.tr.SetDeadline(dl)
	srv := tls.Server(s.tr, scfg)
	uc := tls.UClient(c.tr, ccfg, tls.HelloCustom)
	ev := map[string]any{"ev": "Init", "cerr": "", "serr": "", "cnil": false, "snil": false,
		"cvers": 0, "csuite": 0, "svers": 0, "ssuite": 0}
	var serr error
	done := make(chan struct{})
	go func() {
		defer close(done)
		defer func() {
			if p := recover(); p != nil {
				serr = fmt.Errorf("panic: %v", p)
			}
		}()
		serr = srv.Handshake()
	}()
	cerr := func() (err error) {
		defer func() {
			if p := recover(); p != nil {
				err = fmt.Errorf("panic: %v", p)
			}
		}()
		if err := uc.ApplyPreset(helloSpec(vers, suite)); err != nil {
			return fmt.Errorf("preset: %w", err)
		}
		return uc.Handshake()
	}()
	if cerr != nil {
		c.tr.Close()
		s.inj.CloseWrite()
	}
	<-done
	se.live.Store(false)
	c.tr.SetDeadline(time.Time{})
	s.tr.SetDeadline(time.Time{})
	ev["cerr"], ev["serr"] = hlib.ErrStr(cerr), hlib.ErrStr(serr)
	if cerr == nil && serr == nil {
		c.rw, c.conn, c.uc = uc, uc.Conn, uc
		s.rw, s.conn = srv, srv
		cs, ss := uc.ConnectionState(), srv.ConnectionState()
		ev["cvers"], ev["csuite"], ev["svers"], ev["ssuite"] = int(cs.Version), int(cs.CipherSuite), int(ss.Version), int(ss.CipherSuite)
	}
	// the handshake flights are not part of the data phase (how many bytes they were is logged)
	c.seen = len(c.tr.Written())
	s.seen = len(s.tr.Written())
	ev["sent0"] = map[string]any{"c": c.seen, "s": s.seen}
	return ev
}

func (se *session) initForged(rng *mrand.Rand) map[string]any {
	sc := se.sc
	ms := make([]byte, 48)
	cr := make([]byte, 32)
	sr := make([]byte, 32)
	rng.Read(ms)
	rng.Read(cr)
	rng.Read(sr)
	se.live.Store(false)
	c, s := se.s["c"], se.s["s"]
	cc := tls.MakeConnWithCompleteHandshake(c.tr, uint16(sc.Vers), uint16(sc.Suite), ms, cr, sr, true)
	ss := tls.MakeConnWithCompleteHandshake(s.tr, uint16(sc.Vers), uint16(sc.Suite), ms, cr, sr, false)
	if cc != nil {
		c.rw, c.conn = cc, cc
	}
	if ss != nil {
		s.rw, s.conn = ss, ss
	}
	return map[string]any{"ev": "Init", "cerr": "", "serr": "", "cnil": cc == nil, "snil": ss == nil,
		"cvers": 0, "csuite": 0, "svers": 0, "ssuite": 0, "sent0": map[string]any{"c": 0, "s": 0}}
}

// ---------------------------------------------------------------- operations

func (se *session) doOp(o op) bool {
	sd := se.s[o.X]
	to := time.Duration(se.sc.TO) * time.Millisecond
	if to == 0 {
		to = 30 * time.Millisecond
	}
	switch o.Op {
	case "W":
		data := se.streamBytes(o.X, sd.off, o.N)
		head := data
		if len(head) > 16 {
			head = head[:16]
		}
		off := sd.off
		n, err := sd.rw.Write(data)
		sd.off += n
		se.emit(map[string]any{"ev": "Write", "x": o.X, "n": o.N, "off": off, "head": hlib.Ints(head), "ret": n, "err": hlib.ErrStr(err)})
	case "R":
		se.read(o.X, o.K, to)
	case "D":
		for i := 0; i < 400; i++ {
			m, err := se.read(o.X, 20000, to)
			if err != nil || m == 0 {
				break
			}
		}
	case "KU":
		err := tls.VerifSendKeyUpdate(sd.conn, o.Req)
		se.emit(map[string]any{"ev": "KeyUpdate", "x": o.X, "req": o.Req, "err": hlib.ErrStr(err)})
	case "K":
		var ks []byte
		var err error
		if sd.uc != nil {
			ks, err = sd.uc.GetOutKeystream(o.N)
		} else {
			err = fmt.Errorf("harness: side %s is not a UConn", o.X)
		}
		se.emit(map[string]any{"ev": "Keystream", "x": o.X, "n": o.N, "ks": hlib.Ints(ks), "err": hlib.ErrStr(err)})
	case "WP": // a padding peer (RFC 8446 5.4): one record, data followed by Pad zero bytes, through the verif method
		w, ok := any(sd.conn).(interface {
			VerifWritePaddedRecord(data []byte, pad int) error
		})
		if !ok {
			se.emit(map[string]any{"ev": "NoPaddingHook", "x": o.X})
			return false
		}
		data := se.streamBytes(o.X, sd.off, o.N)
		head := data
		if len(head) > 16 {
			head = head[:16]
		}
		off := sd.off
		err := w.VerifWritePaddedRecord(data, o.Pad)
		if err == nil {
			sd.off += o.N
		}
		se.emit(map[string]any{"ev": "WritePadded", "x": o.X, "n": o.N, "pad": o.Pad, "off": off, "head": hlib.Ints(head), "err": hlib.ErrStr(err)})
	case "CW": // half-close: close_notify goes out, the side keeps reading
		err := sd.conn.CloseWrite()
		se.emit(map[string]any{"ev": "CloseWrite", "x": o.X, "err": hlib.ErrStr(err)})
	case "WD": // a write deadline that has already passed stays set on the connection
		err := sd.conn.SetWriteDeadline(time.Now().Add(-time.Hour))
		se.emit(map[string]any{"ev": "WriteDeadline", "x": o.X, "err": hlib.ErrStr(err)})
	case "C":
		err := sd.rw.Close()
		sd.closed = true
		se.emit(map[string]any{"ev": "Close", "x": o.X, "err": hlib.ErrStr(err)})
	case "M":
		// nxt: the byte that follows the record in the stream (first byte of the next record in flight), -1 if none
		ev := map[string]any{"ev": "Mutate", "x": o.X, "i": o.I, "kind": o.Kind, "where": o.Where, "at": -1, "old": -1, "new": -1, "nxt": -1, "len0": -1, "len1": -1, "did": false}
		if o.I >= 1 && o.I < len(sd.pend) && len(sd.pend[o.I].raw) > 0 {
			ev["nxt"] = int(sd.pend[o.I].raw[0])
		}
		if o.I >= 1 && o.I <= len(sd.pend) && !sd.cut {
			r := &sd.pend[o.I-1]
			ev["len0"] = len(r.raw)
			body := len(r.raw) - 5
			switch o.Kind {
			case "flip":
				at := -1
				switch o.Where {
				case "type":
					at = 0
				case "ver":
					at = 2
				case "len":
					at = 4
				case "first":
					at = 5
				case "mid":
					if body > 0 {
						at = 5 + o.Pos%body
					}
				case "last":
					at = len(r.raw) - 1
				}
				if at >= 0 && at < len(r.raw) && o.Mask&0xff != 0 {
					ev["at"], ev["old"] = at, int(r.raw[at])
					r.raw[at] ^= byte(o.Mask)
					ev["new"] = int(r.raw[at])
					ev["did"] = true
				}
			case "trunc_keep", "trunc_fix":
				if body > 0 {
					ev["at"], ev["old"] = len(r.raw)-1, int(r.raw[len(r.raw)-1])
					r.raw = r.raw[:len(r.raw)-1]
					if o.Kind == "trunc_fix" {
						n := (int(r.raw[3])<<8 | int(r.raw[4])) - 1
						r.raw[3], r.raw[4] = byte(n>>8), byte(n)
					}
					ev["did"] = true
				}
			}
			ev["len1"] = len(r.raw)
			if ev["did"] == true {
				sd.cut = true
			}
		}
		se.emit(ev)
	default:
		se.emit(map[string]any{"ev": "BadOp", "x": o.X})
		return false
	}
	return true
}

func (se *session) read(x string, k int, to time.Duration) (int, error) {
	sd := se.s[x]
	se.deliver(x)
	buf := make([]byte, k)
	sd.tr.SetReadDeadline(time.Now().Add(to))
	m, err := sd.rw.Read(buf)
	sd.tr.SetReadDeadline(time.Time{})
	got := m // logged as returned; only the slice bound is guarded
	if got < 0 || got > k {
		got = 0
	}
	se.emit(map[string]any{"ev": "Read", "x": x, "k": k, "m": m, "data": rle(buf[:got]), "err": hlib.ErrStr(err)})
	return m, err
}

func runScenario(sc *scenario) (evs []map[string]any) {
	se := newSession(sc)
	defer func() {
		if p := recover(); p != nil {
			se.evs = append(se.evs, map[string]any{"ev": "Panic", "sc": sc.Sc, "msg": fmt.Sprint(p)})
		}
		evs = se.evs
	}()
	rng := mrand.New(mrand.NewSource(hlib.Seed()*7919 + int64(sc.Sc)))
	var ev map[string]any
	if sc.Mode == "forged" {
		ev = se.initForged(rng)
	} else {
		ev = se.initHS()
	}
	ev["mode"], ev["vers"], ev["suite"], ev["weak"], ev["dyn"] = sc.Mode, sc.Vers, sc.Suite, sc.Weak, sc.Dyn
	ev["pat"], ev["run"], ev["proc"] = map[string]any{"c": sc.Pat["c"], "s": sc.Pat["s"]}, sc.Run, sc.Proc
	se.emit(ev)
	if se.s["c"].conn == nil || se.s["s"].conn == nil {
		return
	}
	for _, o := range sc.Ops {
		if !se.doOp(o) {
			break
		}
	}
	return
}

// run: {"weak": bool, "scenarios": [...]} -> the events of every scenario, scenarios in input order
func init() {
	hlib.Register("run", func(in []byte, out *hlib.Out) error {
		var req struct {
			Weak      bool       `json:"weak"`
			Scenarios []scenario `json:"scenarios"`
		}
		if err := json.Unmarshal(in, &req); err != nil {
			return err
		}
		if req.Weak {
			tls.EnableWeakCiphers()
		}
		for i := range req.Scenarios {
			sc := &req.Scenarios[i]
			if sc.Weak != req.Weak {
				return fmt.Errorf("scenario %d wants weak=%v in a weak=%v process", sc.Sc, sc.Weak, req.Weak)
			}
			if sc.Run <= 0 || len(sc.Pat["c"]) == 0 || len(sc.Pat["s"]) == 0 {
				return fmt.Errorf("scenario %d: bad pattern", sc.Sc)
			}
		}
		rsaCert()
		res := make([][]map[string]any, len(req.Scenarios))
		hlib.Parallel(len(req.Scenarios), func(i int) { res[i] = runScenario(&req.Scenarios[i]) })
		idx := make([]int, len(res))
		for i := range idx {
			idx[i] = i
		}
		sort.SliceStable(idx, func(a, b int) bool { return req.Scenarios[idx[a]].Sc < req.Scenarios[idx[b]].Sc })
		for _, i := range idx {
			for _, ev := range res[i] {
				out.Emit(ev)
			}
		}
		return nil
	})
}
