package main

import (
	"encoding/json"

	tls "github.com/refraction-networking/utls"
	"verif/harness/hlib"
)

func suiteJ(s tls.VerifRecordSuite) map[string]any {
	return map[string]any{"id": int(s.ID), "keyLen": s.KeyLen, "macLen": s.MacLen, "ivLen": s.IVLen, "flags": s.Flags,
		"ecdhe": s.ECDHE, "ecsign": s.ECSign, "tls12only": s.TLS12Only, "sha384": s.SHA384, "kind": s.Kind,
		"bs": s.BlockSize, "expl": s.ExplicitNonce, "tag": s.Overhead, "mac": s.MacSize}
}

func suitesJ(l []tls.VerifRecordSuite) []any {
	out := []any{}
	for _, s := range l {
		out = append(out, suiteJ(s))
	}
	return out
}

// suites: {"weak": bool} -> one event with the suite tables of this process (after EnableWeakCiphers
// when weak is set; that call is global and irreversible, hence one process per setting).
func init() {
	hlib.Register("suites", func(in []byte, out *hlib.Out) error {
		var req struct{ Weak bool }
		if err := json.Unmarshal(in, &req); err != nil {
			return err
		}
		if req.Weak {
			tls.EnableWeakCiphers()
		}
		t13 := []any{}
		for _, s := range tls.VerifRecordCipherSuitesTLS13() {
			t13 = append(t13, map[string]any{"id": int(s.ID), "keyLen": s.KeyLen, "tag": s.Overhead, "hash": s.HashSize})
		}
		out.Emit(map[string]any{"ev": "Suites", "weak": req.Weak,
			"supported": suitesJ(tls.VerifRecordSupportedCipherSuites()),
			"std":       suitesJ(tls.VerifRecordCipherSuites()),
			"tls13":     t13})
		return nil
	})
}
