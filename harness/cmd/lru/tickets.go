package main

import (
	"crypto/aes"
	"crypto/cipher"
	"crypto/hmac"
	"crypto/sha256"
	"crypto/x509"
	"encoding/json"
	"fmt"
	mrand "math/rand"
	"sync"
	"time"

	tls "github.com/refraction-networking/utls"
	"verif/harness/hlib"
)

// ---------------------------------------------------------------- inputs: key bytes and session states by id

// keyBytes: the 32-byte external ticket key that scenario key id k stands for.
func keyBytes(k int) (b [32]byte) {
	return sha256.Sum256([]byte(fmt.Sprintf("verif ticket key %d / seed %d", k, hlib.Seed())))
}

var (
	pkiOnce   sync.Once
	pki       *hlib.PKI
	leafECDSA tls.Certificate
	leafRSA   tls.Certificate
	leafX     *x509.Certificate
	leafRSAX  *x509.Certificate
)

func setupPKI() {
	pkiOnce.Do(func() {
		pki = hlib.NewPKI()
		leafECDSA = pki.Std("ecdsa", "example.com")
		leafRSA = pki.Std("rsa", "example.com")
		leafX, _ = x509.ParseCertificate(leafECDSA.Certificate[0])
		leafRSAX, _ = x509.ParseCertificate(leafRSA.Certificate[0])
	})
}

// sessionState builds the (random, seed-determined) SessionState that scenario state id st stands for, through
// the public constructor and setters only.
func sessionState(st int) *tls.SessionState {
	setupPKI()
	r := mrand.New(mrand.NewSource(hlib.Seed()*104729 + int64(st)))
	if st >= 21 && st <= 28 {
		// "twins": one fixed shape (so all of them encode to the same number of bytes), different content
		secret := make([]byte, 48)
		r.Read(secret)
		css := tls.MakeClientSessionState(nil, tls.VersionTLS12, 0xc02f, secret, nil, nil)
		css.SetCreatedAt(uint64(r.Int63n(1 << 40)))
		_, ss, _ := css.ResumptionState()
		extra := make([]byte, 24)
		r.Read(extra)
		ss.Extra = [][]byte{extra}
		return ss
	}
	vers := []uint16{tls.VersionTLS10, tls.VersionTLS11, tls.VersionTLS12, tls.VersionTLS13}[r.Intn(4)]
	suite := []uint16{0x002f, 0x009c, 0xc013, 0xc02f, 0xc030, 0xcca8, 0x1301, 0x1302, 0x1303}[r.Intn(9)]
	secret := make([]byte, []int{1, 32, 48, 48, 48, 255}[r.Intn(6)])
	r.Read(secret)
	var certs []*x509.Certificate
	var chains [][]*x509.Certificate
	small := st <= 2 // the states of the exhaustive histories stay compact (their bytes are shipped to TLC many times)
	certKind, extraKind := r.Intn(4), r.Intn(3)
	if small {
		certKind, extraKind = 3, extraKind&^1
	}
	switch certKind {
	case 0:
		certs = []*x509.Certificate{leafX}
	case 1:
		certs = []*x509.Certificate{leafX, pki.CA}
		chains = [][]*x509.Certificate{{leafX, pki.CA}}
	}
	css := tls.MakeClientSessionState(nil, vers, suite, secret, certs, chains)
	css.SetEMS(r.Intn(2) == 0)
	css.SetCreatedAt(uint64(r.Int63n(1 << 40)))
	_, ss, _ := css.ResumptionState()
	switch extraKind {
	case 0:
		ss.Extra = [][]byte{{}}
	case 1:
		big := make([]byte, 300)
		r.Read(big)
		ss.Extra = [][]byte{[]byte("abc"), big}
	}
	ss.EarlyData = r.Intn(4) == 0
	return ss
}

type tkOp struct {
	Op   string `json:"op"`
	Keys []int  `json:"keys"`
	H    int    `json:"h"`
	St   int    `json:"st"`
	Src  int    `json:"src"`
	Bit  int    `json:"bit"`
	Cut  int    `json:"cut"`
	N    int    `json:"n"`
	Key  int    `json:"key"`
	D    int    `json:"d"`
}

const fromEnd = 1000000 // scenario bit positions >= fromEnd count from the last bit backwards (spec/Tickets.tla FromEnd)

func stateBytes(s *tls.SessionState) ([]int, string) {
	if s == nil {
		return []int{}, ""
	}
	b, err := s.Bytes()
	if err != nil {
		return []int{}, err.Error()
	}
	return hlib.Ints(b), ""
}

// openWithPublicKey opens a ticket with nothing but the public fields of a tls.TicketKey (HMAC-SHA256 over
// everything but the trailing tag, AES-CTR with the leading IV) and reports what it found.
func openWithPublicKey(tk tls.TicketKey, ticket []byte) (macOK bool, plain []byte) {
	if len(ticket) < aes.BlockSize+sha256.Size {
		return false, nil
	}
	body, tag := ticket[:len(ticket)-sha256.Size], ticket[len(ticket)-sha256.Size:]
	m := hmac.New(sha256.New, tk.HmacKey[:])
	m.Write(body)
	if !hmac.Equal(m.Sum(nil), tag) {
		return false, nil
	}
	blk, err := aes.NewCipher(tk.AesKey[:])
	if err != nil {
		return false, nil
	}
	plain = make([]byte, len(body)-aes.BlockSize)
	cipher.NewCTR(blk, body[:aes.BlockSize]).XORKeyStream(plain, body[aes.BlockSize:])
	return true, plain
}

func runTicketScenario(id int, ops []tkOp, out *hlib.Out) {
	hours := 0
	base := time.Date(2026, 1, 1, 0, 0, 0, 0, time.UTC)
	cfg := &tls.Config{Time: func() time.Time { return base.Add(time.Duration(hours) * time.Hour) }}
	var tix [][]byte
	var held []*tls.SessionState // every state DecryptTicket returned, kept as returned (never copied)
	get := func(src int) ([]byte, bool) {
		if src < 1 || src > len(tix) {
			return nil, false
		}
		return tix[src-1], true
	}
	out.Emit(map[string]any{"ev": "Reset", "id": id})
	derive := func(kind string, src int, t []byte, extra map[string]any) {
		tix = append(tix, t)
		ev := map[string]any{"ev": kind, "t": len(tix), "src": src, "len": len(t)}
		for k, v := range extra {
			ev[k] = v
		}
		out.Emit(ev)
	}
	decrypt := func(src int, t []byte) {
		var s *tls.SessionState
		var err error
		pn := ""
		func() {
			defer func() {
				if p := recover(); p != nil {
					pn = fmt.Sprint(p)
				}
			}()
			s, err = cfg.DecryptTicket(t, tls.ConnectionState{})
		}()
		if s != nil {
			held = append(held, s)
		}
		sb, berr := stateBytes(s)
		out.Emit(map[string]any{"ev": "Decrypt", "src": src, "ok": s != nil, "state": sb, "err": hlib.ErrStr(err) + berr + pn})
	}
	for _, o := range ops {
		switch o.Op {
		case "SetKeys":
			var ks [][32]byte
			for _, k := range o.Keys {
				ks = append(ks, keyBytes(k))
			}
			cfg.SetSessionTicketKeys(ks)
			out.Emit(map[string]any{"ev": "SetKeys", "keys": o.Keys})
		case "Advance":
			hours += o.H
			out.Emit(map[string]any{"ev": "Advance", "h": o.H})
		case "Encrypt":
			ss := sessionState(o.St)
			orig, berr := stateBytes(ss)
			t, err := cfg.EncryptTicket(tls.ConnectionState{}, ss)
			tix = append(tix, t)
			out.Emit(map[string]any{"ev": "Encrypt", "t": len(tix), "st": o.St, "err": hlib.ErrStr(err) + berr, "len": len(t), "state": orig, "raw": hlib.Ints(t)})
		case "Flip", "FlipAll":
			t, ok := get(o.Src)
			if !ok {
				out.Emit(map[string]any{"ev": "BadScenario", "op": o.Op})
				return
			}
			flip := func(b int) {
				d := append([]byte(nil), t...)
				if b >= 0 && b < 8*len(d) {
					d[b/8] ^= 1 << (uint(b) % 8)
				}
				derive("Flip", o.Src, d, map[string]any{"bit": b})
			}
			if o.Op == "Flip" {
				b := o.Bit
				if b >= fromEnd {
					b = 8*len(t) - 1 - (b - fromEnd)
				}
				flip(b)
			} else { // every (N-th) single-bit modification of the ticket, each followed by DecryptTicket
				stride := o.N
				if stride < 1 {
					stride = 1
				}
				for b := 0; b < 8*len(t); b += stride {
					flip(b)
					decrypt(len(tix), tix[len(tix)-1])
				}
			}
		case "Truncate", "TruncateAll":
			t, ok := get(o.Src)
			if !ok {
				out.Emit(map[string]any{"ev": "BadScenario", "op": o.Op})
				return
			}
			if o.Op == "Truncate" {
				n := len(t) - o.Cut
				if n < 0 {
					n = 0
				}
				derive("Truncate", o.Src, append([]byte(nil), t[:n]...), nil)
			} else { // every (N-th) proper prefix
				stride := o.N
				if stride < 1 {
					stride = 1
				}
				for n := 0; n < len(t); n += stride {
					derive("Truncate", o.Src, append([]byte(nil), t[:n]...), nil)
					decrypt(len(tix), tix[len(tix)-1])
				}
			}
		case "Extend":
			t, ok := get(o.Src)
			if !ok {
				out.Emit(map[string]any{"ev": "BadScenario", "op": o.Op})
				return
			}
			d := append([]byte(nil), t...)
			for i := 0; i < o.N; i++ {
				d = append(d, 0xa5)
			}
			derive("Extend", o.Src, d, nil)
		case "Decrypt":
			t, ok := get(o.Src)
			if !ok {
				out.Emit(map[string]any{"ev": "BadScenario", "op": o.Op})
				return
			}
			decrypt(o.Src, t)
		case "Recheck": // what the state returned by the d-th successful DecryptTicket says now
			if o.D < 1 || o.D > len(held) {
				out.Emit(map[string]any{"ev": "BadScenario", "op": o.Op})
				return
			}
			sb, berr := stateBytes(held[o.D-1])
			out.Emit(map[string]any{"ev": "Recheck", "d": o.D, "state": sb, "err": berr})
		case "Reread": // what the slice returned by EncryptTicket holds now
			t, ok := get(o.Src)
			if !ok {
				out.Emit(map[string]any{"ev": "BadScenario", "op": o.Op})
				return
			}
			out.Emit(map[string]any{"ev": "Reread", "src": o.Src, "raw": hlib.Ints(t)})
		case "Indep":
			t, ok := get(o.Src)
			if !ok {
				out.Emit(map[string]any{"ev": "BadScenario", "op": o.Op})
				return
			}
			macOK, plain := openWithPublicKey(tls.TicketKeyFromBytes(keyBytes(o.Key)), t)
			out.Emit(map[string]any{"ev": "Indep", "src": o.Src, "key": o.Key, "ok": macOK, "state": hlib.Ints(plain)})
		default:
			out.Emit(map[string]any{"ev": "BadScenario", "op": o.Op})
			return
		}
	}
}

// ---------------------------------------------------------------- forged client sessions

type forgeCase struct {
	ID         int    `json:"id"`
	Vers       int    `json:"vers"`
	Suite      int    `json:"suite"`
	Hello      string `json:"hello"`
	EMS        bool   `json:"ems"`
	TEMS       bool   `json:"tems"`
	Sealed     bool   `json:"sealed"`
	SameSecret bool   `json:"samesecret"`
	Via        string `json:"via"`
	Certs      bool   `json:"certs"`
	SLen       int    `json:"slen"`   // length of the supplied secret (0 in old scenarios = 48)
	SecVia     string `json:"secvia"` // "make": secret given to MakeClientSessionState, "set": to SetMasterSecret
}

// withSecret returns the encoding of st with its secret field replaced by secret.  The ticket handed to the server
// must hold exactly the bytes the scenario names, so they are spliced into SessionState.Bytes() (version u16, type u8,
// suite u16, created_at u64, then opaque secret<1..255>) instead of going through the constructor under test.
func withSecret(st *tls.SessionState, secret []byte) (*tls.SessionState, error) {
	b, err := st.Bytes()
	if err != nil {
		return nil, err
	}
	const off = 2 + 1 + 2 + 8
	if len(b) <= off || len(b) < off+1+int(b[off]) || len(secret) > 255 {
		return nil, fmt.Errorf("unexpected SessionState encoding")
	}
	nb := append([]byte(nil), b[:off]...)
	nb = append(nb, byte(len(secret)))
	nb = append(nb, secret...)
	nb = append(nb, b[off+1+int(b[off]):]...)
	return tls.ParseSessionState(nb)
}

// forgedState builds the client's forged session, the secret going through the constructor or through the setter.
func forgedState(secvia string, ticket []byte, vers, suite uint16, secret []byte, certs []*x509.Certificate, chains [][]*x509.Certificate) *tls.ClientSessionState {
	if secvia == "set" {
		css := tls.MakeClientSessionState(ticket, vers, suite, nil, certs, chains)
		css.SetMasterSecret(secret)
		return css
	}
	return tls.MakeClientSessionState(ticket, vers, suite, secret, certs, chains)
}

func runForge(c forgeCase) map[string]any {
	setupPKI()
	r := mrand.New(mrand.NewSource(hlib.Seed()*15485863 + int64(c.ID)))
	if c.SLen == 0 {
		c.SLen = 48
	}
	if c.SecVia == "" {
		c.SecVia = "make"
	}
	secret := make([]byte, c.SLen)
	r.Read(secret)
	tsecret := secret
	if !c.SameSecret {
		tsecret = make([]byte, c.SLen)
		r.Read(tsecret)
	}
	is13 := c.Vers == tls.VersionTLS13
	now := time.Now()
	serverKey, otherKey := keyBytes(1), keyBytes(2)

	// the server: known ticket keys; WrapSession only looks at the state the server is about to seal
	var smu sync.Mutex
	var smaster []byte
	scfg := &tls.Config{Certificates: []tls.Certificate{leafRSA, leafECDSA}, MinVersion: tls.VersionTLS10, MaxVersion: uint16(c.Vers),
		CipherSuites: []uint16{uint16(c.Suite)}}
	if is13 {
		// the in-tree server would pick its own preferred TLS 1.3 suite: make it pick the one of the session
		scfg.CipherSuites = nil
		tls.VerifSetOverride(scfg, &tls.VerifOverride{ForceSuite13: uint16(c.Suite)})
	}
	scfg.SetSessionTicketKeys([][32]byte{serverKey})
	scfg.WrapSession = func(cs tls.ConnectionState, ss *tls.SessionState) ([]byte, error) {
		if b, err := ss.Bytes(); err == nil {
			if cp, err := tls.ParseSessionState(b); err == nil {
				if v, err := tls.NewResumptionState(nil, cp); err == nil {
					smu.Lock()
					smaster = append([]byte(nil), v.MasterSecret()...)
					smu.Unlock()
				}
			}
		}
		return scfg.EncryptTicket(cs, ss)
	}

	// the ticket: a server-side state with the supplied parameters, sealed with a key the server has (or not)
	tcs := tls.MakeClientSessionState(nil, uint16(c.Vers), uint16(c.Suite), []byte{0}, nil, nil)
	tcs.SetEMS(c.TEMS)
	tcs.SetCreatedAt(uint64(now.Unix()))
	_, tstate0, _ := tcs.ResumptionState()
	tstate, serr := withSecret(tstate0, tsecret)
	if serr != nil {
		return map[string]any{"ev": "BadScenario", "err": serr.Error()}
	}
	sealer := &tls.Config{}
	if c.Sealed {
		sealer.SetSessionTicketKeys([][32]byte{serverKey})
	} else {
		sealer.SetSessionTicketKeys([][32]byte{otherKey})
	}
	ticket, terr := sealer.EncryptTicket(tls.ConnectionState{}, tstate)

	// the forged client session
	var certs []*x509.Certificate
	var chains [][]*x509.Certificate
	if c.Certs {
		certs = []*x509.Certificate{leafRSAX}
		chains = [][]*x509.Certificate{{leafRSAX, pki.CA}}
	}
	forged := forgedState(c.SecVia, ticket, uint16(c.Vers), uint16(c.Suite), secret, certs, chains)
	forged.SetEMS(c.EMS)
	forged.SetCreatedAt(uint64(now.Unix()))
	if is13 {
		forged.SetUseBy(uint64(now.Add(time.Hour).Unix()))
		forged.SetAgeAdd(uint32(r.Int63()))
	}

	cache := tls.NewLRUClientSessionCache(4)
	ccfg := &tls.Config{ServerName: "example.com", RootCAs: pki.Pool, MinVersion: tls.VersionTLS10, MaxVersion: tls.VersionTLS12,
		ClientSessionCache: cache, InsecureSkipVerify: !c.Certs}
	if is13 {
		ccfg.MaxVersion = tls.VersionTLS13
	}
	id, err := hlib.LookupID(c.Hello)
	if err != nil {
		return map[string]any{"ev": "BadScenario", "err": err.Error()}
	}
	if c.Hello == "Golang-0" && !is13 {
		ccfg.CipherSuites = []uint16{uint16(c.Suite)}
	}
	opts := hlib.HSOpts{Echo: []int{16}, Timeout: 10 * time.Second}
	seterr := ""
	if c.Via == "cache" {
		cache.Put("example.com", forged)
	} else {
		opts.Prep = func(uc *tls.UConn) error {
			if err := uc.SetSessionState(forged); err != nil {
				seterr = err.Error()
				return err
			}
			return nil
		}
	}
	res := hlib.RunHandshake(ccfg, scfg, id, opts)
	offersEMS := false
	if res.UC != nil && res.UC.HandshakeState.Hello != nil {
		offersEMS = res.UC.HandshakeState.Hello.Ems
	}
	var cmaster []byte
	if cs, ok := cache.Get("example.com"); ok && cs != nil && res.CErr == nil {
		cmaster = cs.MasterSecret()
	}
	smu.Lock()
	sm := append([]byte(nil), smaster...)
	smu.Unlock()
	p := map[string]any{"vers": c.Vers, "suite": c.Suite, "secret": hlib.Ints(secret), "ems": c.EMS,
		"tvers": c.Vers, "tsuite": c.Suite, "tsecret": hlib.Ints(tsecret), "tems": c.TEMS,
		"sealed": c.Sealed, "offersEMS": offersEMS, "hello": c.Hello, "via": c.Via, "certs": c.Certs, "secvia": c.SecVia}
	o := map[string]any{"cerr": hlib.ErrStr(res.CErr) + terrStr(terr) + seterr, "serr": hlib.ErrStr(res.SErr),
		"cresumed": res.CS.DidResume, "sresumed": res.SS.DidResume,
		"cvers": int(res.CS.Version), "svers": int(res.SS.Version), "csuite": int(res.CS.CipherSuite), "ssuite": int(res.SS.CipherSuite),
		"cmaster": hlib.Ints(cmaster), "smaster": hlib.Ints(sm), "echo": res.EchoOK}
	return map[string]any{"ev": "Forge", "p": p, "o": o}
}

func terrStr(err error) string {
	if err == nil {
		return ""
	}
	return "ticket: " + err.Error()
}

func init() {
	// tickets: {"scenarios":[{"id":n,"ops":[…]}]} - histories over one server Config (see spec/Tickets_Trace.tla for the events)
	hlib.Register("tickets", func(in []byte, out *hlib.Out) error {
		var req struct {
			Scenarios []struct {
				ID  int    `json:"id"`
				Ops []tkOp `json:"ops"`
			} `json:"scenarios"`
		}
		if err := json.Unmarshal(in, &req); err != nil {
			return err
		}
		for _, sc := range req.Scenarios {
			runTicketScenario(sc.ID, sc.Ops, out)
		}
		return nil
	})
	// secrets: {"cases":[{id,len,secvia}]} - what MasterSecret() returns for a secret of the given length
	hlib.Register("secrets", func(in []byte, out *hlib.Out) error {
		var req struct {
			Cases []struct {
				ID     int    `json:"id"`
				Len    int    `json:"len"`
				SecVia string `json:"secvia"`
			} `json:"cases"`
		}
		if err := json.Unmarshal(in, &req); err != nil {
			return err
		}
		for _, c := range req.Cases {
			r := mrand.New(mrand.NewSource(hlib.Seed()*32452843 + int64(c.ID)))
			secret := make([]byte, c.Len)
			r.Read(secret)
			supplied := hlib.Ints(secret) // logged before the library sees the slice
			css := forgedState(c.SecVia, []byte{1}, tls.VersionTLS13, tls.TLS_AES_128_GCM_SHA256, secret, nil, nil)
			out.Emit(map[string]any{"ev": "Reset", "id": c.ID})
			out.Emit(map[string]any{"ev": "Secret", "secvia": c.SecVia, "supplied": supplied, "got": hlib.Ints(css.MasterSecret())})
		}
		return nil
	})
	// forge: {"cases":[{id,vers,suite,hello,ems,tems,sealed,samesecret,via,certs}]} - one handshake per case
	hlib.Register("forge", func(in []byte, out *hlib.Out) error {
		var req struct {
			Cases []forgeCase `json:"cases"`
		}
		if err := json.Unmarshal(in, &req); err != nil {
			return err
		}
		setupPKI()
		res := make([]map[string]any, len(req.Cases))
		hlib.Parallel(len(req.Cases), func(i int) { res[i] = runForge(req.Cases[i]) })
		for i, c := range req.Cases {
			out.Emit(map[string]any{"ev": "Reset", "id": c.ID})
			out.Emit(res[i])
		}
		return nil
	})
}
