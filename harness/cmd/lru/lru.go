package main

import (
	"encoding/json"
	"fmt"
	mrand "math/rand"
	"reflect"
	"runtime"
	"sort"
	"sync"
	"sync/atomic"
	"container/list"
	"unsafe"

	tls "github.com/refraction-networking/utls"
	"verif/harness/hlib"
)

var spin atomic.Int64

// One call of a scenario: op "Put" | "Get", key number k, value number v (0 = nil *ClientSessionState).
type lruOp struct {
	Op string `json:"op"`
	K  int    `json:"k"`
	V  int    `json:"v"`
}

func keyName(k int) string { return fmt.Sprintf("session-key-%d", k) }

// values gives every non-nil value number of a scenario its own *ClientSessionState and remembers which
// pointer belongs to which number, so that a returned pointer can be logged by identity.
type values struct {
	ptr map[int]*tls.ClientSessionState
	id  map[*tls.ClientSessionState]int
}

func newValues() *values {
	return &values{ptr: map[int]*tls.ClientSessionState{}, id: map[*tls.ClientSessionState]int{}}
}

func (vs *values) prepare(ops []lruOp) {
	for _, o := range ops {
		if o.Op == "Put" && o.V != 0 {
			if _, ok := vs.ptr[o.V]; !ok {
				// distinct allocations: a session ticket makes the pointee non-zero-sized and distinguishable
				p := tls.MakeClientSessionState([]byte{byte(o.V), byte(o.V >> 8)}, tls.VersionTLS12, 0, nil, nil, nil)
				vs.ptr[o.V] = p
				vs.id[p] = o.V
			}
		}
	}
}

// name of a returned pointer: 0 for nil, the value number it was stored under, -1 if never stored
func (vs *values) name(p *tls.ClientSessionState) int {
	if p == nil {
		return 0
	}
	if v, ok := vs.id[p]; ok {
		return v
	}
	return -1
}

// sizes reads len(c.m) and c.q.Len() of the real cache (unexported, read-only through reflection).
func sizes(c tls.ClientSessionCache) (mlen, qlen int) {
	rv := reflect.ValueOf(c)
	for rv.Kind() == reflect.Ptr || rv.Kind() == reflect.Interface {
		rv = rv.Elem()
	}
	m := rv.FieldByName("m")
	q := rv.FieldByName("q")
	if !m.IsValid() || !q.IsValid() || m.Kind() != reflect.Map {
		panic("lruSessionCache no longer has fields m (map) and q (*list.List): cannot observe its size")
	}
	for q.Kind() == reflect.Ptr {
		q = q.Elem()
	}
	ln := q.FieldByName("len")
	if !ln.IsValid() {
		panic("container/list.List has no field len")
	}
	return m.Len(), int(ln.Int())
}

// order reads the recency list of the real cache, front (most recently used) to back (next eviction victim), as key
// numbers (0 for a key name the scenario never used).  Read-only: the list is reached through the unexported field q.
func order(c tls.ClientSessionCache) []int {
	rv := reflect.ValueOf(c)
	for rv.Kind() == reflect.Ptr || rv.Kind() == reflect.Interface {
		rv = rv.Elem()
	}
	q := rv.FieldByName("q")
	if !q.IsValid() || q.Kind() != reflect.Ptr || q.Type().Elem() != reflect.TypeOf(list.List{}) {
		panic("lruSessionCache no longer has a field q of type *list.List: cannot observe the recency order")
	}
	l := (*list.List)(unsafe.Pointer(q.Pointer()))
	out := []int{}
	for e := l.Front(); e != nil; e = e.Next() {
		ev := reflect.ValueOf(e.Value)
		for ev.Kind() == reflect.Ptr || ev.Kind() == reflect.Interface {
			ev = ev.Elem()
		}
		f := ev.FieldByName("sessionKey")
		if !f.IsValid() || f.Kind() != reflect.String {
			panic("lruSessionCacheEntry no longer has a string field sessionKey")
		}
		k := 0
		fmt.Sscanf(f.String(), "session-key-%d", &k)
		out = append(out, k)
	}
	return out
}

// perform makes one call on the real cache and returns what came back.
func perform(c tls.ClientSessionCache, vs *values, o lruOp) (ok bool, rv int, panicked string) {
	defer func() {
		if p := recover(); p != nil {
			panicked = fmt.Sprint(p)
		}
	}()
	switch o.Op {
	case "Put":
		var p *tls.ClientSessionState
		if o.V != 0 {
			p = vs.ptr[o.V]
		}
		c.Put(keyName(o.K), p)
		return true, 0, ""
	case "Get":
		p, hit := c.Get(keyName(o.K))
		return hit, vs.name(p), ""
	}
	panic("harness: unknown op " + o.Op)
}

func init() {
	// lru_seq: {"scenarios":[{"id":n,"cap":c,"ops":[{op,k,v}…]}]}; one goroutine, calls in order.
	// Events: Reset{id,cap}, then per call Do{t:0,op,k,v,ok,rv,mlen,qlen}.
	hlib.Register("lru_seq", func(in []byte, out *hlib.Out) error {
		var req struct {
			Scenarios []struct {
				ID  int     `json:"id"`
				Cap int     `json:"cap"`
				Ops []lruOp `json:"ops"`
			} `json:"scenarios"`
		}
		if err := json.Unmarshal(in, &req); err != nil {
			return err
		}
		for _, sc := range req.Scenarios {
			c := tls.NewLRUClientSessionCache(sc.Cap)
			vs := newValues()
			vs.prepare(sc.Ops)
			out.Emit(map[string]any{"ev": "Reset", "id": sc.ID, "cap": sc.Cap})
			for _, o := range sc.Ops {
				ok, rv, pn := perform(c, vs, o)
				if pn != "" {
					out.Emit(map[string]any{"ev": "Panic", "t": 0, "op": o.Op, "k": o.K, "v": o.V, "panic": pn})
					break
				}
				ml, ql := sizes(c)
				out.Emit(map[string]any{"ev": "Do", "t": 0, "op": o.Op, "k": o.K, "v": o.V, "ok": ok, "rv": rv, "mlen": ml, "qlen": ql, "order": order(c)})
			}
		}
		return nil
	})

	// lru_conc: {"rounds":[{"id":n,"cap":c,"progs":[[{op,k,v}…], …],"yield":y}]}: goroutine t (1-based) runs
	// progs[t-1] on one shared cache.  Every goroutine stamps "about to call" and "has returned" with a
	// process-wide atomic counter (no wall clock); the log of a round is its events in stamp order, so a
	// Ret that precedes a Call in the log really returned before that call started.
	// y > 0: before a call each goroutine yields the processor with probability 1/y, else pauses briefly (seeded).
	hlib.Register("lru_conc", func(in []byte, out *hlib.Out) error {
		var req struct {
			Rounds []struct {
				ID    int       `json:"id"`
				Cap   int       `json:"cap"`
				Progs [][]lruOp `json:"progs"`
				Yield int       `json:"yield"`
			} `json:"rounds"`
		}
		if err := json.Unmarshal(in, &req); err != nil {
			return err
		}
		type stamped struct {
			at int64
			ev map[string]any
		}
		for _, rd := range req.Rounds {
			c := tls.NewLRUClientSessionCache(rd.Cap)
			vs := newValues()
			for _, p := range rd.Progs {
				vs.prepare(p)
			}
			var clock int64
			logs := make([][]stamped, len(rd.Progs))
			waiting := int32(len(rd.Progs)) // spin barrier: all goroutines leave it within nanoseconds of each other
			var wg sync.WaitGroup
			for gi := range rd.Progs {
				wg.Add(1)
				go func(gi int) {
					defer wg.Done()
					t := gi + 1
					rnd := mrand.New(mrand.NewSource(hlib.Seed()*7919 + int64(rd.ID)*31 + int64(t)))
					lg := make([]stamped, 0, 2*len(rd.Progs[gi])+2)
					atomic.AddInt32(&waiting, -1)
					for atomic.LoadInt32(&waiting) > 0 {
						runtime.Gosched()
					}
					for i, o := range rd.Progs[gi] {
						if rd.Yield > 0 {
							if rnd.Intn(rd.Yield) == 0 {
								runtime.Gosched()
							} else {
								for n := rnd.Intn(64 * rd.Yield); n > 0; n-- { // a short seeded pause de-synchronises the goroutines
									spin.Add(1)
								}
							}
						}
						// nothing but the call itself happens between the two stamps
						ce := map[string]any{"ev": "Call", "t": t, "seq": i + 1, "op": o.Op, "k": o.K, "v": o.V}
						lg = append(lg, stamped{0, ce}, stamped{})[:len(lg)+1]
						cat := atomic.AddInt64(&clock, 1)
						ok, rv, pn := perform(c, vs, o)
						at := atomic.AddInt64(&clock, 1)
						lg[len(lg)-1].at = cat
						if pn != "" {
							lg = append(lg, stamped{at, map[string]any{"ev": "Panic", "t": t, "seq": i + 1, "panic": pn}})
							break
						}
						lg = append(lg, stamped{at, map[string]any{"ev": "Ret", "t": t, "seq": i + 1, "ok": ok, "rv": rv}})
					}
					logs[gi] = lg
				}(gi)
			}
			wg.Wait()
			var all []stamped
			for _, lg := range logs {
				all = append(all, lg...)
			}
			sort.Slice(all, func(i, j int) bool { return all[i].at < all[j].at })
			out.Emit(map[string]any{"ev": "Reset", "id": rd.ID, "cap": rd.Cap})
			for _, s := range all {
				out.Emit(s.ev)
			}
			ml, ql := sizes(c)
			out.Emit(map[string]any{"ev": "Final", "mlen": ml, "qlen": ql, "order": order(c)})
		}
		return nil
	})
}
