// wireb: harness of the wire family B (C05 padding policy, C06 fingerprint round trip).
// It builds real UConns, runs FingerprintClientHello / ApplyPreset / BuildHandshakeState and logs the
// wire bytes and errors it observed. It contains no expected values and no normalisation: TLC judges.
// usage: wireb <command> <in.json> <out.ndjson>
package main

import "verif/harness/hlib"

func main() { hlib.Main() }
