package main

import (
	"encoding/json"
	"fmt"

	tls "github.com/refraction-networking/utls"
	"verif/harness/hlib"
)

// source of hello A
type srcDesc struct {
	Kind    string    `json:"kind"`    // parrot | randomized | custom | capture
	ID      string    `json:"id"`      // parrot / randomized ClientHelloID name
	Seed    []int     `json:"seed"`    // randomized: 32-byte PRNG seed
	Spec    *specDesc `json:"spec"`    // custom: descriptor list
	Raw     []int     `json:"raw"`     // capture: ClientHello handshake message
	RecVers int       `json:"recvers"` // capture: version field of the TLS record that carried it
	Alpn    *alpnEdit `json:"alpn"`    // parrot: optional edit of the ALPN extension of the spec
	Ticket  int       `json:"ticket"`  // parrot/custom: length of an injected session ticket (0 = none)
}

type alpnEdit struct {
	Drop   bool     `json:"drop"`
	Protos []string `json:"protos"`
}

type fpFlags struct {
	Blunt   bool `json:"blunt"`
	Pad     bool `json:"pad"`
	RealPSK bool `json:"realpsk"`
}

type rtCase struct {
	SC    int     `json:"sc"`
	Src   srcDesc `json:"src"`
	SNI   string  `json:"sni"`   // server name used for A
	SNI2  string  `json:"sni2"`  // server name used for B and C
	Flags fpFlags `json:"flags"` // Fingerprinter options
	Omit  bool    `json:"omit"`  // Config.OmitEmptyPsk
	Steps int     `json:"steps"` // number of fingerprint/re-apply rounds (0: only A, 1: A,B, 2: A,B,C)
}

func config(sni string, omit bool) *tls.Config {
	cfg := &tls.Config{ServerName: sni, OmitEmptyPsk: omit}
	if sni == "" {
		cfg.InsecureSkipVerify = true
	}
	return cfg
}

func injectTicket(u *tls.UConn, n int) error {
	if n <= 0 {
		return nil
	}
	t := make([]byte, n)
	for i := range t {
		t[i] = byte(0xa0 + i%7)
	}
	return u.SetSessionTicketExtension(&tls.SessionTicketExtension{Session: &tls.SessionState{}, Ticket: t, Initialized: true})
}

func editALPN(spec *tls.ClientHelloSpec, ed *alpnEdit) {
	if ed == nil {
		return
	}
	var out []tls.TLSExtension
	for _, e := range spec.Extensions {
		if a, ok := e.(*tls.ALPNExtension); ok {
			if ed.Drop {
				continue
			}
			a.AlpnProtocols = append([]string{}, ed.Protos...)
		}
		out = append(out, e)
	}
	spec.Extensions = out
}

// helloFromSource puts hello A of a scenario on the wire (or takes the shipped capture).
func helloFromSource(c *rtCase) (msg, record []byte, errs string, pn string) {
	s := &c.Src
	if s.Kind == "capture" {
		msg = hlib.Unints(s.Raw)
		record = append([]byte{22, byte(s.RecVers >> 8), byte(s.RecVers), byte(len(msg) >> 8), byte(len(msg))}, msg...)
		return msg, record, "", ""
	}
	_, wire, perr, herr, pn := wireHello(func(conn *hlib.BufConn) (*tls.UConn, error) {
		cfg := config(c.SNI, c.Omit)
		if s.Ticket > 0 {
			cfg.ClientSessionCache = tls.NewLRUClientSessionCache(4)
		}
		var u *tls.UConn
		switch s.Kind {
		case "parrot":
			id, err := hlib.LookupID(s.ID)
			if err != nil {
				return nil, err
			}
			if s.Alpn == nil {
				u = tls.UClient(conn, cfg, id)
			} else {
				spec, err := tls.UTLSIdToSpec(id)
				if err != nil {
					return nil, err
				}
				editALPN(&spec, s.Alpn)
				u = tls.UClient(conn, cfg, tls.HelloCustom)
				if err := injectTicket(u, s.Ticket); err != nil { // before ApplyPreset, which adopts the injected extension
					return u, err
				}
				return u, u.ApplyPreset(&spec)
			}
		case "randomized":
			id, err := hlib.LookupID(s.ID)
			if err != nil {
				return nil, err
			}
			if len(s.Seed) > 0 {
				var seed tls.PRNGSeed
				copy(seed[:], hlib.Unints(s.Seed))
				id.Seed = &seed
			}
			u = tls.UClient(conn, cfg, id)
		case "custom":
			spec, err := buildSpec(s.Spec)
			if err != nil {
				return nil, err
			}
			u = tls.UClient(conn, cfg, tls.HelloCustom)
			if err := injectTicket(u, s.Ticket); err != nil {
				return u, err
			}
			return u, u.ApplyPreset(spec)
		default:
			return nil, fmt.Errorf("harness: unknown source kind %q", s.Kind)
		}
		return u, injectTicket(u, s.Ticket)
	})
	msg, record = firstHello(wire)
	e := hlib.ErrStr(perr)
	if msg == nil && e == "" {
		e = hlib.ErrStr(herr)
	}
	return msg, record, e, pn
}

// reapply: record -> Fingerprinter.FingerprintClientHello -> HelloCustom UConn -> ApplyPreset -> handshake -> wire hello
func reapply(record []byte, c *rtCase) (msg, rec []byte, ferr, aerr string, pn string) {
	var spec *tls.ClientHelloSpec
	func() {
		defer func() {
			if p := recover(); p != nil {
				pn = "fingerprint: " + fmt.Sprint(p)
			}
		}()
		f := &tls.Fingerprinter{AllowBluntMimicry: c.Flags.Blunt, AlwaysAddPadding: c.Flags.Pad, RealPSKResumption: c.Flags.RealPSK}
		var err error
		spec, err = f.FingerprintClientHello(record)
		ferr = hlib.ErrStr(err)
	}()
	if spec == nil || pn != "" {
		return nil, nil, ferr, "", pn
	}
	_, wire, perr, herr, pn2 := wireHello(func(conn *hlib.BufConn) (*tls.UConn, error) {
		u := tls.UClient(conn, config(c.SNI2, c.Omit), tls.HelloCustom)
		if err := u.ApplyPreset(spec); err != nil {
			return u, err
		}
		return u, u.BuildHandshakeState()
	})
	msg, rec = firstHello(wire)
	aerr = hlib.ErrStr(perr)
	if msg == nil && aerr == "" {
		aerr = hlib.ErrStr(herr)
	}
	return msg, rec, ferr, aerr, pn2
}

func ints(b []byte) []int {
	if b == nil {
		return []int{}
	}
	return hlib.Ints(b)
}

// roundtrip: {"cases":[rtCase]} -> per case {ev:"RT", sc, a, b, c (wire ClientHello handshake messages, [] if none),
// aerr0 (building A), ferr1/aerr1 (fingerprint A / re-apply -> B), ferr2/aerr2 (fingerprint B / re-apply -> C), panic}
func init() {
	hlib.Register("roundtrip", func(in []byte, out *hlib.Out) error {
		var req struct{ Cases []rtCase }
		if err := json.Unmarshal(in, &req); err != nil {
			return err
		}
		res := make([]map[string]any, len(req.Cases))
		hlib.Parallel(len(req.Cases), func(i int) {
			c := &req.Cases[i]
			ev := map[string]any{"ev": "RT", "sc": c.SC, "a": []int{}, "b": []int{}, "c": []int{},
				"aerr0": "", "ferr1": "", "aerr1": "", "ferr2": "", "aerr2": "", "panic": ""}
			res[i] = ev
			a, arec, e0, pn := helloFromSource(c)
			ev["a"], ev["aerr0"], ev["panic"] = ints(a), e0, pn
			if a == nil || c.Steps < 1 {
				return
			}
			b, brec, f1, a1, pn := reapply(arec, c)
			ev["b"], ev["ferr1"], ev["aerr1"] = ints(b), f1, a1
			if pn != "" {
				ev["panic"] = pn
			}
			if b == nil || c.Steps < 2 {
				return
			}
			cc, _, f2, a2, pn := reapply(brec, c)
			ev["c"], ev["ferr2"], ev["aerr2"] = ints(cc), f2, a2
			if pn != "" {
				ev["panic"] = pn
			}
		})
		for _, e := range res {
			out.Emit(e)
		}
		return nil
	})
}
