package main

import (
	"encoding/json"
	"fmt"
	"sync"

	tls "github.com/refraction-networking/utls"
	"verif/harness/hlib"
)

type reCase struct {
	SC    int    `json:"sc"`
	ID    string `json:"id"`
	SNI   string `json:"sni"`
	Mode  string `json:"mode"`  // "sni": BuildHandshakeState, SetSNI(sni2), MarshalClientHello, Handshake; "hrr": real HelloRetryRequest
	SNI2  string `json:"sni2"`  // sni mode
	Group int    `json:"group"` // hrr mode: the only group the server accepts
}

var (
	pkiOnce sync.Once
	srvCert tls.Certificate
)

func serverCert() tls.Certificate {
	pkiOnce.Do(func() { srvCert = hlib.NewPKI().Std("ecdsa", "example.com") })
	return srvCert
}

func cp(b []byte) []byte { return append([]byte{}, b...) }

// remarshal: {"cases":[reCase]} -> per case
//
//	{ev:"RM", sc, mode, h1, h2, w, err, panic}
//
// sni mode: h1 = Hello.Raw after BuildHandshakeState, h2 = Hello.Raw after SetSNI + MarshalClientHello, w = the
// ClientHello the following Handshake put on the wire.  hrr mode: h1, h2 = first and second ClientHello on the wire of
// a real handshake with a server that only accepts Group (w = h2).
func init() {
	hlib.Register("remarshal", func(in []byte, out *hlib.Out) error {
		var req struct{ Cases []reCase }
		if err := json.Unmarshal(in, &req); err != nil {
			return err
		}
		res := make([]map[string]any, len(req.Cases))
		hlib.Parallel(len(req.Cases), func(i int) {
			c := &req.Cases[i]
			ev := map[string]any{"ev": "RM", "sc": c.SC, "mode": c.Mode, "h1": []int{}, "h2": []int{}, "w": []int{}, "err": "", "serr": "", "panic": ""}
			res[i] = ev
			id, err := hlib.LookupID(c.ID)
			if err != nil {
				ev["err"] = err.Error()
				return
			}
			switch c.Mode {
			case "sni":
				var h1, h2 []byte
				_, wire, perr, herr, pn := wireHello(func(conn *hlib.BufConn) (*tls.UConn, error) {
					u := tls.UClient(conn, config(c.SNI, true), id)
					if err := u.BuildHandshakeState(); err != nil {
						return u, err
					}
					h1 = cp(u.HandshakeState.Hello.Raw)
					u.SetSNI(c.SNI2)
					if err := u.MarshalClientHello(); err != nil {
						return u, err
					}
					h2 = cp(u.HandshakeState.Hello.Raw)
					return u, nil
				})
				w, _ := firstHello(wire)
				ev["h1"], ev["h2"], ev["w"], ev["panic"] = ints(h1), ints(h2), ints(w), pn
				ev["err"] = hlib.ErrStr(perr)
				if w == nil && perr == nil {
					ev["err"] = hlib.ErrStr(herr)
				}
			case "hrr":
				ccfg := &tls.Config{ServerName: c.SNI, InsecureSkipVerify: true, OmitEmptyPsk: true}
				scfg := &tls.Config{Certificates: []tls.Certificate{serverCert()}, MinVersion: tls.VersionTLS13,
					CurvePreferences: []tls.CurveID{tls.CurveID(c.Group)}}
				r := hlib.RunHandshake(ccfg, scfg, id, hlib.HSOpts{})
				chs := hlib.ClientHellos(r.CWire)
				if len(chs) > 0 {
					ev["h1"] = ints(chs[0])
				}
				if len(chs) > 1 {
					ev["h2"], ev["w"] = ints(chs[1]), ints(chs[1])
				}
				ev["err"], ev["serr"], ev["panic"] = hlib.ErrStr(r.CErr), hlib.ErrStr(r.SErr), r.CPanic
			default:
				ev["err"] = fmt.Sprintf("harness: unknown mode %q", c.Mode)
			}
		})
		for _, e := range res {
			out.Emit(e)
		}
		return nil
	})
}
