package main

import (
	"fmt"
	"reflect"
	"sync"
	"time"

	tls "github.com/refraction-networking/utls"
	"verif/harness/hlib"
)

// ---------------------------------------------------------------- descriptor -> ClientHelloSpec (inverse of dump.go)

var extKinds = map[string]func() tls.TLSExtension{
	"SNIExtension":                        func() tls.TLSExtension { return &tls.SNIExtension{} },
	"StatusRequestExtension":              func() tls.TLSExtension { return &tls.StatusRequestExtension{} },
	"StatusRequestV2Extension":            func() tls.TLSExtension { return &tls.StatusRequestV2Extension{} },
	"SupportedCurvesExtension":            func() tls.TLSExtension { return &tls.SupportedCurvesExtension{} },
	"SupportedPointsExtension":            func() tls.TLSExtension { return &tls.SupportedPointsExtension{} },
	"SignatureAlgorithmsExtension":        func() tls.TLSExtension { return &tls.SignatureAlgorithmsExtension{} },
	"SignatureAlgorithmsCertExtension":    func() tls.TLSExtension { return &tls.SignatureAlgorithmsCertExtension{} },
	"ALPNExtension":                       func() tls.TLSExtension { return &tls.ALPNExtension{} },
	"SCTExtension":                        func() tls.TLSExtension { return &tls.SCTExtension{} },
	"UtlsPaddingExtension":                func() tls.TLSExtension { return &tls.UtlsPaddingExtension{} },
	"ExtendedMasterSecretExtension":       func() tls.TLSExtension { return &tls.ExtendedMasterSecretExtension{} },
	"FakeTokenBindingExtension":           func() tls.TLSExtension { return &tls.FakeTokenBindingExtension{} },
	"UtlsCompressCertExtension":           func() tls.TLSExtension { return &tls.UtlsCompressCertExtension{} },
	"FakeRecordSizeLimitExtension":        func() tls.TLSExtension { return &tls.FakeRecordSizeLimitExtension{} },
	"FakeDelegatedCredentialsExtension":   func() tls.TLSExtension { return &tls.FakeDelegatedCredentialsExtension{} },
	"SessionTicketExtension":              func() tls.TLSExtension { return &tls.SessionTicketExtension{} },
	"UtlsPreSharedKeyExtension":           func() tls.TLSExtension { return &tls.UtlsPreSharedKeyExtension{} },
	"FakePreSharedKeyExtension":           func() tls.TLSExtension { return &tls.FakePreSharedKeyExtension{} },
	"SupportedVersionsExtension":          func() tls.TLSExtension { return &tls.SupportedVersionsExtension{} },
	"CookieExtension":                     func() tls.TLSExtension { return &tls.CookieExtension{} },
	"PSKKeyExchangeModesExtension":        func() tls.TLSExtension { return &tls.PSKKeyExchangeModesExtension{} },
	"KeyShareExtension":                   func() tls.TLSExtension { return &tls.KeyShareExtension{} },
	"NPNExtension":                        func() tls.TLSExtension { return &tls.NPNExtension{} },
	"ApplicationSettingsExtension":        func() tls.TLSExtension { return &tls.ApplicationSettingsExtension{} },
	"ApplicationSettingsExtensionNew":     func() tls.TLSExtension { return &tls.ApplicationSettingsExtensionNew{} },
	"FakeChannelIDExtension":              func() tls.TLSExtension { return &tls.FakeChannelIDExtension{} },
	"RenegotiationInfoExtension":          func() tls.TLSExtension { return &tls.RenegotiationInfoExtension{} },
	"GREASEEncryptedClientHelloExtension": func() tls.TLSExtension { return &tls.GREASEEncryptedClientHelloExtension{} },
	"UtlsGREASEExtension":                 func() tls.TLSExtension { return &tls.UtlsGREASEExtension{} },
	"GenericExtension":                    func() tls.TLSExtension { return &tls.GenericExtension{} },
}

func num(j any) (uint64, error) {
	switch x := j.(type) {
	case float64:
		return uint64(x), nil
	case []any: // 8-byte big-endian
		var u uint64
		for _, b := range x {
			f, ok := b.(float64)
			if !ok {
				return 0, fmt.Errorf("bad wide integer %v", j)
			}
			u = u<<8 | uint64(f)
		}
		return u, nil
	}
	return 0, fmt.Errorf("not a number: %v", j)
}

// fromJ fills v (settable) from a JSON value produced by dump.go's toJ.
func fromJ(v reflect.Value, j any) error {
	switch v.Kind() {
	case reflect.Bool:
		b, ok := j.(bool)
		if !ok {
			return fmt.Errorf("not a bool: %v", j)
		}
		v.SetBool(b)
	case reflect.String:
		arr, ok := j.([]any)
		if !ok {
			return fmt.Errorf("string not a byte array: %v", j)
		}
		bs := make([]byte, len(arr))
		for i, x := range arr {
			f, _ := x.(float64)
			bs[i] = byte(f)
		}
		v.SetString(string(bs))
	case reflect.Uint8, reflect.Uint16, reflect.Uint32, reflect.Uint64, reflect.Uint:
		u, err := num(j)
		if err != nil {
			return err
		}
		v.SetUint(u)
	case reflect.Int, reflect.Int64, reflect.Int32, reflect.Int16, reflect.Int8:
		f, ok := j.(float64)
		if !ok {
			return fmt.Errorf("not an int: %v", j)
		}
		v.SetInt(int64(f))
	case reflect.Slice:
		arr, ok := j.([]any)
		if !ok {
			return fmt.Errorf("not an array: %v", j)
		}
		s := reflect.MakeSlice(v.Type(), len(arr), len(arr))
		for i := range arr {
			if err := fromJ(s.Index(i), arr[i]); err != nil {
				return err
			}
		}
		v.Set(s)
	case reflect.Struct:
		m, ok := j.(map[string]any)
		if !ok {
			return fmt.Errorf("not an object: %v", j)
		}
		t := v.Type()
		for i := 0; i < v.NumField(); i++ {
			f := t.Field(i)
			if !f.IsExported() || f.Anonymous {
				continue
			}
			x, ok := m[f.Name]
			if !ok {
				continue
			}
			if err := fromJ(v.Field(i), x); err != nil {
				return fmt.Errorf("%s: %w", f.Name, err)
			}
		}
	default:
		return fmt.Errorf("unsupported kind %s", v.Kind())
	}
	return nil
}

type extDesc struct {
	Kind  string `json:"kind"`
	F     any    `json:"f"` // object of exported fields (an empty one may arrive as [] from TLC)
	Style string `json:"style"`
}

type specDesc struct {
	Min    int       `json:"min"`
	Max    int       `json:"max"`
	Suites []int     `json:"suites"`
	Comp   []int     `json:"comp"`
	Exts   []extDesc `json:"exts"`
}

func buildExt(d extDesc) (tls.TLSExtension, error) {
	mk, ok := extKinds[d.Kind]
	if !ok {
		return nil, fmt.Errorf("harness: unknown extension kind %q", d.Kind)
	}
	e := mk()
	if m, ok := d.F.(map[string]any); ok {
		if err := fromJ(reflect.ValueOf(e).Elem(), m); err != nil {
			return nil, fmt.Errorf("harness: %s: %w", d.Kind, err)
		}
	}
	if p, ok := e.(*tls.UtlsPaddingExtension); ok {
		p.PaddingLen, p.WillPad = 0, false
		if d.Style == "boring" {
			p.GetPaddingLen = tls.BoringPaddingStyle
		}
	}
	return e, nil
}

func buildSpec(d *specDesc) (*tls.ClientHelloSpec, error) {
	sp := &tls.ClientHelloSpec{TLSVersMin: uint16(d.Min), TLSVersMax: uint16(d.Max), CompressionMethods: hlib.Unints(d.Comp)}
	for _, s := range d.Suites {
		sp.CipherSuites = append(sp.CipherSuites, uint16(s))
	}
	for _, x := range d.Exts {
		e, err := buildExt(x)
		if err != nil {
			return nil, err
		}
		sp.Extensions = append(sp.Extensions, e)
	}
	return sp, nil
}

// ---------------------------------------------------------------- wire observation

// wireHello starts a real handshake on a pipe whose peer hangs up as soon as the client has written
// something, and returns the bytes the client put on the wire together with the handshake error.
func wireHello(uc func(c *hlib.BufConn) (*tls.UConn, error)) (u *tls.UConn, wire []byte, preperr, hserr error, panicked string) {
	c, s := hlib.BufPipe()
	c.SetDeadline(time.Now().Add(5 * time.Second))
	var once sync.Once
	c.OnWrite = func([]byte) { once.Do(func() { go s.Close() }) }
	func() {
		defer func() {
			if p := recover(); p != nil {
				panicked = fmt.Sprint(p)
			}
		}()
		u, preperr = uc(c)
		if u != nil && preperr == nil {
			hserr = u.Handshake()
		}
	}()
	c.Close()
	s.Close()
	return u, c.Written(), preperr, hserr, panicked
}

// firstHello returns the first ClientHello handshake message on the wire and the TLS record that carried it.
func firstHello(wire []byte) (msg, record []byte) {
	chs := hlib.ClientHellos(wire)
	if len(chs) == 0 {
		return nil, nil
	}
	for _, r := range hlib.Records(wire) {
		if r.Typ == 22 {
			record = append([]byte{r.Typ, byte(r.Vers >> 8), byte(r.Vers)}, byte(len(r.Payload)>>8), byte(len(r.Payload)))
			record = append(record, r.Payload...)
			break
		}
	}
	return chs[0], record
}
