package main

import (
	tls "github.com/refraction-networking/utls"
	"verif/harness/hlib"
)

// dumpsuites: -> one event {"suites": [VerifSuiteInfo...]} (the library's cipher-suite tables, read through the verif accessor)
func init() {
	hlib.Register("dumpsuites", func(in []byte, out *hlib.Out) error {
		out.Emit(map[string]any{"suites": tls.VerifSuites()})
		return nil
	})
}
