package main

import (
	"encoding/json"
	"fmt"
	"sync"
	"time"

	tls "github.com/refraction-networking/utls"
	"verif/harness/hlib"
)

// wireHello starts a real handshake on a pipe whose peer hangs up as soon as the client has written
// something, and returns the bytes the client put on the wire together with the handshake error.
func wireHello(uc func(c *hlib.BufConn) *tls.UConn) (u *tls.UConn, wire []byte, err error, panicked string) {
	c, s := hlib.BufPipe()
	c.SetDeadline(time.Now().Add(3 * time.Second))
	var once sync.Once
	c.OnWrite = func([]byte) { once.Do(func() { go s.Close() }) }
	func() {
		defer func() {
			if p := recover(); p != nil {
				panicked = fmt.Sprint(p)
			}
		}()
		u = uc(c)
		if u != nil {
			err = u.Handshake()
		}
	}()
	c.Close()
	return u, c.Written(), err, panicked
}

type helloCase struct {
	ID    string   `json:"id"`
	SNI   string   `json:"sni"`
	ALPN  []string `json:"alpn"`
	N     int      `json:"n"`
	Omit  bool     `json:"omit"`
	Tag   string   `json:"tag"`
	Quiet bool     `json:"quiet"`
	// SharedWith: another ClientHelloID that is built on the same *Config between this connection's
	// BuildHandshakeState and its Handshake
	SharedWith string `json:"shared_with"`
	// CfgMin / CfgMax: version bounds the caller left in the Config handed to UClient (0 = unset)
	CfgMin int `json:"cfg_min"`
	CfgMax int `json:"cfg_max"`
	// SNI2: the hello is first built for SNI, then SetSNI(SNI2) is called and the connection handshakes; the hello on
	// the wire (a second marshal over the state of the first) must be the spec's hello for SNI2
	SNI2 string `json:"sni2"`
	// FP: every connection of the case is a HelloCustom connection whose spec is fingerprinted from ONE captured hello
	// of the parrot (the capture is made once per case)
	FP    bool `json:"fp"`
	fpRaw []byte
}

// hellos: {"cases":[{id,sni,alpn,n,omit}]} -> per connection {ev:"Hello", id, sni, k, raw (wire bytes of
// the first ClientHello handshake message), hsraw (HandshakeState.Hello.Raw after the attempt), builderr}
func init() {
	hlib.Register("hellos", func(in []byte, out *hlib.Out) error {
		var req struct {
			Cases []helloCase
			// PreFP: before anything else, a hello of each of these parrots is built and fingerprinted in this very
			// process (fingerprinting must not change what later connections of any parrot send)
			PreFP []string `json:"pre_fp"`
		}
		if err := json.Unmarshal(in, &req); err != nil {
			return err
		}
		for _, name := range req.PreFP {
			id0, err := hlib.LookupID(name)
			if err != nil {
				continue
			}
			for k := 0; k < 8; k++ {
				c0, _ := hlib.BufPipe()
				u0 := tls.UClient(c0, &tls.Config{ServerName: "fingerprinted.example", OmitEmptyPsk: true}, id0)
				if err := u0.BuildHandshakeState(); err == nil {
					raw := u0.HandshakeState.Hello.Raw
					(&tls.Fingerprinter{}).FingerprintClientHello(append([]byte{22, 3, 1, byte(len(raw) >> 8), byte(len(raw))}, raw...))
				}
			}
		}
		type job struct {
			c helloCase
			k int
		}
		var jobs []job
		for _, c := range req.Cases {
			if c.N == 0 {
				c.N = 1
			}
			if c.FP {
				if id0, err := hlib.LookupID(c.ID); err == nil {
					c0, _ := hlib.BufPipe()
					u0 := tls.UClient(c0, &tls.Config{ServerName: c.SNI, OmitEmptyPsk: true}, id0)
					if err := u0.BuildHandshakeState(); err == nil {
						raw := u0.HandshakeState.Hello.Raw
						c.fpRaw = append([]byte{22, 3, 1, byte(len(raw) >> 8), byte(len(raw))}, raw...)
					}
				}
			}
			for k := 0; k < c.N; k++ {
				jobs = append(jobs, job{c, k})
			}
		}
		res := make([]map[string]any, len(jobs))
		hlib.Parallel(len(jobs), func(i int) {
			j := jobs[i]
			id, err := hlib.LookupID(j.c.ID)
			if err != nil {
				res[i] = map[string]any{"ev": "Error", "err": err.Error()}
				return
			}
			cfg := &tls.Config{ServerName: j.c.SNI, NextProtos: j.c.ALPN, OmitEmptyPsk: j.c.Omit,
				MinVersion: uint16(j.c.CfgMin), MaxVersion: uint16(j.c.CfgMax)}
			if j.c.SNI == "" {
				cfg.InsecureSkipVerify = true
			}
			u, wire, herr, pn := wireHello(func(c *hlib.BufConn) *tls.UConn {
				if j.c.FP {
					if j.c.fpRaw == nil {
						return nil
					}
					spec, err := (&tls.Fingerprinter{}).FingerprintClientHello(j.c.fpRaw)
					if err != nil {
						return nil
					}
					u := tls.UClient(c, cfg, tls.HelloCustom)
					if err := u.ApplyPreset(spec); err != nil {
						return nil
					}
					return u
				}
				u := tls.UClient(c, cfg, id)
				if j.c.SNI2 != "" {
					if err := u.BuildHandshakeState(); err != nil {
						return u
					}
					u.SetSNI(j.c.SNI2)
				}
				if j.c.SharedWith != "" {
					// two connections share one *Config: this one is built first, then another parrot is built on
					// the same Config, and only then this one handshakes
					if err := u.BuildHandshakeState(); err != nil {
						return u
					}
					if id2, err := hlib.LookupID(j.c.SharedWith); err == nil {
						c2, _ := hlib.BufPipe()
						u2 := tls.UClient(c2, cfg, id2)
						u2.BuildHandshakeState()
					}
				}
				return u
			})
			chs := hlib.ClientHellos(wire)
			name := j.c.SNI
			if j.c.SNI2 != "" {
				name = j.c.SNI2
			}
			ev := map[string]any{"ev": "Hello", "id": j.c.ID, "sni": hlib.Ints([]byte(name)), "k": j.k, "tag": j.c.Tag,
				"nrec": len(hlib.Records(wire)), "panic": pn, "err": hlib.ErrStr(herr)}
			if len(chs) > 0 {
				ev["raw"] = hlib.Ints(chs[0])
				ev["sent"] = true
			} else {
				ev["raw"] = []int{}
				ev["sent"] = false
			}
			if u != nil && u.HandshakeState.Hello != nil {
				ev["hsraw"] = hlib.Ints(u.HandshakeState.Hello.Raw)
			} else {
				ev["hsraw"] = []int{}
			}
			res[i] = ev
		})
		for _, e := range res {
			out.Emit(e)
		}
		return nil
	})
}
