package main

import (
	"encoding/json"
	"fmt"
	"reflect"
	"strings"

	tls "github.com/refraction-networking/utls"
	"verif/harness/hlib"
)

// toJ converts a reflect value to a TLC-friendly JSON value: no null, strings as byte sequences,
// integers >= 2^31 as 8-byte big-endian sequences.
func toJ(v reflect.Value) any {
	switch v.Kind() {
	case reflect.Bool:
		return v.Bool()
	case reflect.String:
		return hlib.Ints([]byte(v.String()))
	case reflect.Uint8, reflect.Uint16, reflect.Uint32, reflect.Uint64, reflect.Uint:
		u := v.Uint()
		if u >= 1<<31 {
			return be8(u)
		}
		return int(u)
	case reflect.Int, reflect.Int64, reflect.Int32, reflect.Int16, reflect.Int8:
		return int(v.Int())
	case reflect.Slice, reflect.Array:
		out := make([]any, 0, v.Len())
		for i := 0; i < v.Len(); i++ {
			out = append(out, toJ(v.Index(i)))
		}
		return out
	case reflect.Struct:
		m := map[string]any{}
		t := v.Type()
		for i := 0; i < v.NumField(); i++ {
			f := t.Field(i)
			if !f.IsExported() || f.Anonymous {
				continue
			}
			k := f.Type.Kind()
			if k == reflect.Func || k == reflect.Ptr || k == reflect.Interface || k == reflect.Map || k == reflect.Chan {
				continue
			}
			m[f.Name] = toJ(v.Field(i))
		}
		return m
	}
	return "?" + v.Kind().String()
}

func be8(u uint64) []int {
	r := make([]int, 8)
	for i := 7; i >= 0; i-- {
		r[i] = int(u & 0xff)
		u >>= 8
	}
	return r
}

// descExt describes an extension by the exported fields of its struct: {kind, f, [style]}.
func descExt(e tls.TLSExtension) map[string]any {
	v := reflect.ValueOf(e)
	if v.Kind() == reflect.Ptr {
		v = v.Elem()
	}
	d := map[string]any{"kind": v.Type().Name(), "f": toJ(v)}
	if p, ok := e.(*tls.UtlsPaddingExtension); ok {
		style := "none"
		if p.GetPaddingLen != nil {
			if reflect.ValueOf(p.GetPaddingLen).Pointer() == reflect.ValueOf(tls.BoringPaddingStyle).Pointer() {
				style = "boring"
			} else {
				style = "other"
			}
		}
		d["style"] = style
		d["willpad"] = p.WillPad
		d["padlen"] = p.PaddingLen
	}
	return d
}

func kindOrder(spec *tls.ClientHelloSpec) string {
	s := ""
	for _, e := range spec.Extensions {
		s += reflect.TypeOf(e).String() + ","
	}
	return s
}

func descSpec(spec *tls.ClientHelloSpec) map[string]any {
	exts := []any{}
	for _, e := range spec.Extensions {
		exts = append(exts, descExt(e))
	}
	return map[string]any{"min": int(spec.TLSVersMin), "max": int(spec.TLSVersMax),
		"suites": hlib.U16s(spec.CipherSuites), "comp": hlib.Ints(spec.CompressionMethods), "exts": exts}
}

// dumpspecs: {"ids": [...]} (empty = all predefined parrots) -> one event {"specs": {name: desc}}
func init() {
	hlib.Register("dumpspecs", func(in []byte, out *hlib.Out) error {
		var req struct {
			IDs   []string // empty = every predefined parrot
			Extra []string // additional (seeded randomized) ids, dumped besides the chosen ones
		}
		json.Unmarshal(in, &req)
		specs := map[string]any{}
		ids := hlib.ParrotIDs
		if len(req.IDs) > 0 {
			ids = nil
			for _, n := range req.IDs {
				id, err := hlib.LookupID(n)
				if err != nil {
					return err
				}
				ids = append(ids, id)
			}
		}
		shuffling := []string{}
		// seeded randomized ids ("Randomized-ALPN@7"): the spec is whatever the generator produced for that seed,
		// read back from a built UConn (GREASE placeholders are already replaced by concrete GREASE values there)
		for _, n := range append(append([]string{}, req.IDs...), req.Extra...) {
			if !strings.Contains(n, "@") {
				continue
			}
			id, err := hlib.LookupID(n)
			if err != nil {
				return err
			}
			c, _ := hlib.BufPipe()
			uc := tls.UClient(c, &tls.Config{ServerName: "example.com"}, id)
			if err := uc.BuildHandshakeState(); err != nil {
				return fmt.Errorf("%s: %w", n, err)
			}
			sp := tls.ClientHelloSpec{CipherSuites: uc.HandshakeState.Hello.CipherSuites,
				CompressionMethods: uc.HandshakeState.Hello.CompressionMethods, Extensions: uc.Extensions}
			specs[n] = descSpec(&sp)
		}
		for _, id := range ids {
			if id.Seed != nil {
				continue
			}
			spec, err := tls.UTLSIdToSpec(id)
			if err != nil {
				return err
			}
			specs[id.Str()] = descSpec(&spec)
			// a parrot shuffles if the extension order differs between separate dumps
			for k := 0; k < 4; k++ {
				s2, err := tls.UTLSIdToSpec(id)
				if err != nil {
					return err
				}
				if kindOrder(&s2) != kindOrder(&spec) {
					shuffling = append(shuffling, id.Str())
					break
				}
			}
		}
		out.Emit(map[string]any{"specs": specs, "shuffling": shuffling})
		return nil
	})
}
