package main

import (
	"encoding/json"
	"errors"
	"time"

	tls "github.com/refraction-networking/utls"
	"verif/harness/hlib"
)

// certverify scenario (C14): one or two connections of one client to one server presenting a certificate of a given
// kind; the second connection (if any) shares the ClientSessionCache with the first and may use a different
// verification configuration and clock.
type cvConn struct {
	ServerName string `json:"server_name"`
	ITV        string `json:"itv"` // InsecureServerNameToVerify
	SkipTime   bool   `json:"skip_time"`
	SkipVerify bool   `json:"skip_verify"`
	Clock      int    `json:"clock"` // hours added to the real time for Config.Time
	RemoveSNI  bool   `json:"remove_sni"`
	SetSNI     string `json:"setsni"` // "" = no call; "-empty-" = SetSNI(""); else SetSNI(value) after BuildHandshakeState
}

type cvScn struct {
	Sc    int      `json:"sc"`
	ID    string   `json:"id"`
	Ver   int      `json:"ver"`
	Cert  string   `json:"cert"` // valid | wrongname | untrusted | expired | notyet
	Conns []cvConn `json:"conns"`
}

func errType(err error) string {
	if err == nil {
		return "none"
	}
	var cve *tls.CertificateVerificationError
	if errors.As(err, &cve) {
		return "CertificateVerificationError"
	}
	var ech *tls.ECHRejectionError
	if errors.As(err, &ech) {
		return "ECHRejectionError"
	}
	return "other"
}

func init() {
	hlib.Register("certverify", func(in []byte, out *hlib.Out) error {
		var req struct{ Scenarios []json.RawMessage }
		if err := json.Unmarshal(in, &req); err != nil {
			return err
		}
		now := time.Now()
		pk := hlib.NewPKI()
		other := hlib.NewPKI() // a CA the client does not trust
		certs := map[string]tls.Certificate{
			"valid":     pk.Leaf("ecdsa", []string{"example.com"}, now.Add(-time.Hour), now.Add(24*time.Hour)),
			"wrongname": pk.Leaf("ecdsa", []string{"another.example"}, now.Add(-time.Hour), now.Add(24*time.Hour)),
			"untrusted": other.Leaf("ecdsa", []string{"example.com"}, now.Add(-time.Hour), now.Add(24*time.Hour)),
			"expired":   pk.Leaf("ecdsa", []string{"example.com"}, now.Add(-48*time.Hour), now.Add(-24*time.Hour)),
			"notyet":    pk.Leaf("ecdsa", []string{"example.com"}, now.Add(24*time.Hour), now.Add(48*time.Hour)),
			"expired-wrongname": pk.Leaf("ecdsa", []string{"another.example"}, now.Add(-48*time.Hour), now.Add(-24*time.Hour)),
			"notyet-wrongname":  pk.Leaf("ecdsa", []string{"another.example"}, now.Add(24*time.Hour), now.Add(48*time.Hour)),
		}
		res := make([][]map[string]any, len(req.Scenarios))
		hlib.Parallel(len(req.Scenarios), func(i int) {
			var s cvScn
			if err := json.Unmarshal(req.Scenarios[i], &s); err != nil {
				res[i] = []map[string]any{{"ev": "Error", "err": err.Error()}}
				return
			}
			var m map[string]any
			json.Unmarshal(req.Scenarios[i], &m)
			m["ev"] = "Scn"
			evs := []map[string]any{m}
			id, err := hlib.LookupID(s.ID)
			if err != nil {
				res[i] = []map[string]any{{"ev": "Error", "err": err.Error()}}
				return
			}
			scfg := &tls.Config{Certificates: []tls.Certificate{certs[s.Cert]}, MinVersion: uint16(s.Ver), MaxVersion: uint16(s.Ver)}
			cache := tls.NewLRUClientSessionCache(8)
			for k, cc := range s.Conns {
				clock := now.Add(time.Duration(cc.Clock) * time.Hour)
				ccfg := &tls.Config{ServerName: cc.ServerName, InsecureServerNameToVerify: cc.ITV, InsecureSkipTimeVerify: cc.SkipTime,
					InsecureSkipVerify: cc.SkipVerify, RootCAs: pk.Pool, ClientSessionCache: cache, OmitEmptyPsk: true,
					Time: func() time.Time { return clock }}
				rm := cc.RemoveSNI && id.Client != tls.HelloGolang.Client // RemoveSNIExtension is not available for HelloGolang
				r := hlib.RunHandshake(ccfg, scfg, id, hlib.HSOpts{Timeout: 5 * time.Second, Echo: []int{3}, Prep: func(u *tls.UConn) error {
					if cc.SetSNI != "" {
						if err := u.BuildHandshakeState(); err != nil {
							return err
						}
						v := cc.SetSNI
						if v == "-empty-" {
							v = ""
						}
						u.SetSNI(v)
					}
					if rm {
						return u.RemoveSNIExtension()
					}
					return nil
				}}) // the echo read also consumes the TLS 1.3 NewSessionTicket
				evs = append(evs, map[string]any{"ev": "Conn", "sc": s.Sc, "k": k + 1, "cok": r.CErr == nil, "sok": r.SErr == nil,
					"cerr": hlib.ErrStr(r.CErr), "serr": hlib.ErrStr(r.SErr), "errtype": errType(r.CErr), "resumed": r.CS.DidResume,
					"sresumed": r.SS.DidResume, "corigin": errOrigin(r.CErr), "cpanic": r.CPanic, "echo": r.EchoOK,
					"verified_chains": len(r.CS.VerifiedChains), "version": int(r.CS.Version)})
			}
			res[i] = evs
		})
		for _, evs := range res {
			for _, e := range evs {
				out.Emit(e)
			}
		}
		return nil
	})
}
