// verifdrv executes scenarios against the real utls library (built from /repo with -tags verif)
// and logs what it observed as ndjson. usage: verifdrv <command> <in.json> <out.ndjson>
package main

import "verif/harness/hlib"

func main() { hlib.Main() }
