// verifdrv executes scenarios against the real utls library (built from /repo with -tags verif)
// and logs what it observed as ndjson. It contains no expected values: TLC judges the log.
//
// usage: verifdrv <command> <in.json> <out.ndjson>
package main

import (
	"encoding/json"
	"fmt"
	"os"
	"sort"
	"sync"
)

type Out struct {
	mu  sync.Mutex
	f   *os.File
	enc *json.Encoder
	n   int
}

// Emit writes one event. Safe for concurrent use; the order of concurrent events is the order of
// the calls to Emit (callers that need a linearisation emit under their own lock).
func (o *Out) Emit(v any) {
	o.mu.Lock()
	defer o.mu.Unlock()
	o.n++
	if err := o.enc.Encode(v); err != nil {
		panic(err)
	}
}

type command func(in []byte, out *Out) error

var commands = map[string]command{}

func register(name string, c command) { commands[name] = c }

func main() {
	if len(os.Args) != 4 {
		names := []string{}
		for n := range commands {
			names = append(names, n)
		}
		sort.Strings(names)
		fmt.Fprintf(os.Stderr, "usage: verifdrv <command> <in.json> <out.ndjson>\ncommands: %v\n", names)
		os.Exit(64)
	}
	c, ok := commands[os.Args[1]]
	if !ok {
		fmt.Fprintf(os.Stderr, "unknown command %q\n", os.Args[1])
		os.Exit(64)
	}
	in, err := os.ReadFile(os.Args[2])
	if err != nil {
		fmt.Fprintln(os.Stderr, err)
		os.Exit(65)
	}
	f, err := os.Create(os.Args[3])
	if err != nil {
		fmt.Fprintln(os.Stderr, err)
		os.Exit(65)
	}
	out := &Out{f: f, enc: json.NewEncoder(f)}
	if err := c(in, out); err != nil {
		fmt.Fprintln(os.Stderr, "verifdrv:", err)
		os.Exit(3)
	}
	f.Close()
}
