package main

import (
	"crypto/mlkem"
	"crypto/sha3"
	"errors"

	tls "github.com/refraction-networking/utls"
)

// Key exchange of the test server for hybrid groups the in-tree server does not implement (X25519Kyber768Draft00).
// The layout (which half comes first in the shares and in the secret, which KEM variant) is NOT decided here: it is
// handed over in the scenario, which TLC derived from spec/Negotiation.tla HybridLayout, or deliberately not.
type kxLayout struct{ Share, Secret, Kem string }

const (
	x25519Len = 32
	mlkemEK   = mlkem.EncapsulationKeySize768
)

func isHybrid(g tls.CurveID) bool { return g == tls.X25519MLKEM768 || g == tls.X25519Kyber768Draft00 }

func (l kxLayout) split(share []byte) (classical, pq []byte, err error) {
	if len(share) != x25519Len+mlkemEK {
		return nil, nil, errors.New("kx: client share has the wrong size")
	}
	if l.Share == "pq-first" {
		return share[mlkemEK:], share[:mlkemEK], nil
	}
	return share[:x25519Len], share[x25519Len:], nil
}

func installKX(scfg *tls.Config, l kxLayout) {
	tls.VerifSetKeyExchange(scfg, &tls.VerifKeyExchange{
		ECDHPart: func(g tls.CurveID, share []byte) (tls.CurveID, []byte) {
			if !isHybrid(g) {
				return g, share
			}
			cl, _, err := l.split(share)
			if err != nil {
				return g, share
			}
			return tls.X25519, cl
		},
		HybridPart: func(g tls.CurveID, clientShare, serverPub, shared []byte) ([]byte, []byte, error) {
			if !isHybrid(g) {
				return nil, nil, nil
			}
			_, pq, err := l.split(clientShare)
			if err != nil {
				return nil, nil, err
			}
			ek, err := mlkem.NewEncapsulationKey768(pq)
			if err != nil {
				return nil, nil, err
			}
			k, ct := ek.Encapsulate()
			if l.Kem == "kyber768r3" {
				// Kyber768 round 3 = ML-KEM-768 plus the final hash K = SHAKE-256(K' || SHA3-256(c), 32)
				hc := sha3.Sum256(ct)
				h := sha3.NewSHAKE256()
				h.Write(k)
				h.Write(hc[:])
				k = make([]byte, 32)
				h.Read(k)
			}
			cat := func(first string, pqPart, clPart []byte) []byte {
				if first == "pq-first" {
					return append(append([]byte{}, pqPart...), clPart...)
				}
				return append(append([]byte{}, clPart...), pqPart...)
			}
			return cat(l.Share, ct, serverPub), cat(l.Secret, k, shared), nil
		},
	})
}
