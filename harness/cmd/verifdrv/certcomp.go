package main

import (
	"bytes"
	"compress/zlib"
	"encoding/json"
	"errors"
	"fmt"
	"io"
	"time"

	"github.com/andybalholm/brotli"
	"github.com/klauspost/compress/zstd"
	tls "github.com/refraction-networking/utls"
	"verif/harness/hlib"
)

// certcomp scenario: the hooked server replaces its Certificate message by a CompressedCertificate (RFC 8879)
// produced by the harness with the given encoder settings; the client is a custom spec (a parrot's spec with the
// compress_certificate extension set to Advertised).
type ccScn struct {
	Sc         int    `json:"sc"`
	ID         string `json:"id"`
	Advertised []int  `json:"advertised"`
	Alg        int    `json:"alg"`
	Chain      int    `json:"chain"`       // number of extra certificates in the chain (message size)
	FlushEvery int    `json:"flush_every"` // 0 = one shot; k = flush the encoder every k input bytes
	FlushNum   int    `json:"flush_num"`   // with FlushDen > 0: one flush after len*num/den input bytes
	FlushDen   int    `json:"flush_den"`
	Level      int    `json:"level"`
	DeclDelta  int    `json:"decl_delta"` // declared uncompressed_length = real + delta
	DeclHuge   bool   `json:"decl_huge"`  // declared = 0xffffff
	Corrupt    string `json:"corrupt"`    // "" | "truncate" | "flip" | "other"
	DropExt    bool   `json:"drop_ext"`   // remove the compress_certificate extension after BuildHandshakeState
	ZWindow    int    `json:"zwindow"`    // zstd encoder window size in bytes (0 = 128 KiB); a streamed frame declares it in its header
	Advertised0 []int `json:"advertised0"` // non-empty: the list of a first build, before the extension is edited to Advertised
	ClientAuth int    `json:"client_auth"` // 1: the server requests a client certificate (CertificateRequest precedes its certificate), 2: requires one
}

type flusher interface {
	io.Writer
	Flush() error
	Close() error
}

func compressBody(alg, level, flushEvery, zwin int, body []byte) ([]byte, error) {
	var buf bytes.Buffer
	var w flusher
	switch alg {
	case 1:
		zw, err := zlib.NewWriterLevel(&buf, level)
		if err != nil {
			return nil, err
		}
		w = zw
	case 2:
		w = brotli.NewWriterLevel(&buf, level)
	case 3:
		lv := zstd.SpeedDefault
		if level <= 1 {
			lv = zstd.SpeedFastest
		} else if level >= 9 {
			lv = zstd.SpeedBetterCompression
		}
		zw, err := zstd.NewWriter(&buf, zstd.WithEncoderLevel(lv), zstd.WithEncoderConcurrency(1), zstd.WithWindowSize(zwin))
		if err != nil {
			return nil, err
		}
		w = zw
	default:
		// an algorithm id nobody implements: ship the body as is
		return append([]byte{}, body...), nil
	}
	if flushEvery <= 0 {
		w.Write(body)
	} else {
		for off := 0; off < len(body); off += flushEvery {
			end := off + flushEvery
			if end > len(body) {
				end = len(body)
			}
			w.Write(body[off:end])
			if end < len(body) {
				w.Flush()
			}
		}
	}
	if err := w.Close(); err != nil {
		return nil, err
	}
	return buf.Bytes(), nil
}

func mkCompressedCert(s *ccScn, certMsg []byte) ([]byte, int) {
	body := certMsg[4:]
	src := body
	if s.Corrupt == "other" {
		src = append([]byte{}, body...)
		src[len(src)/2] ^= 0x55 // a different certificate message of the same length
	}
	fe := s.FlushEvery
	if s.FlushDen > 0 {
		fe = len(src) * s.FlushNum / s.FlushDen
		if fe < 1 {
			fe = 1
		}
	}
	comp, err := compressBody(s.Alg, s.Level, fe, zwinOf(s), src)
	if err != nil {
		panic(err)
	}
	switch s.Corrupt {
	case "truncate":
		comp = comp[:len(comp)*2/3]
	case "flip":
		comp = append([]byte{}, comp...)
		comp[len(comp)/2] ^= 0x01
	case "trailing":
		// a complete stream followed by bytes that do not belong to it
		comp = append(append([]byte{}, comp...), 0x21, 0x43, 0x65, 0x87, 0xa9, 0xcb, 0xed, 0x0f)
	}
	ul := len(body) + s.DeclDelta
	if s.DeclHuge {
		ul = 0xffffff
	}
	out := []byte{25, 0, 0, 0, byte(s.Alg >> 8), byte(s.Alg), byte(ul >> 16), byte(ul >> 8), byte(ul),
		byte(len(comp) >> 16), byte(len(comp) >> 8), byte(len(comp))}
	out = append(out, comp...)
	n := len(out) - 4
	out[1], out[2], out[3] = byte(n>>16), byte(n>>8), byte(n)
	return out, len(body)
}

func alertOf(err error) int {
	var ae tls.AlertError
	if errors.As(err, &ae) {
		return int(uint8(ae))
	}
	return 0
}

func init() {
	hlib.Register("certcomp", func(in []byte, out *hlib.Out) error {
		var req struct {
			Scenarios  []json.RawMessage
			Sequential bool // run the scenarios one after the other in the given order (state carried across handshakes shows up)
		}
		if err := json.Unmarshal(in, &req); err != nil {
			return err
		}
		pk := hlib.NewPKI()
		leaf := pk.Std("ecdsa", "example.com")
		res := make([][]map[string]any, len(req.Scenarios))
		run := hlib.Parallel
		if req.Sequential {
			run = func(n int, fn func(i int)) {
				for i := 0; i < n; i++ {
					fn(i)
				}
			}
		}
		run(len(req.Scenarios), func(i int) {
			var s ccScn
			if err := json.Unmarshal(req.Scenarios[i], &s); err != nil {
				res[i] = []map[string]any{{"ev": "Error", "err": err.Error()}}
				return
			}
			var m map[string]any
			json.Unmarshal(req.Scenarios[i], &m)
			m["ev"] = "Scn"
			evs := []map[string]any{m}
			cert := tls.Certificate{Certificate: append([][]byte{}, leaf.Certificate...), PrivateKey: leaf.PrivateKey}
			for k := 0; k < s.Chain; k++ {
				cert.Certificate = append(cert.Certificate, pk.CADER)
			}
			scfg := &tls.Config{Certificates: []tls.Certificate{cert}, MinVersion: tls.VersionTLS13}
			var origLen, sentLen int
			tls.VerifSetOverride(scfg, &tls.VerifOverride{Outgoing: func(c *tls.Conn, d []byte) []byte {
				if len(d) > 0 && d[0] == 11 {
					cc, n := mkCompressedCert(&s, d)
					origLen, sentLen = n, len(cc)
					return cc
				}
				return d
			}})
			id, err := hlib.LookupID(s.ID)
			if err != nil {
				res[i] = []map[string]any{{"ev": "Error", "err": err.Error()}}
				return
			}
			ccfg := &tls.Config{ServerName: "example.com", RootCAs: pk.Pool, OmitEmptyPsk: true}
			if s.ClientAuth == 1 {
				scfg.ClientAuth = tls.RequestClientCert
			} else if s.ClientAuth == 2 {
				scfg.ClientAuth = tls.RequireAnyClientCert
				ccfg.Certificates = []tls.Certificate{leaf}
			}
			r := hlib.RunHandshake(ccfg, scfg, tls.HelloCustom, hlib.HSOpts{Timeout: 20 * time.Second, Echo: []int{7}, Prep: func(u *tls.UConn) error {
				spec, err := tls.UTLSIdToSpec(id)
				if err != nil {
					return err
				}
				found := false
				algs := []tls.CertCompressionAlgo{}
				for _, a := range s.Advertised {
					algs = append(algs, tls.CertCompressionAlgo(a))
				}
				var ccExt *tls.UtlsCompressCertExtension
				for _, e := range spec.Extensions {
					if cc, ok := e.(*tls.UtlsCompressCertExtension); ok {
						cc.Algorithms = algs
						ccExt = cc
						found = true
					}
				}
				if found && len(s.Advertised0) > 0 {
					// the hello is first built with another list, then the extension is edited down to Advertised and
					// the hello is built again by Handshake: only what the LAST build put on the wire is advertised
					ccExt.Algorithms = nil
					for _, a := range s.Advertised0 {
						ccExt.Algorithms = append(ccExt.Algorithms, tls.CertCompressionAlgo(a))
					}
					if err := u.ApplyPreset(&spec); err != nil {
						return err
					}
					if err := u.BuildHandshakeState(); err != nil {
						return err
					}
					ccExt.Algorithms = algs
					return nil
				}
				if !found {
					return fmt.Errorf("spec of %s has no compress_certificate extension", s.ID)
				}
				if err := u.ApplyPreset(&spec); err != nil {
					return err
				}
				if s.DropExt {
					// the caller builds the hello, then removes compress_certificate from uconn.Extensions (a documented
					// edit): the hello on the wire no longer advertises any algorithm
					if err := u.BuildHandshakeState(); err != nil {
						return err
					}
					kept := u.Extensions[:0:0]
					for _, e := range u.Extensions {
						if _, ok := e.(*tls.UtlsCompressCertExtension); !ok {
							kept = append(kept, e)
						}
					}
					u.Extensions = kept
				}
				return nil
			}})
			peer := 0
			if r.CErr == nil && len(r.CS.PeerCertificates) > 0 {
				peer = len(r.CS.PeerCertificates)
			}
			evs = append(evs, map[string]any{"ev": "Result", "sc": s.Sc, "cok": r.CErr == nil, "sok": r.SErr == nil, "echo": r.EchoOK,
				"cerr": hlib.ErrStr(r.CErr), "serr": hlib.ErrStr(r.SErr), "alert_from_client": alertOf(r.SErr), "cpanic": r.CPanic,
				"corigin": errOrigin(r.CErr), "orig_len": origLen, "sent_len": sentLen, "peer_certs": peer, "chain_sent": len(cert.Certificate)})
			res[i] = evs
		})
		for _, evs := range res {
			for _, e := range evs {
				out.Emit(e)
			}
		}
		return nil
	})
}

func zwinOf(s *ccScn) int {
	if s.ZWindow > 0 {
		return s.ZWindow
	}
	return 1 << 17
}
