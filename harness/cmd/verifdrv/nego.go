package main

import (
	"encoding/json"
	"errors"
	"fmt"
	"io"
	"strings"
	"sync"
	"time"

	tls "github.com/refraction-networking/utls"
	"verif/harness/hlib"
)

// A negotiation scenario: the client (a ClientHelloID, optional edits) and one server configuration,
// possibly with verif-tagged overrides that make the in-tree server act non-compliantly while staying
// self-consistent (so only the client's own checks can stop the handshake).
type negoScn struct {
	Sc   int    `json:"sc"`
	ID   string `json:"id"`
	SNI  string `json:"sni"`
	Ver  int    `json:"ver"`  // server MinVersion = MaxVersion (0: MinVer..MaxVer)
	VMin int    `json:"vmin"` // server range when Ver == 0
	VMax int    `json:"vmax"`
	// compliant server parameters
	Suite int      `json:"suite"` // TLS<=1.2: CipherSuites=[suite]; TLS1.3: preferred via ForceSuite13 (must be offered for a compliant run)
	Group int      `json:"group"` // CurvePreferences=[group], 0 = default
	Cert  string   `json:"cert"`  // ecdsa | rsa | ed25519
	ALPN  []string `json:"alpn"`  // server NextProtos
	// adversarial overrides (zero = none)
	ForceSuite  int    `json:"force_suite"` // select this suite although not offered (TLS1.2 and 1.3)
	ForceGroup  int    `json:"force_group"` // TLS1.3 key_share / HRR group, TLS1.2 ECDHE curve
	ForceALPN   string `json:"force_alpn"`  // select this protocol
	HRRCookie   int    `json:"hrr_cookie"`  // length of a cookie to put into the HRR
	LegacyOnly  bool   `json:"legacy_only"` // negotiate the version from legacy_version only
	Canary      int    `json:"canary"`      // 0 default, 1 suppress, 2 force
	SidEcho     string `json:"sid_echo"`    // "" | "flip" | "empty" : rewrite the ServerHello's legacy_session_id_echo
	Compression int    `json:"compression"` // != 0: rewrite ServerHello compression method
	PskIndex    int    `json:"psk_index"`   // != 0: add/overwrite pre_shared_key selected identity in the ServerHello (value-1)
	HRRGroup    int    `json:"hrr_group"`   // != 0: rewrite the group named by the HelloRetryRequest
	// application settings (ALPS): the server adds the extension (code point AlpsCP, body AlpsSettings) to its
	// EncryptedExtensions (or, with Alps12, to a TLS 1.2 ServerHello) and reads the client's EncryptedExtensions
	AlpsCP       int    `json:"alps_cp"`
	Alps12       bool   `json:"alps12"`
	AlpsSettings []int  `json:"alps_settings"`
	ClientAlps   string `json:"client_alps"` // "has": {"h2": "CLNT"}, "lacks": {"zz": "X"}, "empty": {}, "": nil
	ClientAlpsLen int   `json:"client_alps_len"` // with "has": settings of this many bytes instead of the 4-byte ones
	AlpsFirst    bool   `json:"alps_first"`  // put the ALPS extension before ALPN in EncryptedExtensions
	// client authentication: 0 none, 1 server requests a certificate and the client has none,
	// 2 server requests one and the client presents it
	ClientAuth int `json:"client_auth"`
	// Resume: the scenario's connection is preceded by a compliant TLS 1.2 connection sharing the session cache
	Resume    bool `json:"resume"`
	ResumeVer int  `json:"resume_ver"` // 772: the prior connection is a TLS 1.3 one
	// NoReneg: use the parrot's spec as a custom spec with renegotiation support switched off (same wire image);
	// ExportKeyingMaterial is unavailable on connections that allow renegotiation
	NoReneg bool `json:"no_reneg"`
	// KSReverse: the parrot's spec as a custom spec whose key_share entries are listed in the opposite order
	KSReverse bool `json:"ks_reverse"`
	// KSList: the parrot's spec as a custom spec whose key_share extension carries exactly these groups, in this order
	KSList []int `json:"ks_list"`
	// Edit: an edit of uconn.Extensions between an explicit BuildHandshakeState and Handshake ("alpn-http11": the ALPN
	// list is cut down to http/1.1; "groups-drop-last": the last supported group is removed)
	Edit string `json:"edit"`
	// SigAlgsCert: custom spec with a signature_algorithms_cert extension (PKCS#1 v1.5 + ECDSA) right after
	// signature_algorithms; SVList: custom spec whose supported_versions lists exactly these versions (a GREASE entry is
	// kept) while TLSVersMin/TLSVersMax stay as the parrot has them; RandFE0D: after an explicit build the client random
	// is set to a value that contains the bytes fe 0d (the code point of encrypted_client_hello)
	SigAlgsCert bool  `json:"sigalgs_cert"`
	SVList      []int `json:"sv_list"`
	RandFE0D    bool  `json:"rand_fe0d"`
	// GroupsFirst: the parrot's spec as a custom spec with this group moved to the front of supported_groups (after a
	// GREASE entry); SrvGroups: the server's whole CurvePreferences list (instead of the single scenario group)
	GroupsFirst int   `json:"groups_first"`
	SrvGroups   []int `json:"srv_groups"`
	// KX*: layout of the hybrid key exchange the test server performs itself (spec/Negotiation.tla HybridLayout)
	KXShare  string `json:"kx_share"`
	KXSecret string `json:"kx_secret"`
	KXKem    string `json:"kx_kem"`
	// FPCopy: the client is a custom spec obtained by fingerprinting a hello built from the parrot
	FPCopy bool `json:"fp_copy"`
	// PriorID: a connection with this other ClientHelloID is made first on the same *Config object
	PriorID string `json:"prior_id"`
	// InterleaveID: a connection with this other ClientHelloID is built on the same *Config right after this
	// connection has written its first ClientHello
	InterleaveID string `json:"interleave_id"`
	// ExtraExts: generic extensions (type, body) inserted into the parrot's spec (custom spec), before padding / PSK
	ExtraExts []struct {
		ID   int   `json:"id"`
		Data []int `json:"data"`
	} `json:"extra_exts"`
	// client options
	Omit      bool  `json:"omit"`
	RemoveSNI bool  `json:"remove_sni"`
	EKM       int   `json:"ekm"` // number of random exporter queries
	Echo      []int `json:"echo"`
}

func csJSON(cs tls.ConnectionState) map[string]any {
	return map[string]any{"version": int(cs.Version), "suite": int(cs.CipherSuite), "proto": hlib.Ints([]byte(cs.NegotiatedProtocol)),
		"curve": int(tls.VerifCurveID(cs)), "resumed": cs.DidResume, "ech": cs.ECHAccepted, "sni": hlib.Ints([]byte(cs.ServerName)),
		"complete": cs.HandshakeComplete}
}

// errOrigin classifies a handshake error: "alert" when the peer told us (remote error), "local" otherwise.
func errOrigin(err error) string {
	if err == nil {
		return "none"
	}
	var oe interface{ Error() string }
	_ = oe
	s := err.Error()
	if strings.HasPrefix(s, "remote error:") || strings.Contains(s, ": remote error:") {
		return "alert"
	}
	var ae tls.AlertError
	if errors.As(err, &ae) {
		return "alert"
	}
	var te hlib.TimeoutErr
	if errors.Is(err, io.EOF) || errors.Is(err, io.ErrClosedPipe) || errors.As(err, &te) {
		return "transport"
	}
	return "local"
}

// rewriteServerHello edits a marshaled ServerHello / HelloRetryRequest handshake message.
func rewriteServerHello(d []byte, s *negoScn, isHRR bool) []byte {
	if len(d) < 4+2+32+1 || d[0] != 2 {
		return d
	}
	out := append([]byte{}, d...)
	sidLen := int(out[38])
	p := 39 + sidLen // cipher suite
	if !isHRR {
		switch s.SidEcho {
		case "flip":
			if sidLen > 0 {
				out[39] ^= 0xff
			}
		case "empty":
			out = append(append(append([]byte{}, out[:38]...), 0), out[39+sidLen:]...)
			p = 39
		}
		if s.Compression != 0 && p+2 < len(out) {
			out[p+2] = byte(s.Compression)
		}
	}
	// extensions
	exOff := p + 3
	if exOff+2 <= len(out) {
		exts := out[exOff+2:]
		var nexts []byte
		seenPsk := false
		for len(exts) >= 4 {
			t := int(exts[0])<<8 | int(exts[1])
			n := int(exts[2])<<8 | int(exts[3])
			if 4+n > len(exts) {
				break
			}
			body := append([]byte{}, exts[4:4+n]...)
			if t == 51 && isHRR && s.HRRGroup != 0 && n == 2 {
				body[0], body[1] = byte(s.HRRGroup>>8), byte(s.HRRGroup)
			}
			if t == 41 && !isHRR && s.PskIndex != 0 && n == 2 {
				body[0], body[1] = byte((s.PskIndex-1)>>8), byte(s.PskIndex-1)
				seenPsk = true
			}
			nexts = append(nexts, exts[0], exts[1], exts[2], exts[3])
			nexts = append(nexts, body...)
			exts = exts[4+n:]
		}
		if !isHRR && s.PskIndex != 0 && !seenPsk {
			nexts = append(nexts, 0, 41, 0, 2, byte((s.PskIndex-1)>>8), byte(s.PskIndex-1))
		}
		out = append(out[:exOff], byte(len(nexts)>>8), byte(len(nexts)))
		out = append(out, nexts...)
	}
	n := len(out) - 4
	out[1], out[2], out[3] = byte(n>>16), byte(n>>8), byte(n)
	return out
}

// appendExtension adds one extension to a marshaled ServerHello (type 2) or EncryptedExtensions (type 8) message.
func appendExtension(d []byte, typ int, body []byte) []byte {
	out := append([]byte{}, d...)
	ext := append([]byte{byte(typ >> 8), byte(typ), byte(len(body) >> 8), byte(len(body))}, body...)
	var lenOff int
	switch d[0] {
	case 8:
		lenOff = 4
	case 2:
		lenOff = 4 + 2 + 32 + 1 + int(d[38]) + 2 + 1
		if lenOff == len(out) { // no extensions block yet
			out = append(out, 0, 0)
		}
	default:
		return d
	}
	if lenOff+2 > len(out) {
		return d
	}
	el := int(out[lenOff])<<8 | int(out[lenOff+1]) + len(ext)
	out[lenOff], out[lenOff+1] = byte(el>>8), byte(el)
	out = append(out, ext...)
	n := len(out) - 4
	out[1], out[2], out[3] = byte(n>>16), byte(n>>8), byte(n)
	return out
}

var hrrRandom = []byte{0xCF, 0x21, 0xAD, 0x74, 0xE5, 0x9A, 0x61, 0x11, 0xBE, 0x1D, 0x8C, 0x02, 0x1E, 0x65, 0xB8, 0x91,
	0xC2, 0xA2, 0x11, 0x16, 0x7A, 0xBB, 0x8C, 0x5E, 0x07, 0x9E, 0x09, 0xE2, 0xC8, 0xA8, 0x33, 0x9C}

func isHRRMsg(d []byte) bool {
	return len(d) >= 38 && d[0] == 2 && string(d[6:38]) == string(hrrRandom)
}

func runNego(s negoScn, rawScn json.RawMessage, pk *hlib.PKI, certs map[string]tls.Certificate, out *[]map[string]any) {
	var emu sync.Mutex
	emit := func(m map[string]any) { emu.Lock(); m["sc"] = s.Sc; *out = append(*out, m); emu.Unlock() }
	var scnMap map[string]any
	json.Unmarshal(rawScn, &scnMap)
	scnMap["ev"] = "Scn"
	emit(scnMap)
	id, err := hlib.LookupID(s.ID)
	if err != nil {
		emit(map[string]any{"ev": "Error", "err": err.Error()})
		return
	}
	scfg := &tls.Config{Certificates: []tls.Certificate{certs[s.Cert]}, NextProtos: s.ALPN}
	if s.Ver != 0 {
		scfg.MinVersion, scfg.MaxVersion = uint16(s.Ver), uint16(s.Ver)
	} else {
		scfg.MinVersion, scfg.MaxVersion = uint16(s.VMin), uint16(s.VMax)
	}
	ov := &tls.VerifOverride{}
	useOv := false
	if s.Suite != 0 {
		if s.Ver == 772 {
			ov.ForceSuite13 = uint16(s.Suite)
			useOv = true
		} else {
			scfg.CipherSuites = []uint16{uint16(s.Suite)}
		}
	}
	if s.ForceSuite != 0 {
		ov.ForceSuite13 = uint16(s.ForceSuite)
		ov.ForceSuite12 = uint16(s.ForceSuite)
		useOv = true
	}
	if s.Group != 0 {
		scfg.CurvePreferences = []tls.CurveID{tls.CurveID(s.Group)}
	}
	if len(s.SrvGroups) > 0 {
		scfg.CurvePreferences = nil
		for _, g := range s.SrvGroups {
			scfg.CurvePreferences = append(scfg.CurvePreferences, tls.CurveID(g))
		}
	}
	if s.KXSecret != "" {
		// a hybrid group the in-tree server lacks: its group selection is overridden and the key exchange is done
		// by the harness following the layout of the scenario (kx.go)
		scfg.CurvePreferences = nil
		ov.ForceGroup = tls.CurveID(s.Group)
		useOv = true
		installKX(scfg, kxLayout{Share: s.KXShare, Secret: s.KXSecret, Kem: s.KXKem})
	}
	if s.ForceGroup != 0 {
		ov.ForceGroup = tls.CurveID(s.ForceGroup)
		useOv = true
	}
	if s.ForceALPN != "" {
		p := s.ForceALPN
		ov.ForceALPN = &p
		useOv = true
	}
	if s.HRRCookie > 0 {
		ov.HRRCookie = make([]byte, s.HRRCookie)
		for i := range ov.HRRCookie {
			ov.HRRCookie[i] = byte(0xC0 + i%32)
		}
		useOv = true
	}
	if s.LegacyOnly {
		ov.LegacyVersionOnly = true
		useOv = true
	}
	if s.Canary != 0 {
		ov.Canary = s.Canary
		useOv = true
	}
	// every plaintext handshake message the server sends, in order, before encryption (hook H2)
	ov.Outgoing = func(c *tls.Conn, d []byte) []byte {
		if len(d) == 0 {
			return d
		}
		if d[0] == 2 {
			hrr := isHRRMsg(d)
			if s.SidEcho != "" || s.Compression != 0 || s.PskIndex != 0 || s.HRRGroup != 0 {
				d = rewriteServerHello(d, &s, hrr)
			}
		}
		if s.AlpsCP != 0 && ((d[0] == 8 && !s.Alps12) || (d[0] == 2 && s.Alps12 && !isHRRMsg(d))) {
			if s.AlpsFirst && d[0] == 8 && len(d) >= 6 {
				// application_settings listed before ALPN in EncryptedExtensions (extension order is free)
				body := hlib.Unints(s.AlpsSettings)
				ext := append([]byte{byte(s.AlpsCP >> 8), byte(s.AlpsCP), byte(len(body) >> 8), byte(len(body))}, body...)
				nd := append(append(append([]byte{}, d[:6]...), ext...), d[6:]...)
				el := int(nd[4])<<8 | int(nd[5]) + len(ext)
				nd[4], nd[5] = byte(el>>8), byte(el)
				n := len(nd) - 4
				nd[1], nd[2], nd[3] = byte(n>>16), byte(n>>8), byte(n)
				d = nd
			} else {
				d = appendExtension(d, s.AlpsCP, hlib.Unints(s.AlpsSettings))
			}
		}
		raw := d
		if len(raw) > 600 && (d[0] == 11 || d[0] == 25 || d[0] == 4) {
			raw = raw[:600] // certificates etc.: the head is enough for the specification
		}
		emit(map[string]any{"ev": "SMSG", "t": int(d[0]), "raw": hlib.Ints(raw), "len": len(d)})
		return d
	}
	useOv = true
	if s.AlpsCP != 0 && !s.Alps12 {
		// the server must read the client's EncryptedExtensions before the client Finished; with
		// RequestClientCert it does not pre-compute the client Finished right after its own flight
		ov.ReadClientEE = true
		scfg.ClientAuth = tls.RequestClientCert
	}
	if useOv {
		tls.VerifSetOverride(scfg, ov)
	}
	ccfg := &tls.Config{ServerName: s.SNI, RootCAs: pk.Pool, OmitEmptyPsk: s.Omit}
	if s.PriorID != "" {
		// an earlier connection of another fingerprint on the very same *Config object (callers commonly share one)
		if pid, err := hlib.LookupID(s.PriorID); err == nil {
			pcfg := &tls.Config{Certificates: scfg.Certificates}
			hlib.RunHandshake(ccfg, pcfg, pid, hlib.HSOpts{Timeout: 5 * time.Second, Echo: []int{3}})
		}
	}
	firstOK := false
	if s.Resume {
		// a prior, plainly compliant TLS 1.2 connection of the same client fills the shared session cache; the
		// scenario's server holds the same ticket key, so it can resume that session
		ccfg.ClientSessionCache = tls.NewLRUClientSessionCache(4)
		var key [32]byte
		copy(key[:], "verif-ticket-key-verif-ticket-key")
		scfg.SetSessionTicketKeys([][32]byte{key})
		fv := uint16(tls.VersionTLS12)
		if s.ResumeVer == 772 {
			// ... or a TLS 1.3 connection, whose NewSessionTicket the client reads with its first application data
			fv = tls.VersionTLS13
		}
		first := &tls.Config{Certificates: scfg.Certificates, MinVersion: fv, MaxVersion: fv,
			CipherSuites: scfg.CipherSuites, CurvePreferences: scfg.CurvePreferences, NextProtos: scfg.NextProtos}
		first.SetSessionTicketKeys([][32]byte{key})
		r1 := hlib.RunHandshake(ccfg.Clone(), first, id, hlib.HSOpts{Timeout: 5 * time.Second, Echo: []int{3}})
		firstOK = r1.CErr == nil && r1.SErr == nil
	}
	if s.ClientAuth != 0 {
		scfg.ClientAuth = tls.RequestClientCert
		if s.ClientAuth == 2 {
			scfg.ClientAuth = tls.RequireAnyClientCert
			ccfg.Certificates = []tls.Certificate{certs["ecdsa"]}
		}
	}
	switch s.ClientAlps {
	case "has":
		ccfg.ApplicationSettings = map[string][]byte{"h2": []byte("CLNT"), "http/1.1": []byte("CLN1")}
		if s.ClientAlpsLen > 0 {
			// settings of a chosen length; byte i (from 0) is (7i+3) mod 256, as spec/NegoTrace.tla ClientSettingsFor says
			b := make([]byte, s.ClientAlpsLen)
			for i := range b {
				b[i] = byte(7*i + 3)
			}
			ccfg.ApplicationSettings = map[string][]byte{"h2": b, "http/1.1": b}
		}
	case "lacks":
		ccfg.ApplicationSettings = map[string][]byte{"zz": []byte("X")}
	case "empty":
		ccfg.ApplicationSettings = map[string][]byte{}
	}
	var ekm []hlib.EKMReq
	rnd := hlib.NewRand(int64(s.Sc))
	for i := 0; i < s.EKM; i++ {
		ctx := make([]byte, rnd.Intn(40))
		rnd.Read(ctx)
		if rnd.Intn(4) == 0 {
			ctx = nil
		}
		lbl := make([]byte, 1+rnd.Intn(24))
		for j := range lbl {
			lbl[j] = byte('a' + rnd.Intn(26))
		}
		ekm = append(ekm, hlib.EKMReq{Label: "EXPERIMENTAL " + string(lbl), Context: ctx, Len: 1 + rnd.Intn(96)})
	}
	echo := s.Echo
	if echo == nil {
		echo = []int{5}
	}
	nch := 0
	runID := id
	if s.NoReneg || s.KSReverse || s.FPCopy || len(s.ExtraExts) > 0 || len(s.KSList) > 0 || s.GroupsFirst != 0 || s.SigAlgsCert || len(s.SVList) > 0 {
		runID = tls.HelloCustom
	}
	r := hlib.RunHandshake(ccfg, scfg, runID, hlib.HSOpts{Timeout: 5 * time.Second, Echo: echo, EKM: ekm, OnClientWrite: func(b []byte) {
		// a ClientHello is written as one plaintext handshake record
		if len(b) > 9 && b[0] == 22 && b[5] == 1 && nch < 2 {
			n := int(b[3])<<8 | int(b[4])
			if 5+n <= len(b) {
				nch++
				emit(map[string]any{"ev": "CH", "k": nch, "raw": hlib.Ints(b[5 : 5+n])})
				if nch == 1 && s.InterleaveID != "" {
					// another connection with a different fingerprint is built on the same *Config while this one
					// is between its first ClientHello and the server's answer
					if oid, err := hlib.LookupID(s.InterleaveID); err == nil {
						c2, _ := hlib.BufPipe()
						tls.UClient(c2, ccfg, oid).BuildHandshakeState()
					}
				}
			}
		}
	}, Prep: func(u *tls.UConn) error {
		if s.FPCopy {
			// a fingerprinted copy: build the parrot's hello once, fingerprint those bytes, apply the resulting spec
			c0, _ := hlib.BufPipe()
			u0 := tls.UClient(c0, &tls.Config{ServerName: s.SNI, OmitEmptyPsk: true}, id)
			if err := u0.BuildHandshakeState(); err != nil {
				return err
			}
			raw := u0.HandshakeState.Hello.Raw
			rec := append([]byte{22, 3, 1, byte(len(raw) >> 8), byte(len(raw))}, raw...)
			spec, err := (&tls.Fingerprinter{}).FingerprintClientHello(rec)
			if err != nil {
				return err
			}
			return u.ApplyPreset(spec)
		}
		if s.NoReneg || s.KSReverse || len(s.ExtraExts) > 0 || len(s.KSList) > 0 || s.GroupsFirst != 0 || s.SigAlgsCert || len(s.SVList) > 0 {
			spec, err := tls.UTLSIdToSpec(id)
			if err != nil {
				return err
			}
			if s.SigAlgsCert {
				for i, e := range spec.Extensions {
					if _, ok := e.(*tls.SignatureAlgorithmsExtension); ok {
						sc := &tls.SignatureAlgorithmsCertExtension{SupportedSignatureAlgorithms: []tls.SignatureScheme{
							tls.PKCS1WithSHA256, tls.PKCS1WithSHA384, tls.ECDSAWithP256AndSHA256, tls.PKCS1WithSHA512}}
						spec.Extensions = append(append(append([]tls.TLSExtension{}, spec.Extensions[:i+1]...), sc), spec.Extensions[i+1:]...)
						break
					}
				}
			}
			if len(s.ExtraExts) > 0 {
				pos := len(spec.Extensions)
				for i, e := range spec.Extensions {
					switch e.(type) {
					case *tls.UtlsPaddingExtension, *tls.UtlsPreSharedKeyExtension, *tls.FakePreSharedKeyExtension:
						if i < pos {
							pos = i
						}
					}
				}
				var add []tls.TLSExtension
				for _, x := range s.ExtraExts {
					dup := false
					for _, e := range spec.Extensions {
						if _, ok := e.(*tls.GREASEEncryptedClientHelloExtension); ok && x.ID == 0xfe0d {
							dup = true // the parrot already carries an encrypted_client_hello extension
						}
					}
					if dup {
						continue
					}
					add = append(add,&tls.GenericExtension{Id: uint16(x.ID), Data: hlib.Unints(x.Data)})
				}
				spec.Extensions = append(append(append([]tls.TLSExtension{}, spec.Extensions[:pos]...), add...), spec.Extensions[pos:]...)
			}
			for _, e := range spec.Extensions {
				if sv, ok := e.(*tls.SupportedVersionsExtension); ok && len(s.SVList) > 0 {
					// a custom spec whose supported_versions list is narrower than its TLSVersMin..TLSVersMax range
					var vs []uint16
					if len(sv.Versions) > 0 && sv.Versions[0]&0x0f0f == 0x0a0a {
						vs = append(vs, sv.Versions[0])
					}
					for _, v := range s.SVList {
						vs = append(vs, uint16(v))
					}
					sv.Versions = vs
				}
				if ri, ok := e.(*tls.RenegotiationInfoExtension); ok && s.NoReneg {
					ri.Renegotiation = tls.RenegotiateNever
				}
				if ks, ok := e.(*tls.KeyShareExtension); ok && s.KSReverse {
					// a custom spec: the parrot's key shares in the opposite order
					for i, j := 0, len(ks.KeyShares)-1; i < j; i, j = i+1, j-1 {
						ks.KeyShares[i], ks.KeyShares[j] = ks.KeyShares[j], ks.KeyShares[i]
					}
				}
				if sc, ok := e.(*tls.SupportedCurvesExtension); ok && s.GroupsFirst != 0 {
					// a custom spec: the same groups, one of them moved to the front (behind a GREASE placeholder)
					var head, rest []tls.CurveID
					for _, g := range sc.Curves {
						if g == tls.CurveID(s.GroupsFirst) {
							head = append(head, g)
						} else {
							rest = append(rest, g)
						}
					}
					if len(rest) > 0 && uint16(rest[0])&0x0f0f == 0x0a0a {
						head = append([]tls.CurveID{rest[0]}, head...)
						rest = rest[1:]
					}
					sc.Curves = append(head, rest...)
				}
				if ks, ok := e.(*tls.KeyShareExtension); ok && len(s.KSList) > 0 {
					// a custom spec: exactly the listed shares (keys generated by ApplyPreset)
					ks.KeyShares = nil
					for _, g := range s.KSList {
						ks.KeyShares = append(ks.KeyShares, tls.KeyShare{Group: tls.CurveID(g)})
					}
				}
			}
			return u.ApplyPreset(&spec)
		}
		if s.RandFE0D {
			if err := u.BuildHandshakeState(); err != nil {
				return err
			}
			r := make([]byte, 32)
			for i := range r {
				r[i] = byte(0x30 + i)
			}
			r[9], r[10], r[20], r[21] = 0xfe, 0x0d, 0xfe, 0x0d
			if err := u.SetClientRandom(r); err != nil {
				return err
			}
		}
		if s.Edit != "" {
			// the caller builds the hello, edits an extension in uconn.Extensions, then calls Handshake (which
			// re-marshals): what is on the wire is the edited offer, and that is what the server's choice is held against
			build := u.BuildHandshakeState
			if s.Edit == "build-nosession" {
				// the two-step build: first without loading a session, then (in Handshake) the complete build
				build = u.BuildHandshakeStateWithoutSession
			}
			if err := build(); err != nil {
				return err
			}
			for _, e := range u.Extensions {
				switch x := e.(type) {
				case *tls.ALPNExtension:
					if s.Edit == "alpn-http11" {
						x.AlpnProtocols = []string{"http/1.1"}
					}
				case *tls.SupportedCurvesExtension:
					if s.Edit == "groups-drop-last" && len(x.Curves) > 1 {
						x.Curves = x.Curves[:len(x.Curves)-1]
					}
				}
			}
		}
		if s.RemoveSNI {
			return u.RemoveSNIExtension()
		}
		return nil
	}})
	chs := hlib.ClientHellos(r.CWire)
	res := map[string]any{"ev": "Result", "cerr": hlib.ErrStr(r.CErr), "serr": hlib.ErrStr(r.SErr),
		"corigin": errOrigin(r.CErr), "sorigin": errOrigin(r.SErr), "cpanic": r.CPanic,
		"cok": r.CErr == nil, "hsok": r.HSOK, "sok": r.SErr == nil, "echo": r.EchoOK, "nch": len(chs),
		"cs": csJSON(r.CS), "ss": csJSON(r.SS)}
	if r.UC != nil && r.UC.HandshakeState.Hello != nil {
		res["hsraw"] = hlib.Ints(r.UC.HandshakeState.Hello.Raw)
	} else {
		res["hsraw"] = []int{}
	}
	res["first_ok"] = firstOK
	res["peer_alps"] = hlib.Ints(r.CS.PeerApplicationSettings)
	res["client_ee"] = hlib.Ints(ov.ClientEE)
	ce, se := []any{}, []any{}
	for _, b := range r.CEKM {
		ce = append(ce, hlib.Ints(b))
	}
	for _, b := range r.SEKM {
		se = append(se, hlib.Ints(b))
	}
	res["cekm"], res["sekm"] = ce, se
	emit(res)
}

// nego: {"scenarios":[negoScn...]} -> per scenario: Scn (echo of the scenario), CH k (wire bytes), SH/HRR (server hello
// messages as sent), Result (both errors with origin, both ConnectionStates, exporter outputs, echo result)
func init() {
	hlib.Register("nego", func(in []byte, out *hlib.Out) error {
		var req struct{ Scenarios []json.RawMessage }
		if err := json.Unmarshal(in, &req); err != nil {
			return err
		}
		pk := hlib.NewPKI()
		names := []string{"example.com", "public.example"}
		certs := map[string]tls.Certificate{"ecdsa": pk.Std("ecdsa", names...), "rsa": pk.Std("rsa", names...), "ed25519": pk.Std("ed25519", names...)}
		res := make([][]map[string]any, len(req.Scenarios))
		hlib.Parallel(len(req.Scenarios), func(i int) {
			var s negoScn
			if err := json.Unmarshal(req.Scenarios[i], &s); err != nil {
				res[i] = append(res[i], map[string]any{"ev": "Error", "sc": i, "err": err.Error()})
				return
			}
			if s.Cert == "" {
				s.Cert = "ecdsa"
			}
			if s.SNI == "" && !strings.HasPrefix(s.ID, "nosni") {
				s.SNI = "example.com"
			}
			func() {
				defer func() {
					if p := recover(); p != nil {
						res[i] = append(res[i], map[string]any{"ev": "Error", "sc": s.Sc, "err": fmt.Sprint("harness panic: ", p)})
					}
				}()
				runNego(s, req.Scenarios[i], pk, certs, &res[i])
			}()
		})
		for _, evs := range res {
			for _, e := range evs {
				out.Emit(e)
			}
		}
		return nil
	})
}
