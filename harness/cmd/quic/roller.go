package main

import (
	"encoding/json"
	"encoding/pem"
	"errors"
	"fmt"
	"net"
	"os"
	"path/filepath"
	"sort"
	"strings"
	"sync"
	"syscall"
	"time"

	tls "github.com/refraction-networking/utls"
	"verif/harness/hlib"
)

// ---------------------------------------------------------------------------------------------
// rollerdial: run Roller.Dial histories against a loopback TCP TLS server that recognises the ClientHelloID
// from the hello and accepts or refuses it.
//
//	in:  {"ids": ["Chrome-120", ..., "Randomized"] (the candidate IDs; "Randomized" = the unseeded HelloRandomized), "timeout_ms": 60000,
//	      "scenarios": [{"id": 3, "configured": [names] (Roller.HelloIDs), "preset": name or "" (Roller.WorkingHelloID
//	                     before the first call), "tmo_ms": Roller.TlsHandshakeTimeout or 0,
//	                     "steps": [{"accept": [parrot names], "stall": [parrot names], "rmode": "refuse"|"stall"|"any"|"pin", "tcpfail": bool, "n": 1|2}]}]}
//	out: {"ev":"Table", ...} once; per Dial {"ev":"Dial", sc, step, caller, ret, seen:[names the server saw for this caller, in order],
//	      seen_k:[0 for a recognised parrot, else the number of that concrete fingerprint], seen_ok:[did the server complete that handshake],
//	      snis, given (the serverName argument), conn (ID of the returned UConn or "-"), cseed (hex of its ClientHelloID.Seed or ""), csni,
//	      ms (how long Dial took), tmo (Roller.TlsHandshakeTimeout in ms)};
//	      per step {"ev":"StepEnd", sc, step, working, wseed (hex of WorkingHelloID.Seed or ""), stray}
//
// A hello that is none of the parrots is a randomized one; the server numbers its concrete fingerprint (exactFP). In "pin" mode it
// accepts randomized hellos until one handshake has succeeded, and from then on only that concrete fingerprint (for the rest of the scenario).
//
// Roller passes a nil Config to UClient, so certificate verification uses the system roots: SSL_CERT_FILE is
// pointed at the throw-away CA before anything is verified in this process.
// ---------------------------------------------------------------------------------------------

type rollerStep struct {
	Accept  []string `json:"accept"`
	Stall   []string `json:"stall"` // parrots whose hello is taken and never answered (the connection is held open)
	RMode   string   `json:"rmode"` // randomized hellos: "refuse" | "stall" | "any" | "pin" (only the concrete fingerprint that succeeded first, for the rest of the scenario)
	TcpFail bool     `json:"tcpfail"`
	N       int      `json:"n"`
}

type rollerScenario struct {
	ID         int          `json:"id"`
	Configured []string     `json:"configured"`
	Preset     string       `json:"preset"`
	TmoMs      int          `json:"tmo_ms"` // Roller.TlsHandshakeTimeout for this scenario (0: what NewRoller chose, 11..30 s)
	Steps      []rollerStep `json:"steps"`
}

func isGrease(v uint16) bool { return v&0x0f0f == 0x0a0a && v>>8 == v&0xff }

// fingerprint of a hello as the server sees it: order-insensitive over extensions (some parrots shuffle them),
// GREASE removed.
func helloFP(chi *tls.ClientHelloInfo) string {
	var sb strings.Builder
	for _, s := range chi.CipherSuites {
		if !isGrease(s) {
			fmt.Fprintf(&sb, "%04x,", s)
		}
	}
	sb.WriteString("|")
	ex := []int{}
	for _, e := range chi.Extensions {
		if !isGrease(e) {
			ex = append(ex, int(e))
		}
	}
	sort.Ints(ex)
	fmt.Fprint(&sb, ex, "|")
	for _, c := range chi.SupportedCurves {
		if !isGrease(uint16(c)) {
			fmt.Fprintf(&sb, "%04x,", uint16(c))
		}
	}
	sb.WriteString("|")
	for _, s := range chi.SignatureSchemes {
		fmt.Fprintf(&sb, "%04x,", uint16(s))
	}
	return sb.String()
}

// exactFP: the concrete fingerprint of a hello (order sensitive; per-connection material and GREASE left out). Two
// hellos of a randomized ID have the same exactFP iff they were generated from the same seed.
func exactFP(chi *tls.ClientHelloInfo) string {
	var sb strings.Builder
	for _, s := range chi.CipherSuites {
		if !isGrease(s) {
			fmt.Fprintf(&sb, "%04x,", s)
		}
	}
	sb.WriteString("|")
	for _, e := range chi.Extensions {
		if !isGrease(e) {
			fmt.Fprintf(&sb, "%d,", e)
		}
	}
	sb.WriteString("|")
	for _, c := range chi.SupportedCurves {
		if !isGrease(uint16(c)) {
			fmt.Fprintf(&sb, "%04x,", uint16(c))
		}
	}
	sb.WriteString("|")
	for _, x := range chi.SignatureSchemes {
		fmt.Fprintf(&sb, "%04x,", uint16(x))
	}
	sb.WriteString("|")
	for _, v := range chi.SupportedVersions {
		if !isGrease(v) {
			fmt.Fprintf(&sb, "%04x,", v)
		}
	}
	sb.WriteString("|" + strings.Join(chi.SupportedProtos, ","))
	return sb.String()
}

const randName = "Randomized"

func lookupID(name string) (tls.ClientHelloID, error) {
	if name == randName {
		return tls.HelloRandomized, nil
	}
	return hlib.LookupID(name)
}

type seenHello struct {
	name string
	k    int // 0 for a recognised parrot; for any other hello the number of its concrete fingerprint (1, 2, ... by first appearance in the scenario)
	sni  string
	ok   bool // the server side of this handshake completed
}

type rollerServer struct {
	l        net.Listener
	mu       sync.Mutex
	accept   map[string]bool
	stall    map[string]bool
	hold     time.Duration // how long a stalled connection is held open without an answer
	seen     []seenHello
	table    map[string]string // fingerprint -> ID name
	cert     tls.Certificate
	rmode    string
	fpNum    map[string]int // exactFP -> number
	pinned   int
	pinBusy  bool // "pin" mode, nothing pinned yet: a randomized handshake is in flight, the next randomized hello waits for its outcome
	cond     *sync.Cond
	inflight int
}

func (s *rollerServer) serve() {
	for {
		c, err := s.l.Accept()
		if err != nil {
			return
		}
		s.mu.Lock()
		s.inflight++
		s.mu.Unlock()
		go func(c net.Conn) {
			defer c.Close()
			c.SetDeadline(time.Now().Add(20 * time.Second))
			idx, pinning := -1, false
			srv := tls.Server(c, &tls.Config{Certificates: []tls.Certificate{s.cert}, GetConfigForClient: func(chi *tls.ClientHelloInfo) (*tls.Config, error) {
				name, ok := s.table[helloFP(chi)]
				k := 0
				s.mu.Lock()
				var acc, stalled bool
				if ok {
					acc = s.accept[name]
					stalled = s.stall[name]
				} else {
					// not one of the parrots: a randomized hello, identified by its concrete fingerprint
					name = randName
					fp := exactFP(chi)
					if s.fpNum[fp] == 0 {
						s.fpNum[fp] = len(s.fpNum) + 1
					}
					k = s.fpNum[fp]
					switch s.rmode {
					case "stall":
						stalled = true
					case "any":
						acc = true
					case "pin":
						for s.pinned == 0 && s.pinBusy {
							s.cond.Wait()
						}
						if s.pinned == 0 {
							s.pinBusy, pinning, acc = true, true, true // pinned if (and only if) this handshake succeeds
						} else {
							acc = s.pinned == k
						}
					}
				}
				s.seen = append(s.seen, seenHello{name, k, chi.ServerName, false})
				idx = len(s.seen) - 1
				hold := s.hold
				s.mu.Unlock()
				if stalled {
					// blackhole: keep the TCP connection, say nothing, for longer than the client is willing to wait
					time.Sleep(hold)
					return nil, errors.New("verif: this fingerprint is stalled")
				}
				if !acc {
					return nil, errors.New("verif: this fingerprint is blocked")
				}
				return nil, nil
			}})
			err := srv.Handshake()
			s.mu.Lock()
			if idx >= 0 && idx < len(s.seen) {
				s.seen[idx].ok = err == nil
			}
			if pinning {
				if err == nil {
					s.pinned = s.seen[idx].k
				}
				s.pinBusy = false
				s.cond.Broadcast()
			}
			s.inflight--
			s.cond.Broadcast()
			s.mu.Unlock()
			if err == nil {
				buf := make([]byte, 1)
				srv.Read(buf) // until the client closes
			}
		}(c)
	}
}

// learnTable: one real handshake per candidate ID over an in-memory pipe; the server side records the fingerprint.
func learnTable(ids []string, pki *hlib.PKI, cert tls.Certificate) (map[string]string, error) {
	table := map[string]string{}
	for _, name := range ids {
		if name == randName {
			continue
		}
		id, err := hlib.LookupID(name)
		if err != nil {
			return nil, err
		}
		for k := 0; k < 3; k++ { // shuffling parrots: the fingerprint must be stable across connections
			var fp string
			scfg := &tls.Config{Certificates: []tls.Certificate{cert}, GetConfigForClient: func(chi *tls.ClientHelloInfo) (*tls.Config, error) {
				fp = helloFP(chi)
				return nil, nil
			}}
			r := hlib.RunHandshake(&tls.Config{ServerName: "a.example.com", RootCAs: pki.Pool}, scfg, id, hlib.HSOpts{})
			if r.CErr != nil || r.SErr != nil {
				return nil, fmt.Errorf("learning %s: client %v server %v", name, r.CErr, r.SErr)
			}
			if prev, ok := table[fp]; ok && prev != name {
				return nil, fmt.Errorf("IDs %s and %s are indistinguishable for the test server", prev, name)
			}
			table[fp] = name
		}
	}
	return table, nil
}

func nameOfID(id tls.ClientHelloID, ids []string) string {
	if id.Client == tls.HelloRandomized.Client {
		return randName
	}
	for _, n := range ids {
		if x, err := hlib.LookupID(n); err == nil && x.Client == id.Client && x.Version == id.Version {
			return n
		}
	}
	return id.Str()
}

func seedHex(id *tls.ClientHelloID) string {
	if id == nil || id.Seed == nil {
		return ""
	}
	return fmt.Sprintf("%x", id.Seed[:])
}

func runRoller(sc rollerScenario, ids []string, table map[string]string, cert tls.Certificate, timeout time.Duration, out *hlib.Out) error {
	l, err := net.Listen("tcp", "127.0.0.1:0")
	if err != nil {
		return err
	}
	defer l.Close()
	srv := &rollerServer{l: l, accept: map[string]bool{}, table: table, cert: cert, fpNum: map[string]int{}}
	srv.cond = sync.NewCond(&srv.mu)
	go srv.serve()
	// an address nobody listens on: a socket that is bound (so that no parallel scenario can get the port) but never listens
	fd, err := syscall.Socket(syscall.AF_INET, syscall.SOCK_STREAM, 0)
	if err != nil {
		return err
	}
	defer syscall.Close(fd)
	if err := syscall.Bind(fd, &syscall.SockaddrInet4{Addr: [4]byte{127, 0, 0, 1}}); err != nil {
		return err
	}
	sa, err := syscall.Getsockname(fd)
	if err != nil {
		return err
	}
	dead := fmt.Sprintf("127.0.0.1:%d", sa.(*syscall.SockaddrInet4).Port)

	r, err := tls.NewRoller()
	if err != nil {
		return err
	}
	if sc.TmoMs > 0 {
		r.TlsHandshakeTimeout = time.Duration(sc.TmoMs) * time.Millisecond
	}
	srv.hold = r.TlsHandshakeTimeout + r.TlsHandshakeTimeout/2 + 200*time.Millisecond
	r.HelloIDs = nil
	for _, n := range sc.Configured {
		id, err := lookupID(n)
		if err != nil {
			return err
		}
		r.HelloIDs = append(r.HelloIDs, id)
	}
	if sc.Preset != "" {
		id, err := lookupID(sc.Preset)
		if err != nil {
			return err
		}
		r.WorkingHelloID = &id
	}
	given := []string{"a.example.com", "b.example.com"}
	for si, st := range sc.Steps {
		srv.mu.Lock()
		srv.accept = map[string]bool{}
		for _, n := range st.Accept {
			srv.accept[n] = true
		}
		srv.stall = map[string]bool{}
		for _, n := range st.Stall {
			srv.stall[n] = true
		}
		srv.seen = nil
		srv.rmode = st.RMode
		srv.mu.Unlock()
		addr := l.Addr().String()
		if st.TcpFail {
			addr = dead
		}
		type res struct {
			uc  *tls.UConn
			err error
			ret string
			ms  int64
		}
		results := make([]res, st.N)
		var wg sync.WaitGroup
		for c := 0; c < st.N; c++ {
			wg.Add(1)
			go func(c int) {
				defer wg.Done()
				done := make(chan res, 1)
				go func() {
					t0 := time.Now()
					uc, err := r.Dial("tcp", addr, given[c])
					done <- res{uc: uc, err: err, ms: time.Since(t0).Milliseconds()}
				}()
				select {
				case x := <-done:
					results[c] = x
				case <-time.After(timeout):
					results[c] = res{ret: "hung"}
				}
			}(c)
		}
		wg.Wait()
		// every accepted TCP connection has reported the outcome of its handshake (bounded by the connections' 20 s deadline)
		srv.mu.Lock()
		for srv.inflight > 0 {
			srv.cond.Wait()
		}
		seen := append([]seenHello{}, srv.seen...)
		srv.mu.Unlock()
		for c := 0; c < st.N; c++ {
			x := results[c]
			ev := map[string]any{"ev": "Dial", "sc": sc.ID, "step": si + 1, "caller": c + 1, "given": given[c],
				"err": hlib.ErrStr(x.err), "conn": "-", "csni": "", "cseed": "", "ms": x.ms, "tmo": r.TlsHandshakeTimeout.Milliseconds()}
			sn, sk, ss, so := []string{}, []int{}, []string{}, []bool{}
			for _, h := range seen {
				if h.sni == given[c] {
					sn = append(sn, h.name)
					sk = append(sk, h.k)
					ss = append(ss, h.sni)
					so = append(so, h.ok)
				}
			}
			ev["seen"], ev["seen_k"], ev["snis"], ev["seen_ok"] = sn, sk, ss, so
			ret := x.ret
			if ret == "" {
				switch {
				case x.err == nil && x.uc != nil:
					ret = "ok"
					ev["conn"] = nameOfID(x.uc.ClientHelloID, ids)
					ev["csni"] = x.uc.ConnectionState().ServerName
					ev["cseed"] = seedHex(&x.uc.ClientHelloID)
				case x.err != nil && x.uc == nil:
					var oe *net.OpError
					if errors.As(x.err, &oe) && oe.Op == "dial" {
						ret = "tcperr"
					} else {
						ret = "hserr"
					}
				default:
					ret = "mixed" // a connection together with an error, or neither
				}
			}
			ev["ret"] = ret
			out.Emit(ev)
			if x.uc != nil {
				x.uc.Close()
			}
		}
		// hellos that carried neither of the given names (none are expected; logged, judged by TLC)
		stray := []string{}
		for _, h := range seen {
			if h.sni != given[0] && h.sni != given[1] {
				stray = append(stray, fmt.Sprintf("%s#%d@%s", h.name, h.k, h.sni))
			}
		}
		w, ws := "-", ""
		r.HelloIDMu.Lock()
		if r.WorkingHelloID != nil {
			w = nameOfID(*r.WorkingHelloID, ids)
			ws = seedHex(r.WorkingHelloID)
		}
		r.HelloIDMu.Unlock()
		out.Emit(map[string]any{"ev": "StepEnd", "sc": sc.ID, "step": si + 1, "working": w, "wseed": ws, "stray": stray})
	}
	return nil
}

func init() {
	hlib.Register("rollerdial", func(in []byte, out *hlib.Out) error {
		var req struct {
			IDs       []string         `json:"ids"`
			TimeoutMs int              `json:"timeout_ms"`
			Workers   int              `json:"workers"`
			Scenarios []rollerScenario `json:"scenarios"`
		}
		if err := json.Unmarshal(in, &req); err != nil {
			return err
		}
		if req.TimeoutMs == 0 {
			req.TimeoutMs = 60000
		}
		pki := hlib.NewPKI()
		dir, err := os.MkdirTemp("", "verif-roller-ca-")
		if err != nil {
			return err
		}
		defer os.RemoveAll(dir)
		caFile := filepath.Join(dir, "ca.pem")
		if err := os.WriteFile(caFile, pem.EncodeToMemory(&pem.Block{Type: "CERTIFICATE", Bytes: pki.CADER}), 0o644); err != nil {
			return err
		}
		os.Setenv("SSL_CERT_FILE", caFile)
		os.Setenv("SSL_CERT_DIR", filepath.Join(dir, "no-such-dir"))
		cert := pki.Std("ecdsa", "a.example.com", "b.example.com")
		table, err := learnTable(req.IDs, pki, cert)
		if err != nil {
			return err
		}
		out.Emit(map[string]any{"ev": "Table", "ids": req.IDs, "fingerprints": len(table)})
		var mu sync.Mutex
		var firstErr error
		hlib.Parallel(len(req.Scenarios), func(i int) {
			if err := runRoller(req.Scenarios[i], req.IDs, table, cert, time.Duration(req.TimeoutMs)*time.Millisecond, out); err != nil {
				mu.Lock()
				if firstErr == nil {
					firstErr = err
				}
				mu.Unlock()
			}
		})
		return firstErr
	})
}
