package main

import (
	"bytes"
	"context"
	"crypto/x509"
	"encoding/json"
	"errors"
	"fmt"
	"sync"
	"time"

	tls "github.com/refraction-networking/utls"
	"verif/harness/hlib"
)

// ---------------------------------------------------------------------------------------------
// quicpump: drive one UQUICConn (client) and one QUICConn (the package's QUICServer) through a given
// sequence of pump operations and log what every call returned / every event that came out.
//
//	in:  {"timeout_ms": 3000, "scenarios": [{"id": 7, "cfg": {...}, "ops": [{"op":"Start","side":"c"}, ...]}]}
//	out: one line per executed op: {"sc","i","op","side","ret","alert","err","us", event fields ...}
//
// ops:  Start(side) | Next(side) = NextEvent; a WriteData event is queued towards the peer |
//       Deliver(side,k) = HandleData(side, level, first k units of the oldest queued chunk; k=0: all of it), carried out as
//                         calls of at most cfg.chunk bytes, from fresh slices or from one reused, overwritten buffer (cfg.reuse);
//                         every HandleData call is logged as its own Deliver record (u = bytes handed over) |
//       Cancel = cancel the context given to the client's Start | Close(side)
// A unit is half a handshake message (so TLC can choose to cut a flight at a message boundary or inside a message).
// Every call runs under a watchdog; a call that does not return within timeout_ms is logged ret="hung" and ends
// the scenario (the API is single threaded: a parked caller cannot do anything else).
// ---------------------------------------------------------------------------------------------

type pumpCfg struct {
	Build     string `json:"build"`     // ok | noname | unset | minver12 (see clientInputs)
	HRR       bool   `json:"hrr"`       // server CurvePreferences = [P-384], the client's only share is X25519
	SrvRefuse bool   `json:"srvRefuse"` // server speaks another ALPN: it fails the handshake on the ClientHello
	CliRefuse bool   `json:"cliRefuse"` // client does not trust the server's CA: it fails on the Certificate
	// how the pump hands CRYPTO data to HandleData (not part of the model: every variant must behave like whole delivery)
	Chunk int  `json:"chunk"` // every Deliver is carried out as HandleData calls of at most Chunk bytes (0: one call)
	Reuse bool `json:"reuse"` // false: a fresh slice per call; true: ONE receive buffer per side, overwritten right after each HandleData returns
}

type pumpOp struct {
	Op   string `json:"op"`
	Side string `json:"side"`
	K    int    `json:"k"`
}

type pumpScenario struct {
	ID  int      `json:"id"`
	Cfg pumpCfg  `json:"cfg"`
	Ops []pumpOp `json:"ops"`
}

type pumpEvent struct {
	Sc    int    `json:"sc"`
	I     int    `json:"i"`
	Op    string `json:"op"`
	Side  string `json:"side"`
	Ret   string `json:"ret"`   // ok | err | hung | nodata | notstarted | "" (ops that are not calls)
	Alert int    `json:"alert"` // AlertError code wrapped in the returned error, 256 = none
	Err   string `json:"err"`
	Us    int64  `json:"us"`
	Kind  string `json:"kind"`  // NextEvent: event kind
	Level string `json:"level"` // NextEvent / Deliver: encryption level
	N     int    `json:"n"`     // NextEvent: len(Data); Deliver: bytes handed to HandleData
	Mt    []int  `json:"mt"`    // WriteData: handshake message types found in Data, in order
	Hrr   []int  `json:"hrr"`   // WriteData: per message 1 = ServerHello carrying the HelloRetryRequest random
	Sid   []int  `json:"sid"`   // WriteData: per message legacy_session_id length of a Client/ServerHello, 99 = other message
	Junk  int    `json:"junk"`  // WriteData: trailing bytes that are not a complete handshake message (a CCS would show up here)
	U     int    `json:"u"`     // Deliver: bytes handed to this HandleData call
	Rem   int    `json:"rem"`   // Deliver: bytes of the queued WriteData chunk still undelivered
	K     int    `json:"k"`     // Deliver: requested units
	Ml    []int  `json:"ml"`    // WriteData: byte length of every handshake message found in Data
	Cplt  bool   `json:"complete"`
	BErr  string `json:"builderr"` // Start(c): error of BuildHandshakeState on a twin connection made from the same inputs ("" = builds)
}

var kindName = map[tls.QUICEventKind]string{
	tls.QUICNoEvent: "NoEvent", tls.QUICSetReadSecret: "SetReadSecret", tls.QUICSetWriteSecret: "SetWriteSecret",
	tls.QUICWriteData: "WriteData", tls.QUICTransportParameters: "TransportParameters",
	tls.QUICTransportParametersRequired: "TransportParametersRequired", tls.QUICRejectedEarlyData: "RejectedEarlyData",
	tls.QUICHandshakeDone: "HandshakeDone", tls.QUICResumeSession: "ResumeSession", tls.QUICStoreSession: "StoreSession",
}

var hrrRandom = []byte{0xCF, 0x21, 0xAD, 0x74, 0xE5, 0x9A, 0x61, 0x11, 0xBE, 0x1D, 0x8C, 0x02, 0x1E, 0x65, 0xB8, 0x91,
	0xC2, 0xA2, 0x11, 0x16, 0x7A, 0xBB, 0x8C, 0x5E, 0x07, 0x9E, 0x09, 0xE2, 0xC8, 0xA8, 0x33, 0x9C}

type endpoint interface {
	Start(ctx context.Context) error
	NextEvent() tls.QUICEvent
	HandleData(level tls.QUICEncryptionLevel, data []byte) error
	Close() error
	ConnectionState() tls.ConnectionState
}

func quicSpec() *tls.ClientHelloSpec {
	return &tls.ClientHelloSpec{
		TLSVersMin: tls.VersionTLS13, TLSVersMax: tls.VersionTLS13,
		CipherSuites:       []uint16{tls.TLS_AES_128_GCM_SHA256, tls.TLS_AES_256_GCM_SHA384, tls.TLS_CHACHA20_POLY1305_SHA256},
		CompressionMethods: []byte{0},
		Extensions: []tls.TLSExtension{
			&tls.SNIExtension{},
			&tls.SupportedCurvesExtension{Curves: []tls.CurveID{tls.X25519, tls.CurveP256, tls.CurveP384}},
			&tls.ALPNExtension{AlpnProtocols: []string{"h3"}},
			&tls.SignatureAlgorithmsExtension{SupportedSignatureAlgorithms: []tls.SignatureScheme{tls.ECDSAWithP256AndSHA256, tls.PSSWithSHA256, tls.PKCS1WithSHA256}},
			&tls.KeyShareExtension{KeyShares: []tls.KeyShare{{Group: tls.X25519}}},
			&tls.PSKKeyExchangeModesExtension{Modes: []uint8{tls.PskModeDHE}},
			&tls.SupportedVersionsExtension{Versions: []uint16{tls.VersionTLS13}},
			&tls.QUICTransportParametersExtension{TransportParameters: tls.TransportParameters{tls.InitialMaxData(1000), &tls.GREASETransportParameter{Length: 3}}},
		},
	}
}

// clientInputs returns the Config, ClientHelloID and (optional) preset of a build kind.
//
//	ok            custom TLS 1.3-only spec with quic_transport_parameters, ServerName set
//	noname        the call of the property record: HelloChrome_Auto, MinVersion TLS 1.3, no ServerName
//	unset         HelloCustom and no preset applied
//	minver12      HelloChrome_Auto with MinVersion TLS 1.2
func clientInputs(cfg pumpCfg, pki *hlib.PKI) (*tls.Config, tls.ClientHelloID, *tls.ClientHelloSpec, error) {
	tc := &tls.Config{ServerName: "example.com", RootCAs: pki.Pool, MinVersion: tls.VersionTLS13, NextProtos: []string{"h3"}}
	if cfg.CliRefuse {
		tc.RootCAs = x509.NewCertPool()
	}
	switch cfg.Build {
	case "ok":
		return tc, tls.HelloCustom, quicSpec(), nil
	case "noname":
		return &tls.Config{MinVersion: tls.VersionTLS13}, tls.HelloChrome_Auto, nil, nil
	case "unset":
		return tc, tls.HelloCustom, nil, nil
	case "minver12":
		tc.MinVersion = tls.VersionTLS12
		return tc, tls.HelloChrome_Auto, nil, nil
	}
	return nil, tls.HelloCustom, nil, fmt.Errorf("unknown build kind %q", cfg.Build)
}

func newClient(cfg pumpCfg, pki *hlib.PKI) (*tls.UQUICConn, error) {
	tc, id, spec, err := clientInputs(cfg, pki)
	if err != nil {
		return nil, err
	}
	q := tls.UQUICClient(&tls.QUICConfig{TLSConfig: tc}, id)
	if spec != nil {
		if err := q.ApplyPreset(spec); err != nil {
			return nil, fmt.Errorf("ApplyPreset: %w", err)
		}
	}
	return q, nil
}

// buildErr: BuildHandshakeState on a twin UConn made from the same inputs (UQUICConn does not expose its UConn,
// so the twin is a plain UConn with the same Config / ID / preset). The observation binds the model's "this input
// cannot be built"; it is logged, not judged.
func buildErr(cfg pumpCfg, pki *hlib.PKI) string {
	tc, id, spec, err := clientInputs(cfg, pki)
	if err != nil {
		return err.Error()
	}
	u := tls.UClient(nil, tc, id)
	if spec != nil {
		if err := u.ApplyPreset(spec); err != nil {
			return "ApplyPreset: " + err.Error()
		}
	}
	func() {
		defer func() {
			if p := recover(); p != nil {
				err = fmt.Errorf("panic: %v", p)
			}
		}()
		err = u.BuildHandshakeState()
	}()
	return hlib.ErrStr(err)
}

func newServer(cfg pumpCfg, cert tls.Certificate) *tls.QUICConn {
	sc := &tls.Config{Certificates: []tls.Certificate{cert}, MinVersion: tls.VersionTLS13, NextProtos: []string{"h3"}}
	if cfg.HRR {
		sc.CurvePreferences = []tls.CurveID{tls.CurveP384}
	}
	if cfg.SrvRefuse {
		sc.NextProtos = []string{"not-h3"}
	}
	s := tls.QUICServer(&tls.QUICConfig{TLSConfig: sc})
	s.SetTransportParameters([]byte{1, 2, 3})
	return s
}

// splitUnits parses a CRYPTO stream: message types / lengths, and the unit boundaries (a unit is half a handshake
// message; the schedules of the model count in units, the harness hands over the corresponding bytes).
func splitUnits(data []byte) (bounds []int, mt, hrr, sid, ml []int, junk int) {
	mt, hrr, sid, ml = []int{}, []int{}, []int{}, []int{}
	off := 0
	for len(data)-off >= 4 {
		n := int(data[off+1])<<16 | int(data[off+2])<<8 | int(data[off+3])
		if len(data)-off < 4+n {
			break
		}
		m := data[off : off+4+n]
		mt = append(mt, int(m[0]))
		ml = append(ml, len(m))
		h, s := 0, 99
		if (m[0] == 1 || m[0] == 2) && len(m) >= 4+2+32+1 {
			s = int(m[4+2+32])
			if m[0] == 2 && bytes.Equal(m[6:38], hrrRandom) {
				h = 1
			}
		}
		hrr = append(hrr, h)
		sid = append(sid, s)
		bounds = append(bounds, off+len(m)/2, off+len(m))
		off += 4 + n
	}
	if off < len(data) {
		junk = len(data) - off
		bounds = append(bounds, len(data))
	}
	return
}

type chunk struct {
	level  tls.QUICEncryptionLevel
	data   []byte
	bounds []int // unit boundaries (absolute offsets into data), ascending, the last one is len(data)
	pos    int   // bytes already handed over
}

func alertOf(err error) int {
	var ae tls.AlertError
	if errors.As(err, &ae) {
		return int(ae)
	}
	return 256
}

// watch runs f under a watchdog.
func watch(d time.Duration, f func() error) (ret string, err error, us int64) {
	done := make(chan error, 1)
	t0 := time.Now()
	go func() {
		defer func() {
			if p := recover(); p != nil {
				done <- fmt.Errorf("panic: %v", p)
			}
		}()
		done <- f()
	}()
	t := time.NewTimer(d)
	defer t.Stop()
	select {
	case err = <-done:
		us = time.Since(t0).Microseconds()
		if err != nil {
			return "err", err, us
		}
		return "ok", nil, us
	case <-t.C:
		return "hung", nil, time.Since(t0).Microseconds()
	}
}

func runPump(sc pumpScenario, pki *hlib.PKI, cert tls.Certificate, timeout time.Duration, out *hlib.Out) error {
	cli, perr := newClient(sc.Cfg, pki)
	if cli == nil {
		return perr
	}
	srv := newServer(sc.Cfg, cert)
	ep := map[string]endpoint{"c": cli, "s": srv}
	peer := map[string]string{"c": "s", "s": "c"}
	started := map[string]bool{}
	wire := map[string][]*chunk{}
	cctx, ccancel := context.WithCancel(context.Background())
	defer ccancel()
	hung := false
	rxbuf := map[string][]byte{"c": make([]byte, 1<<16), "s": make([]byte, 1<<16)} // the reused receive buffers (cfg.reuse)
	mk := func(i int, op pumpOp) pumpEvent {
		return pumpEvent{Sc: sc.ID, I: i, Op: op.Op, Side: op.Side, Alert: 256, Mt: []int{}, Hrr: []int{}, Sid: []int{}, Ml: []int{}, K: op.K}
	}
	call := func(ev *pumpEvent, f func() error) {
		ret, err, us := watch(timeout, f)
		ev.Ret, ev.Err, ev.Us = ret, hlib.ErrStr(err), us
		if err != nil {
			ev.Alert = alertOf(err)
		}
		if ret == "hung" {
			hung = true
		}
	}
	i := 0
	for _, op := range sc.Ops {
		if hung {
			break
		}
		i++
		ev := mk(i, op)
		e := ep[op.Side]
		switch op.Op {
		case "Start":
			if op.Side == "c" {
				ev.BErr = buildErr(sc.Cfg, pki)
				call(&ev, func() error { return cli.Start(cctx) })
			} else {
				call(&ev, func() error { return srv.Start(context.Background()) })
			}
			started[op.Side] = true
		case "Next":
			if !started[op.Side] {
				ev.Ret = "notstarted"
				break
			}
			var qe tls.QUICEvent
			call(&ev, func() error { qe = e.NextEvent(); return nil })
			if ev.Ret == "ok" {
				ev.Kind = kindName[qe.Kind]
				if ev.Kind == "" {
					ev.Kind = fmt.Sprintf("Kind(%d)", int(qe.Kind))
				}
				ev.Level = qe.Level.String()
				ev.N = len(qe.Data)
				if qe.Kind == tls.QUICWriteData {
					bounds, mt, hrr, sid, ml, junk := splitUnits(qe.Data)
					ev.Mt, ev.Hrr, ev.Sid, ev.Ml, ev.Junk = mt, hrr, sid, ml, junk
					if len(qe.Data) > 0 {
						wire[peer[op.Side]] = append(wire[peer[op.Side]], &chunk{qe.Level, append([]byte{}, qe.Data...), bounds, 0})
					}
				}
			}
		case "Deliver":
			q := wire[op.Side]
			if !started[op.Side] {
				ev.Ret = "notstarted"
				break
			}
			if len(q) == 0 {
				ev.Ret = "nodata"
				break
			}
			ch := q[0]
			// the first op.K units that are still queued (0 / too many: everything that is left of the chunk)
			end := len(ch.data)
			ahead := 0
			for _, b := range ch.bounds {
				if b > ch.pos {
					ahead++
					if ahead == op.K {
						end = b
						break
					}
				}
			}
			for ch.pos < end && !hung {
				n := end - ch.pos
				if sc.Cfg.Chunk > 0 && n > sc.Cfg.Chunk {
					n = sc.Cfg.Chunk
				}
				src := ch.data[ch.pos : ch.pos+n]
				var data []byte
				if sc.Cfg.Reuse {
					if n > len(rxbuf[op.Side]) {
						rxbuf[op.Side] = make([]byte, n)
					}
					data = rxbuf[op.Side][:n]
					copy(data, src)
				} else {
					data = append([]byte{}, src...)
				}
				ch.pos += n
				sub := mk(i, op)
				sub.Level, sub.N, sub.U, sub.Rem = ch.level.String(), n, n, len(ch.data)-ch.pos
				call(&sub, func() error { return e.HandleData(ch.level, data) })
				if sc.Cfg.Reuse && sub.Ret != "hung" {
					// HandleData has returned: the buffer belongs to the caller again, and the caller scribbles over it
					for j := range rxbuf[op.Side] {
						rxbuf[op.Side][j] = 0xA5
					}
				}
				out.Emit(sub)
				i++
				if sub.Ret != "ok" {
					break
				}
			}
			if ch.pos >= len(ch.data) {
				wire[op.Side] = q[1:]
			}
			i--
			continue
		case "Cancel":
			ccancel()
		case "Close":
			call(&ev, func() error { return e.Close() })
		default:
			return fmt.Errorf("unknown op %q", op.Op)
		}
		out.Emit(ev)
	}
	// final observation + cleanup (not part of the schedule)
	if !hung {
		for _, side := range []string{"c", "s"} {
			i++
			ev := mk(i, pumpOp{Op: "End", Side: side})
			call(&ev, func() error { ev.Cplt = ep[side].ConnectionState().HandshakeComplete; return nil })
			out.Emit(ev)
			if hung {
				break
			}
		}
	}
	if !hung {
		ccancel()
		for _, side := range []string{"c", "s"} {
			if started[side] {
				e := ep[side]
				watch(timeout, func() error { e.Close(); return nil })
			}
		}
	}
	return nil
}

func init() {
	hlib.Register("quicpump", func(in []byte, out *hlib.Out) error {
		var req struct {
			TimeoutMs int            `json:"timeout_ms"`
			Scenarios []pumpScenario `json:"scenarios"`
		}
		if err := json.Unmarshal(in, &req); err != nil {
			return err
		}
		if req.TimeoutMs == 0 {
			req.TimeoutMs = 3000
		}
		pki := hlib.NewPKI()
		cert := pki.Std("ecdsa", "example.com")
		var firstErr error
		var mu sync.Mutex
		hlib.Parallel(len(req.Scenarios), func(i int) {
			if err := runPump(req.Scenarios[i], pki, cert, time.Duration(req.TimeoutMs)*time.Millisecond, out); err != nil {
				mu.Lock()
				if firstErr == nil {
					firstErr = err
				}
				mu.Unlock()
			}
		})
		return firstErr
	})
}
