// quic is the conformance harness of the C23 (UQUICConn) / C29 (Roller) family.
// usage: quic <command> <in.json> <out.ndjson>. The harness performs calls on the real library and logs
// what it observed; it contains no expected values - every judgement is made by TLC (spec/UQuic*.tla, spec/Roller*.tla).
package main

import "verif/harness/hlib"

func main() { hlib.Main() }
