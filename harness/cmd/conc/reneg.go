package main

import (
	"context"
	"math/rand"
	"sync"
	"sync/atomic"
	"time"

	tls "github.com/refraction-networking/utls"
	"verif/harness/hlib"
)

// runReneg: renegotiation phase of C26. An established TLS 1.2 UConn (HelloChrome_102, renegotiation
// enabled) is used by a reader, optionally a Handshake caller and a writer, while the hand-driven peer
// sends a HelloRequest (and then either runs a second handshake or refuses). Mode "reneg" follows a
// TLC schedule through the gates (the handshakeContext gates plus "reneg_build": the reader inside the
// BuildHandshakeState of the renegotiation, observed through the public GetPaddingLen callback);
// "reneg-stress" opens all gates and uses seeded random delays. Every call is under the watchdog
// tied to the I/O deadline. Only logs.
func runReneg(sc scenT) result {
	setupPKI()
	sc.Cfg.Ordered, sc.Cfg.Gated = true, true
	r := &run{sc: sc, loggers: map[string]*logger{}, byGoid: map[int64]*logger{}, owner: map[int64]string{},
		isIntr: map[int64]bool{}, parked: map[string]*park{}, arrived: map[string]bool{}, retd: map[string]bool{},
		rnd: rand.New(rand.NewSource(sc.Seed))}
	r.free = sc.Mode != "reneg"
	cfg := sc.Cfg
	meta := map[string]any{"diverged_at": -1}
	var metaMu sync.Mutex
	setMeta := func(k string, v any) { metaMu.Lock(); meta[k] = v; metaMu.Unlock() }
	res := result{Sc: sc.ID, Mode: sc.Mode, Cfg: cfg, Ev: map[string][]event{}, Meta: meta}

	cb, sb := hlib.BufPipe()
	setup := time.Now().Add(10 * time.Second)
	cb.SetDeadline(setup)
	sb.SetDeadline(setup)
	srv := tls.Server(sb, &tls.Config{Certificates: []tls.Certificate{srvCert}, MaxVersion: tls.VersionTLS12})
	ccfg := &tls.Config{ServerName: "example.com", RootCAs: pki.Pool, Renegotiation: tls.RenegotiateFreelyAsClient}
	uc := tls.UClient(cb, ccfg, tls.HelloChrome_102)
	var armed atomic.Bool
	if err := uc.BuildHandshakeState(); err != nil {
		meta["setup_err"] = "build: " + err.Error()
		return res
	}
	wrapped := false
	for _, e := range uc.Extensions {
		if pe, ok := e.(*tls.UtlsPaddingExtension); ok && pe.GetPaddingLen != nil {
			orig := pe.GetPaddingLen
			pe.GetPaddingLen = func(n int) (int, bool) {
				if armed.CompareAndSwap(true, false) { // the first hello rebuilt after the handshake: the renegotiation's
					id, creator := tls.VerifGoID()
					r.Gate("reneg_build", id, creator)
				}
				return orig(n)
			}
			wrapped = true
		}
	}
	hs := make(chan error, 1)
	go func() { hs <- srv.Handshake() }()
	cerr := uc.Handshake()
	serr := <-hs
	if !wrapped || cerr != nil || serr != nil || uc.ConnectionState().Version != tls.VersionTLS12 {
		meta["setup_err"] = hlib.ErrStr(cerr) + "|" + hlib.ErrStr(serr)
		cb.Close()
		sb.Close()
		return res
	}
	r.t0 = time.Now()
	dl := r.t0.Add(time.Duration(cfg.Deadline) * time.Millisecond)
	cb.SetDeadline(dl)
	sb.SetDeadline(dl)
	tls.VerifSetGateCtl(ccfg, r)
	defer tls.VerifSetGateCtl(ccfg, nil)
	armed.Store(true)

	mainLog, peerLog := r.newLogger("main"), r.newLogger("peer")
	procs := []string{"reader"}
	if cfg.H {
		procs = append(procs, "h")
	}
	if cfg.Writer {
		procs = append(procs, "writer")
	}
	plog := map[string]*logger{}
	done := map[string]chan struct{}{}
	started := map[string]bool{}
	for _, p := range procs {
		plog[p] = r.newLogger(p)
		done[p] = make(chan struct{})
	}
	hrGo := make(chan struct{})
	peerStop := make(chan struct{})
	peerDone := make(chan struct{})
	go func() { // the peer
		defer close(peerDone)
		select {
		case <-hrGo:
		case <-peerStop:
			return
		}
		if err := tls.VerifTLS12SendHelloRequest(srv); err != nil {
			setMeta("hr_err", err.Error())
			return
		}
		if cfg.Rehs {
			if _, err := tls.VerifTLS12ServerRehandshake(srv, context.Background()); err == nil {
				srv.Write([]byte("pong"))
			} else {
				setMeta("rehs_err", err.Error())
			}
		}
		buf := make([]byte, 256)
		for {
			if _, err := srv.Read(buf); err != nil {
				return
			}
		}
	}()
	startProc := func(p string, pre func()) {
		started[p] = true
		reg := make(chan struct{})
		go func() {
			defer close(done[p])
			lg := plog[p]
			goid, _ := tls.VerifGoID()
			r.mu.Lock()
			r.byGoid[goid] = lg
			r.owner[goid] = p
			r.mu.Unlock()
			if pre != nil {
				close(reg)
				pre()
			}
			lg.emit(event{Ev: "call", P: p}, false)
			if pre == nil {
				close(reg)
			}
			defer func() {
				if pv := recover(); pv != nil {
					lg.emit(event{Ev: "panic", P: p}, false)
				}
			}()
			var err error
			switch p {
			case "reader":
				_, err = uc.Read(make([]byte, 16))
			case "writer":
				_, err = uc.Write([]byte("ping"))
			default:
				err = uc.HandshakeContext(context.Background())
			}
			lg.emit(errEvent(event{Ev: "ret", P: p}, err, nil), false)
			r.mu.Lock()
			r.retd[p] = true
			r.mu.Unlock()
		}()
		<-reg
	}
	var hrFlag atomic.Bool
	doHR := func() {
		if hrFlag.CompareAndSwap(false, true) {
			peerLog.emit(event{Ev: "hr", P: "peer"}, false)
			close(hrGo)
		}
	}
	short := 400 * time.Millisecond
	if sc.Mode == "reneg" {
		for i, st := range sc.Hist {
			ok := true
			switch st.K {
			case "call":
				if plog[st.P] != nil && !started[st.P] {
					startProc(st.P, nil)
				}
			case "hr":
				doHR()
			case "timeout":
				if d := time.Until(dl); d > 0 {
					time.Sleep(d + time.Millisecond)
				}
			case "pass":
				ok = r.release(st.P, st.G, short)
			case "arrive":
				ok = r.await(func() bool { return r.arrived[st.P+"@"+st.G] }, short)
			case "ret":
				ok = r.await(func() bool { return r.retd[st.P] }, short)
			}
			if !ok {
				setMeta("diverged_at", i)
				break
			}
		}
		r.freeRun()
		for _, p := range procs {
			if !started[p] {
				startProc(p, nil)
			}
		}
		doHR()
	} else {
		for _, p := range procs {
			startProc(p, r.delay)
		}
		go func() { r.delay(); doHR() }()
	}
	limit := time.NewTimer(time.Until(dl) + time.Duration(cfg.Slack)*time.Millisecond + 500*time.Millisecond)
	hung := []string{}
	for _, p := range procs {
		select {
		case <-done[p]:
		case <-limit.C:
			hung = append(hung, p)
			limit.Reset(0)
		}
	}
	limit.Stop()
	for _, p := range hung {
		mainLog.emit(event{Ev: "hang", P: p}, false)
	}
	if len(hung) == 0 {
		mainLog.emit(event{Ev: "final", P: "main", Complete: uc.ConnectionState().HandshakeComplete}, false)
	}
	close(peerStop)
	doHR()
	cb.Close()
	sb.Close()
	select {
	case <-peerDone:
	case <-time.After(2 * time.Second):
	}
	setMeta("hung", len(hung))
	metaMu.Lock()
	defer metaMu.Unlock()
	r.mu.Lock()
	for key, lg := range r.loggers {
		skip := false
		for _, p := range hung {
			if key == p {
				skip = true
			}
		}
		if !skip {
			res.Ev[key] = append([]event{}, lg.local...)
		}
	}
	r.mu.Unlock()
	return res
}
