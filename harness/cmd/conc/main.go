// conc is the C26 harness: it drives one UConn from several goroutines (handshakers with their own
// contexts, reader, writer, closer, cancellers, a peer that answers or stalls) either along a
// TLC-generated schedule (through the blocking verifGate hooks) or with seeded random delays, and
// logs what happened. It contains no expected values: UConnConc_Trace.tla judges the log.
// The binary is built with -race; the race detector is the one judgement not made by TLC.
package main

import "verif/harness/hlib"

func main() { hlib.Main() }
