package main

import (
	"encoding/binary"
	"hash/crc32"
	"io"
	"math/rand"
	"sync"
	"sync/atomic"
	"time"

	tls "github.com/refraction-networking/utls"
	"verif/harness/hlib"
)

const postMsgLen = 64

func isClosed(ch chan struct{}) bool {
	select {
	case <-ch:
		return true
	default:
		return false
	}
}

// runPost: post-handshake phase of C26. One reader and one writer goroutine use an established TLS 1.3
// UConn while the hand-driven peer (tls.Server + VerifSendKeyUpdate) sends KeyUpdates, each followed by
// one byte of data, with seeded random delays. Everything is only logged: what was written (digest),
// what the peer's application received (digest), every return value and time.
// The log lock is taken at call boundaries only, so overlapping library calls stay unordered for the
// race detector.
func runPost(sc scenT) result {
	setupPKI()
	sc.Cfg.Ordered = true
	r := &run{sc: sc, loggers: map[string]*logger{}, byGoid: map[int64]*logger{}, owner: map[int64]string{},
		isIntr: map[int64]bool{}, parked: map[string]*park{}, arrived: map[string]bool{}, retd: map[string]bool{},
		rnd: rand.New(rand.NewSource(sc.Seed)), free: true}
	cfg := sc.Cfg
	meta := map[string]any{}
	res := result{Sc: sc.ID, Mode: sc.Mode, Cfg: cfg, Ev: map[string][]event{}, Meta: meta}
	id, err := hlib.LookupID(sc.Parrot)
	if err != nil {
		id = tls.HelloGolang
	}
	cb, sb := hlib.BufPipe()
	r.t0 = time.Now()
	dl := r.t0.Add(time.Duration(cfg.Deadline) * time.Millisecond)
	cb.SetDeadline(dl)
	sb.SetDeadline(dl)
	srv := tls.Server(sb, &tls.Config{Certificates: []tls.Certificate{srvCert}, MinVersion: tls.VersionTLS13, MaxVersion: tls.VersionTLS13, SessionTicketsDisabled: true})
	uc := tls.UClient(cb, &tls.Config{ServerName: "example.com", RootCAs: pki.Pool}, id)
	hs := make(chan error, 1)
	go func() { hs <- srv.Handshake() }()
	cerr := uc.Handshake()
	serr := <-hs
	if cerr != nil || serr != nil || uc.ConnectionState().Version != tls.VersionTLS13 {
		meta["setup_err"] = hlib.ErrStr(cerr) + "|" + hlib.ErrStr(serr)
		cb.Close()
		sb.Close()
		return res
	}
	mainLog, wLog, rLog := r.newLogger("main"), r.newLogger("writer"), r.newLogger("reader")
	ssLog, srLog := r.newLogger("srvsend"), r.newLogger("srvrecv")
	var stop, tearing atomic.Bool
	var written, received, rdBytes atomic.Int64
	const window = 3 // flow control: the writer stays at most this many messages ahead of the peer's application
	done := map[string]chan struct{}{"writer": make(chan struct{}), "reader": make(chan struct{}), "srvsend": make(chan struct{}), "srvrecv": make(chan struct{})}
	broken := make(chan struct{})
	var brokenOnce sync.Once
	guard := func(lg *logger, p string) {
		if pv := recover(); pv != nil {
			lg.emit(event{Ev: "panic", P: p, Err: hlib.ErrStr(nil) + "panic"}, false)
			brokenOnce.Do(func() { close(broken) })
		}
	}

	go func() { // the one writer
		defer close(done["writer"])
		defer guard(wLog, "writer")
		msg := make([]byte, postMsgLen)
		for i := 1; !stop.Load() && i <= sc.MaxWr; i++ {
			r.delay()
			for written.Load()-received.Load() >= window && !stop.Load() && !isClosed(broken) {
				time.Sleep(20 * time.Microsecond)
			}
			binary.BigEndian.PutUint64(msg, uint64(i))
			for j := 8; j < len(msg); j++ {
				msg[j] = byte(i*31+j) ^ byte(sc.Seed)
			}
			sum := int(crc32.ChecksumIEEE(msg) & 0x7fffffff)
			wLog.emit(event{Ev: "call", P: "writer", ID: i, Sum: sum, Len: len(msg)}, false)
			n, err := uc.Write(msg)
			wLog.emit(errEvent(event{Ev: "ret", P: "writer", ID: i, N: n, Len: len(msg)}, err, nil), false)
			if err != nil {
				return
			}
			written.Add(1)
		}
	}()
	go func() { // the one reader
		defer close(done["reader"])
		defer guard(rLog, "reader")
		buf := make([]byte, 256)
		for {
			rLog.emit(event{Ev: "call", P: "reader"}, false)
			n, err := uc.Read(buf)
			rLog.emit(errEvent(event{Ev: "ret", P: "reader", N: n}, err, nil), false)
			rdBytes.Add(int64(n))
			if err != nil {
				return
			}
		}
	}()
	go func() { // the peer's application: the client's stream
		defer close(done["srvrecv"])
		defer guard(srLog, "srvrecv")
		buf := make([]byte, postMsgLen)
		for {
			_, err := io.ReadFull(srv, buf)
			if err != nil {
				if !tearing.Load() {
					srLog.emit(errEvent(event{Ev: "srverr", P: "srvrecv"}, err, nil), false)
					brokenOnce.Do(func() { close(broken) })
				}
				return
			}
			id := binary.BigEndian.Uint64(buf)
			st := tls.VerifRecordStateOf(srv) // the peer's receive sequence number after this record (observation)
			srLog.emit(event{Ev: "got", P: "srvrecv", ID: int(id & 0x7fffffff), Sum: int(crc32.ChecksumIEEE(buf) & 0x7fffffff), N: int(st.InSeq & 0x7fffffff)}, false)
			received.Add(1)
		}
	}()
	go func() { // the peer's sender: KeyUpdate, then one byte of data
		defer close(done["srvsend"])
		defer guard(ssLog, "srvsend")
		for k, req := range sc.KUs {
			r.delay()
			ssLog.emit(event{Ev: "ku", P: "srvsend", Req: req}, false)
			err := tls.VerifSendKeyUpdate(srv, req)
			ssLog.emit(errEvent(event{Ev: "sent", P: "srvsend"}, err, nil), false)
			ssLog.emit(event{Ev: "data", P: "srvsend"}, false)
			_, err = srv.Write([]byte{byte(k)})
			ssLog.emit(errEvent(event{Ev: "sent", P: "srvsend"}, err, nil), false)
			if err != nil {
				return
			}
			// one KeyUpdate outstanding at a time: wait until the client's reader has returned the byte behind it
			for rdBytes.Load() < int64(k+1) && !isClosed(broken) && time.Now().Before(dl) {
				time.Sleep(20 * time.Microsecond)
			}
		}
	}()

	limit := time.After(time.Until(dl) + time.Duration(cfg.Slack)*time.Millisecond + 500*time.Millisecond)
	hung := []string{}
	wait := func(p string) bool {
		select {
		case <-done[p]:
			return true
		case <-broken:
			return false
		case <-limit:
			hung = append(hung, p)
			return false
		}
	}
	ok := wait("srvsend")
	stop.Store(true)
	ok = ok && wait("writer")
	for ok && received.Load() < written.Load() { // let the peer drain what was written
		select {
		case <-broken:
			ok = false
		case <-limit:
			ok = false
			hung = append(hung, "srvrecv")
		case <-time.After(200 * time.Microsecond):
		}
	}
	if ok {
		mainLog.emit(event{Ev: "srvclose", P: "main"}, false)
		srv.CloseWrite()
		ok = wait("reader")
	}
	for _, p := range hung {
		mainLog.emit(event{Ev: "hang", P: p}, false)
	}
	if ok {
		mainLog.emit(event{Ev: "final", P: "main", N: int(written.Load())}, false)
	}
	tearing.Store(true)
	uc.Close()
	cb.Close()
	sb.Close()
	for _, p := range []string{"writer", "reader", "srvsend", "srvrecv"} {
		select {
		case <-done[p]:
		case <-time.After(3 * time.Second):
			meta["stuck_after_teardown"] = p
		}
	}
	meta["written"] = written.Load()
	meta["received"] = received.Load()
	meta["hung"] = len(hung)
	r.mu.Lock()
	for key, lg := range r.loggers {
		res.Ev[key] = append([]event{}, lg.local...)
	}
	r.mu.Unlock()
	return res
}
