package main

import (
	"context"
	"encoding/json"
	"fmt"
	"io"
	"math/rand"
	"strings"
	"sync"
	"sync/atomic"
	"time"

	tls "github.com/refraction-networking/utls"
	"verif/harness/hlib"
)

// ---------------------------------------------------------------- scenario / event formats

type cfgT struct {
	HS          []string `json:"hs"`
	Cancellable []string `json:"cancellable"`
	Cancels     []string `json:"cancels"`
	Reader      bool     `json:"reader"`
	Writer      bool     `json:"writer"`
	Closer      string   `json:"closer"` // none | Close | CloseWrite
	Peer        string   `json:"peer"`   // answer | stall
	Gated       bool     `json:"gated"`  // gate and transport-close events are logged
	Ordered     bool     `json:"ordered"`
	H           bool     `json:"h"`        // reneg: a Handshake caller is present
	Rehs        bool     `json:"rehs"`     // reneg: the peer runs a second handshake after its HelloRequest
	Deadline    int      `json:"deadline"` // ms, I/O deadline on the transport (absolute, from scenario start)
	Slack       int      `json:"slack"`    // ms
}

type stepT struct {
	K string `json:"k"` // call | cancel | peer | pass | arrive | ret | timeout
	P string `json:"p"`
	G string `json:"g"`
	I bool   `json:"i"`
}

type scenT struct {
	ID     int     `json:"id"`
	Mode   string  `json:"mode"` // replay | stress | bare
	Cfg    cfgT    `json:"cfg"`
	Hist   []stepT `json:"hist"`
	Seed   int64   `json:"seed"`
	MaxUS  int     `json:"max_us"` // stress/bare: upper bound of the random delays
	Parrot string  `json:"parrot"`
	KUs    []bool  `json:"kus"`    // post: the peer's KeyUpdates (update_requested or not), in order
	MaxWr  int     `json:"max_wr"` // post: the writer stops after this many messages at the latest
}

type event struct {
	Ev       string `json:"ev"`
	P        string `json:"p"`
	G        string `json:"g"`
	I        bool   `json:"i"`
	Tgt      string `json:"tgt"`
	IsNil    bool   `json:"isnil"`
	Err      string `json:"err"`
	CtxErr   string `json:"ctxerr"`
	Complete bool   `json:"complete"`
	Closed   bool   `json:"closed"`
	T        int    `json:"t"`
	Seq      int    `json:"seq"`
	// post-handshake phase (mode "post")
	ID  int  `json:"id"`  // message number
	Sum int  `json:"sum"` // digest of the message bytes
	N   int  `json:"n"`   // bytes returned by Read / Write
	Len int  `json:"len"` // bytes handed to Write
	Req bool `json:"req"` // KeyUpdate with update_requested
}

type result struct {
	Sc   int                `json:"sc"`
	Mode string             `json:"mode"`
	Cfg  cfgT               `json:"cfg"`
	Ev   map[string][]event `json:"ev"`
	Meta map[string]any     `json:"meta"`
}

// ---------------------------------------------------------------- one run

type logger struct {
	r     *run
	key   string
	local []event
}

type park struct {
	gate string
	ch   chan struct{}
}

type run struct {
	sc      scenT
	t0      time.Time
	mu      sync.Mutex
	seq     int
	loggers map[string]*logger
	byGoid  map[int64]*logger // goroutine -> its logger (ordered modes only)
	owner   map[int64]string  // goroutine -> process name used in events
	isIntr  map[int64]bool
	parked  map[string]*park
	arrived map[string]bool
	retd    map[string]bool
	free    bool
	closed  bool // transport Close seen by the wrapper
	rnd     *rand.Rand
	rndMu   sync.Mutex
}

func (r *run) now() int { return int(time.Since(r.t0) / time.Millisecond) }

func (r *run) newLogger(key string) *logger {
	lg := &logger{r: r, key: key}
	r.loggers[key] = lg
	return lg
}

// emit appends to the goroutine's own log; in the ordered modes a global sequence number is taken
// under the run's lock (the caller holds it iff locked is true).
func (lg *logger) emit(e event, locked bool) {
	r := lg.r
	if r.sc.Cfg.Ordered && !locked {
		r.mu.Lock()
		defer r.mu.Unlock()
	}
	e.T = r.now()
	if r.sc.Cfg.Ordered {
		r.seq++
		e.Seq = r.seq
	}
	lg.local = append(lg.local, e)
}

func (r *run) delay() {
	if r.sc.MaxUS <= 0 {
		return
	}
	r.rndMu.Lock()
	d := r.rnd.Intn(r.sc.MaxUS + 1)
	r.rndMu.Unlock()
	if d > 0 {
		time.Sleep(time.Duration(d) * time.Microsecond)
	}
}

// Gate implements tls.VerifGateCtl.
func (r *run) Gate(point string, goid, creator int64) {
	r.mu.Lock()
	lg := r.byGoid[goid]
	if lg == nil {
		// a goroutine spawned by a registered one: the interrupter
		name := "?"
		if pl := r.byGoid[creator]; pl != nil {
			name = r.owner[creator]
		}
		key := name + ".i"
		lg = r.loggers[key]
		if lg == nil {
			lg = r.newLogger(key)
		}
		r.byGoid[goid] = lg
		r.owner[goid] = name
		r.isIntr[goid] = true
	}
	name, intr := r.owner[goid], r.isIntr[goid]
	lg.emit(event{Ev: "arrive", P: name, G: point, I: intr}, true)
	r.arrived[lg.key+"@"+point] = true
	if r.free {
		r.mu.Unlock()
		r.delay()
		lg.emit(event{Ev: "pass", P: name, G: point, I: intr}, false)
		return
	}
	pk := &park{gate: point, ch: make(chan struct{})}
	r.parked[lg.key] = pk
	r.mu.Unlock()
	<-pk.ch // the releaser logged "pass" on our behalf (under the lock) before closing ch
}

// release lets the goroutine parked under key through gate g. false: it did not get there in time.
func (r *run) release(key, g string, wait time.Duration) bool {
	end := time.Now().Add(wait)
	for {
		r.mu.Lock()
		if pk := r.parked[key]; pk != nil {
			if pk.gate != g {
				r.mu.Unlock()
				return false
			}
			r.passLocked(key, pk)
			r.mu.Unlock()
			return true
		}
		r.mu.Unlock()
		if time.Now().After(end) {
			return false
		}
		time.Sleep(100 * time.Microsecond)
	}
}

func (r *run) passLocked(key string, pk *park) {
	lg := r.loggers[key]
	name := strings.TrimSuffix(key, ".i")
	lg.emit(event{Ev: "pass", P: name, G: pk.gate, I: strings.HasSuffix(key, ".i")}, true)
	delete(r.parked, key)
	close(pk.ch)
}

func (r *run) await(f func() bool, wait time.Duration) bool {
	end := time.Now().Add(wait)
	for {
		r.mu.Lock()
		ok := f()
		r.mu.Unlock()
		if ok {
			return true
		}
		if time.Now().After(end) {
			return false
		}
		time.Sleep(100 * time.Microsecond)
	}
}

// freeRun opens all gates.
func (r *run) freeRun() {
	r.mu.Lock()
	r.free = true
	for key, pk := range r.parked {
		r.passLocked(key, pk)
	}
	r.mu.Unlock()
}

// recConn reports the transport's Close (who called it) before performing it.
type recConn struct {
	*hlib.BufConn
	r *run
}

func (c *recConn) Close() error {
	goid, _ := tls.VerifGoID()
	r := c.r
	r.mu.Lock()
	r.closed = true
	lg := r.byGoid[goid]
	if lg == nil {
		lg = r.loggers["main"]
	}
	name := r.owner[goid]
	lg.emit(event{Ev: "connclose", P: name, I: r.isIntr[goid]}, true)
	r.mu.Unlock()
	return c.BufConn.Close()
}

// bareConn is the transport of hook-free runs: it only remembers that Close was called.
type bareConn struct {
	*hlib.BufConn
	closed atomic.Bool
}

func (c *bareConn) Close() error {
	c.closed.Store(true)
	return c.BufConn.Close()
}

var (
	pkiOnce sync.Once
	pki     *hlib.PKI
	srvCert tls.Certificate
)

func setupPKI() {
	pkiOnce.Do(func() {
		pki = hlib.NewPKI()
		srvCert = pki.Std("ecdsa", "example.com")
	})
}

func errEvent(ev event, err error, ctx context.Context) event {
	ev.IsNil = err == nil
	ev.Err = hlib.ErrStr(err)
	if ctx != nil && ctx.Err() != nil {
		ev.CtxErr = ctx.Err().Error()
	}
	return ev
}

func runScenario(sc scenT) result {
	setupPKI()
	r := &run{sc: sc, loggers: map[string]*logger{}, byGoid: map[int64]*logger{}, owner: map[int64]string{},
		isIntr: map[int64]bool{}, parked: map[string]*park{}, arrived: map[string]bool{}, retd: map[string]bool{},
		rnd: rand.New(rand.NewSource(sc.Seed))}
	cfg := sc.Cfg
	r.free = sc.Mode != "replay"
	meta := map[string]any{"diverged_at": -1}

	id, err := hlib.LookupID(sc.Parrot)
	if err != nil {
		id = tls.HelloGolang
	}
	cb, sb := hlib.BufPipe()
	r.t0 = time.Now()
	dl := r.t0.Add(time.Duration(cfg.Deadline) * time.Millisecond)
	cb.SetDeadline(dl)
	sb.SetDeadline(dl)
	ccfg := &tls.Config{ServerName: "example.com", RootCAs: pki.Pool}
	var uc *tls.UConn
	var bare *bareConn
	if cfg.Gated {
		tls.VerifSetGateCtl(ccfg, r)
		defer tls.VerifSetGateCtl(ccfg, nil)
		uc = tls.UClient(&recConn{BufConn: cb, r: r}, ccfg, id)
	} else {
		bare = &bareConn{BufConn: cb}
		uc = tls.UClient(bare, ccfg, id)
	}

	// peer: tls.Server that answers once released, then sends 4 bytes and drains until the client goes away
	peerGo := make(chan struct{})
	peerStop := make(chan struct{})
	peerDone := make(chan struct{})
	var peerErr error
	go func() {
		defer close(peerDone)
		select {
		case <-peerGo:
		case <-peerStop:
			return
		}
		srv := tls.Server(sb, &tls.Config{Certificates: []tls.Certificate{srvCert}})
		peerErr = srv.Handshake()
		if peerErr == nil {
			srv.Write([]byte("pong"))
			io.Copy(io.Discard, srv)
		}
		sb.Close()
	}()

	mainLog := r.newLogger("main")
	peerLog := r.newLogger("peer")
	procs := append([]string{}, cfg.HS...)
	if cfg.Reader {
		procs = append(procs, "reader")
	}
	if cfg.Writer {
		procs = append(procs, "writer")
	}
	if cfg.Closer != "none" && cfg.Closer != "" {
		procs = append(procs, "closer")
	}
	isCancellable := map[string]bool{}
	for _, h := range cfg.Cancellable {
		isCancellable[h] = true
	}
	ctxs := map[string]context.Context{}
	cancels := map[string]context.CancelFunc{}
	for _, h := range cfg.HS {
		if isCancellable[h] {
			ctxs[h], cancels[h] = context.WithCancel(context.Background())
		} else {
			ctxs[h] = context.Background()
		}
	}
	plog := map[string]*logger{}
	done := map[string]chan struct{}{}
	started := map[string]bool{}
	for _, p := range procs {
		plog[p] = r.newLogger(p)
		done[p] = make(chan struct{})
	}
	clog := map[string]*logger{}
	cancelled := map[string]bool{}
	var cancMu sync.Mutex
	for _, h := range cfg.Cancels {
		clog[h] = r.newLogger("canc." + h)
	}

	// startProc runs p's API call in its own goroutine; returns after "call" was logged.
	startProc := func(p string, pre func()) {
		started[p] = true
		reg := make(chan struct{})
		go func() {
			defer close(done[p])
			lg := plog[p]
			if cfg.Ordered {
				goid, _ := tls.VerifGoID()
				r.mu.Lock()
				r.byGoid[goid] = lg
				r.owner[goid] = p
				r.mu.Unlock()
			}
			if pre != nil {
				close(reg)
				pre()
			}
			lg.emit(event{Ev: "call", P: p}, false)
			if pre == nil {
				close(reg)
			}
			var err error
			var ctx context.Context
			defer func() {
				if pv := recover(); pv != nil { // a panic inside the library call: logged, never explained by the model
					lg.emit(event{Ev: "panic", P: p, Err: fmt.Sprint(pv)}, false)
				}
			}()
			switch {
			case p == "reader":
				buf := make([]byte, 4)
				_, err = uc.Read(buf)
			case p == "writer":
				_, err = uc.Write([]byte("ping"))
			case p == "closer" && cfg.Closer == "CloseWrite":
				err = uc.CloseWrite()
			case p == "closer":
				err = uc.Close()
			default:
				ctx = ctxs[p]
				err = uc.HandshakeContext(ctx)
			}
			lg.emit(errEvent(event{Ev: "ret", P: p}, err, ctx), false)
			if cfg.Ordered {
				r.mu.Lock()
				r.retd[p] = true
				r.mu.Unlock()
			}
		}()
		<-reg
	}
	doCancel := func(h string) {
		lg := clog[h]
		cancMu.Lock()
		cancelled[h] = true
		cancMu.Unlock()
		lg.emit(event{Ev: "call", P: "canc", Tgt: h}, false)
		cancels[h]()
		lg.emit(event{Ev: "ret", P: "canc", Tgt: h, IsNil: true}, false)
	}
	peerReleased := false
	doPeer := func() {
		if cfg.Peer == "answer" && !peerReleased {
			peerReleased = true
			peerLog.emit(event{Ev: "peer", P: "peer"}, false)
			close(peerGo)
		}
	}

	short := 400 * time.Millisecond
	var bg sync.WaitGroup
	switch sc.Mode {
	case "replay":
		for i, st := range sc.Hist {
			ok := true
			key := st.P
			if st.I {
				key += ".i"
			}
			switch st.K {
			case "call":
				if plog[st.P] != nil && !started[st.P] {
					startProc(st.P, nil)
				}
			case "cancel":
				if clog[st.P] != nil && !cancelled[st.P] {
					doCancel(st.P)
				}
			case "peer":
				doPeer()
			case "timeout":
				if d := time.Until(dl); d > 0 {
					time.Sleep(d + time.Millisecond)
				}
			case "pass":
				ok = r.release(key, st.G, short)
			case "arrive":
				ok = r.await(func() bool { return r.arrived[key+"@"+st.G] }, short)
			case "ret":
				ok = r.await(func() bool { return r.retd[st.P] }, short)
			}
			if !ok {
				meta["diverged_at"] = i
				break
			}
		}
		r.freeRun()
		for _, p := range procs {
			if !started[p] {
				startProc(p, nil)
			}
		}
		for _, h := range cfg.Cancels {
			if !cancelled[h] {
				doCancel(h)
			}
		}
		doPeer()
	default: // stress (gate events, random delays at the gates) and bare (no hooks at all)
		for _, p := range procs {
			startProc(p, r.delay)
		}
		for _, h := range cfg.Cancels {
			h := h
			bg.Add(1)
			go func() { defer bg.Done(); r.delay(); doCancel(h) }()
		}
		if cfg.Peer == "answer" {
			bg.Add(1)
			go func() { defer bg.Done(); r.delay(); doPeer() }()
		}
	}

	// watchdog tied to the I/O deadline: every call must be back by deadline + slack
	limit := time.NewTimer(time.Until(dl) + time.Duration(cfg.Slack)*time.Millisecond + 500*time.Millisecond)
	hung := []string{}
	for _, p := range procs {
		select {
		case <-done[p]:
		case <-limit.C:
			hung = append(hung, p)
			limit.Reset(0)
		}
	}
	limit.Stop()
	bg.Wait()
	for _, p := range hung {
		mainLog.emit(event{Ev: "hang", P: p}, false)
	}
	// cancelling a context after its call returned must not touch the connection
	if len(hung) == 0 {
		for _, h := range cfg.HS {
			if isCancellable[h] && !cancelled[h] {
				mainLog.emit(event{Ev: "latecancel", P: "canc", Tgt: h}, false)
				cancels[h]()
			}
		}
		for _, h := range cfg.Cancels { // cancel again: idempotent, also after return
			cancels[h]()
		}
		time.Sleep(2 * time.Millisecond)
		closed := false
		if cfg.Gated {
			r.mu.Lock()
			closed = r.closed
			r.mu.Unlock()
		} else {
			closed = bare.closed.Load()
		}
		cs := uc.ConnectionState()
		mainLog.emit(event{Ev: "final", P: "main", Complete: cs.HandshakeComplete, Closed: closed}, false)
	}
	// teardown (not part of the observation)
	close(peerStop)
	cb.Close()
	sb.Close()
	select {
	case <-peerDone:
	case <-time.After(2 * time.Second):
	}
	for _, c := range cancels {
		c()
	}
	meta["peer_err"] = hlib.ErrStr(peerErr)
	meta["hung"] = len(hung)

	res := result{Sc: sc.ID, Mode: sc.Mode, Cfg: cfg, Ev: map[string][]event{}, Meta: meta}
	r.mu.Lock()
	for key, lg := range r.loggers {
		skip := false
		for _, p := range hung {
			if key == p || key == p+".i" {
				skip = true // still owned by a goroutine that never came back
			}
		}
		if !skip {
			res.Ev[key] = append([]event{}, lg.local...)
		}
	}
	r.mu.Unlock()
	return res
}

func init() {
	hlib.Register("run", func(in []byte, out *hlib.Out) error {
		var req struct {
			Scenarios []scenT `json:"scenarios"`
			Par       int     `json:"par"`
		}
		if err := json.Unmarshal(in, &req); err != nil {
			return err
		}
		if req.Par <= 0 {
			req.Par = 16
		}
		sem := make(chan struct{}, req.Par)
		var wg sync.WaitGroup
		for _, sc := range req.Scenarios {
			sc := sc
			wg.Add(1)
			sem <- struct{}{}
			go func() {
				defer wg.Done()
				defer func() { <-sem }()
				defer func() {
					if p := recover(); p != nil {
						out.Emit(result{Sc: sc.ID, Mode: sc.Mode, Cfg: sc.Cfg, Ev: map[string][]event{}, Meta: map[string]any{"panic": fmt.Sprint(p)}})
					}
				}()
				if sc.Mode == "post" {
					out.Emit(runPost(sc))
				} else if sc.Mode == "reneg" || sc.Mode == "reneg-stress" {
					out.Emit(runReneg(sc))
				} else {
					out.Emit(runScenario(sc))
				}
			}()
		}
		wg.Wait()
		return nil
	})
}
