package main

import (
	"bytes"
	"encoding/json"

	tls "github.com/refraction-networking/utls"
	"verif/harness/hlib"
)

type outcome struct {
	Out   []int  `json:"out"`
	N     int    `json:"n"`
	Panic string `json:"panic"`
}

type readOutcome struct {
	Val  []int  `json:"val"`
	Err  string `json:"err"`
	Used int    `json:"used"` // bytes consumed from the reader
}

func doRead(in []byte) readOutcome {
	r := bytes.NewReader(in)
	var ro readOutcome
	ro.Val = be8(0)
	p := try(func() {
		v, err := tls.VerifVarintRead(r)
		ro.Val, ro.Err = be8(v), hlib.ErrStr(err)
	})
	if p != "" {
		ro.Err = "panic: " + p
	}
	ro.Used = len(in) - r.Len()
	return ro
}

// mkdst builds the destination slice handed to Append/AppendWithLen: it always holds exactly `prefix`;
// the shapes differ in what lies behind it.
//
//	fresh      a new allocation made by append (spare capacity, if any, is zero)
//	full       len == cap: the callee has to reallocate
//	dirty-ff   a reused scratch buffer: 24 bytes of spare capacity holding 0xff
//	dirty-rand the same with a non-zero byte pattern that differs per case
func mkdst(kind string, prefix []byte, k int) []byte {
	switch kind {
	case "full":
		b := make([]byte, len(prefix), len(prefix))
		copy(b, prefix)
		return b
	case "dirty-ff", "dirty-rand":
		b := make([]byte, len(prefix)+24)
		for i := range b {
			if kind == "dirty-ff" {
				b[i] = 0xff
			} else {
				b[i] = byte(1 + (i*131+k*17)%255)
			}
		}
		copy(b, prefix)
		return b[:len(prefix)]
	}
	return append([]byte{}, prefix...)
}

func init() {
	// varint: {"values":[B8...], "prefix":[bytes], "widths":[ints], "tail":[bytes]}
	// per value one event {ev:"V", x, prefix, append, appends:[{dst, ...}], len, awl:[{w, dst, ...}], rt} where rt = Read over (what Append produced ++ tail)
	hlib.Register("varint", func(in []byte, out *hlib.Out) error {
		var req struct {
			Values [][]int
			Prefix []int
			Widths []int
			Tail   []int
			Dsts   []string // destination slice shapes, see mkdst; default ["fresh"]
		}
		if err := json.Unmarshal(in, &req); err != nil {
			return err
		}
		prefix := hlib.Unints(req.Prefix)
		dsts := req.Dsts
		if len(dsts) == 0 {
			dsts = []string{"fresh"}
		}
		type awl struct {
			W   int    `json:"w"`
			Dst string `json:"dst"`
			outcome
		}
		type app struct {
			Dst string `json:"dst"`
			outcome
		}
		type ev struct {
			Ev      string      `json:"ev"`
			X       []int       `json:"x"`
			Prefix  []int       `json:"prefix"`
			Tail    []int       `json:"tail"`
			Append  outcome     `json:"append"`
			Appends []app       `json:"appends"`
			Len     outcome     `json:"len"`
			AWL     []awl       `json:"awl"`
			RT      readOutcome `json:"rt"`
			HasRT   bool        `json:"hasrt"`
		}
		evs := make([]ev, len(req.Values))
		hlib.Parallel(len(req.Values), func(k int) {
			x := u64(req.Values[k])
			e := ev{Ev: "V", X: be8(x), Prefix: hlib.Ints(prefix), Tail: hlib.Ints(hlib.Unints(req.Tail)), AWL: []awl{}, Appends: []app{}}
			e.Append.Out, e.Len.Out = []int{}, []int{}
			var enc []byte
			e.Append.Panic = try(func() {
				enc = tls.VerifVarintAppend(mkdst("fresh", prefix, k), x)
				e.Append.Out = hlib.Ints(enc)
			})
			e.Len.Panic = try(func() { e.Len.N = int(tls.VerifVarintLen(x)) })
			for _, d := range dsts {
				a := app{Dst: d}
				a.Out = []int{}
				a.Panic = try(func() { a.Out = hlib.Ints(tls.VerifVarintAppend(mkdst(d, prefix, k), x)) })
				e.Appends = append(e.Appends, a)
				for _, w := range req.Widths {
					a := awl{W: w, Dst: d}
					a.Out = []int{}
					a.Panic = try(func() {
						a.Out = hlib.Ints(tls.VerifVarintAppendWithLen(mkdst(d, prefix, k), x, int64(w)))
					})
					e.AWL = append(e.AWL, a)
				}
			}
			e.RT = readOutcome{Val: be8(0)}
			if e.Append.Panic == "" && len(enc) >= len(prefix) {
				e.HasRT = true
				e.RT = doRead(append(append([]byte{}, enc[len(prefix):]...), hlib.Unints(req.Tail)...))
			}
			evs[k] = e
		})
		for _, e := range evs {
			out.Emit(e)
		}
		return nil
	})

	// varread: {"inputs":[[bytes]...]} -> {ev:"R", in, rd:{val, err, used}}
	hlib.Register("varread", func(in []byte, out *hlib.Out) error {
		var req struct{ Inputs [][]int }
		if err := json.Unmarshal(in, &req); err != nil {
			return err
		}
		for _, i := range req.Inputs {
			b := hlib.Unints(i)
			out.Emit(map[string]any{"ev": "R", "in": hlib.Ints(b), "rd": doRead(b)})
		}
		return nil
	})
}
