package main

import (
	"crypto/hkdf"
	"crypto/sha3"
	"encoding/json"
	"fmt"
	"math"
	"sync"

	tls "github.com/refraction-networking/utls"
	"verif/harness/hlib"
)

// op is one call on a prng. 64-bit arguments are 8-byte big-endian (two's complement ints, IEEE-754 bits for W).
type op struct {
	Op  string `json:"op"` // Read Uint64 Int63 Intn Int63n Range Flip
	Len int    `json:"len"`
	N   []int  `json:"n"`
	Min []int  `json:"min"`
	Max []int  `json:"max"`
	W   []int  `json:"w"`
}

type scenario struct {
	Sc      int    `json:"sc"`
	Seed    []int  `json:"seed"`
	Salt    []int  `json:"salt"`
	Track   bool   `json:"track"`
	Ops     []op   `json:"ops"`     // sequential scenario
	Threads [][]op `json:"threads"` // concurrent scenario: one op list per goroutine
}

func newPRNG(s scenario) (*tls.VerifPRNG, error) {
	if len(s.Salt) > 0 {
		return tls.VerifNewSaltedPRNG(hlib.Unints(s.Seed), string(hlib.Unints(s.Salt)))
	}
	return tls.VerifNewPRNG(hlib.Unints(s.Seed))
}

// run performs one call and returns the event describing what was observed.
func run(p *tls.VerifPRNG, o op) map[string]any {
	e := map[string]any{"ev": o.Op, "panic": ""}
	pn := try(func() {
		switch o.Op {
		case "Read":
			b := make([]byte, o.Len)
			n, err := p.Read(b)
			e["len"], e["out"], e["n"], e["err"] = o.Len, hlib.Ints(b), n, hlib.ErrStr(err)
		case "Uint64":
			e["out"] = be8(p.Uint64())
		case "Int63":
			e["out"] = be8(uint64(p.Int63()))
		case "Intn":
			e["n"] = be8(u64(o.N))
			e["out"] = be8(uint64(int64(p.Intn(int(int64(u64(o.N)))))))
		case "Int63n":
			e["n"] = be8(u64(o.N))
			e["out"] = be8(uint64(p.Int63n(int64(u64(o.N)))))
		case "Range":
			e["min"], e["max"] = be8(u64(o.Min)), be8(u64(o.Max))
			e["out"] = be8(uint64(int64(p.Range(int(int64(u64(o.Min))), int(int64(u64(o.Max)))))))
		case "Flip":
			e["w"] = be8(u64(o.W))
			e["out"] = p.FlipWeightedCoin(math.Float64frombits(u64(o.W)))
		default:
			panic("harness: unknown op " + o.Op)
		}
	})
	if pn != "" {
		e["panic"] = pn
		// keep the record shape TLC expects
		for k, v := range map[string]any{"len": o.Len, "out": []int{}, "n": be8(0), "min": be8(0), "max": be8(0), "w": be8(0)} {
			if _, ok := e[k]; !ok {
				e[k] = v
			}
		}
		if o.Op == "Flip" {
			e["out"] = false
		}
	}
	return e
}

func init() {
	// prngref: {"seeds":[[32 bytes]...], "n": N} -> {ev:"Ref", seed, stream}: ONE Read of N bytes from a fresh prng
	hlib.Register("prngref", func(in []byte, out *hlib.Out) error {
		var req struct {
			Seeds [][]int
			N     int
		}
		if err := json.Unmarshal(in, &req); err != nil {
			return err
		}
		evs := make([]map[string]any, len(req.Seeds))
		var ferr error
		hlib.Parallel(len(req.Seeds), func(k int) {
			p, err := tls.VerifNewPRNG(hlib.Unints(req.Seeds[k]))
			if err != nil {
				ferr = err
				return
			}
			b := make([]byte, req.N)
			p.Read(b)
			evs[k] = map[string]any{"ev": "Ref", "seed": hlib.Ints(hlib.Unints(req.Seeds[k])), "stream": hlib.Ints(b)}
		})
		if ferr != nil {
			return ferr
		}
		for _, e := range evs {
			out.Emit(e)
		}
		return nil
	})

	// prngsalt: {"cases":[{seed, salt}]} -> {ev:"Salt", seed, salt, out, err, ind, inderr}
	hlib.Register("prngsalt", func(in []byte, out *hlib.Out) error {
		var req struct {
			Cases []struct{ Seed, Salt []int }
		}
		if err := json.Unmarshal(in, &req); err != nil {
			return err
		}
		for _, c := range req.Cases {
			e := map[string]any{"ev": "Salt", "seed": hlib.Ints(hlib.Unints(c.Seed)), "salt": hlib.Ints(hlib.Unints(c.Salt)), "out": []int{}, "err": "", "ind": []int{}, "inderr": ""}
			// second observation: the same derivation by an independent implementation (Go standard library HKDF and
			// SHA3-256, not golang.org/x/crypto and not the function under test). TLC compares; nothing is judged here.
			if pn := try(func() {
				k, err := hkdf.Key(sha3.New256, hlib.Unints(c.Seed), hlib.Unints(c.Salt), "", 32)
				e["ind"], e["inderr"] = hlib.Ints(k), hlib.ErrStr(err)
			}); pn != "" {
				e["inderr"] = "panic: " + pn
			}
			pn := try(func() {
				o, err := tls.VerifSaltedSeed(hlib.Unints(c.Seed), string(hlib.Unints(c.Salt)))
				e["out"], e["err"] = hlib.Ints(o), hlib.ErrStr(err)
			})
			if pn != "" {
				e["err"] = "panic: " + pn
			}
			out.Emit(e)
		}
		return nil
	})

	// prngseq: {"scenarios":[{sc, seed, salt, track, ops}]} -> New, one event per call, End.
	hlib.Register("prngseq", func(in []byte, out *hlib.Out) error {
		var req struct{ Scenarios []scenario }
		if err := json.Unmarshal(in, &req); err != nil {
			return err
		}
		logs := make([][]map[string]any, len(req.Scenarios))
		var ferr error
		hlib.Parallel(len(req.Scenarios), func(k int) {
			s := req.Scenarios[k]
			p, err := newPRNG(s)
			if err != nil {
				ferr = err
				return
			}
			lg := []map[string]any{{"ev": "New", "sc": s.Sc, "seed": hlib.Ints(hlib.Unints(s.Seed)), "salt": hlib.Ints(hlib.Unints(s.Salt)), "track": s.Track}}
			for _, o := range s.Ops {
				lg = append(lg, run(p, o))
			}
			logs[k] = append(lg, map[string]any{"ev": "End", "sc": s.Sc})
		})
		if ferr != nil {
			return ferr
		}
		for _, lg := range logs {
			for _, e := range lg {
				out.Emit(e)
			}
		}
		return nil
	})

	// prngconc: one shared prng per scenario, one goroutine per op list, all released together.
	// tracked scenarios log Call{t,op,len} before and Ret{t,out} after every call (Read/Uint64/Int63 only);
	// the order of the log lines is the order in which Emit was entered, so a Call line precedes the start
	// of its call and a Ret line follows its return. Untracked scenarios log one event per finished call.
	hlib.Register("prngconc", func(in []byte, out *hlib.Out) error {
		var req struct{ Scenarios []scenario }
		if err := json.Unmarshal(in, &req); err != nil {
			return err
		}
		for _, s := range req.Scenarios {
			p, err := newPRNG(s)
			if err != nil {
				return err
			}
			out.Emit(map[string]any{"ev": "New", "sc": s.Sc, "seed": hlib.Ints(hlib.Unints(s.Seed)), "salt": hlib.Ints(hlib.Unints(s.Salt)), "track": s.Track})
			start := make(chan struct{})
			var wg sync.WaitGroup
			for t, ops := range s.Threads {
				wg.Add(1)
				go func(t int, ops []op) {
					defer wg.Done()
					<-start
					for _, o := range ops {
						if !s.Track {
							e := run(p, o)
							e["t"] = t
							out.Emit(e)
							continue
						}
						n := o.Len
						if o.Op != "Read" {
							n = 8
						}
						if o.Op != "Read" && o.Op != "Uint64" && o.Op != "Int63" {
							panic(fmt.Sprint("harness: tracked concurrent scenarios support Read/Uint64/Int63 only, got ", o.Op))
						}
						out.Emit(map[string]any{"ev": "Call", "t": t, "op": o.Op, "len": n, "panic": ""})
						e := run(p, o)
						out.Emit(map[string]any{"ev": "Ret", "t": t, "out": e["out"], "panic": e["panic"]})
					}
				}(t, ops)
			}
			close(start)
			wg.Wait()
			out.Emit(map[string]any{"ev": "End", "sc": s.Sc})
		}
		return nil
	})
}
