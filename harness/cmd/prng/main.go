// prng is the harness binary of the C24/C30 family: it runs the real u_prng.go helpers, the real
// internal/quicvarint functions and TransportParameters.Marshal on cases chosen by TLC / the runner
// and logs what it observed. It contains no expected values and no reference encoder: every
// judgement is made by TLC (spec/Prng.tla, spec/Varint.tla).
// usage: prng <command> <in.json> <out.ndjson>
package main

import (
	"encoding/binary"
	"fmt"

	"verif/harness/hlib"
)

func main() { hlib.Main() }

// 64-bit values travel as 8-byte big-endian arrays (TLC integers are 32 bit).
func be8(u uint64) []int {
	var b [8]byte
	binary.BigEndian.PutUint64(b[:], u)
	return hlib.Ints(b[:])
}

func u64(v []int) uint64 {
	var b [8]byte
	copy(b[:], hlib.Unints(v))
	return binary.BigEndian.Uint64(b[:])
}

// try runs f and returns the text of the panic it raised ("" if none). An empty panic text is
// made visible as "panic".
func try(f func()) (panicked string) {
	defer func() {
		if p := recover(); p != nil {
			panicked = fmt.Sprint(p)
			if panicked == "" {
				panicked = "panic"
			}
		}
	}()
	f()
	return ""
}
