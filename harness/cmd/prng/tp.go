package main

import (
	"encoding/binary"
	"encoding/json"
	"fmt"

	tls "github.com/refraction-networking/utls"
	"verif/harness/hlib"
)

// desc is a transport parameter descriptor (uniform shape, see spec/Varint.tla TPMatches).
type desc struct {
	Kind   string  `json:"kind"`
	V      []int   `json:"v"`
	ID     []int   `json:"id"`
	Val    []int   `json:"val"`
	Length int     `json:"length"`
	Chosen []int   `json:"chosen"`
	Avail  [][]int `json:"avail"`
	Legacy bool    `json:"legacy"`
}

func (d *desc) norm() {
	if d.V == nil {
		d.V = be8(0)
	}
	if d.ID == nil {
		d.ID = be8(0)
	}
	if d.Val == nil {
		d.Val = []int{}
	}
	if d.Chosen == nil {
		d.Chosen = []int{0, 0, 0, 0}
	}
	if d.Avail == nil {
		d.Avail = [][]int{}
	}
}

func u32(v []int) uint32 {
	var b [4]byte
	copy(b[:], hlib.Unints(v))
	return binary.BigEndian.Uint32(b[:])
}

// build constructs the real parameter object a descriptor names.
func build(d desc) (tls.TransportParameter, error) {
	v := u64(d.V)
	switch d.Kind {
	case "MaxIdleTimeout":
		return tls.MaxIdleTimeout(v), nil
	case "MaxUDPPayloadSize":
		return tls.MaxUDPPayloadSize(v), nil
	case "InitialMaxData":
		return tls.InitialMaxData(v), nil
	case "InitialMaxStreamDataBidiLocal":
		return tls.InitialMaxStreamDataBidiLocal(v), nil
	case "InitialMaxStreamDataBidiRemote":
		return tls.InitialMaxStreamDataBidiRemote(v), nil
	case "InitialMaxStreamDataUni":
		return tls.InitialMaxStreamDataUni(v), nil
	case "InitialMaxStreamsBidi":
		return tls.InitialMaxStreamsBidi(v), nil
	case "InitialMaxStreamsUni":
		return tls.InitialMaxStreamsUni(v), nil
	case "MaxAckDelay":
		return tls.MaxAckDelay(v), nil
	case "ActiveConnectionIDLimit":
		return tls.ActiveConnectionIDLimit(v), nil
	case "MaxDatagramFrameSize":
		return tls.MaxDatagramFrameSize(v), nil
	case "DisableActiveMigration":
		return &tls.DisableActiveMigration{}, nil
	case "GREASEQUICBit":
		return &tls.GREASEQUICBit{}, nil
	case "InitialSourceConnectionID":
		return tls.InitialSourceConnectionID(hlib.Unints(d.Val)), nil
	case "PaddingTransportParameter":
		return tls.PaddingTransportParameter(hlib.Unints(d.Val)), nil
	case "VersionInformation":
		vi := &tls.VersionInformation{ChoosenVersion: u32(d.Chosen), LegacyID: d.Legacy}
		for _, a := range d.Avail {
			vi.AvailableVersions = append(vi.AvailableVersions, u32(a))
		}
		return vi, nil
	case "GREASE":
		g := &tls.GREASETransportParameter{IdOverride: u64(d.ID), Length: uint16(d.Length)}
		if len(d.Val) > 0 {
			g.ValueOverride = hlib.Unints(d.Val)
		}
		return g, nil
	case "Fake":
		return &tls.FakeQUICTransportParameter{Id: u64(d.ID), Val: hlib.Unints(d.Val)}, nil
	}
	return nil, fmt.Errorf("unknown transport parameter kind %q", d.Kind)
}

func init() {
	// tplist: {"lists":[[desc...]...]} -> per list {ev:"TP", ds, out, panic, ext, extn, exterr, extpanic}
	//   out  = TransportParameters(list).Marshal()
	//   ext  = what a fresh QUICTransportParametersExtension over an identically built list writes (Len + Read)
	hlib.Register("tplist", func(in []byte, out *hlib.Out) error {
		var req struct{ Lists [][]desc }
		if err := json.Unmarshal(in, &req); err != nil {
			return err
		}
		type ev struct {
			Ev       string `json:"ev"`
			Ds       []desc `json:"ds"`
			Out      []int  `json:"out"`
			Panic    string `json:"panic"`
			Ext      []int  `json:"ext"`
			ExtN     int    `json:"extn"`
			ExtLen   int    `json:"extlen"`
			ExtErr   string `json:"exterr"`
			ExtPanic string `json:"extpanic"`
		}
		evs := make([]ev, len(req.Lists))
		var berr error
		hlib.Parallel(len(req.Lists), func(k int) {
			ds := req.Lists[k]
			if ds == nil {
				ds = []desc{}
			}
			mk := func() tls.TransportParameters {
				tps := tls.TransportParameters{}
				for i := range ds {
					ds[i].norm()
					p, err := build(ds[i])
					if err != nil {
						berr = err
						return nil
					}
					tps = append(tps, p)
				}
				return tps
			}
			e := ev{Ev: "TP", Ds: ds, Out: []int{}, Ext: []int{}}
			tps := mk()
			e.Panic = try(func() { e.Out = hlib.Ints(tps.Marshal()) })
			x := &tls.QUICTransportParametersExtension{TransportParameters: mk()}
			e.ExtPanic = try(func() {
				e.ExtLen = x.Len()
				buf := make([]byte, e.ExtLen)
				n, err := x.Read(buf)
				e.ExtN, e.ExtErr, e.Ext = n, hlib.ErrStr(err), hlib.Ints(buf)
			})
			evs[k] = e
		})
		if berr != nil {
			return berr
		}
		for _, e := range evs {
			out.Emit(e)
		}
		return nil
	})

	// tpown: {"scenarios":[{sc, steps:[{kind:"marshal"|"ext"|"append", ds, x}]}]}
	// Ownership of returned values. ONE goroutine performs the steps of a scenario in order, each on its own
	// object, and KEEPS what it got: the slice returned by Marshal / quicvarint.Append (not a copy), or the
	// extension object. After every step it logs `now`: the present contents of everything it holds, oldest
	// first (a held slice is read again, a held extension is written again into a new buffer).
	// -> {ev:"Own", sc, step, kind, ds, x, out, panic, now}
	hlib.Register("tpown", func(in []byte, out *hlib.Out) error {
		type step struct {
			Kind string `json:"kind"`
			Ds   []desc `json:"ds"`
			X    []int  `json:"x"`
		}
		var req struct {
			Scenarios []struct {
				Sc    int    `json:"sc"`
				Steps []step `json:"steps"`
			}
		}
		if err := json.Unmarshal(in, &req); err != nil {
			return err
		}
		type holder struct {
			b []byte
			x *tls.QUICTransportParametersExtension
		}
		for _, sc := range req.Scenarios {
			var held []holder
			for k, st := range sc.Steps {
				if st.Ds == nil {
					st.Ds = []desc{}
				}
				if st.X == nil {
					st.X = be8(0)
				}
				tps := tls.TransportParameters{}
				for i := range st.Ds {
					st.Ds[i].norm()
					p, err := build(st.Ds[i])
					if err != nil {
						return err
					}
					tps = append(tps, p)
				}
				e := map[string]any{"ev": "Own", "sc": sc.Sc, "step": k + 1, "kind": st.Kind, "ds": st.Ds, "x": be8(u64(st.X)), "out": []int{}}
				var h holder
				e["panic"] = try(func() {
					switch st.Kind {
					case "marshal":
						h.b = tps.Marshal()
						if h.b == nil {
							h.b = []byte{}
						}
						e["out"] = hlib.Ints(h.b)
					case "append":
						h.b = tls.VerifVarintAppend(nil, u64(st.X))
						e["out"] = hlib.Ints(h.b)
					case "ext":
						h.x = &tls.QUICTransportParametersExtension{TransportParameters: tps}
						buf := make([]byte, h.x.Len())
						h.x.Read(buf)
						e["out"] = hlib.Ints(buf)
					default:
						panic("harness: unknown step kind " + st.Kind)
					}
				})
				if e["panic"] == "" {
					held = append(held, h)
				}
				now := [][]int{}
				for _, r := range held {
					if r.x != nil {
						var again []byte
						if p := try(func() { again = make([]byte, r.x.Len()); r.x.Read(again) }); p != "" {
							again = []byte("panic: " + p)
						}
						now = append(now, hlib.Ints(again))
					} else {
						now = append(now, hlib.Ints(r.b))
					}
				}
				e["now"] = now
				out.Emit(e)
			}
		}
		return nil
	})
}
