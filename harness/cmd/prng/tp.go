package main

import (
	"encoding/binary"
	"encoding/json"
	"fmt"

	tls "github.com/refraction-networking/utls"
	"verif/harness/hlib"
)

// desc is a transport parameter descriptor (uniform shape, see spec/Varint.tla TPMatches).
type desc struct {
	Kind   string  `json:"kind"`
	V      []int   `json:"v"`
	ID     []int   `json:"id"`
	Val    []int   `json:"val"`
	Length int     `json:"length"`
	Chosen []int   `json:"chosen"`
	Avail  [][]int `json:"avail"`
	Legacy bool    `json:"legacy"`
}

func (d *desc) norm() {
	if d.V == nil {
		d.V = be8(0)
	}
	if d.ID == nil {
		d.ID = be8(0)
	}
	if d.Val == nil {
		d.Val = []int{}
	}
	if d.Chosen == nil {
		d.Chosen = []int{0, 0, 0, 0}
	}
	if d.Avail == nil {
		d.Avail = [][]int{}
	}
}

func u32(v []int) uint32 {
	var b [4]byte
	copy(b[:], hlib.Unints(v))
	return binary.BigEndian.Uint32(b[:])
}

// build constructs the real parameter object a descriptor names.
func build(d desc) (tls.TransportParameter, error) {
	v := u64(d.V)
	switch d.Kind {
	case "MaxIdleTimeout":
		return tls.MaxIdleTimeout(v), nil
	case "MaxUDPPayloadSize":
		return tls.MaxUDPPayloadSize(v), nil
	case "InitialMaxData":
		return tls.InitialMaxData(v), nil
	case "InitialMaxStreamDataBidiLocal":
		return tls.InitialMaxStreamDataBidiLocal(v), nil
	case "InitialMaxStreamDataBidiRemote":
		return tls.InitialMaxStreamDataBidiRemote(v), nil
	case "InitialMaxStreamDataUni":
		return tls.InitialMaxStreamDataUni(v), nil
	case "InitialMaxStreamsBidi":
		return tls.InitialMaxStreamsBidi(v), nil
	case "InitialMaxStreamsUni":
		return tls.InitialMaxStreamsUni(v), nil
	case "MaxAckDelay":
		return tls.MaxAckDelay(v), nil
	case "ActiveConnectionIDLimit":
		return tls.ActiveConnectionIDLimit(v), nil
	case "MaxDatagramFrameSize":
		return tls.MaxDatagramFrameSize(v), nil
	case "DisableActiveMigration":
		return &tls.DisableActiveMigration{}, nil
	case "GREASEQUICBit":
		return &tls.GREASEQUICBit{}, nil
	case "InitialSourceConnectionID":
		return tls.InitialSourceConnectionID(hlib.Unints(d.Val)), nil
	case "PaddingTransportParameter":
		return tls.PaddingTransportParameter(hlib.Unints(d.Val)), nil
	case "VersionInformation":
		vi := &tls.VersionInformation{ChoosenVersion: u32(d.Chosen), LegacyID: d.Legacy}
		for _, a := range d.Avail {
			vi.AvailableVersions = append(vi.AvailableVersions, u32(a))
		}
		return vi, nil
	case "GREASE":
		g := &tls.GREASETransportParameter{IdOverride: u64(d.ID), Length: uint16(d.Length)}
		if len(d.Val) > 0 {
			g.ValueOverride = hlib.Unints(d.Val)
		}
		return g, nil
	case "Fake":
		return &tls.FakeQUICTransportParameter{Id: u64(d.ID), Val: hlib.Unints(d.Val)}, nil
	}
	return nil, fmt.Errorf("unknown transport parameter kind %q", d.Kind)
}

func init() {
	// tplist: {"lists":[[desc...]...]} -> per list {ev:"TP", ds, out, panic, ext, extn, exterr, extpanic}
	//   out  = TransportParameters(list).Marshal()
	//   ext  = what a fresh QUICTransportParametersExtension over an identically built list writes (Len + Read)
	hlib.Register("tplist", func(in []byte, out *hlib.Out) error {
		var req struct{ Lists [][]desc }
		if err := json.Unmarshal(in, &req); err != nil {
			return err
		}
		type ev struct {
			Ev       string `json:"ev"`
			Ds       []desc `json:"ds"`
			Out      []int  `json:"out"`
			Panic    string `json:"panic"`
			Ext      []int  `json:"ext"`
			ExtN     int    `json:"extn"`
			ExtLen   int    `json:"extlen"`
			ExtErr   string `json:"exterr"`
			ExtPanic string `json:"extpanic"`
		}
		evs := make([]ev, len(req.Lists))
		var berr error
		hlib.Parallel(len(req.Lists), func(k int) {
			ds := req.Lists[k]
			if ds == nil {
				ds = []desc{}
			}
			mk := func() tls.TransportParameters {
				tps := tls.TransportParameters{}
				for i := range ds {
					ds[i].norm()
					p, err := build(ds[i])
					if err != nil {
						berr = err
						return nil
					}
					tps = append(tps, p)
				}
				return tps
			}
			e := ev{Ev: "TP", Ds: ds, Out: []int{}, Ext: []int{}}
			tps := mk()
			e.Panic = try(func() { e.Out = hlib.Ints(tps.Marshal()) })
			x := &tls.QUICTransportParametersExtension{TransportParameters: mk()}
			e.ExtPanic = try(func() {
				e.ExtLen = x.Len()
				buf := make([]byte, e.ExtLen)
				n, err := x.Read(buf)
				e.ExtN, e.ExtErr, e.Ext = n, hlib.ErrStr(err), hlib.Ints(buf)
			})
			evs[k] = e
		})
		if berr != nil {
			return berr
		}
		for _, e := range evs {
			out.Emit(e)
		}
		return nil
	})
}
