package main

import (
	"bufio"
	"bytes"
	"context"
	"crypto/ecdsa"
	"crypto/ed25519"
	"crypto/rsa"
	"crypto/x509"
	"encoding/pem"
	"fmt"
	"io"
	"net"
	"os"
	"os/exec"
	"path/filepath"
	"regexp"
	"sort"
	"strconv"
	"strings"
	"sync"
	"syscall"
	"time"

	tls "github.com/refraction-networking/utls"
	"verif/harness/hlib"
)

// ---------------------------------------------------------------- naming (translation only, no capability knowledge)

// command-line flag of a protocol version
var verFlag = map[int]string{769: "-tls1", 770: "-tls1_1", 771: "-tls1_2", 772: "-tls1_3"}

// OpenSSL's name of a TLS group code point. Whether a build implements a group is probed, never assumed.
var groupName = map[int]string{23: "P-256", 24: "P-384", 25: "P-521", 29: "X25519", 30: "X448",
	4587: "SecP256r1MLKEM768", 4588: "X25519MLKEM768", 4589: "SecP384r1MLKEM1024", 256: "ffdhe2048", 257: "ffdhe3072"}

var certKinds = []string{"ecdsa", "rsa", "ed25519"}

// ---------------------------------------------------------------- one openssl child process, always killed by PID

type proc struct {
	cmd    *exec.Cmd
	cancel context.CancelFunc
	stdin  io.WriteCloser
	mu     sync.Mutex
	raw    []byte        // stdout (or stdout+stderr merged), byte for byte
	elines []string      // stderr when collected separately
	notify chan struct{} // one token per new line (non-blocking sends)
	exited chan struct{} // closed when the process has been reaped
	port   int
}

func opensslEnv() []string {
	env := []string{}
	for _, e := range os.Environ() {
		if strings.HasPrefix(e, "OPENSSL_CONF=") || strings.HasPrefix(e, "SSLKEYLOGFILE=") {
			continue
		}
		env = append(env, e)
	}
	// no system-wide configuration: what is measured is the build, not the distribution's openssl.cnf
	return append(env, "OPENSSL_CONF=/dev/null")
}

// spawn starts bin with args; stdout and stderr are merged and collected line by line. The process is killed
// (by PID, through the context) after lifetime at the latest; stop() kills and reaps it on every path.
func spawn(bin string, args []string, lifetime time.Duration, wantStdin bool) (*proc, error) {
	return spawn2(bin, args, lifetime, wantStdin, false)
}

// spawn2 with split: stderr (unbuffered in openssl) is collected apart from stdout (block-buffered when it is a pipe:
// what s_server prints there with BIO_printf shows up late, possibly only when the process ends).
func spawn2(bin string, args []string, lifetime time.Duration, wantStdin, split bool) (*proc, error) {
	ctx, cancel := context.WithTimeout(context.Background(), lifetime)
	cmd := exec.CommandContext(ctx, bin, args...)
	cmd.Env = opensslEnv()
	cmd.WaitDelay = 2 * time.Second
	// should the harness itself be killed (runner timeout), the kernel kills the child with it
	cmd.SysProcAttr = &syscall.SysProcAttr{Pdeathsig: syscall.SIGKILL}
	pr, pw, err := os.Pipe()
	if err != nil {
		cancel()
		return nil, err
	}
	cmd.Stdout, cmd.Stderr = pw, pw
	var er, ew *os.File
	if split {
		if er, ew, err = os.Pipe(); err != nil {
			cancel()
			pr.Close()
			pw.Close()
			return nil, err
		}
		cmd.Stderr = ew
	}
	closeErrPipe := func() {
		if er != nil {
			er.Close()
			ew.Close()
		}
	}
	p := &proc{cmd: cmd, cancel: cancel, notify: make(chan struct{}, 1), exited: make(chan struct{})}
	if wantStdin {
		p.stdin, err = cmd.StdinPipe()
		if err != nil {
			cancel()
			pr.Close()
			pw.Close()
			closeErrPipe()
			return nil, err
		}
	}
	if err := cmd.Start(); err != nil {
		cancel()
		pr.Close()
		pw.Close()
		closeErrPipe()
		return nil, err
	}
	pw.Close()
	collect := func(f *os.File, dst *[]string, done chan struct{}) {
		defer close(done)
		sc := bufio.NewScanner(f)
		sc.Buffer(make([]byte, 64*1024), 4*1024*1024)
		for sc.Scan() {
			p.mu.Lock()
			*dst = append(*dst, sc.Text())
			p.mu.Unlock()
			select {
			case p.notify <- struct{}{}:
			default:
			}
		}
		f.Close()
	}
	rdDone, erDone := make(chan struct{}), make(chan struct{})
	go func() {
		defer close(rdDone)
		buf := make([]byte, 32*1024)
		for {
			n, err := pr.Read(buf)
			if n > 0 {
				p.mu.Lock()
				p.raw = append(p.raw, buf[:n]...)
				p.mu.Unlock()
				select {
				case p.notify <- struct{}{}:
				default:
				}
			}
			if err != nil {
				break
			}
		}
		pr.Close()
	}()
	if split {
		ew.Close()
		go collect(er, &p.elines, erDone)
	} else {
		close(erDone)
	}
	go func() {
		cmd.Wait()
		<-rdDone
		<-erDone
		close(p.exited)
		select {
		case p.notify <- struct{}{}:
		default:
		}
	}()
	return p, nil
}

// data lines of the round trip: s_server copies what it decrypted to fd 1 with write(2), i.e. unbuffered and in the
// middle of whatever stdio-buffered text is still to come; they are taken out before the text is cut into lines
var dataLine = regexp.MustCompile(`verif:c2s:[0-9a-f]*\n`)

func (p *proc) rawSnapshot() []byte {
	p.mu.Lock()
	defer p.mu.Unlock()
	return append([]byte{}, p.raw...)
}

// snapshot: the complete lines printed so far (data lines removed)
func (p *proc) snapshot() []string {
	b := dataLine.ReplaceAll(p.rawSnapshot(), nil)
	ls := strings.Split(string(b), "\n")
	return ls[:len(ls)-1]
}

func (p *proc) errSnapshot() []string {
	p.mu.Lock()
	defer p.mu.Unlock()
	return append([]string{}, p.elines...)
}

// waitLine waits until pred holds for some collected line, the process exits, or the deadline passes.
func (p *proc) waitLine(pred func(string) bool, d time.Duration) bool {
	dl := time.NewTimer(d)
	defer dl.Stop()
	seen := 0
	for {
		ls := p.snapshot()
		for ; seen < len(ls); seen++ {
			if pred(ls[seen]) {
				return true
			}
		}
		select {
		case <-p.exited:
			ls = p.snapshot()
			for ; seen < len(ls); seen++ {
				if pred(ls[seen]) {
					return true
				}
			}
			return false
		case <-p.notify:
		case <-dl.C:
			return false
		}
	}
}

// waitRaw waits until the bytes tok appear in stdout at or after offset from.
func (p *proc) waitRaw(tok []byte, from int, d time.Duration) bool {
	dl := time.NewTimer(d)
	defer dl.Stop()
	for {
		r := p.rawSnapshot()
		if from <= len(r) && bytes.Contains(r[from:], tok) {
			return true
		}
		select {
		case <-p.exited:
			r = p.rawSnapshot()
			return from <= len(r) && bytes.Contains(r[from:], tok)
		case <-p.notify:
		case <-dl.C:
			return false
		}
	}
}

// stop: give the process grace to finish by itself, then kill it by PID and reap it. Idempotent.
func (p *proc) stop(grace time.Duration) {
	if p.stdin != nil {
		p.stdin.Close()
	}
	if grace > 0 {
		select {
		case <-p.exited:
		case <-time.After(grace):
		}
	}
	if p.cmd.Process != nil {
		p.cmd.Process.Kill()
	}
	p.cancel()
	<-p.exited
}

// freePort asks the kernel for an unused loopback port (bind :0, read the port, release it).
func freePort() (int, error) {
	l, err := net.Listen("tcp4", "127.0.0.1:0")
	if err != nil {
		return 0, err
	}
	port := l.Addr().(*net.TCPAddr).Port
	l.Close()
	return port, nil
}

// startServer runs `openssl s_server -accept 127.0.0.1:<port> -naccept 1 args...` and waits for its ACCEPT line.
func startServer(bin string, args []string, lifetime time.Duration) (*proc, error) {
	return startServerN(bin, args, 1, lifetime, false)
}

func isAccept(l string) bool { return l == "ACCEPT" || strings.HasPrefix(l, "ACCEPT ") }

// startServerN: the same server accepting naccept connections one after the other, then terminating by itself.
// The server is asked to bind port 0 itself and reports the port the kernel gave it ("ACCEPT 127.0.0.1:<port>");
// a build that does not report it gets a port found by binding :0 first (a port that was taken in the meantime
// makes the server exit at once and is retried with a fresh one).
func startServerN(bin string, args []string, naccept int, lifetime time.Duration, split bool) (*proc, error) {
	var last string
	for try := 0; try < 5; try++ {
		port := 0
		if try > 0 {
			var err error
			if port, err = freePort(); err != nil {
				return nil, err
			}
		}
		full := append([]string{"s_server", "-accept", "127.0.0.1:" + strconv.Itoa(port), "-naccept", strconv.Itoa(naccept)}, args...)
		p, err := spawn2(bin, full, lifetime, true, split)
		if err != nil {
			return nil, err
		}
		p.port = port
		if p.waitLine(isAccept, 10*time.Second) {
			if port != 0 {
				return p, nil
			}
			for _, l := range p.snapshot() {
				if isAccept(l) {
					if k := strings.LastIndexByte(l, ':'); k > 0 {
						if n, err := strconv.Atoi(strings.TrimSpace(l[k+1:])); err == nil && n > 0 {
							p.port = n
							return p, nil
						}
					}
				}
			}
			p.stop(0) // listening, but on a port it does not tell: use an explicit port
			continue
		}
		p.stop(0)
		last = strings.Join(append(p.snapshot(), p.errSnapshot()...), " | ")
		if port != 0 && !strings.Contains(last, "Address already in use") && !strings.Contains(last, "bind") {
			break
		}
		if port == 0 && last != "" && !strings.Contains(last, "bind") {
			break // refused its options: another port will not help
		}
	}
	return nil, fmt.Errorf("s_server did not start: %s", last)
}

// slot: one s_server process serves, one after the other, the scenarios that need the same server configuration
// (starting a process is by far the most expensive step).
//
// What s_server says about a connection arrives on two channels: stderr (error queue; unbuffered, so it is complete
// once the server has closed the TCP connection) and stdout (connection summary; block-buffered on a pipe, complete
// only when the process has ended). stdout is therefore cut into per-connection segments afterwards, at the
// CONNECTION CLOSED line s_server prints when it is done with a connection. A process that had to be killed
// loses its unflushed stdout: the scenarios it served report "server output unavailable".
type slot struct {
	bin   string
	args  []string
	left  int // connections still to be served
	srv   *proc
	done  int // connections started on the current process
	emark int // first stderr line of the current connection
	// one entry per process used: the process and the scenarios (in order) it served
	runs []*slotRun
}

type slotRun struct {
	p       *proc
	naccept int   // connections the process was started for
	conns   []int // caller's scenario handles, in connection order
	killed  bool
}

// acquire returns a server that is waiting for a connection; h identifies the scenario for segment().
func (sl *slot) acquire(h int) (*proc, error) {
	if sl.srv != nil {
		select {
		case <-sl.srv.exited:
			sl.srv = nil
		default:
		}
	}
	if sl.srv == nil {
		n := sl.left
		if n < 1 {
			n = 1
		}
		p, err := startServerN(sl.bin, sl.args, n, time.Duration(60+10*n)*time.Second, true)
		if err != nil {
			return nil, err
		}
		sl.srv, sl.done = p, 0
		sl.runs = append(sl.runs, &slotRun{p: p, naccept: n})
	}
	r := sl.runs[len(sl.runs)-1]
	r.conns = append(r.conns, h)
	sl.done++
	sl.emark = len(sl.srv.errSnapshot())
	return sl.srv, nil
}

// release ends the current connection's turn (the caller has seen the server close the TCP connection, or gave up
// waiting: closed = false) and returns the stderr lines that belong to it.
func (sl *slot) release(closed bool) []string {
	p := sl.srv
	sl.left--
	el := p.errSnapshot()
	if sl.emark > len(el) {
		sl.emark = len(el)
	}
	out := el[sl.emark:]
	if !closed {
		// the server is stuck in this connection: the remaining scenarios get a fresh process
		sl.runs[len(sl.runs)-1].killed = true
		p.stop(0)
		sl.srv = nil
	}
	return out
}

// finish ends every process of the slot (those that served all their connections terminate by themselves and
// flush stdout) and returns, per scenario handle, the stdout segment of its connection (nil: unavailable).
func (sl *slot) finish() map[int][]string {
	seg := map[int][]string{}
	for _, r := range sl.runs {
		if r.killed {
			r.p.stop(0)
		} else {
			// a process that was started for more connections than it got (a scenario failed before connecting) only
			// terminates, and flushes its stdout, after the remaining accepts: use them up with empty connections
			for k := len(r.conns); k < r.naccept; k++ {
				select {
				case <-r.p.exited:
				default:
					if c, err := net.DialTimeout("tcp4", "127.0.0.1:"+strconv.Itoa(r.p.port), 2*time.Second); err == nil {
						c.Close()
					}
				}
			}
			r.p.stop(6 * time.Second)
		}
		var cur []string
		k := 0
		for _, l := range r.p.snapshot() {
			if isAccept(l) {
				continue
			}
			cur = append(cur, l)
			if l == "CONNECTION CLOSED" {
				if k < len(r.conns) {
					seg[r.conns[k]] = cur
				}
				k++
				cur = nil
			}
		}
	}
	sl.srv = nil
	return seg
}

// abandon kills every process of the slot.
func (sl *slot) abandon() {
	for _, r := range sl.runs {
		r.p.stop(0)
	}
	sl.srv = nil
}

// runTool runs a short openssl command (version, ciphers, s_server -help) and returns its merged output.
func runTool(bin string, args ...string) (string, error) {
	p, err := spawn(bin, args, 20*time.Second, false)
	if err != nil {
		return "", err
	}
	<-p.exited
	p.stop(0)
	out := strings.Join(p.snapshot(), "\n")
	if !p.cmd.ProcessState.Success() && !strings.Contains(strings.Join(args, " "), "-help") {
		return out, fmt.Errorf("openssl %v: %v", args, p.cmd.ProcessState)
	}
	return out, nil
}

// ---------------------------------------------------------------- throw-away PKI on disk (for -cert / -key)

type diskPKI struct {
	pk   *hlib.PKI
	dir  string
	cert map[string]string
	key  map[string]string
	ca   string                     // the CA certificate (for s_server -CAfile when it asks for a client certificate)
	leaf map[string]tls.Certificate // the same leaves, for a client that presents one
}

func newDiskPKI(parent string) (*diskPKI, error) {
	dir, err := os.MkdirTemp(parent, "ossl-pki-")
	if err != nil {
		return nil, err
	}
	d := &diskPKI{pk: hlib.NewPKI(), dir: dir, cert: map[string]string{}, key: map[string]string{}, leaf: map[string]tls.Certificate{}}
	d.ca = filepath.Join(dir, "ca.pem")
	if err := os.WriteFile(d.ca, pem.EncodeToMemory(&pem.Block{Type: "CERTIFICATE", Bytes: d.pk.CADER}), 0o600); err != nil {
		os.RemoveAll(dir)
		return nil, err
	}
	for _, kind := range certKinds {
		c := d.pk.Std(kind, "example.com", "public.example")
		d.leaf[kind] = c
		var certPEM []byte
		for _, der := range c.Certificate {
			certPEM = append(certPEM, pem.EncodeToMemory(&pem.Block{Type: "CERTIFICATE", Bytes: der})...)
		}
		var keyDER []byte
		switch k := c.PrivateKey.(type) {
		case *ecdsa.PrivateKey, *rsa.PrivateKey, ed25519.PrivateKey:
			keyDER, err = x509.MarshalPKCS8PrivateKey(k)
		default:
			err = fmt.Errorf("unexpected key type %T", k)
		}
		if err != nil {
			os.RemoveAll(dir)
			return nil, err
		}
		d.cert[kind] = filepath.Join(dir, kind+".pem")
		d.key[kind] = filepath.Join(dir, kind+".key")
		if err := os.WriteFile(d.cert[kind], certPEM, 0o600); err != nil {
			os.RemoveAll(dir)
			return nil, err
		}
		if err := os.WriteFile(d.key[kind], pem.EncodeToMemory(&pem.Block{Type: "PRIVATE KEY", Bytes: keyDER}), 0o600); err != nil {
			os.RemoveAll(dir)
			return nil, err
		}
	}
	return d, nil
}

func (d *diskPKI) remove() { os.RemoveAll(d.dir) }

// ---------------------------------------------------------------- what a build implements (probed)

type verList struct {
	Ver int   `json:"ver"`
	IDs []int `json:"ids"`
}
type verKinds struct {
	Ver   int      `json:"ver"`
	Kinds []string `json:"kinds"`
}
type caps struct {
	K         int        `json:"k"`
	Path      string     `json:"path"`
	Label     string     `json:"label"`
	Versions  []int      `json:"versions"`
	Suites    []verList  `json:"suites"`
	Groups    []verList  `json:"groups"`
	Certs     []verKinds `json:"certs"`
	Stateless bool       `json:"stateless"`
	ALPN      bool       `json:"alpn"`
	Exporter  bool       `json:"exporter"`
	Probes    int        `json:"probes"`
}

var cipherLine = regexp.MustCompile(`0x([0-9A-Fa-f]{2}),0x([0-9A-Fa-f]{2})\s+-\s+(\S+)\s+(\S+)`)

// suiteTable parses `openssl ciphers -V`: code point -> (OpenSSL name, protocol column)
func suiteTable(bin string, args ...string) (map[int][2]string, error) {
	out, err := runTool(bin, append([]string{"ciphers", "-V"}, args...)...)
	if err != nil {
		return nil, err
	}
	t := map[int][2]string{}
	for _, l := range strings.Split(out, "\n") {
		if m := cipherLine.FindStringSubmatch(l); m != nil {
			hi, _ := strconv.ParseInt(m[1], 16, 32)
			lo, _ := strconv.ParseInt(m[2], 16, 32)
			t[int(hi)<<8|int(lo)] = [2]string{m[3], m[4]}
		}
	}
	return t, nil
}

const allCiphers = "ALL:COMPLEMENTOFALL:@SECLEVEL=0"

// certificate-authenticated suites only: a probe must not succeed through an anonymous or PSK suite
const authCiphers = "ALL:!aNULL:!eNULL:!PSK:!SRP:@SECLEVEL=0"

func helpFlags(bin, sub string) map[string]bool {
	out, _ := runTool(bin, sub, "-help")
	fl := map[string]bool{}
	for _, l := range strings.Split(out, "\n") {
		f := strings.Fields(l)
		if len(f) > 0 && strings.HasPrefix(f[0], "-") {
			fl[f[0]] = true
		}
	}
	return fl
}

// selfProbe: does this build's own s_client complete a handshake with this build's s_server under these options?
func selfProbe(bin string, srvArgs, cliArgs []string) bool {
	srv, err := startServer(bin, srvArgs, 60*time.Second)
	if err != nil {
		return false
	}
	defer srv.stop(0)
	cli, err := spawn(bin, append([]string{"s_client", "-connect", "127.0.0.1:" + strconv.Itoa(srv.port)}, cliArgs...), 45*time.Second, true)
	if err != nil {
		return false
	}
	defer cli.stop(0)
	// the server prints (and flushes) its connection summary only after a completed handshake; a failed handshake ends
	// the server (-naccept 1), so the long deadline is only ever used up on a machine that is too busy to answer
	ok := srv.waitLine(func(l string) bool { return strings.HasPrefix(l, "CIPHER is ") && !strings.Contains(l, "(NONE)") }, 30*time.Second)
	return ok
}

func probeBuild(k int, bin string, d *diskPKI) (caps, error) {
	c := caps{K: k, Path: bin}
	v, err := runTool(bin, "version")
	if err != nil {
		return c, err
	}
	c.Label = strings.TrimSpace(strings.Split(v, "\n")[0])
	sfl := helpFlags(bin, "s_server")
	for _, need := range []string{"-accept", "-naccept", "-cert", "-key", "-cipher"} {
		if !sfl[need] {
			return c, fmt.Errorf("%s: s_server lacks %s", bin, need)
		}
	}
	c.ALPN = sfl["-alpn"]
	c.Exporter = sfl["-keymatexport"] && sfl["-keymatexportlen"]
	type job struct {
		what string
		ver  int
		arg  string
		srv  []string
		cli  []string
		ok   bool
	}
	var jobs []*job
	vers := []int{}
	for _, ver := range []int{769, 770, 771, 772} {
		if sfl[verFlag[ver]] {
			vers = append(vers, ver)
		}
	}
	base := func(ver int, cert string) []string {
		return []string{verFlag[ver], "-cipher", authCiphers, "-cert", d.cert[cert], "-key", d.key[cert]}
	}
	for _, ver := range vers {
		cl := []string{verFlag[ver], "-cipher", authCiphers}
		jobs = append(jobs, &job{what: "version", ver: ver, srv: base(ver, "rsa"), cli: cl})
		for _, kind := range certKinds {
			jobs = append(jobs, &job{what: "cert", ver: ver, arg: kind, srv: base(ver, kind), cli: cl})
		}
		if sfl["-groups"] {
			gids := []int{}
			for g := range groupName {
				gids = append(gids, g)
			}
			sort.Ints(gids)
			for _, g := range gids {
				// an ECDHE suite below TLS 1.3 so that the group is really used; the RSA certificate keeps the
				// certificate's own curve out of the picture
				cg := append(append([]string{}, cl...), "-groups", groupName[g])
				sv := append(base(ver, "rsa"), "-groups", groupName[g])
				if ver < 772 {
					sv[2] = "ECDHE-RSA-AES128-SHA:@SECLEVEL=0"
				}
				jobs = append(jobs, &job{what: "group", ver: ver, arg: strconv.Itoa(g), srv: sv, cli: cg})
			}
		}
	}
	if sfl["-stateless"] && sfl["-tls1_3"] {
		// s_server -stateless (SSL_stateless) answers every first ClientHello with a HelloRetryRequest carrying a cookie;
		// OpenSSL's own client reaches it only without the compatibility ChangeCipherSpec
		jobs = append(jobs, &job{what: "stateless", ver: 772, srv: append(base(772, "rsa"), "-stateless"),
			cli: []string{"-tls1_3", "-no_middlebox"}})
	}
	var wg sync.WaitGroup
	sem := make(chan struct{}, 10)
	for _, j := range jobs {
		wg.Add(1)
		go func(j *job) {
			defer wg.Done()
			sem <- struct{}{}
			defer func() { <-sem }()
			// a probe that fails is repeated: on a loaded machine a start-up can exceed its deadline
			j.ok = selfProbe(bin, j.srv, j.cli) || selfProbe(bin, j.srv, j.cli) || selfProbe(bin, j.srv, j.cli)
		}(j)
	}
	wg.Wait()
	c.Probes = len(jobs)
	alive := map[int]bool{}
	for _, j := range jobs {
		if j.what == "version" && j.ok {
			alive[j.ver] = true
			c.Versions = append(c.Versions, j.ver)
		}
	}
	if c.Versions == nil {
		c.Versions = []int{}
	}
	c.Suites, c.Groups, c.Certs = []verList{}, []verList{}, []verKinds{}
	for _, ver := range c.Versions {
		t, err := suiteTable(bin, "-s", verFlag[ver], "ALL:@SECLEVEL=0")
		if err != nil {
			return c, err
		}
		ids := []int{}
		for id, nv := range t {
			if (ver == 772) == (nv[1] == "TLSv1.3") {
				ids = append(ids, id)
			}
		}
		sort.Ints(ids)
		c.Suites = append(c.Suites, verList{ver, ids})
		gl, kl := verList{ver, []int{}}, verKinds{ver, []string{}}
		for _, j := range jobs {
			if j.ver == ver && j.ok && j.what == "group" {
				g, _ := strconv.Atoi(j.arg)
				gl.IDs = append(gl.IDs, g)
			}
			if j.ver == ver && j.ok && j.what == "cert" {
				kl.Kinds = append(kl.Kinds, j.arg)
			}
		}
		c.Groups = append(c.Groups, gl)
		c.Certs = append(c.Certs, kl)
	}
	for _, j := range jobs {
		if j.what == "stateless" {
			c.Stateless = j.ok
		}
	}
	return c, nil
}

// discover lists the distinct openssl builds of this machine: $VERIF_OPENSSL (colon separated) if set, else every
// `openssl` on $PATH plus the usual system locations; duplicates (same file, same version banner) are dropped.
func discover(explicit []string) []string {
	cand := explicit
	if len(cand) == 0 {
		if e := os.Getenv("VERIF_OPENSSL"); e != "" {
			cand = strings.Split(e, ":")
		}
	}
	if len(cand) == 0 {
		for _, dir := range append(filepath.SplitList(os.Getenv("PATH")), "/usr/bin", "/usr/local/bin", "/usr/local/ssl/bin", "/opt/openssl/bin") {
			cand = append(cand, filepath.Join(dir, "openssl"))
		}
	}
	var out []string
	seenFile, seenBanner := map[string]bool{}, map[string]bool{}
	for _, c := range cand {
		real, err := filepath.EvalSymlinks(c)
		if err != nil || seenFile[real] {
			continue
		}
		seenFile[real] = true
		st, err := os.Stat(real)
		if err != nil || st.IsDir() || st.Mode()&0o111 == 0 {
			continue
		}
		v, err := runTool(real, "version")
		if err != nil || !strings.HasPrefix(v, "OpenSSL") || seenBanner[v] {
			continue
		}
		seenBanner[v] = true
		out = append(out, real)
	}
	sort.Strings(out)
	return out
}
