package main

import (
	"bytes"
	"encoding/hex"
	"encoding/json"
	"errors"
	"fmt"
	"io"
	"net"
	"os"
	"strconv"
	"strings"
	"sync"
	"syscall"
	"time"

	tls "github.com/refraction-networking/utls"
	"verif/harness/hlib"
)

// An external-server scenario: same shape as the `nego` scenarios (id, ver, suite, group, cert, alpn ...), plus
//
//	external   true (the trace specification skips what only an instrumented server can tell)
//	ossl       which probed build serves it (k of the Caps event)
//	stateless  run s_server with -stateless: every first ClientHello is answered with a HelloRetryRequest + cookie
//	ekm        > 0: s_server exports keying material for one label (length ekm), the client does the same
type osslScn struct {
	Sc        int      `json:"sc"`
	ID        string   `json:"id"`
	SNI       string   `json:"sni"`
	Ver       int      `json:"ver"`
	Suite     int      `json:"suite"`
	Group     int      `json:"group"`
	Cert      string   `json:"cert"`
	ALPN      []string `json:"alpn"`
	Ossl      int      `json:"ossl"`
	Stateless bool     `json:"stateless"`
	EKM       int      `json:"ekm"`
	Omit      bool     `json:"omit"`
	RemoveSNI bool     `json:"remove_sni"`
	NoReneg   bool     `json:"no_reneg"`
	SniCb     bool     `json:"sni_cb"` // install s_server's SNI callback (it prints the name the server received)
	// client authentication: 0 none, 1 s_server asks for a certificate (-verify) and the client has none,
	// 2 it asks and the client presents one
	ClientAuth int `json:"client_auth"`
}

var hrrRandom = []byte{0xCF, 0x21, 0xAD, 0x74, 0xE5, 0x9A, 0x61, 0x11, 0xBE, 0x1D, 0x8C, 0x02, 0x1E, 0x65, 0xB8, 0x91,
	0xC2, 0xA2, 0x11, 0x16, 0x7A, 0xBB, 0x8C, 0x5E, 0x07, 0x9E, 0x09, 0xE2, 0xC8, 0xA8, 0x33, 0x9C}

func isHRRMsg(d []byte) bool { return len(d) >= 38 && d[0] == 2 && bytes.Equal(d[6:38], hrrRandom) }

// ---------------------------------------------------------------- recording transport

// recConn wraps the TCP connection of the client. It parses the TLS record framing of both directions (record
// headers are always in the clear) and reports, in the order the client performs its reads and writes,
//   - every ClientHello handshake message the client writes (emitCH),
//   - every handshake message the server sends before its side of the connection turns to encrypted records
//     (emitSMSG): ServerHello / HelloRetryRequest in TLS 1.3; ServerHello .. ServerHelloDone (and a
//     NewSessionTicket) below,
//   - a plaintext alert of the server.
//
// With dropCCS it removes the client's ChangeCipherSpec records from the stream (see runOssl).
type recConn struct {
	net.Conn
	mu       sync.Mutex
	cbuf     []byte // client bytes not yet forming a complete record
	chs      []byte // client plaintext handshake bytes not yet forming a complete message
	sbuf     []byte
	shs      []byte
	srvPlain bool // the server's handshake records are still plaintext
	realSH   bool // a ServerHello that is not a HelloRetryRequest has been seen
	nch      int
	dropCCS  bool
	dropped  int
	salert   []int
	emitCH   func(k int, raw []byte)
	emitSMSG func(t int, raw []byte)
}

func (c *recConn) Write(p []byte) (int, error) {
	c.mu.Lock()
	c.cbuf = append(c.cbuf, p...)
	var fwd []byte
	for len(c.cbuf) >= 5 {
		n := int(c.cbuf[3])<<8 | int(c.cbuf[4])
		if len(c.cbuf) < 5+n {
			break
		}
		rec := c.cbuf[:5+n]
		if rec[0] == 22 && !c.realSH {
			c.chs = append(c.chs, rec[5:]...)
			for len(c.chs) >= 4 {
				m := int(c.chs[1])<<16 | int(c.chs[2])<<8 | int(c.chs[3])
				if len(c.chs) < 4+m {
					break
				}
				if c.chs[0] == 1 {
					c.nch++
					c.emitCH(c.nch, append([]byte{}, c.chs[:4+m]...))
				}
				c.chs = c.chs[4+m:]
			}
		}
		if rec[0] == 20 && c.dropCCS {
			c.dropped++
		} else {
			fwd = append(fwd, rec...)
		}
		c.cbuf = c.cbuf[5+n:]
	}
	c.mu.Unlock()
	if len(fwd) > 0 {
		if _, err := c.Conn.Write(fwd); err != nil {
			return 0, err
		}
	}
	return len(p), nil
}

func (c *recConn) Read(p []byte) (int, error) {
	n, err := c.Conn.Read(p)
	if n > 0 {
		c.mu.Lock()
		c.sbuf = append(c.sbuf, p[:n]...)
		for len(c.sbuf) >= 5 {
			l := int(c.sbuf[3])<<8 | int(c.sbuf[4])
			if len(c.sbuf) < 5+l {
				break
			}
			typ, body := c.sbuf[0], c.sbuf[5:5+l]
			switch {
			case typ == 22 && c.srvPlain:
				c.shs = append(c.shs, body...)
				for len(c.shs) >= 4 {
					m := int(c.shs[1])<<16 | int(c.shs[2])<<8 | int(c.shs[3])
					if len(c.shs) < 4+m {
						break
					}
					msg := append([]byte{}, c.shs[:4+m]...)
					if msg[0] == 2 && !isHRRMsg(msg) {
						c.realSH = true
					}
					c.emitSMSG(int(msg[0]), msg)
					c.shs = c.shs[4+m:]
				}
			case typ == 20:
				// after a real ServerHello the server's ChangeCipherSpec is followed by encrypted records only
				// (TLS <= 1.2: the Finished; TLS 1.3: everything is already wrapped in application_data records)
				if c.realSH {
					c.srvPlain = false
				}
			case typ == 23:
				c.srvPlain = false
			case typ == 21 && c.srvPlain && l == 2:
				c.salert = []int{int(body[0]), int(body[1])}
			}
			c.sbuf = c.sbuf[5+l:]
		}
		c.mu.Unlock()
	}
	return n, err
}

// errOrigin classifies a client error: "alert" when the peer said so, "transport" for EOF / reset / timeout, "local" otherwise.
func errOrigin(err error) string {
	if err == nil {
		return "none"
	}
	s := err.Error()
	if strings.HasPrefix(s, "remote error:") || strings.Contains(s, ": remote error:") {
		return "alert"
	}
	var ae tls.AlertError
	if errors.As(err, &ae) {
		return "alert"
	}
	var ne net.Error
	var oe *net.OpError
	if errors.Is(err, io.EOF) || errors.Is(err, io.ErrUnexpectedEOF) || errors.Is(err, syscall.ECONNRESET) || errors.Is(err, syscall.EPIPE) ||
		errors.Is(err, os.ErrDeadlineExceeded) || (errors.As(err, &ne) && ne.Timeout()) || errors.As(err, &oe) {
		return "transport"
	}
	return "local"
}

func csJSON(cs tls.ConnectionState) map[string]any {
	return map[string]any{"version": int(cs.Version), "suite": int(cs.CipherSuite), "proto": hlib.Ints([]byte(cs.NegotiatedProtocol)),
		"curve": int(tls.VerifCurveID(cs)), "resumed": cs.DidResume, "ech": cs.ECHAccepted, "sni": hlib.Ints([]byte(cs.ServerName)),
		"complete": cs.HandshakeComplete}
}

// ---------------------------------------------------------------- one scenario

type build struct {
	path  string
	names map[int]string // code point -> OpenSSL cipher name (from `openssl ciphers -V`)
	ids   map[string]int
	flags map[string]bool
}

const ekmLabel = "EXPERIMENTAL verif x10"

func serverArgs(s *osslScn, b *build, d *diskPKI) ([]string, error) {
	vf, ok := verFlag[s.Ver]
	if !ok {
		return nil, fmt.Errorf("no s_server flag for version %d", s.Ver)
	}
	name, ok := b.names[s.Suite]
	if !ok {
		return nil, fmt.Errorf("%s has no name for cipher suite %#04x", b.path, s.Suite)
	}
	args := []string{vf, "-cert", d.cert[s.Cert], "-key", d.key[s.Cert]}
	if s.Ver == 772 {
		args = append(args, "-ciphersuites", name, "-cipher", "ALL:@SECLEVEL=0")
	} else {
		args = append(args, "-cipher", name+":@SECLEVEL=0")
	}
	if s.Group != 0 {
		g, ok := groupName[s.Group]
		if !ok {
			return nil, fmt.Errorf("no OpenSSL name for group %d", s.Group)
		}
		args = append(args, "-groups", g)
	}
	if len(s.ALPN) > 0 {
		args = append(args, "-alpn", strings.Join(s.ALPN, ","))
	}
	if s.Stateless {
		args = append(args, "-stateless")
	}
	if s.ClientAuth != 0 {
		args = append(args, "-verify", "2", "-CAfile", d.ca)
	}
	if s.EKM > 0 {
		args = append(args, "-keymatexport", ekmLabel, "-keymatexportlen", strconv.Itoa(s.EKM))
	}
	// the SNI callback of s_server (prints the name it received) is only installed with a second certificate context;
	// that second context has neither the ALPN nor the stateless-cookie callbacks (measured: no ALPN is negotiated,
	// "no cookie callback set"), so the scenario asks for it explicitly and never together with those
	if s.SniCb && s.SNI != "" && b.flags["-servername"] && b.flags["-cert2"] && b.flags["-key2"] {
		args = append(args, "-servername", s.SNI, "-cert2", d.cert[s.Cert], "-key2", d.key[s.Cert])
	}
	return args, nil
}

func strs(v []string) []string {
	if v == nil {
		return []string{}
	}
	return v
}

// runOssl performs one scenario on the slot's server. The Result event needs the server's stdout, which is complete
// only after the server process has ended: runOssl returns a function that, given the stdout segment of this
// connection (nil: unavailable), emits the Result.
func runOssl(h int, s osslScn, rawScn json.RawMessage, b *build, d *diskPKI, sl *slot, out *[]map[string]any) func(seg []string) {
	var emu sync.Mutex
	emit := func(m map[string]any) { emu.Lock(); m["sc"] = s.Sc; *out = append(*out, m); emu.Unlock() }
	var scnMap map[string]any
	json.Unmarshal(rawScn, &scnMap)
	scnMap["ev"] = "Scn"
	emit(scnMap)
	fail := func(err error) { emit(map[string]any{"ev": "Error", "err": err.Error()}) }
	id, err := hlib.LookupID(s.ID)
	if err != nil {
		sl.left--
		fail(err)
		return nil
	}
	args := sl.args
	t0 := time.Now()
	srv, err := sl.acquire(h)
	tAcq := time.Since(t0)
	if err != nil {
		sl.left--
		fail(fmt.Errorf("%v (args %v)", err, args))
		return nil
	}
	tcp, err := net.DialTimeout("tcp4", "127.0.0.1:"+strconv.Itoa(srv.port), 5*time.Second)
	if err != nil {
		sl.release(false)
		fail(err)
		return nil
	}
	defer tcp.Close()
	tcp.SetDeadline(time.Now().Add(12 * time.Second))
	rc := &recConn{Conn: tcp, srvPlain: true,
		// SSL_stateless() (s_server -stateless) does not accept the compatibility ChangeCipherSpec record that precedes
		// the second ClientHello (measured with OpenSSL's own client: works only with -no_middlebox). The record is not
		// part of the handshake transcript; the transport removes it in -stateless scenarios so that the cookie
		// exchange can be observed. Both ClientHellos reach the server byte for byte as the client wrote them.
		dropCCS: s.Stateless,
		emitCH:  func(k int, raw []byte) { emit(map[string]any{"ev": "CH", "k": k, "raw": hlib.Ints(raw)}) },
		emitSMSG: func(t int, raw []byte) {
			full := len(raw)
			if full > 600 && (t == 11 || t == 25 || t == 4) {
				raw = raw[:600] // certificates etc.: the head is enough for the specification
			}
			emit(map[string]any{"ev": "SMSG", "t": t, "raw": hlib.Ints(raw), "len": full})
		}}
	ccfg := &tls.Config{ServerName: s.SNI, RootCAs: d.pk.Pool, OmitEmptyPsk: s.Omit}
	if s.ClientAuth == 2 {
		ccfg.Certificates = []tls.Certificate{d.leaf["ecdsa"]}
	}
	runID := id
	if s.NoReneg {
		runID = tls.HelloCustom
	}
	uc := tls.UClient(rc, ccfg, runID)
	var tHS time.Duration
	var cerr error
	var cpanic string
	hsok, haveCS := false, false
	var cs tls.ConnectionState
	cekm := []any{}
	sent, reply, crecv := []byte{}, []byte{}, []byte{}
	srvGot := []any{}
	func() {
		defer func() {
			if p := recover(); p != nil {
				cpanic = fmt.Sprint(p)
				cerr = fmt.Errorf("client panic: %v", p)
			}
		}()
		if s.NoReneg {
			spec, err := tls.UTLSIdToSpec(id)
			if err != nil {
				cerr = fmt.Errorf("%w: %v", hlib.ErrPrep, err)
				return
			}
			for _, e := range spec.Extensions {
				if ri, ok := e.(*tls.RenegotiationInfoExtension); ok {
					ri.Renegotiation = tls.RenegotiateNever
				}
			}
			if err := uc.ApplyPreset(&spec); err != nil {
				cerr = fmt.Errorf("%w: %v", hlib.ErrPrep, err)
				return
			}
		}
		if s.RemoveSNI {
			if err := uc.RemoveSNIExtension(); err != nil {
				cerr = fmt.Errorf("%w: %v", hlib.ErrPrep, err)
				return
			}
		}
		if cerr = uc.Handshake(); cerr != nil {
			return
		}
		hsok = true
		tHS = time.Since(t0)
		cs = uc.ConnectionState()
		haveCS = true
		if s.EKM > 0 {
			// s_server exports without a context value (use_context = 0): nil context on this side
			b, err := cs.ExportKeyingMaterial(ekmLabel, nil, s.EKM)
			if err != nil {
				b = nil // refused (documented: renegotiation enabled, or no EMS below TLS 1.3)
			}
			cekm = append(cekm, hlib.Ints(b))
		}
		// data round trip: the server prints what it decrypted on its stdout; what it reads on stdin it sends to the client
		rnd := hlib.NewRand(int64(s.Sc) + 77)
		tok := make([]byte, 12)
		rnd.Read(tok)
		sent = []byte("verif:c2s:" + hex.EncodeToString(tok) + "\n")
		rnd.Read(tok)
		reply = []byte("verif:s2c:" + hex.EncodeToString(tok) + "\n")
		rawMark := len(srv.rawSnapshot())
		defer func() {
			// the data lines the server printed during this connection (s_server writes them unbuffered)
			if r := srv.rawSnapshot(); rawMark <= len(r) {
				for _, m := range dataLine.FindAll(r[rawMark:], -1) {
					srvGot = append(srvGot, hlib.Ints(m))
				}
			}
		}()
		if _, err := uc.Write(sent); err != nil {
			cerr = fmt.Errorf("data write: %w", err)
			return
		}
		if !srv.waitRaw(sent, rawMark, 6*time.Second) {
			// the server never showed the data: still try to read, the error (alert, EOF) says why
			buf := make([]byte, 1)
			tcp.SetReadDeadline(time.Now().Add(2 * time.Second))
			if _, err := uc.Read(buf); err != nil {
				cerr = fmt.Errorf("data not seen by server: %w", err)
			} else {
				cerr = errors.New("data not seen by server")
			}
			return
		}
		if _, err := srv.stdin.Write(reply); err != nil {
			cerr = fmt.Errorf("server stdin: %w", err)
			return
		}
		buf := make([]byte, len(reply))
		n, err := io.ReadFull(uc, buf)
		crecv = buf[:n]
		if err != nil {
			cerr = fmt.Errorf("data read: %w", err)
		}
	}()
	tData := time.Since(t0)
	if hsok {
		uc.CloseWrite() // close_notify; the TCP connection stays open for the server's answer
	}
	// wait until the server has closed the TCP connection: it is then done with this connection and has written
	// everything it has to say about it on stderr
	if tc, ok := tcp.(*net.TCPConn); ok {
		tc.CloseWrite()
	}
	tcp.SetReadDeadline(time.Now().Add(5 * time.Second))
	_, derr := io.Copy(io.Discard, tcp)
	tcp.Close()
	if cerr != nil {
		// what the server wrote on stderr before closing is in the pipe; give the collector a moment to read it
		for k := 0; k < 50; k++ {
			time.Sleep(20 * time.Millisecond)
			if el := srv.errSnapshot(); len(el) > sl.emark && strings.Contains(strings.Join(el[sl.emark:], "\n"), ":error:") {
				break
			}
		}
	}
	serr := []string{}
	for _, l := range sl.release(derr == nil) {
		if strings.Contains(l, ":error:") {
			serr = append(serr, l)
		}
	}
	tRel := time.Since(t0)
	res := map[string]any{"ev": "Result", "cerr": hlib.ErrStr(cerr), "corigin": errOrigin(cerr), "cpanic": cpanic,
		"cok": cerr == nil, "hsok": hsok, "nch": rc.nch, "cs": csJSON(cs), "have_cs": haveCS,
		"serr": strings.Join(serr, " | "), "sorigin": map[bool]string{true: "error", false: "none"}[len(serr) > 0],
		"cekm": cekm, "sent": hlib.Ints(sent), "srv_got": srvGot, "reply": hlib.Ints(reply), "crecv": hlib.Ints(crecv),
		"salert": hlib.Ints(nil), "ccs_dropped": rc.dropped, "srv_args": args, "build": b.path, "srv_closed": derr == nil,
		"ms": []int{int(tAcq.Milliseconds()), int(tHS.Milliseconds()), int(tData.Milliseconds()), int(tRel.Milliseconds())}}
	if rc.salert != nil {
		res["salert"] = rc.salert
	}
	if uc.HandshakeState.Hello != nil {
		res["hsraw"] = hlib.Ints(uc.HandshakeState.Hello.Raw)
	} else {
		res["hsraw"] = []int{}
	}
	return func(seg []string) {
		serverView(res, seg, b, args)
		emit(res)
	}
}

// serverView translates what s_server printed about one connection (not judged here): the cipher it negotiated, the
// ALPN protocol it selected, session reuse, the SNI it received (when its callback is installed), exported keying
// material. sout = false: the output was lost (the process had to be killed).
func serverView(res map[string]any, lines []string, b *build, args []string) {
	sview := map[string]any{"suite": 0, "proto": []int{}, "resumed": false, "sni": []int{}}
	known := []string{}
	sok, sni := false, false
	sekm := []any{}
	{
		// (the summary block is flushed by s_server right after the handshake; the lines that follow it are not)
		for _, l := range lines {
			switch {
			case strings.HasPrefix(l, "CIPHER is "):
				nm := strings.TrimSpace(strings.TrimPrefix(l, "CIPHER is "))
				if cid, ok := b.ids[nm]; ok {
					sview["suite"] = cid
					known = append(known, "suite")
					sok = true
				}
			case strings.HasPrefix(l, "ALPN protocols selected: "):
				sview["proto"] = hlib.Ints([]byte(strings.TrimSpace(strings.TrimPrefix(l, "ALPN protocols selected: "))))
			case l == "Reused session-id":
				sview["resumed"] = true
			case strings.HasPrefix(l, "Hostname in TLS extension: \""):
				nm := strings.TrimSuffix(strings.TrimPrefix(l, "Hostname in TLS extension: \""), "\"")
				sview["sni"] = hlib.Ints([]byte(nm))
				sni = true
			case strings.HasPrefix(strings.TrimSpace(l), "Keying material: "):
				if hx, err := hex.DecodeString(strings.TrimSpace(strings.TrimPrefix(strings.TrimSpace(l), "Keying material: "))); err == nil {
					sekm = append(sekm, hlib.Ints(hx))
				}
			}
		}
	}
	if sok {
		// s_server prints the selected ALPN protocol and "Reused session-id" in the same block as the cipher; the SNI
		// line only when its callback is installed
		known = append(known, "proto", "resumed")
		if sni || contains(args, "-servername") {
			known = append(known, "sni")
		}
	}
	res["sok"], res["sout"], res["ss"], res["sknown"], res["sekm"] = sok, lines != nil, sview, strs(known), sekm
}

func contains(v []string, x string) bool {
	for _, y := range v {
		if y == x {
			return true
		}
	}
	return false
}

// ---------------------------------------------------------------- commands

type srvRef struct {
	K    int    `json:"k"`
	Path string `json:"path"`
}

func init() {
	// osslprobe: {"bins": [...]?, "tmpdir": dir} -> one Caps event per distinct openssl build
	hlib.Register("osslprobe", func(in []byte, out *hlib.Out) error {
		var req struct {
			Bins   []string `json:"bins"`
			Tmpdir string   `json:"tmpdir"`
		}
		if err := json.Unmarshal(in, &req); err != nil {
			return err
		}
		d, err := newDiskPKI(req.Tmpdir)
		if err != nil {
			return err
		}
		defer d.remove()
		bins := discover(req.Bins)
		for i, bin := range bins {
			c, err := probeBuild(i+1, bin, d)
			if err != nil {
				out.Emit(map[string]any{"ev": "Error", "err": err.Error()})
				continue
			}
			m := map[string]any{}
			j, _ := json.Marshal(c)
			json.Unmarshal(j, &m)
			m["ev"] = "Caps"
			out.Emit(m)
		}
		return nil
	})

	// ossl: {"scenarios": [...], "servers": [{"k":1,"path":"/usr/bin/openssl"}...], "tmpdir": dir, "par": 12}
	//  -> per scenario: Scn, CH k, SMSG t, Result
	hlib.Register("ossl", func(in []byte, out *hlib.Out) error {
		var req struct {
			Scenarios []json.RawMessage `json:"scenarios"`
			Servers   []srvRef          `json:"servers"`
			Tmpdir    string            `json:"tmpdir"`
			Par       int               `json:"par"`
		}
		if err := json.Unmarshal(in, &req); err != nil {
			return err
		}
		if req.Par <= 0 || req.Par > 12 {
			req.Par = 12
		}
		d, err := newDiskPKI(req.Tmpdir)
		if err != nil {
			return err
		}
		defer d.remove()
		builds := map[int]*build{}
		for _, sr := range req.Servers {
			t, err := suiteTable(sr.Path, allCiphers)
			if err != nil {
				return err
			}
			b := &build{path: sr.Path, names: map[int]string{}, ids: map[string]int{}, flags: helpFlags(sr.Path, "s_server")}
			for id, nv := range t {
				b.names[id] = nv[0]
				b.ids[nv[0]] = id
			}
			builds[sr.K] = b
		}
		res := make([][]map[string]any, len(req.Scenarios))
		// scenarios that need the same server configuration share one s_server process (at most `chunk` connections
		// each, served one after the other); at most Par server processes exist at any time
		type item struct {
			i int
			s osslScn
		}
		type group struct {
			b     *build
			args  []string
			items []item
		}
		const chunk = 48
		open := map[string]*group{}
		var groups []*group
		for i := range req.Scenarios {
			var s osslScn
			if err := json.Unmarshal(req.Scenarios[i], &s); err != nil {
				res[i] = append(res[i], map[string]any{"ev": "Error", "sc": i, "err": err.Error()})
				continue
			}
			b := builds[s.Ossl]
			if b == nil {
				res[i] = append(res[i], map[string]any{"ev": "Error", "sc": s.Sc, "err": fmt.Sprintf("no openssl build %d", s.Ossl)})
				continue
			}
			if s.Cert == "" {
				s.Cert = "ecdsa"
			}
			if s.SNI == "" {
				s.SNI = "example.com"
			}
			args, err := serverArgs(&s, b, d)
			if err != nil {
				res[i] = append(res[i], map[string]any{"ev": "Error", "sc": s.Sc, "err": err.Error()})
				continue
			}
			key := strconv.Itoa(s.Ossl) + "\x00" + strings.Join(args, "\x00")
			g := open[key]
			// s_server clears its -stateless flag after the first connection that came back with a cookie: one process each
			if g == nil || len(g.items) >= chunk || s.Stateless {
				g = &group{b: b, args: args}
				open[key] = g
				groups = append(groups, g)
			}
			g.items = append(g.items, item{i, s})
		}
		var wg sync.WaitGroup
		sem := make(chan struct{}, req.Par)
		for _, g := range groups {
			wg.Add(1)
			go func(g *group) {
				defer wg.Done()
				sem <- struct{}{}
				defer func() { <-sem }()
				sl := &slot{bin: g.b.path, args: g.args, left: len(g.items)}
				defer sl.abandon()
				fin := map[int]func([]string){}
				for _, it := range g.items {
					func() {
						defer func() {
							if p := recover(); p != nil {
								res[it.i] = append(res[it.i], map[string]any{"ev": "Error", "sc": it.s.Sc, "err": fmt.Sprint("harness panic: ", p)})
								sl.abandon()
							}
						}()
						if f := runOssl(it.i, it.s, req.Scenarios[it.i], g.b, d, sl, &res[it.i]); f != nil {
							fin[it.i] = f
						}
					}()
				}
				seg := sl.finish()
				for _, it := range g.items {
					if f := fin[it.i]; f != nil {
						f(seg[it.i])
					}
				}
			}(g)
		}
		wg.Wait()
		for _, evs := range res {
			for _, e := range evs {
				out.Emit(e)
			}
		}
		return nil
	})
}
