package main

import (
	"encoding/json"
	"reflect"

	tls "github.com/refraction-networking/utls"
	"verif/harness/hlib"
)

func kindOrder(spec *tls.ClientHelloSpec) string {
	s := ""
	for _, e := range spec.Extensions {
		s += reflect.TypeOf(e).String() + ","
	}
	return s
}

// dumpspecs: {"ids": [...]} (empty = all predefined parrots) -> one event {"specs": {name: desc}, "shuffling": [...]}
// (same format as verifdrv dumpspecs; kept here so that this family's checks only need their own binary)
func init() {
	hlib.Register("dumpspecs", func(in []byte, out *hlib.Out) error {
		var req struct{ IDs []string }
		json.Unmarshal(in, &req)
		specs := map[string]any{}
		ids := hlib.ParrotIDs
		if len(req.IDs) > 0 {
			ids = nil
			for _, n := range req.IDs {
				id, err := hlib.LookupID(n)
				if err != nil {
					return err
				}
				ids = append(ids, id)
			}
		}
		shuffling := []string{}
		for _, id := range ids {
			spec, err := tls.UTLSIdToSpec(id)
			if err != nil {
				return err
			}
			specs[id.Str()] = descSpec(&spec)
			for k := 0; k < 4; k++ {
				s2, err := tls.UTLSIdToSpec(id)
				if err != nil {
					return err
				}
				if kindOrder(&s2) != kindOrder(&spec) {
					shuffling = append(shuffling, id.Str())
					break
				}
			}
		}
		out.Emit(map[string]any{"specs": specs, "shuffling": shuffling})
		return nil
	})
}
