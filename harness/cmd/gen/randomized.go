package main

import (
	"encoding/json"
	"fmt"
	"reflect"

	tls "github.com/refraction-networking/utls"
	"verif/harness/hlib"
)

// suites: {} -> {ev:"Suites", suites:[{Id, Flags, TLS13, TLS12, ECDHE, RC4, Pool}]}   (verif accessor, C09 suite classes)
func init() {
	hlib.Register("suites", func(in []byte, out *hlib.Out) error {
		tab := tls.VerifCipherSuiteTable()
		rows := []any{}
		for _, s := range tab {
			rows = append(rows, toJ(reflect.ValueOf(s), false))
		}
		out.Emit(map[string]any{"ev": "Suites", "suites": rows})
		return nil
	})
}

// weights: {} -> {ev:"Weights", names:[...] (struct order), default:{name: float}}
func init() {
	hlib.Register("weights", func(in []byte, out *hlib.Out) error {
		v := reflect.ValueOf(tls.DefaultWeights)
		names := []string{}
		def := map[string]float64{}
		for i := 0; i < v.NumField(); i++ {
			names = append(names, v.Type().Field(i).Name)
			def[v.Type().Field(i).Name] = v.Field(i).Float()
		}
		out.Emit(map[string]any{"ev": "Weights", "names": names, "default": def})
		return nil
	})
}

type rCase struct {
	Variant  string             `json:"variant"` // Randomized | Randomized-ALPN | Randomized-NoALPN
	Seed     []int              `json:"seed"`    // 32 bytes; empty = let the library pick one (seedless scenario)
	Weights  map[string]float64 `json:"weights"` // empty = nil pointer (library default)
	WClass   map[string]int     `json:"wclass"`  // passed through to the event (abstraction of the weights, an input)
	SNI      string             `json:"sni"`
	ALPN     []string           `json:"alpn"` // Config.NextProtos of both connections (empty = nil)
	Tag      string             `json:"tag"`
	Mutation string             `json:"mutation"` // canary only: "" | "second-seed" (generate the second time from another seed)
}

// descUConn describes the spec a UConn applied, in the format of descSpec. The negotiated version range lives in the
// connection's private config copy (SetTLSVers); it is read (not modified) through reflection.
func descUConn(u *tls.UConn) map[string]any {
	cfg := reflect.ValueOf(u).Elem().FieldByName("Conn").Elem().FieldByName("config").Elem()
	exts := []any{}
	for _, e := range u.Extensions {
		exts = append(exts, descExt(e))
	}
	return map[string]any{"min": int(cfg.FieldByName("MinVersion").Uint()), "max": int(cfg.FieldByName("MaxVersion").Uint()),
		"suites": hlib.U16s(u.HandshakeState.Hello.CipherSuites), "comp": hlib.Ints(u.HandshakeState.Hello.CompressionMethods), "exts": exts}
}

func mkWeights(m map[string]float64) *tls.Weights {
	if len(m) == 0 {
		return nil
	}
	w := tls.DefaultWeights
	v := reflect.ValueOf(&w).Elem()
	for k, x := range m {
		f := v.FieldByName(k)
		if f.IsValid() {
			f.SetFloat(x)
		}
	}
	return &w
}

// randomized: {"cases":[rCase]} -> per case one event
//   {ev:"Gen", variant, W, seed, sni, d1, d2 (reflection dumps of two UTLSIdToSpec calls with the same ClientHelloID),
//    h1, h2 (wire ClientHellos of two UConns built from the same ClientHelloID), err}
// Seedless cases: the first UConn is built with Seed = nil; the ClientHelloID it ends up with (the library stores the
// seed it drew) is the ID used for everything else.
func init() {
	hlib.Register("randomized", func(in []byte, out *hlib.Out) error {
		var req struct{ Cases []rCase }
		if err := json.Unmarshal(in, &req); err != nil {
			return err
		}
		res := make([]map[string]any, len(req.Cases))
		hlib.Parallel(len(req.Cases), func(i int) {
			c := req.Cases[i]
			ev := map[string]any{"ev": "Gen", "variant": c.Variant, "W": c.WClass, "tag": c.Tag, "sni": hlib.Ints([]byte(c.SNI)),
				"seedless": len(c.Seed) == 0, "d1": map[string]any{}, "d2": map[string]any{}, "h1": []int{}, "h2": []int{}, "err": "", "seed": []int{}, "alpn": []any{}, "src": ""}
			res[i] = ev
			defer func() {
				if p := recover(); p != nil {
					ev["err"] = fmt.Sprint("panic: ", p)
				}
			}()
			base, err := hlib.LookupID(c.Variant + "-0")
			if err != nil {
				ev["err"] = err.Error()
				return
			}
			id := tls.ClientHelloID{Client: base.Client, Version: base.Version, Weights: mkWeights(c.Weights)}
			cfg := func() *tls.Config { return &tls.Config{ServerName: c.SNI, NextProtos: append([]string(nil), c.ALPN...)} }
			alpnJ := []any{}
			for _, p := range c.ALPN {
				alpnJ = append(alpnJ, hlib.Ints([]byte(p)))
			}
			ev["alpn"] = alpnJ
			var u1, u2 *tls.UConn
			var h1 []byte
			if len(c.Seed) == 0 {
				u, h, _, pn := wireHello(func(cn *hlib.BufConn) *tls.UConn { return tls.UClient(cn, cfg(), id) })
				if pn != "" || u == nil {
					ev["err"] = "first connection: " + pn
					return
				}
				h1 = h
				u1 = u
				id = u.ClientHelloID
				if id.Seed == nil {
					ev["err"] = "library did not record the seed it drew"
					return
				}
			} else {
				var s tls.PRNGSeed
				copy(s[:], hlib.Unints(c.Seed))
				id.Seed = &s
				u, h, _, pn := wireHello(func(cn *hlib.BufConn) *tls.UConn { return tls.UClient(cn, cfg(), id) })
				if pn != "" {
					ev["err"] = "first connection: " + pn
					return
				}
				h1 = h
				u1 = u
			}
			ev["seed"] = hlib.Ints(id.Seed[:])
			id2 := id
			if c.Mutation == "second-seed" {
				s2 := *id.Seed
				s2[0] ^= 1
				id2.Seed = &s2
			}
			u2, h2, _, pn := wireHello(func(cn *hlib.BufConn) *tls.UConn { return tls.UClient(cn, cfg(), id2) })
			if pn != "" {
				ev["err"] = "second connection: " + pn
				return
			}
			if len(c.ALPN) > 0 {
				// UTLSIdToSpec generates with nil nextProtos; with Config.NextProtos the spec only exists inside the
				// UConn: dump what each connection applied (version range, suites, extension objects)
				if u1 == nil || u2 == nil || len(u1.Extensions) == 0 || len(u2.Extensions) == 0 {
					ev["err"] = "connection did not apply a spec"
					return
				}
				ev["d1"], ev["d2"] = descUConn(u1), descUConn(u2)
				ev["h1"], ev["h2"] = hlib.Ints(h1), hlib.Ints(h2)
				ev["src"] = "uconn"
				return
			}
			ev["src"] = "spec"
			s1, err := tls.UTLSIdToSpec(id)
			if err != nil {
				ev["err"] = err.Error()
				return
			}
			s2, err := tls.UTLSIdToSpec(id2)
			if err != nil {
				ev["err"] = err.Error()
				return
			}
			ev["d1"], ev["d2"] = descSpec(&s1), descSpec(&s2)
			ev["h1"], ev["h2"] = hlib.Ints(h1), hlib.Ints(h2)
		})
		for _, e := range res {
			out.Emit(e)
		}
		return nil
	})
}
