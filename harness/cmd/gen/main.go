// gen is the harness binary of the generator/table family (C04 GREASE, C09 randomized specs,
// C31 public views, C32 dictionaries and JSON import). It performs actions on the real library and
// logs observations as ndjson; it contains no expected values - TLC judges the log.
// usage: gen <command> <in.json> <out.ndjson>
package main

import "verif/harness/hlib"

func main() { hlib.Main() }
