package main

import (
	"fmt"
	"reflect"
	"sync"
	"time"

	tls "github.com/refraction-networking/utls"
	"verif/harness/hlib"
)

// toJ converts a reflect value to a TLC-friendly JSON value: no null, strings as byte sequences,
// integers >= 2^31 as 8-byte big-endian sequences. With all=true unexported fields are included and
// pointers/funcs/interfaces are rendered as identities (8-byte address; 0 = nil).
func toJ(v reflect.Value, all bool) any {
	switch v.Kind() {
	case reflect.Bool:
		return v.Bool()
	case reflect.String:
		return hlib.Ints([]byte(v.String()))
	case reflect.Uint8, reflect.Uint16, reflect.Uint32, reflect.Uint64, reflect.Uint:
		u := v.Uint()
		if u >= 1<<31 {
			return be8(u)
		}
		return int(u)
	case reflect.Int, reflect.Int64, reflect.Int32, reflect.Int16, reflect.Int8:
		i := v.Int()
		if i >= 1<<31 || i < -(1<<31) {
			return be8(uint64(i))
		}
		return int(i)
	case reflect.Slice, reflect.Array:
		out := make([]any, 0, v.Len())
		for i := 0; i < v.Len(); i++ {
			out = append(out, toJ(v.Index(i), all))
		}
		return out
	case reflect.Struct:
		if v.Type() == reflect.TypeOf(time.Time{}) {
			// wall-clock instants: seconds and nanoseconds, read through reflection-safe accessors
			if v.CanInterface() {
				t := v.Interface().(time.Time)
				return map[string]any{"unix": be8(uint64(t.Unix())), "nsec": t.Nanosecond()}
			}
			return map[string]any{"wall": be8(v.Field(0).Uint()), "ext": be8(uint64(v.Field(1).Int()))}
		}
		m := map[string]any{}
		t := v.Type()
		for i := 0; i < v.NumField(); i++ {
			f := t.Field(i)
			if (!f.IsExported() && !all) || f.Anonymous {
				continue
			}
			k := f.Type.Kind()
			if k == reflect.Func || k == reflect.Ptr || k == reflect.Interface || k == reflect.Map || k == reflect.Chan || k == reflect.UnsafePointer {
				if !all {
					continue
				}
				m[f.Name] = ident(v.Field(i))
				continue
			}
			m[f.Name] = toJ(v.Field(i), all)
		}
		return m
	case reflect.Func, reflect.Ptr, reflect.Map, reflect.Chan, reflect.UnsafePointer, reflect.Interface:
		return ident(v)
	}
	return "?" + v.Kind().String()
}

// ident renders the identity of a reference-like value (code pointer of a func, address of a pointer).
func ident(v reflect.Value) any {
	switch v.Kind() {
	case reflect.Interface:
		if v.IsNil() {
			return be8(0)
		}
		return ident(v.Elem())
	case reflect.Func, reflect.Ptr, reflect.Map, reflect.Chan, reflect.UnsafePointer:
		if v.IsNil() {
			return be8(0)
		}
		return be8(uint64(v.Pointer()))
	}
	return be8(1)
}

func be8(u uint64) []int {
	r := make([]int, 8)
	for i := 7; i >= 0; i-- {
		r[i] = int(u & 0xff)
		u >>= 8
	}
	return r
}

func be4(u uint32) []int {
	return []int{int(u >> 24), int(u >> 16 & 0xff), int(u >> 8 & 0xff), int(u & 0xff)}
}

func deref(x any) reflect.Value {
	v := reflect.ValueOf(x)
	for v.Kind() == reflect.Ptr || v.Kind() == reflect.Interface {
		v = v.Elem()
	}
	return v
}

// descExt describes an extension by the exported fields of its struct: {kind, f, [style]}.
func descExt(e tls.TLSExtension) map[string]any {
	v := deref(e)
	d := map[string]any{"kind": v.Type().Name(), "f": toJ(v, false)}
	if p, ok := e.(*tls.UtlsPaddingExtension); ok {
		style := "none"
		if p.GetPaddingLen != nil {
			if reflect.ValueOf(p.GetPaddingLen).Pointer() == reflect.ValueOf(tls.BoringPaddingStyle).Pointer() {
				style = "boring"
			} else {
				style = "other"
			}
		}
		d["style"] = style
		d["willpad"] = p.WillPad
		d["padlen"] = p.PaddingLen
	}
	return d
}

func descSpec(spec *tls.ClientHelloSpec) map[string]any {
	exts := []any{}
	for _, e := range spec.Extensions {
		exts = append(exts, descExt(e))
	}
	return map[string]any{"min": int(spec.TLSVersMin), "max": int(spec.TLSVersMax),
		"suites": hlib.U16s(spec.CipherSuites), "comp": hlib.Ints(spec.CompressionMethods), "exts": exts}
}

// wireHello starts a real handshake on a pipe whose peer hangs up as soon as the client has written
// something, and returns the bytes the client put on the wire together with the handshake error.
func wireHello(uc func(c *hlib.BufConn) *tls.UConn) (u *tls.UConn, hello []byte, err error, panicked string) {
	c, s := hlib.BufPipe()
	c.SetDeadline(time.Now().Add(5 * time.Second))
	var once sync.Once
	c.OnWrite = func([]byte) { once.Do(func() { go s.Close() }) }
	func() {
		defer func() {
			if p := recover(); p != nil {
				panicked = fmt.Sprint(p)
			}
		}()
		u = uc(c)
		if u != nil {
			err = u.Handshake()
		}
	}()
	c.Close()
	chs := hlib.ClientHellos(c.Written())
	if len(chs) > 0 {
		hello = chs[0]
	}
	return
}

// helloRecord wraps a ClientHello handshake message into a TLS record (input format of the fingerprinter).
func helloRecord(hs []byte) []byte {
	return append([]byte{22, 3, 1, byte(len(hs) >> 8), byte(len(hs))}, hs...)
}
