package main

import (
	"crypto/ecdh"
	"crypto/rand"
	"encoding/json"
	"fmt"
	"reflect"
	"time"

	tls "github.com/refraction-networking/utls"
	"verif/harness/hlib"
)

// ---- C31: public views. Every command builds values, sends them through the conversions of u_public.go and logs
// reflection dumps of what went in and what came out. No comparison happens here.

// pubJ dumps a public struct: exported fields only at the top level (unexported caches such as
// PubClientHelloMsg.cachedPrivateHello are not part of the view), everything below (e.g. ServerShare keyShare).
func pubJ(x any) any {
	v := deref(x)
	if !v.IsValid() {
		return map[string]any{"nil": true}
	}
	if v.Kind() != reflect.Struct {
		return toJ(v, true)
	}
	m := map[string]any{}
	t := v.Type()
	for i := 0; i < v.NumField(); i++ {
		f := t.Field(i)
		if !f.IsExported() {
			continue
		}
		k := f.Type.Kind()
		if k == reflect.Func || k == reflect.Ptr || k == reflect.Interface || k == reflect.Map || k == reflect.Chan {
			m[f.Name] = ident(v.Field(i))
			continue
		}
		m[f.Name] = toJ(v.Field(i), true)
	}
	return m
}

// privJ dumps a private struct completely (unexported fields included).
func privJ(x any) any {
	v := deref(x)
	if !v.IsValid() {
		return map[string]any{"nil": true}
	}
	return toJ(v, true)
}

// nilJ reports, for every slice-typed top-level field of a struct, whether it is nil (the dumps render nil and
// empty slices alike; some encoders - clientHelloMsg.marshal for quic_transport_parameters - do not treat them alike).
func nilJ(x any) map[string]any {
	m := map[string]any{}
	v := deref(x)
	if !v.IsValid() || v.Kind() != reflect.Struct {
		return m
	}
	for i := 0; i < v.NumField(); i++ {
		if v.Field(i).Kind() == reflect.Slice {
			m[v.Type().Field(i).Name] = v.Field(i).IsNil()
		}
	}
	return m
}

func bytesN(n int, salt byte) []byte {
	b := make([]byte, n)
	for i := range b {
		b[i] = byte(i)*7 + salt
	}
	return b
}

// pubhello: {"ids":[...], "n":k} -> per wire hello of a parrot/randomized ID:
//   {ev:"CH", id, raw, m (UnmarshalClientHello(raw).Marshal()), privA, privB (private form, and private form rebuilt from
//    its public view), pub, pub2 (public view, and public view rebuilt from its private form),
//    m2 (Marshal after clearing Raw), pub3 (UnmarshalClientHello(m2)), m3 (pub3 with Raw cleared, marshaled), err}
func init() {
	hlib.Register("pubhello", func(in []byte, out *hlib.Out) error {
		var req struct {
			IDs []string
			N   int
		}
		if err := json.Unmarshal(in, &req); err != nil {
			return err
		}
		type job struct {
			id string
			k  int
		}
		var jobs []job
		for _, id := range req.IDs {
			for k := 0; k < req.N; k++ {
				jobs = append(jobs, job{id, k})
			}
		}
		res := make([]map[string]any, len(jobs))
		hlib.Parallel(len(jobs), func(i int) {
			j := jobs[i]
			empty := map[string]any{}
			ev := map[string]any{"ev": "CH", "id": j.id, "raw": []int{}, "m": []int{}, "privA": empty, "privB": empty, "pub": empty, "pub2": empty,
				"m2": []int{}, "pub3": empty, "m3": []int{}, "err": "", "nils": empty}
			res[i] = ev
			defer func() {
				if p := recover(); p != nil {
					ev["err"] = fmt.Sprint("panic: ", p)
				}
			}()
			id, err := hlib.LookupID(j.id)
			if err != nil {
				ev["err"] = err.Error()
				return
			}
			raw := mustHello("example.com", id)
			if raw == nil {
				ev["err"] = "no hello sent"
				return
			}
			chBundle(ev, raw)
		})
		for _, e := range res {
			out.Emit(e)
		}
		return nil
	})
}

// chBundle sends one ClientHello (handshake message bytes) through every conversion of the ClientHello view and
// logs the results into ev.
func chBundle(ev map[string]any, raw []byte) {
	ev["raw"] = hlib.Ints(raw)
	p := tls.UnmarshalClientHello(raw)
	if p == nil {
		ev["err"] = "UnmarshalClientHello returned nil"
		return
	}
	m, err := p.Marshal()
	if err != nil {
		ev["err"] = "Marshal: " + err.Error()
		return
	}
	ev["m"] = hlib.Ints(m)
	a, b, ok := tls.VerifClientHelloPrivRoundTrip(raw)
	if !ok {
		ev["err"] = "private unmarshal failed"
		return
	}
	ev["privA"], ev["privB"] = privJ(a), privJ(b)
	ev["pub"] = pubJ(p)
	p2 := tls.VerifClientHelloPubRoundTrip(p)
	ev["pub2"] = pubJ(p2)
	nils := map[string]any{"privA": nilJ(a), "privB": nilJ(b), "pub": nilJ(p), "pub2": nilJ(p2), "pub3": map[string]any{}}
	ev["nils"] = nils
	p.Raw = nil
	m2, err := p.Marshal()
	if err != nil {
		ev["err"] = "Marshal after clearing Raw: " + err.Error()
		return
	}
	ev["m2"] = hlib.Ints(m2)
	p3 := tls.UnmarshalClientHello(m2)
	if p3 == nil {
		ev["err"] = "re-marshaled hello does not parse"
		return
	}
	ev["pub3"] = pubJ(p3)
	nils["pub3"] = nilJ(p3)
	p3.Raw = nil
	m3, err := p3.Marshal()
	if err != nil {
		ev["err"] = "second Marshal: " + err.Error()
		return
	}
	ev["m3"] = hlib.Ints(m3)
}

func newCHEvent(id string) map[string]any {
	empty := map[string]any{}
	return map[string]any{"ev": "CH", "id": id, "raw": []int{}, "m": []int{}, "privA": empty, "privB": empty, "pub": empty, "pub2": empty,
		"m2": []int{}, "pub3": empty, "m3": []int{}, "err": "", "nils": empty}
}

// pubhelloraw: {"scns":[{"f": {...}, "raw": [bytes]}]} -> the same bundle as pubhello for ClientHellos whose bytes were
// built by the TLA+ reference encoder (PubViews_MC: presence combinations of the optional members); f is passed through.
func init() {
	hlib.Register("pubhelloraw", func(in []byte, out *hlib.Out) error {
		var req struct {
			Scns []struct {
				F   map[string]any `json:"f"`
				Raw []int          `json:"raw"`
			}
		}
		if err := json.Unmarshal(in, &req); err != nil {
			return err
		}
		res := make([]map[string]any, len(req.Scns))
		hlib.Parallel(len(req.Scns), func(i int) {
			ev := newCHEvent("tlc-grid")
			ev["f"] = req.Scns[i].F
			res[i] = ev
			defer func() {
				if p := recover(); p != nil {
					ev["err"] = fmt.Sprint("panic: ", p)
				}
			}()
			chBundle(ev, hlib.Unints(req.Scns[i].Raw))
		})
		for _, e := range res {
			out.Emit(e)
		}
		return nil
	})
}

type shScn struct {
	Vers    int `json:"vers"`
	Sid     int `json:"sid"`
	NPN     int `json:"npn"`  // 0 none, 1 NextProtoNeg with no protocols, 2 with two protocols
	OCSP    int `json:"ocsp"` // 0/1
	Scts    int `json:"scts"` // number of SCTs
	EMS     int `json:"ems"`
	Ticket  int `json:"ticket"`
	Reneg   int `json:"reneg"` // 0 none, 1 supported/empty, 2 supported/12 bytes
	ALPN    int `json:"alpn"`
	SV      int `json:"sv"`
	Share   int `json:"share"`  // 0 none, 1 x25519-sized share
	PSK     int `json:"psk"`    // 0 none, 1 selected identity 3
	Cookie  int `json:"cookie"` // cookie length
	SelGrp  int `json:"selgrp"`
	Comp    int `json:"comp"`
	Suite   int `json:"suite"`
	RawJunk int `json:"rawjunk"` // 1: Raw preset to unrelated bytes (the views must carry it along)
}

func buildSH(s shScn) *tls.PubServerHelloMsg {
	p := &tls.PubServerHelloMsg{Vers: uint16(s.Vers), Random: bytesN(32, 1), SessionId: bytesN(s.Sid, 2), CipherSuite: uint16(s.Suite),
		CompressionMethod: uint8(s.Comp), OcspStapling: s.OCSP == 1, ExtendedMasterSecret: s.EMS == 1, TicketSupported: s.Ticket == 1,
		SupportedVersion: uint16(s.SV), SelectedGroup: tls.CurveID(s.SelGrp)}
	if s.NPN >= 1 {
		p.NextProtoNeg = true
	}
	if s.NPN == 2 {
		p.NextProtos = []string{"h2", "http/1.1"}
	}
	for i := 0; i < s.Scts; i++ {
		p.Scts = append(p.Scts, bytesN(5+i, byte(9+i)))
	}
	if s.Reneg >= 1 {
		p.SecureRenegotiationSupported = true
	}
	if s.Reneg == 2 {
		p.SecureRenegotiation = bytesN(12, 3)
	}
	if s.ALPN == 1 {
		p.AlpnProtocol = "h2"
	}
	if s.Share == 1 {
		tls.VerifSetServerShare(p, tls.X25519, bytesN(32, 4))
	}
	if s.PSK == 1 {
		p.SelectedIdentityPresent = true
		p.SelectedIdentity = 3
	}
	if s.Cookie > 0 {
		p.Cookie = bytesN(s.Cookie, 5)
	}
	if s.RawJunk == 1 {
		p.Raw = bytesN(9, 6)
	}
	return p
}

// pubserverhello: {"scns":[shScn]} -> per scenario
//   {ev:"SH", scn, pub, pub2 (pub -> private -> pub), s1 (marshal with Raw nil), q (parse s1), privA, privB (parse s1, and
//    rebuilt from its public view), s2 (q with Raw cleared, marshaled), q2 (parse s2), err}
func init() {
	hlib.Register("pubserverhello", func(in []byte, out *hlib.Out) error {
		var req struct{ Scns []shScn }
		if err := json.Unmarshal(in, &req); err != nil {
			return err
		}
		for _, s := range req.Scns {
			empty := map[string]any{}
			ev := map[string]any{"ev": "SH", "scn": toJ(reflect.ValueOf(s), false), "pub": empty, "pub2": empty, "s1": []int{}, "q": empty,
				"privA": empty, "privB": empty, "s2": []int{}, "q2": empty, "err": ""}
			func() {
				defer func() {
					if p := recover(); p != nil {
						ev["err"] = fmt.Sprint("panic: ", p)
					}
				}()
				p := buildSH(s)
				ev["pub"] = pubJ(p)
				ev["pub2"] = pubJ(tls.VerifServerHelloPubRoundTrip(p))
				p.Raw = nil
				s1, err := tls.VerifMarshalServerHello(p)
				if err != nil {
					ev["err"] = "marshal: " + err.Error()
					return
				}
				ev["s1"] = hlib.Ints(s1)
				q := tls.VerifUnmarshalServerHello(s1)
				if q == nil {
					ev["err"] = "own encoding does not parse"
					return
				}
				ev["q"] = pubJ(q)
				a, b, ok := tls.VerifServerHelloPrivRoundTrip(s1)
				if !ok {
					ev["err"] = "private unmarshal failed"
					return
				}
				ev["privA"], ev["privB"] = privJ(a), privJ(b)
				q.Raw = nil
				s2, err := tls.VerifMarshalServerHello(q)
				if err != nil {
					ev["err"] = "second marshal: " + err.Error()
					return
				}
				ev["s2"] = hlib.Ints(s2)
				q2 := tls.VerifUnmarshalServerHello(s2)
				if q2 == nil {
					ev["err"] = "second encoding does not parse"
					return
				}
				ev["q2"] = pubJ(q2)
			}()
			out.Emit(ev)
		}
		return nil
	})
}

type crScn struct {
	OCSP     int `json:"ocsp"`
	Scts     int `json:"scts"`
	Sigs     int `json:"sigs"`     // number of signature algorithms
	SigsCert int `json:"sigscert"` // number of signature_algorithms_cert entries
	CAs      int `json:"cas"`      // number of certificate authorities
}

var sigPool = []tls.SignatureScheme{tls.ECDSAWithP256AndSHA256, tls.PSSWithSHA256, tls.PKCS1WithSHA256, tls.Ed25519}

// pubcertreq: {"scns":[crScn]} -> {ev:"CR", scn, pub, pub2, s1, q, privA, privB, s2, q2, err} (as pubserverhello)
func init() {
	hlib.Register("pubcertreq", func(in []byte, out *hlib.Out) error {
		var req struct{ Scns []crScn }
		if err := json.Unmarshal(in, &req); err != nil {
			return err
		}
		for _, s := range req.Scns {
			empty := map[string]any{}
			ev := map[string]any{"ev": "CR", "scn": toJ(reflect.ValueOf(s), false), "pub": empty, "pub2": empty, "s1": []int{}, "q": empty,
				"privA": empty, "privB": empty, "s2": []int{}, "q2": empty, "err": ""}
			func() {
				defer func() {
					if p := recover(); p != nil {
						ev["err"] = fmt.Sprint("panic: ", p)
					}
				}()
				p := &tls.CertificateRequestMsgTLS13{OcspStapling: s.OCSP == 1, Scts: s.Scts == 1}
				p.SupportedSignatureAlgorithms = append(p.SupportedSignatureAlgorithms, sigPool[:s.Sigs]...)
				p.SupportedSignatureAlgorithmsCert = append(p.SupportedSignatureAlgorithmsCert, sigPool[:s.SigsCert]...)
				for i := 0; i < s.CAs; i++ {
					p.CertificateAuthorities = append(p.CertificateAuthorities, bytesN(11+i, byte(i)))
				}
				ev["pub"] = pubJ(p)
				// toPublic fills Raw with the encoding; the input has none: the comparison of pub and pub2 is modulo Raw
				ev["pub2"] = pubJ(tls.VerifCertReq13PubRoundTrip(p))
				s1, err := tls.VerifMarshalCertReq13(p)
				if err != nil {
					ev["err"] = "marshal: " + err.Error()
					return
				}
				ev["s1"] = hlib.Ints(s1)
				q := tls.VerifUnmarshalCertReq13(s1)
				if q == nil {
					ev["err"] = "own encoding does not parse"
					return
				}
				ev["q"] = pubJ(q)
				a, b, ok := tls.VerifCertReq13PrivRoundTrip(s1)
				if !ok {
					ev["err"] = "private unmarshal failed"
					return
				}
				ev["privA"], ev["privB"] = privJ(a), privJ(b)
				q.Raw = nil
				s2, err := tls.VerifMarshalCertReq13(q)
				if err != nil {
					ev["err"] = "second marshal: " + err.Error()
					return
				}
				ev["s2"] = hlib.Ints(s2)
				q2 := tls.VerifUnmarshalCertReq13(s2)
				if q2 == nil {
					ev["err"] = "second encoding does not parse"
					return
				}
				ev["q2"] = pubJ(q2)
			}()
			out.Emit(ev)
		}
		return nil
	})
}

type listScn struct {
	Kind  string  `json:"kind"`  // "KS" | "PSK" | "TK"
	Items [][]int `json:"items"` // KS: [group, dataLen]; PSK: [labelLen, ageClass]; TK: [salt]
}

var ages = []uint32{0, 1, 0x7fffffff, 0x80000000, 0xffffffff}

// publists: {"scns":[listScn]} -> {ev:"List", kind, in, out}   (key shares, PSK identities, ticket keys: pub -> private -> pub)
func init() {
	hlib.Register("publists", func(in []byte, out *hlib.Out) error {
		var req struct{ Scns []listScn }
		if err := json.Unmarshal(in, &req); err != nil {
			return err
		}
		for _, s := range req.Scns {
			ev := map[string]any{"ev": "List", "kind": s.Kind, "n": len(s.Items), "in": []any{}, "out": []any{}, "err": ""}
			func() {
				defer func() {
					if p := recover(); p != nil {
						ev["err"] = fmt.Sprint("panic: ", p)
					}
				}()
				switch s.Kind {
				case "KS":
					var ks []tls.KeyShare
					for i, it := range s.Items {
						ks = append(ks, tls.KeyShare{Group: tls.CurveID(it[0]), Data: bytesN(it[1], byte(i))})
					}
					ev["in"] = toJ(reflect.ValueOf(ks), true)
					ev["out"] = toJ(reflect.ValueOf(tls.VerifKeySharesRoundTrip(ks)), true)
				case "PSK":
					var ps []tls.PskIdentity
					for i, it := range s.Items {
						ps = append(ps, tls.PskIdentity{Label: bytesN(it[0], byte(i)), ObfuscatedTicketAge: ages[it[1]%len(ages)]})
					}
					ev["in"] = toJ(reflect.ValueOf(ps), true)
					ev["out"] = toJ(reflect.ValueOf(tls.VerifPskIdentitiesRoundTrip(ps)), true)
				case "TK":
					var tk []tls.TicketKey
					for _, it := range s.Items {
						var k tls.TicketKey
						copy(k.AesKey[:], bytesN(16, byte(it[0])))
						copy(k.HmacKey[:], bytesN(16, byte(it[0]+1)))
						k.Created = time.Unix(1700000000+int64(it[0])*86400, int64(it[0])*1000).UTC()
						tk = append(tk, k)
					}
					ev["in"] = toJ(reflect.ValueOf(tk), true)
					ev["out"] = toJ(reflect.ValueOf(tls.VerifTicketKeysRoundTrip(tk)), true)
				}
			}()
			out.Emit(ev)
		}
		return nil
	})
}

// pubsuites: {} -> per cipher suite {ev:"Suite", priv, pub, back} (table entry, its public view, private form rebuilt
// from the view; function-valued fields are rendered as code identities) and one {ev:"Keys", in, out} for
// KeySharePrivateKeys / KemPrivateKey (pointer identities).
func init() {
	hlib.Register("pubsuites", func(in []byte, out *hlib.Out) error {
		priv, pub, back := tls.VerifCipherSuiteViews()
		for i := range priv {
			out.Emit(map[string]any{"ev": "Suite", "priv": privJ(priv[i]), "pub": pubJ(pub[i]), "back": privJ(back[i])})
		}
		k1, err := ecdh.X25519().GenerateKey(rand.Reader)
		if err != nil {
			return err
		}
		k2, err := ecdh.P256().GenerateKey(rand.Reader)
		if err != nil {
			return err
		}
		for _, ks := range []*tls.KeySharePrivateKeys{
			{CurveID: tls.X25519, Ecdhe: k1},
			{CurveID: tls.X25519MLKEM768, Ecdhe: k2, MlkemEcdhe: k1},
			{},
		} {
			out.Emit(map[string]any{"ev": "Keys", "in": pubJ(ks), "out": pubJ(tls.VerifKeySharePrivateKeysRoundTrip(ks))})
		}
		kem := &tls.KemPrivateKey{SecretKey: k1, CurveID: tls.X25519}
		out.Emit(map[string]any{"ev": "Keys", "in": pubJ(kem), "out": pubJ(tls.VerifKemPrivateKeyRoundTrip(kem))})
		return nil
	})
}

// ---- C31: edit the public view, then convert.
// editPaths enumerates one-member edits of a PubClientHelloMsg by reflection: every exported member except Raw, every
// element of its lists, every field of nested structs, plus dropping the last element of each list.
type editOp struct {
	path, member string
	apply        func(p *tls.PubClientHelloMsg) bool // false: nothing to edit (empty member)
}

func bumpValue(v reflect.Value) bool {
	switch v.Kind() {
	case reflect.Bool:
		v.SetBool(!v.Bool())
	case reflect.Uint8, reflect.Uint16, reflect.Uint32, reflect.Uint64:
		v.SetUint(v.Uint() + 1)
	case reflect.String:
		v.SetString(v.String() + "x")
	case reflect.Slice:
		if v.Type().Elem().Kind() != reflect.Uint8 {
			return false
		}
		if v.Len() == 0 {
			return false
		}
		// replace, do not write through: the bytes may be shared with the cached private hello
		nb := append([]byte(nil), v.Bytes()...)
		nb[0] ^= 0x55
		v.SetBytes(nb)
	default:
		return false
	}
	return true
}

func editPaths(sample *tls.PubClientHelloMsg) []editOp {
	var ops []editOp
	t := reflect.TypeOf(*sample)
	sv := reflect.ValueOf(sample).Elem()
	for i := 0; i < t.NumField(); i++ {
		f := t.Field(i)
		if !f.IsExported() || f.Name == "Raw" {
			continue
		}
		idx := i
		name := f.Name
		fv := sv.Field(i)
		isBytes := fv.Kind() == reflect.Slice && f.Type.Elem().Kind() == reflect.Uint8
		if fv.Kind() != reflect.Slice || isBytes {
			ops = append(ops, editOp{name, name, func(p *tls.PubClientHelloMsg) bool {
				return bumpValue(reflect.ValueOf(p).Elem().Field(idx))
			}})
			continue
		}
		for k := 0; k < fv.Len(); k++ {
			kk := k
			if f.Type.Elem().Kind() == reflect.Struct {
				et := f.Type.Elem()
				for j := 0; j < et.NumField(); j++ {
					jj := j
					ops = append(ops, editOp{fmt.Sprintf("%s[%d].%s", name, k, et.Field(j).Name), name, func(p *tls.PubClientHelloMsg) bool {
						l := reflect.ValueOf(p).Elem().Field(idx)
						// copy the list first: the element structs may be shared
						nl := reflect.MakeSlice(l.Type(), l.Len(), l.Len())
						reflect.Copy(nl, l)
						l.Set(nl)
						return bumpValue(l.Index(kk).Field(jj))
					}})
				}
				continue
			}
			ops = append(ops, editOp{fmt.Sprintf("%s[%d]", name, k), name, func(p *tls.PubClientHelloMsg) bool {
				l := reflect.ValueOf(p).Elem().Field(idx)
				nl := reflect.MakeSlice(l.Type(), l.Len(), l.Len())
				reflect.Copy(nl, l)
				l.Set(nl)
				return bumpValue(l.Index(kk))
			}})
		}
		if fv.Len() > 0 {
			ops = append(ops, editOp{name + "[-last]", name, func(p *tls.PubClientHelloMsg) bool {
				l := reflect.ValueOf(p).Elem().Field(idx)
				l.Set(l.Slice(0, l.Len()-1))
				return true
			}})
		}
	}
	return ops
}

// pubedit: {"scns":[{"raw":[bytes]}]} -> for every ClientHello and every one-member edit:
//   {ev:"Edit", base (index of the hello), path, member, before (view as parsed), pub (view after the edit),
//    priv (private form the edited view converts to), m (Marshal of the edited view with Raw cleared), q (parse of m), err}
// The view comes from UnmarshalClientHello, i.e. it carries whatever the library caches in it.
func init() {
	hlib.Register("pubedit", func(in []byte, out *hlib.Out) error {
		var req struct {
			Scns []struct {
				Raw []int `json:"raw"`
			}
		}
		if err := json.Unmarshal(in, &req); err != nil {
			return err
		}
		for bi, sc := range req.Scns {
			raw := hlib.Unints(sc.Raw)
			sample := tls.UnmarshalClientHello(raw)
			if sample == nil {
				out.Emit(map[string]any{"ev": "Edit", "base": bi, "path": "", "member": "", "err": "base hello does not parse",
					"before": map[string]any{}, "pub": map[string]any{}, "priv": map[string]any{}, "m": []int{}, "q": map[string]any{}, "applied": false})
				continue
			}
			for _, op := range editPaths(sample) {
				empty := map[string]any{}
				ev := map[string]any{"ev": "Edit", "base": bi, "path": op.path, "member": op.member, "err": "", "before": empty, "pub": empty,
					"priv": empty, "m": []int{}, "q": empty, "applied": false}
				func() {
					defer func() {
						if p := recover(); p != nil {
							ev["err"] = fmt.Sprint("panic: ", p)
						}
					}()
					p := tls.UnmarshalClientHello(append([]byte(nil), raw...))
					ev["before"] = pubJ(p)
					if !op.apply(p) {
						return
					}
					ev["applied"] = true
					ev["pub"] = pubJ(p)
					ev["priv"] = privJ(tls.VerifClientHelloToPrivate(p))
					p.Raw = nil
					m, err := p.Marshal()
					if err != nil {
						ev["err"] = "Marshal: " + err.Error()
						return
					}
					ev["m"] = hlib.Ints(m)
					q := tls.UnmarshalClientHello(m)
					if q == nil {
						ev["err"] = "encoding of the edited view does not parse"
						return
					}
					ev["q"] = pubJ(q)
				}()
				out.Emit(ev)
			}
		}
		return nil
	})
}
