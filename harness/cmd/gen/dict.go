package main

import (
	"reflect"
	"sort"

	"github.com/refraction-networking/utls/dicttls"
	"verif/harness/hlib"
)

// The exported table pairs of package dicttls. (A Go package cannot be enumerated by reflection, so the
// pairs are listed; a table without a name-indexed twin cannot take part in the round-trip property.)
var dictPairs = []struct {
	Name   string
	VI, NI any
}{
	{"Alert", dicttls.DictAlertValueIndexed, dicttls.DictAlertNameIndexed},
	{"AuthorizationDataFormat", dicttls.DictAuthorizationDataFormatValueIndexed, dicttls.DictAuthorizationDataFormatNameIndexed},
	{"CachedInformationType", dicttls.DictCachedInformationTypeValueIndexed, dicttls.DictCachedInformationTypeNameIndexed},
	{"CertificateCompressionAlgorithm", dicttls.DictCertificateCompressionAlgorithmValueIndexed, dicttls.DictCertificateCompressionAlgorithmNameIndexed},
	{"CertificateStatusType", dicttls.DictCertificateStatusTypeValueIndexed, dicttls.DictCertificateStatusTypeNameIndexed},
	{"CertificateType", dicttls.DictCertificateTypeValueIndexed, dicttls.DictCertificateTypeNameIndexed},
	{"CipherSuite", dicttls.DictCipherSuiteValueIndexed, dicttls.DictCipherSuiteNameIndexed},
	{"ClientCertificateTypeIdentifier", dicttls.DictClientCertificateTypeIdentifierValueIndexed, dicttls.DictClientCertificateTypeIdentifierNameIndexed},
	{"CompMeth", dicttls.DictCompMethValueIndexed, dicttls.DictCompMethNameIndexed},
	{"ContentType", dicttls.DictContentTypeValueIndexed, dicttls.DictContentTypeNameIndexed},
	{"ECCurveType", dicttls.DictECCurveTypeValueIndexed, dicttls.DictECCurveTypeNameIndexed},
	{"ECPointFormat", dicttls.DictECPointFormatValueIndexed, dicttls.DictECPointFormatNameIndexed},
	{"ExtType", dicttls.DictExtTypeValueIndexed, dicttls.DictExtTypeNameIndexed},
	{"HandshakeType", dicttls.DictHandshakeTypeValueIndexed, dicttls.DictHandshakeTypeNameIndexed},
	{"HashAlgorithm", dicttls.DictHashAlgorithmValueIndexed, dicttls.DictHashAlgorithmNameIndexed},
	{"HeartbeatMessageType", dicttls.DictHeartbeatMessageTypeValueIndexed, dicttls.DictHeartbeatMessageTypeNameIndexed},
	{"HeartbeatMode", dicttls.DictHeartbeatModeValueIndexed, dicttls.DictHeartbeatModeNameIndexed},
	{"KDFIdentifier", dicttls.DictKDFIdentifierValueIndexed, dicttls.DictKDFIdentifierNameIndexed},
	{"KEMIdentifier", dicttls.DictKEMIdentifierValueIndexed, dicttls.DictKEMIdentifierNameIndexed},
	{"PSKKeyExchangeMode", dicttls.DictPSKKeyExchangeModeValueIndexed, dicttls.DictPSKKeyExchangeModeNameIndexed},
	{"QUICFrameType", dicttls.DictQUICFrameTypeValueIndexed, dicttls.DictQUICFrameTypeNameIndexed},
	{"QUICTransportErrorCode", dicttls.DictQUICTransportErrorCodeValueIndexed, dicttls.DictQUICTransportErrorCodeNameIndexed},
	{"QUICTransportParameter", dicttls.DictQUICTransportParameterValueIndexed, dicttls.DictQUICTransportParameterNameIndexed},
	{"SignatureAlgorithm", dicttls.DictSignatureAlgorithmValueIndexed, dicttls.DictSignatureAlgorithmNameIndexed},
	{"SignatureScheme", dicttls.DictSignatureSchemeValueIndexed, dicttls.DictSignatureSchemeNameIndexed},
	{"SupplementalDataFormat", dicttls.DictSupplementalDataFormatValueIndexed, dicttls.DictSupplementalDataFormatNameIndexed},
	{"SupportedGroups", dicttls.DictSupportedGroupsValueIndexed, dicttls.DictSupportedGroupsNameIndexed},
	{"UserMappingType", dicttls.DictUserMappingTypeValueIndexed, dicttls.DictUserMappingTypeNameIndexed},
}

// value of a map key/element as an 8-byte big-endian sequence (uniform for uint8..uint64 tables)
func num8(v reflect.Value) []int { return be8(v.Uint()) }

// dicts: {} -> one event per table pair {ev:"Dict", table, vi:[{v:[8], n:bytes}], ni:[{n:bytes, v:[8]}]}
func init() {
	hlib.Register("dicts", func(in []byte, out *hlib.Out) error {
		for _, p := range dictPairs {
			vi, ni := reflect.ValueOf(p.VI), reflect.ValueOf(p.NI)
			var a, b []map[string]any
			for _, k := range vi.MapKeys() {
				a = append(a, map[string]any{"v": num8(k), "n": hlib.Ints([]byte(vi.MapIndex(k).String()))})
			}
			for _, k := range ni.MapKeys() {
				b = append(b, map[string]any{"n": hlib.Ints([]byte(k.String())), "v": num8(ni.MapIndex(k))})
			}
			key := func(m map[string]any) string { return string(hlib.Unints(m["v"].([]int))) + "/" + string(hlib.Unints(m["n"].([]int))) }
			sort.Slice(a, func(i, j int) bool { return key(a[i]) < key(a[j]) })
			sort.Slice(b, func(i, j int) bool { return key(b[i]) < key(b[j]) })
			out.Emit(map[string]any{"ev": "Dict", "table": p.Name, "vi": a, "ni": b})
		}
		return nil
	})
}
