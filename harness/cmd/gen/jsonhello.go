package main

import (
	"encoding/json"
	"fmt"
	"sort"

	tls "github.com/refraction-networking/utls"
	"github.com/refraction-networking/utls/dicttls"
	"golang.org/x/crypto/cryptobyte"
	"verif/harness/hlib"
)

// ---- rendering a wire ClientHello in the JSON format of u_clienthello_json.go, names taken from the
// value-indexed dicttls tables (the property under test is that the name-indexed tables used by the importer
// map these names back to the same code points)

func isGrease(v uint16) bool { return v>>8 == v&0xff && v&0xf == 0xa }

func nameOf[K comparable](tab map[K]string, k K, what string) (string, error) {
	if n, ok := tab[k]; ok {
		return n, nil
	}
	return "", fmt.Errorf("no %s name for %v in the value-indexed table", what, k)
}

func u16names(b cryptobyte.String, tab map[uint16]string, what string, grease bool) ([]string, error) {
	var out []string
	for !b.Empty() {
		var v uint16
		if !b.ReadUint16(&v) {
			return nil, fmt.Errorf("odd %s list", what)
		}
		if grease && isGrease(v) {
			out = append(out, "GREASE")
			continue
		}
		n, err := nameOf(tab, v, what)
		if err != nil {
			return nil, err
		}
		out = append(out, n)
	}
	return out, nil
}

var versionNames = map[uint16]string{tls.VersionTLS13: "TLS 1.3", tls.VersionTLS12: "TLS 1.2", tls.VersionTLS11: "TLS 1.1", tls.VersionTLS10: "TLS 1.0"}
var tokenBindingParams = map[uint8]string{0: "rsa2048_pkcs1.5", 1: "rsa2048_pss", 2: "ecdsap256"}

func renderExt(typ uint16, body []byte) (map[string]any, error) {
	if isGrease(typ) {
		return map[string]any{"name": "GREASE"}, nil
	}
	name, err := nameOf(dicttls.DictExtTypeValueIndexed, typ, "extension")
	if err != nil {
		return nil, err
	}
	m := map[string]any{"name": name}
	s := cryptobyte.String(body)
	switch typ {
	case 10:
		var l cryptobyte.String
		if !s.ReadUint16LengthPrefixed(&l) {
			return nil, fmt.Errorf("supported_groups framing")
		}
		if m["named_group_list"], err = u16names(l, dicttls.DictSupportedGroupsValueIndexed, "group", true); err != nil {
			return nil, err
		}
	case 11:
		var l cryptobyte.String
		if !s.ReadUint8LengthPrefixed(&l) {
			return nil, fmt.Errorf("ec_point_formats framing")
		}
		names := []string{}
		for _, p := range l {
			n, err := nameOf(dicttls.DictECPointFormatValueIndexed, p, "point format")
			if err != nil {
				return nil, err
			}
			names = append(names, n)
		}
		m["ec_point_format_list"] = names
	case 13, 50, 34:
		var l cryptobyte.String
		if !s.ReadUint16LengthPrefixed(&l) {
			return nil, fmt.Errorf("signature_algorithms framing")
		}
		if m["supported_signature_algorithms"], err = u16names(l, dicttls.DictSignatureSchemeValueIndexed, "signature scheme", true); err != nil {
			return nil, err
		}
	case 16, 17513, 17613:
		var l cryptobyte.String
		if !s.ReadUint16LengthPrefixed(&l) {
			return nil, fmt.Errorf("protocol list framing")
		}
		names := []string{}
		for !l.Empty() {
			var p cryptobyte.String
			if !l.ReadUint8LengthPrefixed(&p) {
				return nil, fmt.Errorf("protocol name framing")
			}
			names = append(names, string(p))
		}
		if typ == 16 {
			m["protocol_name_list"] = names
		} else {
			m["supported_protocols"] = names
		}
	case 21:
		m["len"] = len(body)
	case 24:
		if len(body) < 3 {
			return nil, fmt.Errorf("token_binding framing")
		}
		m["token_binding_version"] = map[string]any{"major": body[0], "minor": body[1]}
		names := []string{}
		for _, p := range body[3:] {
			n, ok := tokenBindingParams[p]
			if !ok {
				return nil, fmt.Errorf("token binding parameter %d has no JSON name", p)
			}
			names = append(names, n)
		}
		m["key_parameters_list"] = names
	case 27:
		var l cryptobyte.String
		if !s.ReadUint8LengthPrefixed(&l) {
			return nil, fmt.Errorf("compress_certificate framing")
		}
		if m["algorithms"], err = u16names(l, dicttls.DictCertificateCompressionAlgorithmValueIndexed, "compression algorithm", false); err != nil {
			return nil, err
		}
	case 28:
		var v uint16
		if !s.ReadUint16(&v) {
			return nil, fmt.Errorf("record_size_limit framing")
		}
		m["record_size_limit"] = v
	case 43:
		var l cryptobyte.String
		if !s.ReadUint8LengthPrefixed(&l) {
			return nil, fmt.Errorf("supported_versions framing")
		}
		if m["versions"], err = u16names(l, versionNames, "version", true); err != nil {
			return nil, err
		}
	case 45:
		var l cryptobyte.String
		if !s.ReadUint8LengthPrefixed(&l) {
			return nil, fmt.Errorf("psk_key_exchange_modes framing")
		}
		names := []string{}
		for _, p := range l {
			n, err := nameOf(dicttls.DictPSKKeyExchangeModeValueIndexed, p, "psk mode")
			if err != nil {
				return nil, err
			}
			names = append(names, n)
		}
		m["ke_modes"] = names
	case 51:
		var l cryptobyte.String
		if !s.ReadUint16LengthPrefixed(&l) {
			return nil, fmt.Errorf("key_share framing")
		}
		shares := []map[string]any{}
		for !l.Empty() {
			var g uint16
			var d cryptobyte.String
			if !l.ReadUint16(&g) || !l.ReadUint16LengthPrefixed(&d) {
				return nil, fmt.Errorf("key_share entry framing")
			}
			if isGrease(g) {
				shares = append(shares, map[string]any{"group": "GREASE", "key_exchange": hlib.Ints(d)})
				continue
			}
			n, err := nameOf(dicttls.DictSupportedGroupsValueIndexed, g, "group")
			if err != nil {
				return nil, err
			}
			shares = append(shares, map[string]any{"group": n})
		}
		m["client_shares"] = shares
	}
	return m, nil
}

type parsedHello struct {
	suites []uint16
	comp   []byte
	exts   []struct {
		typ  uint16
		body []byte
	}
}

func parseHello(hs []byte) (*parsedHello, error) {
	s := cryptobyte.String(hs)
	var p parsedHello
	var sid, suites, comp, exts cryptobyte.String
	if !s.Skip(4+2+32) || !s.ReadUint8LengthPrefixed(&sid) || !s.ReadUint16LengthPrefixed(&suites) || !s.ReadUint8LengthPrefixed(&comp) {
		return nil, fmt.Errorf("hello framing")
	}
	for !suites.Empty() {
		var v uint16
		if !suites.ReadUint16(&v) {
			return nil, fmt.Errorf("suite framing")
		}
		p.suites = append(p.suites, v)
	}
	p.comp = comp
	if s.Empty() {
		return &p, nil
	}
	if !s.ReadUint16LengthPrefixed(&exts) {
		return nil, fmt.Errorf("extensions framing")
	}
	for !exts.Empty() {
		var t uint16
		var b cryptobyte.String
		if !exts.ReadUint16(&t) || !exts.ReadUint16LengthPrefixed(&b) {
			return nil, fmt.Errorf("extension framing")
		}
		p.exts = append(p.exts, struct {
			typ  uint16
			body []byte
		}{t, b})
	}
	return &p, nil
}

func renderJSON(hs []byte) ([]byte, error) {
	p, err := parseHello(hs)
	if err != nil {
		return nil, err
	}
	doc := map[string]any{}
	var suites []string
	for _, v := range p.suites {
		if isGrease(v) {
			suites = append(suites, "GREASE")
			continue
		}
		n, err := nameOf(dicttls.DictCipherSuiteValueIndexed, v, "cipher suite")
		if err != nil {
			return nil, err
		}
		suites = append(suites, n)
	}
	doc["cipher_suites"] = suites
	comps := []string{}
	for _, c := range p.comp {
		n, err := nameOf(dicttls.DictCompMethValueIndexed, c, "compression method")
		if err != nil {
			return nil, err
		}
		comps = append(comps, n)
	}
	doc["compression_methods"] = comps
	exts := []any{}
	for _, e := range p.exts {
		m, err := renderExt(e.typ, e.body)
		if err != nil {
			return nil, err
		}
		exts = append(exts, m)
	}
	doc["extensions"] = exts
	return json.Marshal(doc)
}

// jsonPair puts the ClientHello orig through the raw-bytes import and through its JSON description and records both
// resulting wire hellos (a, b) or the errors.
func jsonPair(ev map[string]any, orig []byte, sni string) {
	rawSpec, err := (&tls.Fingerprinter{}).FingerprintClientHello(helloRecord(orig))
	if err != nil {
		ev["rawerr"] = err.Error()
	} else if a, es := sendSpec(rawSpec, sni); es != "" {
		ev["rawerr"] = es
	} else {
		ev["a"] = hlib.Ints(a)
	}
	doc, err := renderJSON(orig)
	if err != nil {
		ev["renderr"] = err.Error()
		return
	}
	ev["json"] = hlib.Ints(doc)
	jsonSpec, err := (&tls.Fingerprinter{}).UnmarshalJSONClientHello(doc)
	if err != nil {
		ev["jsonerr"] = err.Error()
		return
	}
	if b, es := sendSpec(jsonSpec, sni); es != "" {
		ev["jsonerr"] = es
	} else {
		ev["b"] = hlib.Ints(b)
	}
}

// sendSpec sends a hello built from spec with HelloCustom + ApplyPreset.
func sendSpec(spec *tls.ClientHelloSpec, sni string) (hello []byte, errs string) {
	var aerr error
	_, h, herr, pn := wireHello(func(cn *hlib.BufConn) *tls.UConn {
		u := tls.UClient(cn, &tls.Config{ServerName: sni, OmitEmptyPsk: true}, tls.HelloCustom)
		if aerr = u.ApplyPreset(spec); aerr != nil {
			return nil
		}
		return u
	})
	if pn != "" {
		return nil, "panic: " + pn
	}
	if aerr != nil {
		return nil, "ApplyPreset: " + aerr.Error()
	}
	if h == nil {
		return nil, "nothing sent: " + hlib.ErrStr(herr)
	}
	return h, ""
}

// jsonhellos: {"ids":[...], "n": k, "sni": s} -> per (id, k):
//   {ev:"JsonHello", id, orig (wire hello of the parrot), types (its extension types), json (the rendering, bytes),
//    renderr, jsonerr, rawerr, a (hello sent from the raw-bytes import of orig), b (hello sent from the JSON import)}
func init() {
	hlib.Register("jsonhellos", func(in []byte, out *hlib.Out) error {
		var req struct {
			IDs     []string
			N       int
			SNI     string
			Padlens []int // besides the hello as sent: the same hello with its padding extension set to each of these lengths
		}
		if err := json.Unmarshal(in, &req); err != nil {
			return err
		}
		if req.SNI == "" {
			req.SNI = "example.com"
		}
		type job struct {
			id  string
			k   int
			pad int // 0 = hello as the parrot sent it
		}
		var jobs []job
		for _, id := range req.IDs {
			for k := 0; k < req.N; k++ {
				jobs = append(jobs, job{id, k, 0})
			}
			for _, p := range req.Padlens {
				jobs = append(jobs, job{id, 0, p})
			}
		}
		res := make([]map[string]any, len(jobs))
		hlib.Parallel(len(jobs), func(i int) {
			j := jobs[i]
			ev := map[string]any{"ev": "JsonHello", "id": j.id, "k": j.k, "orig": []int{}, "types": []int{}, "json": []int{}, "renderr": "", "jsonerr": "", "rawerr": "",
				"a": []int{}, "b": []int{}, "sni": hlib.Ints([]byte(req.SNI)), "padlen": j.pad}
			res[i] = ev
			defer func() {
				if p := recover(); p != nil {
					ev["rawerr"] = fmt.Sprint("panic: ", p)
				}
			}()
			id, err := hlib.LookupID(j.id)
			if err != nil {
				ev["rawerr"] = err.Error()
				return
			}
			orig := mustHello(req.SNI, id)
			if orig == nil {
				ev["rawerr"] = "parrot sent no hello"
				return
			}
			if j.pad > 0 {
				// the ClientHello to be described carries a padding extension of exactly j.pad bytes
				if orig, err = withPadding(orig, j.pad); err != nil {
					ev["rawerr"] = "withPadding: " + err.Error()
					return
				}
			}
			ev["orig"] = hlib.Ints(orig)
			if p, err := parseHello(orig); err == nil {
				ts := []int{}
				for _, e := range p.exts {
					ts = append(ts, int(e.typ))
				}
				ev["types"] = ts
			}
			jsonPair(ev, orig, req.SNI)
		})
		for _, e := range res {
			out.Emit(e)
		}
		return nil
	})
}

// withExt returns the ClientHello hs with one more extension (typ, body) appended after its last extension.
func withExt(hs []byte, typ uint16, body []byte) ([]byte, error) {
	p, err := parseHello(hs)
	if err != nil {
		return nil, err
	}
	s := cryptobyte.String(hs)
	var sid, suites, comp cryptobyte.String
	if !s.Skip(4+2+32) || !s.ReadUint8LengthPrefixed(&sid) || !s.ReadUint16LengthPrefixed(&suites) || !s.ReadUint8LengthPrefixed(&comp) {
		return nil, fmt.Errorf("hello framing")
	}
	fixed := hs[4 : len(hs)-len(s)]
	var b cryptobyte.Builder
	b.AddUint8(1)
	b.AddUint24LengthPrefixed(func(b *cryptobyte.Builder) {
		b.AddBytes(fixed)
		b.AddUint16LengthPrefixed(func(b *cryptobyte.Builder) {
			for _, e := range p.exts {
				b.AddUint16(e.typ)
				b.AddUint16LengthPrefixed(func(b *cryptobyte.Builder) { b.AddBytes(e.body) })
			}
			b.AddUint16(typ)
			b.AddUint16LengthPrefixed(func(b *cryptobyte.Builder) { b.AddBytes(body) })
		})
	})
	return b.Bytes()
}

// bodies for JSON-importable extensions that no bundled parrot sends (inputs, well-formed per their RFCs)
var sampleBodies = map[uint16][]byte{
	50: {0, 4, 4, 1, 8, 4},             // signature_algorithms_cert: rsa_pkcs1_sha256, rsa_pss_rsae_sha256
	17: {0, 7, 2, 0, 4, 0, 0, 0, 0},    // status_request_v2: ocsp_multi, empty responder list and extensions
	24: {1, 0, 2, 1, 2},                // token_binding 1.0: rsa2048_pss, ecdsap256
}

// jsonexts: {"sni": s, "bases": [ids]} -> one JSON document per extension name the JSON importer knows.
// The names are those of dicttls.DictExtTypeNameIndexed for which ExtensionFromID yields an extension with an
// UnmarshalJSON method (pre_shared_key is left out: it needs a session). For each name a ClientHello carrying that
// extension is taken: a parrot hello that has it and that the JSON format can describe, else the first base hello
// that can be described with the extension (body as some parrot sends it) appended. Events as jsonhellos, id "ext:<name>";
// {ev:"JsonExtSkipped", name, why} when no hello with that extension can be put through the raw import.
func init() {
	hlib.Register("jsonexts", func(in []byte, out *hlib.Out) error {
		var req struct {
			SNI   string
			Bases []string
		}
		if err := json.Unmarshal(in, &req); err != nil {
			return err
		}
		if req.SNI == "" {
			req.SNI = "example.com"
		}
		// harvest: one hello per parrot; bodies by extension type
		type src struct {
			hello []byte
			body  []byte
		}
		have := map[uint16][]src{}
		hellos := map[string][]byte{}
		for _, id := range hlib.ParrotIDs {
			h := mustHello(req.SNI, id)
			if h == nil {
				continue
			}
			hellos[id.Str()] = h
			if p, err := parseHello(h); err == nil {
				for _, e := range p.exts {
					have[e.typ] = append(have[e.typ], src{h, e.body})
				}
			}
		}
		var bases [][]byte
		for _, b := range req.Bases {
			if h := hellos[b]; h != nil {
				if _, err := renderJSON(h); err == nil {
					bases = append(bases, h)
				}
			}
		}
		names := []string{}
		for n := range dicttls.DictExtTypeNameIndexed {
			names = append(names, n)
		}
		sort.Strings(names)
		for _, name := range names {
			typ := dicttls.DictExtTypeNameIndexed[name]
			ext := tls.ExtensionFromID(typ)
			if ext == nil || typ == 41 {
				continue
			}
			if _, ok := ext.(tls.TLSExtensionJSON); !ok {
				continue
			}
			if len(have[typ]) == 0 {
				if b, ok := sampleBodies[typ]; ok { // no parrot sends it: a minimal well-formed body
					have[typ] = []src{{nil, b}}
				}
			}
			var doc []byte
			why := "no parrot sends this extension"
			for _, s := range have[typ] { // a parrot hello that has it and can be described
				if s.hello == nil {
					continue
				}
				if _, err := renderJSON(s.hello); err == nil {
					doc = s.hello
					break
				}
			}
			if doc == nil && len(have[typ]) > 0 {
				why = "no describable hello could carry it"
				for _, b := range bases {
					if p, err := parseHello(b); err == nil {
						dup := false
						for _, e := range p.exts {
							dup = dup || e.typ == typ
						}
						if dup {
							continue
						}
						if h, err := withExt(b, typ, have[typ][0].body); err == nil {
							if _, err := renderJSON(h); err == nil {
								doc = h
								break
							}
						}
					}
				}
			}
			if doc == nil {
				out.Emit(map[string]any{"ev": "JsonExtSkipped", "name": name, "type": int(typ), "why": why})
				continue
			}
			ev := map[string]any{"ev": "JsonHello", "id": "ext:" + name, "k": 0, "orig": hlib.Ints(doc), "types": []int{}, "json": []int{}, "renderr": "", "jsonerr": "", "rawerr": "",
				"a": []int{}, "b": []int{}, "sni": hlib.Ints([]byte(req.SNI)), "padlen": 0, "exttype": int(typ)}
			func() {
				defer func() {
					if p := recover(); p != nil {
						ev["rawerr"] = fmt.Sprint("panic: ", p)
					}
				}()
				jsonPair(ev, doc, req.SNI)
			}()
			if ev["rawerr"] != "" && ev["jsonerr"] != "" {
				// neither import accepts this hello: it is no basis for a comparison
				out.Emit(map[string]any{"ev": "JsonExtSkipped", "name": name, "type": int(typ), "why": "raw import: " + fmt.Sprint(ev["rawerr"])})
				continue
			}
			out.Emit(ev)
		}
		return nil
	})
}

// rebuildHello returns hs with its cipher suites / compression methods replaced (when non-nil) and the bodies of the
// extensions named in repl replaced.
func rebuildHello(hs []byte, suites []uint16, comp []byte, repl map[uint16][]byte) ([]byte, error) {
	p, err := parseHello(hs)
	if err != nil {
		return nil, err
	}
	s := cryptobyte.String(hs)
	var sid cryptobyte.String
	if !s.Skip(4+2+32) || !s.ReadUint8LengthPrefixed(&sid) {
		return nil, fmt.Errorf("hello framing")
	}
	if suites == nil {
		suites = p.suites
	}
	if comp == nil {
		comp = p.comp
	}
	var b cryptobyte.Builder
	b.AddUint8(1)
	b.AddUint24LengthPrefixed(func(b *cryptobyte.Builder) {
		b.AddBytes(hs[4 : 4+2+32])
		b.AddUint8LengthPrefixed(func(b *cryptobyte.Builder) { b.AddBytes(sid) })
		b.AddUint16LengthPrefixed(func(b *cryptobyte.Builder) {
			for _, v := range suites {
				b.AddUint16(v)
			}
		})
		b.AddUint8LengthPrefixed(func(b *cryptobyte.Builder) { b.AddBytes(comp) })
		b.AddUint16LengthPrefixed(func(b *cryptobyte.Builder) {
			for _, e := range p.exts {
				body := e.body
				if r, ok := repl[e.typ]; ok {
					body = r
				}
				b.AddUint16(e.typ)
				b.AddUint16LengthPrefixed(func(b *cryptobyte.Builder) { b.AddBytes(body) })
			}
		})
	})
	return b.Bytes()
}

func sortedKeys[K uint8 | uint16](m map[K]string) []K {
	var ks []K
	for k := range m {
		ks = append(ks, k)
	}
	sort.Slice(ks, func(i, j int) bool { return ks[i] < ks[j] })
	return ks
}

func u16Body(vals []uint16, prefix int) []byte {
	var b cryptobyte.Builder
	f := func(b *cryptobyte.Builder) {
		for _, v := range vals {
			b.AddUint16(v)
		}
	}
	if prefix == 1 {
		b.AddUint8LengthPrefixed(f)
	} else {
		b.AddUint16LengthPrefixed(f)
	}
	r, _ := b.Bytes()
	return r
}

func u8Body(vals []uint8) []byte { return append([]byte{byte(len(vals))}, vals...) }

// jsonlists: {"sni": s, "bases": [ids]} -> JSON documents whose list-valued members contain EVERY value of the dictionary
// they are named from (including code point 0): ke_modes, ec_point_format_list, compress_certificate algorithms,
// named_group_list, supported_signature_algorithms, compression_methods, cipher_suites (in chunks). Each is the first
// describable base hello that carries the extension, with that list replaced. Events as jsonhellos, id "list:<member>".
func init() {
	hlib.Register("jsonlists", func(in []byte, out *hlib.Out) error {
		var req struct {
			SNI   string
			Bases []string
		}
		if err := json.Unmarshal(in, &req); err != nil {
			return err
		}
		if req.SNI == "" {
			req.SNI = "example.com"
		}
		var bases [][]byte
		for _, n := range req.Bases {
			id, err := hlib.LookupID(n)
			if err != nil {
				return err
			}
			if h := mustHello(req.SNI, id); h != nil {
				if _, err := renderJSON(h); err == nil {
					bases = append(bases, h)
				}
			}
		}
		type doc struct {
			name   string
			typ    int // extension type, -1 suites, -2 compression
			body   []byte
			suites []uint16
			comp   []byte
		}
		var docs []doc
		docs = append(docs, doc{name: "ke_modes", typ: 45, body: u8Body(sortedKeys(dicttls.DictPSKKeyExchangeModeValueIndexed))})
		docs = append(docs, doc{name: "ec_point_format_list", typ: 11, body: u8Body(sortedKeys(dicttls.DictECPointFormatValueIndexed))})
		docs = append(docs, doc{name: "compress_certificate", typ: 27, body: u16Body(sortedKeys(dicttls.DictCertificateCompressionAlgorithmValueIndexed), 1)})
		docs = append(docs, doc{name: "named_group_list", typ: 10, body: u16Body(sortedKeys(dicttls.DictSupportedGroupsValueIndexed), 2)})
		docs = append(docs, doc{name: "supported_signature_algorithms", typ: 13, body: u16Body(sortedKeys(dicttls.DictSignatureSchemeValueIndexed), 2)})
		docs = append(docs, doc{name: "compression_methods", typ: -2, comp: sortedKeys(dicttls.DictCompMethValueIndexed)})
		all := sortedKeys(dicttls.DictCipherSuiteValueIndexed)
		for i := 0; i < len(all); i += 120 {
			j := i + 120
			if j > len(all) {
				j = len(all)
			}
			docs = append(docs, doc{name: fmt.Sprintf("cipher_suites[%d:%d]", i, j), typ: -1, suites: all[i:j]})
		}
		for _, d := range docs {
			var hello []byte
			cands := bases
			if d.typ == -2 { // compression methods other than null are only kept by hellos without TLS 1.3: last bases first
				cands = nil
				for i := len(bases) - 1; i >= 0; i-- {
					cands = append(cands, bases[i])
				}
			}
			for _, b := range cands {
				p, err := parseHello(b)
				if err != nil {
					continue
				}
				has := d.typ < 0
				for _, e := range p.exts {
					has = has || int(e.typ) == d.typ
				}
				if !has {
					continue
				}
				repl := map[uint16][]byte{}
				if d.typ >= 0 {
					repl[uint16(d.typ)] = d.body
				}
				if h, err := rebuildHello(b, d.suites, d.comp, repl); err == nil {
					hello = h
					break
				}
			}
			if hello == nil {
				out.Emit(map[string]any{"ev": "JsonExtSkipped", "name": "list:" + d.name, "type": d.typ, "why": "no base hello carries this member"})
				continue
			}
			ev := map[string]any{"ev": "JsonHello", "id": "list:" + d.name, "k": 0, "orig": hlib.Ints(hello), "types": []int{}, "json": []int{}, "renderr": "", "jsonerr": "", "rawerr": "",
				"a": []int{}, "b": []int{}, "sni": hlib.Ints([]byte(req.SNI)), "padlen": 0}
			func() {
				defer func() {
					if p := recover(); p != nil {
						ev["rawerr"] = fmt.Sprint("panic: ", p)
					}
				}()
				jsonPair(ev, hello, req.SNI)
			}()
			out.Emit(ev)
		}
		return nil
	})
}

// withPadding returns the ClientHello hs with its padding extension (type 21) set to n zero bytes; a hello without one
// gets it appended as the last extension. Only lengths are recomputed.
func withPadding(hs []byte, n int) ([]byte, error) {
	p, err := parseHello(hs)
	if err != nil {
		return nil, err
	}
	s := cryptobyte.String(hs)
	var sid, suites, comp cryptobyte.String
	if !s.Skip(4+2+32) || !s.ReadUint8LengthPrefixed(&sid) || !s.ReadUint16LengthPrefixed(&suites) || !s.ReadUint8LengthPrefixed(&comp) {
		return nil, fmt.Errorf("hello framing")
	}
	fixed := hs[4 : len(hs)-len(s)]
	var b cryptobyte.Builder
	b.AddUint8(1)
	b.AddUint24LengthPrefixed(func(b *cryptobyte.Builder) {
		b.AddBytes(fixed)
		b.AddUint16LengthPrefixed(func(b *cryptobyte.Builder) {
			done := false
			for _, e := range p.exts {
				body := e.body
				if e.typ == 21 {
					body = make([]byte, n)
					done = true
				}
				b.AddUint16(e.typ)
				b.AddUint16LengthPrefixed(func(b *cryptobyte.Builder) { b.AddBytes(body) })
			}
			if !done {
				b.AddUint16(21)
				b.AddUint16LengthPrefixed(func(b *cryptobyte.Builder) { b.AddBytes(make([]byte, n)) })
			}
		})
	})
	return b.Bytes()
}
