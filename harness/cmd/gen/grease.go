package main

import (
	"crypto/rand"
	"encoding/json"
	"fmt"
	"io"
	"reflect"

	tls "github.com/refraction-networking/utls"
	"verif/harness/hlib"
)

// ---------------------------------------------------------------- C04: GetBoringGREASEValue, exhaustive
// boring: {} -> one event per seed index: {ev:"Boring", idx, vals[65536]} where vals[v] is the result for seed[idx]=v.
func init() {
	hlib.Register("boring", func(in []byte, out *hlib.Out) error {
		seedT := reflect.TypeOf(tls.GetBoringGREASEValue).In(0)
		n := seedT.Len()
		for idx := 0; idx < n; idx++ {
			vals := make([]int, 65536)
			for v := 0; v < 65536; v++ {
				seed := reflect.New(seedT).Elem()
				seed.Index(idx).SetUint(uint64(v))
				r := reflect.ValueOf(tls.GetBoringGREASEValue).Call([]reflect.Value{seed, reflect.ValueOf(idx)})
				vals[v] = int(r[0].Uint())
			}
			out.Emit(map[string]any{"ev": "Boring", "idx": idx, "nidx": n, "vals": vals})
		}
		return nil
	})
}

// ---------------------------------------------------------------- C04: QUIC GREASE generators
type tpCase struct {
	Kinds []string `json:"kinds"` // "grease", "greasebadid", "vi", "vilegacy", "maxidle", "quicbit"
	Avail []string `json:"avail"` // for vi: "grease" | "v1" | "v2"
}

func buildTPs(c tpCase, k int) tls.TransportParameters {
	var tps tls.TransportParameters
	for i, kind := range c.Kinds {
		switch kind {
		case "grease":
			tps = append(tps, &tls.GREASETransportParameter{Length: uint16((k + i) % 19)})
		case "greasebadid":
			tps = append(tps, &tls.GREASETransportParameter{IdOverride: uint64(28 + k%3), Length: 1})
		case "vi", "vilegacy":
			vi := &tls.VersionInformation{ChoosenVersion: tls.VERSION_1, LegacyID: kind == "vilegacy"}
			for _, a := range c.Avail {
				switch a {
				case "grease":
					vi.AvailableVersions = append(vi.AvailableVersions, tls.VERSION_GREASE)
				case "v2":
					vi.AvailableVersions = append(vi.AvailableVersions, tls.VERSION_2)
				default:
					vi.AvailableVersions = append(vi.AvailableVersions, tls.VERSION_1)
				}
			}
			tps = append(tps, vi)
		case "maxidle":
			tps = append(tps, tls.MaxIdleTimeout(30000+k))
		case "quicbit":
			tps = append(tps, &tls.GREASEQUICBit{})
		}
	}
	return tps
}

// quicgrease: {n, cases:[tpCase], per} ->
//   {ev:"TPIds", ids:[[8]..]}   n draws of GREASETransportParameter.GetGREASEID and n of (&GREASETransportParameter{}).ID()
//   {ev:"QVers", vs:[[4]..]}    n draws of VersionInformation.GetGREASEVersion
//   {ev:"TPBody", kinds, avail, body}  marshaled transport parameter lists, `per` per case
func init() {
	hlib.Register("quicgrease", func(in []byte, out *hlib.Out) error {
		var req struct {
			N     int
			Cases []tpCase
			Per   int
		}
		if err := json.Unmarshal(in, &req); err != nil {
			return err
		}
		ids := make([]any, 0, 2*req.N)
		for i := 0; i < req.N; i++ {
			ids = append(ids, be8(tls.GREASETransportParameter{}.GetGREASEID()))
		}
		for i := 0; i < req.N; i++ {
			ids = append(ids, be8((&tls.GREASETransportParameter{}).ID()))
		}
		out.Emit(map[string]any{"ev": "TPIds", "ids": ids})
		vs := make([]any, 0, req.N)
		for i := 0; i < req.N; i++ {
			vs = append(vs, be4((&tls.VersionInformation{}).GetGREASEVersion()))
		}
		out.Emit(map[string]any{"ev": "QVers", "vs": vs})
		for _, c := range req.Cases {
			for k := 0; k < req.Per; k++ {
				body := buildTPs(c, k).Marshal()
				av := []any{}
				for _, a := range c.Avail {
					av = append(av, hlib.Ints([]byte(a)))
				}
				kinds := []string{}
				kinds = append(kinds, c.Kinds...)
				out.Emit(map[string]any{"ev": "TPBody", "kinds": kinds, "avail": c.Avail, "body": hlib.Ints(body)})
				_ = av
			}
		}
		return nil
	})
}

func u64of(b []int) uint64 {
	var u uint64
	for _, x := range b {
		u = u<<8 | uint64(byte(x))
	}
	return u
}

// tpids: {"pred":[[8]..], "override":[[8]..]} ->
//   {ev:"TPIsGrease", ids, res}       res[i] = GREASETransportParameter{}.IsGREASEID(ids[i])
//   {ev:"TPOverride", ins, ids, bodies} for every IdOverride ins[i]: ids[i] = (&GREASETransportParameter{IdOverride}).ID(),
//                                       bodies[i] = TransportParameters{that parameter}.Marshal() (a fresh parameter)
func init() {
	hlib.Register("tpids", func(in []byte, out *hlib.Out) error {
		var req struct {
			Pred     [][]int
			Override [][]int
		}
		if err := json.Unmarshal(in, &req); err != nil {
			return err
		}
		res := make([]bool, len(req.Pred))
		for i, b := range req.Pred {
			res[i] = tls.GREASETransportParameter{}.IsGREASEID(u64of(b))
		}
		out.Emit(map[string]any{"ev": "TPIsGrease", "ids": req.Pred, "res": res})
		ids, bodies := []any{}, []any{}
		for _, b := range req.Override {
			ids = append(ids, be8((&tls.GREASETransportParameter{IdOverride: u64of(b), Length: 2}).ID()))
			bodies = append(bodies, hlib.Ints(tls.TransportParameters{&tls.GREASETransportParameter{IdOverride: u64of(b), Length: 2}}.Marshal()))
		}
		out.Emit(map[string]any{"ev": "TPOverride", "ins": req.Override, "ids": ids, "bodies": bodies})
		return nil
	})
}

// ---------------------------------------------------------------- C04: GREASE in ClientHellos
// constReader answers every read of exactly K bytes with the constant byte B and every other read with
// real randomness (K = size of the GREASE seed read: forces equal seeds, i.e. the collision branch of ApplyPreset).
type constReader struct {
	B byte
	K int
}

func (r *constReader) Read(p []byte) (int, error) {
	if len(p) == r.K {
		for i := range p {
			p[i] = r.B
		}
		return len(p), nil
	}
	return io.ReadFull(rand.Reader, p)
}

// Config.Rand variants (all backed by crypto/rand): a reader may legally return fewer bytes than asked for.
type fullReader struct{}

func (fullReader) Read(p []byte) (int, error) { return io.ReadFull(rand.Reader, p) }

type oneByteReader struct{}

func (oneByteReader) Read(p []byte) (int, error) {
	if len(p) == 0 {
		return 0, nil
	}
	return io.ReadFull(rand.Reader, p[:1])
}

type chunkReader struct{}

func (chunkReader) Read(p []byte) (int, error) {
	if len(p) == 0 {
		return 0, nil
	}
	var b [1]byte
	if _, err := io.ReadFull(rand.Reader, b[:]); err != nil {
		return 0, err
	}
	n := 1 + int(b[0])%7
	if n > len(p) {
		n = len(p)
	}
	return io.ReadFull(rand.Reader, p[:n])
}

func randVariant(name string) io.Reader {
	switch name {
	case "full":
		return fullReader{}
	case "onebyte":
		return oneByteReader{}
	case "chunks":
		return chunkReader{}
	}
	return nil
}

// pairReader answers every read of exactly K bytes (the GREASE seed read) with random bytes in which the low bytes of
// the two 16-bit little-endian seeds I1 and I2 select the nibbles N1 and N2: run over all 256 (N1, N2) it makes the
// enumeration of the two GREASE extension values exhaustive instead of sampled. Other reads are plain randomness.
type pairReader struct {
	K, I1, I2 int
	N1, N2    byte
}

func (r *pairReader) Read(p []byte) (int, error) {
	if _, err := io.ReadFull(rand.Reader, p); err != nil {
		return 0, err
	}
	if len(p) == r.K && 2*r.I1 < len(p) && 2*r.I2 < len(p) {
		p[2*r.I1] = r.N1<<4 | p[2*r.I1]&0x0f
		p[2*r.I2] = r.N2<<4 | p[2*r.I2]&0x0f
	}
	return len(p), nil
}

type gCase struct {
	ID   string `json:"id"`
	// parrot | fingerprint | constrand: every connection gets its own spec (selected by ID / imported afresh);
	// reuse-id | reuse-fp | reuse-custom: ONE ClientHelloSpec object (from UTLSIdToSpec / from FingerprintClientHello of a
	// captured hello / UTLSIdToSpec with every GREASE placeholder replaced by another 0x?A?A value) is applied with
	// HelloCustom+ApplyPreset to n successive connections (ApplyPreset writes into the spec's extension objects);
	// twice | twice-custom: ApplyPreset is called twice with the same spec object on one UConn before the handshake.
	Mode string `json:"mode"`
	N    int    `json:"n"`
	K    int    `json:"k"` // constrand: reads of exactly k bytes are constant; connection j uses byte value (b0 + j)
	B0   int    `json:"b0"`
	SNI  string `json:"sni"`
	// custom-ks | fp-ks | json-ks | reuse-custom-ks: the parrot's spec with its GREASE key share given a body of ksbody
	// bytes (and, with shape, the GREASE entries of cipher_suites / supported_groups / supported_versions moved to the end
	// of their lists and a second GREASE group added) - used directly (a fresh spec per connection, or one object for all),
	// or captured on the wire and imported back through FingerprintClientHello / through its JSON description.
	I1     int  `json:"i1"` // pairrand: seed indices of the two GREASE extensions; connection j uses nibbles (j/16, j%16)
	I2     int  `json:"i2"`
	KSBody int  `json:"ksbody"`
	Shape  bool `json:"shape"`
	Rand string `json:"rand"` // Config.Rand of every connection: "" (library default) | full | onebyte | chunks
}

// ghellos: {"cases":[gCase]} -> per case {ev:"Group", grp, id, mode, spec} then n x {ev:"Hello", g (index of the
// Group event, 1-based), raw, seed, err} then {ev:"EndGroup"}.
func init() {
	hlib.Register("ghellos", func(in []byte, out *hlib.Out) error {
		var req struct{ Cases []gCase }
		if err := json.Unmarshal(in, &req); err != nil {
			return err
		}
		line := 0
		for _, c := range req.Cases {
			id, err := hlib.LookupID(c.ID)
			if err != nil {
				return err
			}
			if c.SNI == "" {
				c.SNI = "example.com"
			}
			var spec tls.ClientHelloSpec
			var fpErr string
			switch c.Mode {
			case "custom-ks", "fp-ks", "json-ks", "reuse-custom-ks":
				sp, err := shapedSpec(id, c)
				if err != nil {
					fpErr = err.Error()
					break
				}
				spec = *sp
			case "fingerprint", "reuse-fp":
				// capture one real hello of the parrot, import it with the fingerprinter, send it as HelloCustom
				_, h0, _, _ := wireHello(func(cn *hlib.BufConn) *tls.UConn {
					return tls.UClient(cn, &tls.Config{ServerName: c.SNI, OmitEmptyPsk: true}, id)
				})
				if h0 == nil {
					fpErr = "no hello captured"
					break
				}
				sp, err := (&tls.Fingerprinter{AllowBluntMimicry: true}).FingerprintClientHello(helloRecord(h0))
				if err != nil {
					fpErr = err.Error()
					break
				}
				spec = *sp
			default:
				spec, err = tls.UTLSIdToSpec(id)
				if err != nil {
					return err
				}
				if c.Mode == "reuse-custom" {
					deplaceholder(&spec)
				}
			}
			line++
			g := line
			grp := fmt.Sprintf("%s/%s", c.ID, c.Mode)
			if c.KSBody > 0 {
				grp += fmt.Sprintf("/ksbody=%d", c.KSBody)
			}
			if c.Shape {
				grp += "/shaped"
			}
			if c.Rand != "" {
				grp += "/rand=" + c.Rand
			}
			out.Emit(map[string]any{"ev": "Group", "grp": grp, "id": c.ID, "mode": c.Mode, "rand": c.Rand,
				"spec": descSpec(&spec), "fperr": fpErr})
			if fpErr != "" {
				line++
				out.Emit(map[string]any{"ev": "EndGroup", "g": g})
				continue
			}
			res := make([]map[string]any, c.N)
			shared := c.Mode == "reuse-id" || c.Mode == "reuse-fp" || c.Mode == "reuse-custom" || c.Mode == "reuse-custom-ks"
			run := hlib.Parallel
			if shared { // the connections share mutable extension objects: strictly one after the other
				run = func(n int, fn func(int)) {
					for j := 0; j < n; j++ {
						fn(j)
					}
				}
			}
			run(c.N, func(j int) {
				cfg := &tls.Config{ServerName: c.SNI, OmitEmptyPsk: true}
				if c.Mode == "constrand" {
					cfg.Rand = &constReader{B: byte(c.B0 + j), K: c.K}
				} else if c.Mode == "pairrand" {
					cfg.Rand = &pairReader{K: c.K, I1: c.I1, I2: c.I2, N1: byte(j/16) & 15, N2: byte(j % 16)}
				} else if r := randVariant(c.Rand); r != nil {
					cfg.Rand = r
				}
				u, hello, herr, pn := wireHello(func(cn *hlib.BufConn) *tls.UConn {
					if shared {
						u := tls.UClient(cn, cfg, tls.HelloCustom)
						if err := u.ApplyPreset(&spec); err != nil {
							return nil
						}
						return u
					}
					if c.Mode == "custom-ks" || c.Mode == "fp-ks" || c.Mode == "json-ks" {
						sp, err := shapedSpec(id, c)
						if err != nil {
							return nil
						}
						u := tls.UClient(cn, cfg, tls.HelloCustom)
						if err := u.ApplyPreset(sp); err != nil {
							return nil
						}
						return u
					}
					if c.Mode == "twice" || c.Mode == "twice-custom" {
						sp, err := tls.UTLSIdToSpec(id)
						if err != nil {
							return nil
						}
						if c.Mode == "twice-custom" {
							deplaceholder(&sp)
						}
						u := tls.UClient(cn, cfg, tls.HelloCustom)
						if err := u.ApplyPreset(&sp); err != nil {
							return nil
						}
						if err := u.ApplyPreset(&sp); err != nil {
							return nil
						}
						return u
					}
					if c.Mode == "fingerprint" {
						sp, err := (&tls.Fingerprinter{AllowBluntMimicry: true}).FingerprintClientHello(helloRecord(mustHello(c.SNI, id)))
						if err != nil {
							return nil
						}
						u := tls.UClient(cn, cfg, tls.HelloCustom)
						if err := u.ApplyPreset(sp); err != nil {
							return nil
						}
						return u
					}
					return tls.UClient(cn, cfg, id)
				})
				ev := map[string]any{"ev": "Hello", "g": g, "raw": hlib.Ints(hello), "sent": hello != nil,
					"err": hlib.ErrStr(herr), "panic": pn, "seed": []int{}}
				if u != nil {
					ev["seed"] = hlib.U16s(tls.VerifGreaseSeed(u))
				}
				res[j] = ev
			})
			for _, e := range res {
				line++
				out.Emit(e)
			}
			line++
			out.Emit(map[string]any{"ev": "EndGroup", "g": g})
		}
		return nil
	})
}

func mustHello(sni string, id tls.ClientHelloID) []byte {
	_, h, _, _ := wireHello(func(cn *hlib.BufConn) *tls.UConn {
		return tls.UClient(cn, &tls.Config{ServerName: sni, OmitEmptyPsk: true}, id)
	})
	return h
}

// deplaceholder replaces every GREASE placeholder of a spec by another value of the reserved space (a caller may
// write any 0x?A?A value; ApplyPreset documents "just in case the user set a GREASE value instead of unGREASEd").
func deplaceholder(spec *tls.ClientHelloSpec) {
	alt := []uint16{0x1a1a, 0x2a2a, 0x3a3a, 0x4a4a, 0x5a5a}
	for i, v := range spec.CipherSuites {
		if isGrease(v) {
			spec.CipherSuites[i] = alt[0]
		}
	}
	for _, e := range spec.Extensions {
		switch x := e.(type) {
		case *tls.SupportedCurvesExtension:
			for i, v := range x.Curves {
				if isGrease(uint16(v)) {
					x.Curves[i] = tls.CurveID(alt[1])
				}
			}
		case *tls.KeyShareExtension:
			for i := range x.KeyShares {
				if isGrease(uint16(x.KeyShares[i].Group)) {
					x.KeyShares[i].Group = tls.CurveID(alt[2])
				}
			}
		case *tls.SupportedVersionsExtension:
			for i, v := range x.Versions {
				if isGrease(v) {
					x.Versions[i] = alt[3]
				}
			}
		case *tls.UtlsGREASEExtension:
			x.Value = alt[4]
		}
	}
}

// shapedSpec builds a fresh spec for the *-ks modes (see gCase).
func shapedSpec(id tls.ClientHelloID, c gCase) (*tls.ClientHelloSpec, error) {
	spec, err := tls.UTLSIdToSpec(id)
	if err != nil {
		return nil, err
	}
	toEnd16 := func(l []uint16) {
		for i, v := range l {
			if isGrease(v) {
				copy(l[i:], l[i+1:])
				l[len(l)-1] = v
				return
			}
		}
	}
	if c.Shape {
		toEnd16(spec.CipherSuites)
	}
	found := false
	for _, e := range spec.Extensions {
		switch x := e.(type) {
		case *tls.KeyShareExtension:
			for i := range x.KeyShares {
				if isGrease(uint16(x.KeyShares[i].Group)) {
					x.KeyShares[i].Data = make([]byte, c.KSBody)
					found = true
				}
			}
		case *tls.SupportedCurvesExtension:
			if c.Shape {
				for i, v := range x.Curves {
					if isGrease(uint16(v)) {
						copy(x.Curves[i:], x.Curves[i+1:])
						x.Curves[len(x.Curves)-1] = v
						x.Curves = append([]tls.CurveID{tls.GREASE_PLACEHOLDER}, x.Curves...)
						break
					}
				}
			}
		case *tls.SupportedVersionsExtension:
			if c.Shape {
				toEnd16(x.Versions)
			}
		}
	}
	if !found {
		return nil, fmt.Errorf("spec of %s has no GREASE key share", id.Str())
	}
	if c.Mode == "custom-ks" || c.Mode == "reuse-custom-ks" {
		return &spec, nil
	}
	h, es := sendSpec(&spec, c.SNI)
	if es != "" {
		return nil, fmt.Errorf("capturing the shaped hello: %s", es)
	}
	if c.Mode == "fp-ks" {
		return (&tls.Fingerprinter{AllowBluntMimicry: true}).FingerprintClientHello(helloRecord(h))
	}
	doc, err := renderJSON(h)
	if err != nil {
		return nil, err
	}
	return (&tls.Fingerprinter{}).UnmarshalJSONClientHello(doc)
}
