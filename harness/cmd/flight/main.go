// flight: harness of the Flight family (C07 C33 C34). It runs real uTLS handshakes / importer calls,
// applies byte splices that TLC computed (spec/Flight.tla) at the message TLC chose, and logs what it
// observed (outcome, errors, times, allocated bytes, the bytes before and after the splice).
// It knows nothing about the TLS grammar: which bytes to touch, whether a mutated input is still a
// valid ClientHello and whether an outcome is acceptable are all decided in TLA+.
package main

import (
	"io"
	"log"

	"verif/harness/hlib"
)

func main() {
	log.SetOutput(io.Discard) // the importers log warnings through the standard logger
	hlib.Main()
}
