package main

import (
	"encoding/json"
	"fmt"
	"runtime"
	"runtime/debug"
	"strconv"
	"strings"

	tls "github.com/refraction-networking/utls"
	"verif/harness/hlib"
)

// ---------------------------------------------------------------- calls under recover

type callObs struct {
	API     string `json:"api"`
	Outcome string `json:"outcome"` // ok | error | panic
	Err     string `json:"err"`
	Panic   string `json:"panic"`
	PanicAt string `json:"panic_at"`
	Apply   string `json:"apply"`   // ok | error | panic | skipped  (ApplyPreset of the returned spec)
	Marshal string `json:"marshal"` // ok | error | panic | skipped  (BuildHandshakeState)
	Detail  string `json:"detail"`  // error / panic text of apply or marshal
	// the same spec applied and marshaled again under other ServerNames (the hello grows / shrinks around
	// whatever the capture was sized for); Apply/Marshal above are the captured name
	Variants []sniObs `json:"variants"`
}

type sniObs struct {
	SNILen  int    `json:"sni_len"`
	Apply   string `json:"apply"`
	Marshal string `json:"marshal"`
	Detail  string `json:"detail"`
}

const capturedSNI = "example.com" // the ServerName every capture of this family was taken with

// sniVariants: names whose length is the captured one -3 .. +3, none at all, and a much longer one
func sniVariants() []string {
	out := []string{}
	for d := -3; d <= 3; d++ {
		if d < 0 {
			out = append(out, capturedSNI[-d:])
		} else if d > 0 {
			out = append(out, strings.Repeat("x", d)+capturedSNI)
		}
	}
	long := strings.Repeat("a", 60) + "." + strings.Repeat("b", 60) + "." + strings.Repeat("c", 60) + "." + capturedSNI
	return append(out, "", long)
}

// applyAndMarshal applies a spec to a fresh UConn with the given ServerName and builds the hello, under recover.
func applyAndMarshal(spec *tls.ClientHelloSpec, sni string) (apply, marshal, detail string) {
	apply, marshal = "skipped", "skipped"
	c, _ := hlib.BufPipe()
	cfg := &tls.Config{ServerName: sni}
	if sni == "" {
		cfg.InsecureSkipVerify = true
	}
	uc := tls.UClient(c, cfg, tls.HelloCustom)
	var d, at string
	apply, d, at = try(func() error { return uc.ApplyPreset(spec) })
	if apply != "ok" {
		return apply, marshal, "apply: " + d + " " + at
	}
	marshal, d, at = try(func() error { return uc.BuildHandshakeState() })
	if marshal != "ok" {
		detail = "marshal: " + d + " " + at
	}
	return
}

func try(f func() error) (outcome, msg, at string) {
	defer func() {
		if p := recover(); p != nil {
			outcome, msg, at = "panic", fmt.Sprint(p), panicSite(string(debug.Stack()))
		}
	}()
	if err := f(); err != nil {
		return "error", err.Error(), ""
	}
	return "ok", "", ""
}

// importCall runs one importer; when it returns a spec, the spec is applied to a fresh UConn and marshaled.
func importCall(api string, imp func() (*tls.ClientHelloSpec, error)) callObs {
	o := callObs{API: api, Apply: "skipped", Marshal: "skipped", Variants: []sniObs{}}
	var spec *tls.ClientHelloSpec
	o.Outcome, o.Err, o.PanicAt = try(func() error {
		var err error
		spec, err = imp()
		return err
	})
	if o.Outcome == "panic" {
		o.Panic, o.Err = o.Err, ""
	}
	if o.Outcome != "ok" || spec == nil {
		return o
	}
	o.Apply, o.Marshal, o.Detail = applyAndMarshal(spec, capturedSNI)
	for _, name := range sniVariants() {
		// a fresh import per name: applying a spec mutates its extension objects
		var sp *tls.ClientHelloSpec
		if oc, _, _ := try(func() error { var err error; sp, err = imp(); return err }); oc != "ok" || sp == nil {
			continue
		}
		v := sniObs{SNILen: len(name)}
		v.Apply, v.Marshal, v.Detail = applyAndMarshal(sp, name)
		o.Variants = append(o.Variants, v)
	}
	return o
}

func rawCalls(rec []byte) []callObs {
	var out []callObs
	for f := 0; f < 8; f++ {
		fp := &tls.Fingerprinter{AllowBluntMimicry: f&1 != 0, AlwaysAddPadding: f&2 != 0, RealPSKResumption: f&4 != 0}
		out = append(out, importCall(fmt.Sprintf("FingerprintClientHello[blunt=%v,pad=%v,realpsk=%v]", fp.AllowBluntMimicry, fp.AlwaysAddPadding, fp.RealPSKResumption),
			func() (*tls.ClientHelloSpec, error) { return fp.FingerprintClientHello(rec) }))
	}
	out = append(out, importCall("FromRaw[]", func() (*tls.ClientHelloSpec, error) { s := &tls.ClientHelloSpec{}; return s, s.FromRaw(rec) }))
	out = append(out, importCall("FromRaw[true]", func() (*tls.ClientHelloSpec, error) { s := &tls.ClientHelloSpec{}; return s, s.FromRaw(rec, true) }))
	out = append(out, importCall("RawClientHello[zero Fingerprinter]", func() (*tls.ClientHelloSpec, error) { return (&tls.Fingerprinter{}).RawClientHello(rec) }))
	return out
}

// ---------------------------------------------------------------- tagged JSON trees (the shape TLC works on)

type jnode struct {
	T string   `json:"t"` // obj arr str num true false null
	K []string `json:"k"`
	V []*jnode `json:"v"`
	S string   `json:"s"`
	N int      `json:"n"`
}

func (n *jnode) text(b *strings.Builder) {
	switch n.T {
	case "obj":
		b.WriteByte('{')
		for i, v := range n.V {
			if i > 0 {
				b.WriteByte(',')
			}
			k := ""
			if i < len(n.K) {
				k = n.K[i]
			}
			kb, _ := json.Marshal(k)
			b.Write(kb)
			b.WriteByte(':')
			v.text(b)
		}
		b.WriteByte('}')
	case "arr":
		b.WriteByte('[')
		for i, v := range n.V {
			if i > 0 {
				b.WriteByte(',')
			}
			v.text(b)
		}
		b.WriteByte(']')
	case "str":
		sb, _ := json.Marshal(n.S)
		b.Write(sb)
	case "num":
		b.WriteString(strconv.Itoa(n.N))
	case "true", "false", "null":
		b.WriteString(n.T)
	default:
		b.WriteString("null")
	}
}

func (n *jnode) clone() *jnode {
	c := &jnode{T: n.T, S: n.S, N: n.N, K: append([]string{}, n.K...)}
	for _, v := range n.V {
		c.V = append(c.V, v.clone())
	}
	return c
}

type docEdit struct {
	Path []int  `json:"path"` // 1-based child indices from the root (chosen by TLC)
	Act  string `json:"act"`  // set | del | dup | key | none
	Node *jnode `json:"node"`
	Key  string `json:"key"`
}

// applyEdit applies one tree edit at the path TLC chose; ok=false when the path does not exist.
func applyEdit(root *jnode, e docEdit) (*jnode, bool) {
	root = root.clone()
	if e.Act == "none" {
		return root, true
	}
	if len(e.Path) == 0 {
		if e.Act == "set" && e.Node != nil {
			return e.Node.clone(), true
		}
		return root, false
	}
	par := root
	for _, i := range e.Path[:len(e.Path)-1] {
		if i < 1 || i > len(par.V) {
			return root, false
		}
		par = par.V[i-1]
	}
	i := e.Path[len(e.Path)-1]
	if i < 1 || i > len(par.V) {
		return root, false
	}
	hasKeys := par.T == "obj" && len(par.K) == len(par.V)
	switch e.Act {
	case "set":
		if e.Node == nil {
			return root, false
		}
		par.V[i-1] = e.Node.clone()
	case "del":
		par.V = append(par.V[:i-1], par.V[i:]...)
		if hasKeys {
			par.K = append(par.K[:i-1], par.K[i:]...)
		}
	case "dup":
		par.V = append(par.V[:i], append([]*jnode{par.V[i-1].clone()}, par.V[i:]...)...)
		if hasKeys {
			par.K = append(par.K[:i], append([]string{par.K[i-1]}, par.K[i:]...)...)
		}
	case "key":
		if !hasKeys {
			return root, false
		}
		par.K[i-1] = e.Key
	default:
		return root, false
	}
	return root, true
}

func docCalls(kind string, text []byte) []callObs {
	var out []callObs
	switch kind {
	case "json":
		out = append(out, importCall("ClientHelloSpec.UnmarshalJSON", func() (*tls.ClientHelloSpec, error) {
			s := &tls.ClientHelloSpec{}
			return s, s.UnmarshalJSON(text)
		}))
		out = append(out, importCall("Fingerprinter.UnmarshalJSONClientHello[pad]", func() (*tls.ClientHelloSpec, error) {
			return (&tls.Fingerprinter{AlwaysAddPadding: true}).UnmarshalJSONClientHello(text)
		}))
		out = append(out, importCall("json.Unmarshal(ClientHelloSpec)", func() (*tls.ClientHelloSpec, error) {
			s := &tls.ClientHelloSpec{}
			return s, json.Unmarshal(text, s)
		}))
	case "map":
		out = append(out, importCall("ImportTLSClientHelloFromJSON", func() (*tls.ClientHelloSpec, error) {
			s := &tls.ClientHelloSpec{}
			return s, s.ImportTLSClientHelloFromJSON(text)
		}))
		// the same document handed over as a Go map (when it decodes into one)
		var m map[string][]byte
		if json.Unmarshal(text, &m) == nil {
			out = append(out, importCall("ImportTLSClientHello", func() (*tls.ClientHelloSpec, error) {
				s := &tls.ClientHelloSpec{}
				return s, s.ImportTLSClientHello(m)
			}))
		}
	}
	return out
}

// ---------------------------------------------------------------- commands

type rawScenario struct {
	Sid  int      `json:"sid"`
	Case string   `json:"case"`
	Sp   []splice `json:"sp"`
	ExtW struct {
		T int `json:"t"`
		S int `json:"s"` // 1-based first byte of the extension body in the mutated record
		E int `json:"e"` // 1-based last byte
	} `json:"extw"`
}

type docScenario struct {
	Sid   int    `json:"sid"`
	Case  string `json:"case"`
	DKind string `json:"dkind"`
	docEdit
}

func init() {
	// import-raw: mutated ClientHello records -> every raw importer (+ apply + marshal), and the
	// enclosing extension's Write on the body range TLC computed.
	hlib.Register("import-raw", func(in []byte, out *hlib.Out) error {
		var req struct {
			Records   map[string][]int `json:"records"` // case -> captured record
			Scenarios []rawScenario    `json:"scenarios"`
		}
		if err := json.Unmarshal(in, &req); err != nil {
			return err
		}
		res := make([]map[string]any, len(req.Scenarios))
		pool(len(req.Scenarios), runtime.NumCPU(), func(i int) {
			sc := req.Scenarios[i]
			orig := hlib.Unints(req.Records[sc.Case])
			mut, fit := applySplices(orig, sc.Sp)
			ew := map[string]any{"outcome": "skipped", "err": "", "panic": "", "panic_at": "", "type": sc.ExtW.T}
			if sc.ExtW.T >= 0 && sc.ExtW.S >= 1 && sc.ExtW.E >= sc.ExtW.S-1 && sc.ExtW.E <= len(mut) {
				body := append([]byte{}, mut[sc.ExtW.S-1:sc.ExtW.E]...)
				if ext, ok := tls.ExtensionFromID(uint16(sc.ExtW.T)).(tls.TLSExtensionWriter); ok && ext != nil {
					o, msg, at := try(func() error { _, err := ext.Write(body); return err })
					ew["outcome"] = o
					if o == "panic" {
						ew["panic"], ew["panic_at"] = msg, at
					} else {
						ew["err"] = msg
					}
				}
			}
			res[i] = map[string]any{"ev": "Raw", "sid": sc.Sid, "case": sc.Case, "applied": true, "fit": fit,
				"orig_len": len(orig), "orig_sum": digest(orig), "mut_len": len(mut), "mut_sum": digest(mut),
				"calls": rawCalls(mut), "extw": ew}
		})
		for _, e := range res {
			out.Emit(e)
		}
		return nil
	})

	// import-doc: JSON specs / tlsfingerprint.io maps edited at the tree position TLC chose.
	hlib.Register("import-doc", func(in []byte, out *hlib.Out) error {
		var req struct {
			Docs      map[string]*jnode `json:"docs"` // case -> tagged tree
			Scenarios []docScenario     `json:"scenarios"`
		}
		if err := json.Unmarshal(in, &req); err != nil {
			return err
		}
		res := make([]map[string]any, len(req.Scenarios))
		pool(len(req.Scenarios), runtime.NumCPU(), func(i int) {
			sc := req.Scenarios[i]
			root, ok := req.Docs[sc.Case]
			if !ok {
				res[i] = map[string]any{"ev": "Error", "sid": sc.Sid, "err": "unknown doc " + sc.Case}
				return
			}
			ed, fit := applyEdit(root, sc.docEdit)
			var b strings.Builder
			ed.text(&b)
			text := b.String()
			shown := text
			if len(shown) > 600 {
				shown = shown[:600] + "..."
			}
			res[i] = map[string]any{"ev": "Doc", "sid": sc.Sid, "case": sc.Case, "dkind": sc.DKind, "fit": fit, "text_len": len(text), "text": shown,
				"calls": docCalls(sc.DKind, []byte(text))}
		})
		for _, e := range res {
			out.Emit(e)
		}
		return nil
	})
}
