package main

import (
	"bytes"
	"compress/zlib"
	"encoding/json"
	"errors"
	"fmt"
	"io"
	"runtime"
	"runtime/debug"
	"sort"
	"strconv"
	"strings"
	"sync"
	"time"

	"github.com/andybalholm/brotli"
	"github.com/klauspost/compress/zstd"
	tls "github.com/refraction-networking/utls"
	"verif/harness/hlib"
)

// ---------------------------------------------------------------- scenario types (all chosen by TLC)

type splice struct {
	Off int   `json:"off"` // 0-based offset in the ORIGINAL message
	Del int   `json:"del"` // bytes removed at Off
	Ins []int `json:"ins"` // bytes inserted at Off
}

type scenario struct {
	Sid     int      `json:"sid"`
	Case    string   `json:"case"`
	Side    string   `json:"side"` // whose outgoing messages are rewritten: "s" (C33) or "c" (C34)
	Msg     int      `json:"msg"`  // 0-based index among that side's handshake messages; -1: none
	Mode    string   `json:"mode"` // "live": splice the live message; "replace": send the captured messages 0..Msg instead, the last one spliced
	Sp      []splice `json:"sp"`
	Measure bool     `json:"measure"`
	Inner   bool     `json:"inner"` // splice the Certificate message BEFORE the server compresses it (the message inside CompressedCertificate)
	Kind    string   `json:"kind"`  // "" / mut / base: message splices; "rec": a raw record; "post": post-handshake phase
	Rec     struct {
		Where string `json:"where"` // replace: in place of this side's record number Index; after: right after the handshake completed
		Index int    `json:"index"`
		Raw   []int  `json:"raw"`
	} `json:"rec"`
	Post postSpec `json:"post"`
}

type flightCase struct {
	Name   string   `json:"name"`
	Parrot string   `json:"parrot"`
	Flags  []string `json:"flags"` // v12 hrr ccert alps creq mtls psk sku cku
}

// which of the algorithms the client advertises the server compresses with: flag calg1 / calg2 = second / third
func (c flightCase) compAlg(algs []tls.CertCompressionAlgo) tls.CertCompressionAlgo {
	i := 0
	if c.has("calg1") {
		i = 1
	}
	if c.has("calg2") {
		i = 2
	}
	if i >= len(algs) {
		i = len(algs) - 1
	}
	return algs[i]
}

func (c flightCase) has(f string) bool {
	for _, x := range c.Flags {
		if x == f {
			return true
		}
	}
	return false
}

// applySplices applies non-overlapping splices whose offsets refer to the original bytes.
// A splice that does not fit the message is reported (fit=false) and the message is left alone.
func applySplices(orig []byte, sp []splice) (out []byte, fit bool) {
	s := append([]splice{}, sp...)
	sort.SliceStable(s, func(i, j int) bool { return s[i].Off < s[j].Off })
	pos := 0
	for _, x := range s {
		if x.Off < pos || x.Del < 0 || x.Off+x.Del > len(orig) {
			return append([]byte{}, orig...), false
		}
		out = append(out, orig[pos:x.Off]...)
		out = append(out, hlib.Unints(x.Ins)...)
		pos = x.Off + x.Del
	}
	out = append(out, orig[pos:]...)
	if out == nil {
		out = []byte{}
	}
	return out, true
}

// ---------------------------------------------------------------- the server role beyond what tls.Server does

// what the client advertises, read from the library's own structures (no wire parsing)
type clientCaps struct {
	compAlgs []tls.CertCompressionAlgo
	alpsCode uint16
}


func probeClient(id tls.ClientHelloID, cfg *tls.Config) (cc clientCaps) {
	defer func() { recover() }()
	c, _ := hlib.BufPipe()
	u := tls.UClient(c, cfg.Clone(), id)
	if err := u.BuildHandshakeState(); err != nil {
		return
	}
	for _, e := range u.Extensions {
		switch x := e.(type) {
		case *tls.UtlsCompressCertExtension:
			cc.compAlgs = x.Algorithms
		case *tls.ApplicationSettingsExtension:
			cc.alpsCode = 17513
		case *tls.ApplicationSettingsExtensionNew:
			cc.alpsCode = 17613
		}
	}
	return
}

// compressCertificate turns a TLS 1.3 Certificate message into an RFC 8879 CompressedCertificate
// message (what a server that implements certificate compression sends).
func compressCertificate(msg []byte, alg tls.CertCompressionAlgo) []byte {
	body := msg[4:]
	var z bytes.Buffer
	switch alg {
	case tls.CertCompressionZlib:
		w := zlib.NewWriter(&z)
		w.Write(body)
		w.Close()
	case tls.CertCompressionBrotli:
		w := brotli.NewWriter(&z)
		w.Write(body)
		w.Close()
	case tls.CertCompressionZstd:
		w, _ := zstd.NewWriter(&z)
		w.Write(body)
		w.Close()
	default:
		return msg
	}
	n, zl := len(body), z.Len()
	out := []byte{25, 0, 0, 0, byte(alg >> 8), byte(alg), byte(n >> 16), byte(n >> 8), byte(n), byte(zl >> 16), byte(zl >> 8), byte(zl)}
	out = append(out, z.Bytes()...)
	l := len(out) - 4
	out[1], out[2], out[3] = byte(l>>16), byte(l>>8), byte(l)
	return out
}

// addALPS appends an application_settings extension to a server EncryptedExtensions message.
func addALPS(msg []byte, code uint16, settings []byte) []byte {
	if len(msg) < 6 {
		return msg
	}
	ext := []byte{byte(code >> 8), byte(code), byte(len(settings) >> 8), byte(len(settings))}
	ext = append(ext, settings...)
	out := append(append([]byte{}, msg...), ext...)
	l := len(out) - 4
	out[1], out[2], out[3] = byte(l>>16), byte(l>>8), byte(l)
	el := len(out) - 6
	out[4], out[5] = byte(el>>8), byte(el)
	return out
}

// ---------------------------------------------------------------- one connection

type sideObs struct {
	Outcome   string `json:"outcome"` // ok | error | panic | hang
	Err       string `json:"err"`
	Panic     string `json:"panic"`
	PanicAt   string `json:"panic_at"`
	ElapsedMs int    `json:"elapsed_ms"`
	Stage     string `json:"stage"` // last call that returned: handshake | write | read | drain
}

type connObs struct {
	Client, Server sideObs
	CMsgs, SMsgs   [][]byte
	SInner         [][]byte // per server message: the plaintext Certificate message it was compressed from (else empty)
	CRecs, SRecs   [][]int  // [content type, length] of every record each side put on the wire
	RepHdr         []int    // header of the record a raw record was sent in place of
	Rec0           []byte // first record the client wrote
	Applied, Fit   bool
	Orig, Mut      []byte
	Released       bool // after a hang: did the calls return once the transport was closed
	PrimeErr       string
	AllocKB        int
}

func panicSite(stack string) string {
	// first frame inside the library (skipping runtime and the harness)
	for _, l := range strings.Split(stack, "\n") {
		l = strings.TrimSpace(l)
		if strings.HasPrefix(l, "github.com/refraction-networking/utls.") || strings.HasPrefix(l, "github.com/refraction-networking/utls/") {
			if i := strings.LastIndex(l, "("); i > 0 {
				l = l[:i]
			}
			return strings.TrimPrefix(l, "github.com/refraction-networking/utls")
		}
	}
	return "?"
}

func guard(o *sideObs, f func() (string, error)) {
	t0 := time.Now()
	defer func() {
		if p := recover(); p != nil {
			o.Outcome = "panic"
			o.Panic = fmt.Sprint(p)
			o.PanicAt = panicSite(string(debug.Stack()))
		}
		o.ElapsedMs = int(time.Since(t0) / time.Millisecond)
	}()
	stage, err := f()
	o.Stage = stage
	if err != nil {
		o.Outcome = "error"
		o.Err = err.Error()
	} else {
		o.Outcome = "ok"
	}
}

var ping, pong = []byte("ping"), []byte("pong")

func clientFlow(uc *tls.UConn, cku bool, after func()) (string, error) {
	if err := uc.Handshake(); err != nil {
		return "handshake", err
	}
	if after != nil {
		after()
	}
	if cku && uc.ConnectionState().Version == tls.VersionTLS13 {
		if err := tls.VerifFlightSendKeyUpdate(uc.Conn, true); err != nil {
			return "keyupdate", err
		}
	}
	if _, err := uc.Write(ping); err != nil {
		return "write", err
	}
	buf := make([]byte, 4)
	if _, err := io.ReadFull(uc, buf); err != nil {
		return "read", err
	}
	return "read", nil
}

func serverFlow(srv *tls.Conn, sku bool, after func()) (string, error) {
	if err := srv.Handshake(); err != nil {
		return "handshake", err
	}
	if after != nil {
		after()
	}
	if sku && srv.ConnectionState().Version == tls.VersionTLS13 {
		if err := tls.VerifFlightSendKeyUpdate(srv, true); err != nil {
			return "keyupdate", err
		}
	}
	buf := make([]byte, 4)
	if _, err := io.ReadFull(srv, buf); err != nil {
		return "read", err
	}
	if _, err := srv.Write(pong); err != nil {
		return "write", err
	}
	// drain until the client hangs up (processes a KeyUpdate reply, close_notify)
	for {
		if _, err := srv.Read(buf); err != nil {
			if errors.Is(err, io.EOF) {
				return "drain", nil
			}
			return "drain", err
		}
	}
}

type runEnv struct {
	pk       *pki
	deadline time.Duration
	caps     map[string]capture // by case name (replace mode)
}

type capture struct {
	C [][]int `json:"c"`
	S [][]int `json:"s"`
}

func (e *runEnv) configs(cs flightCase) (*tls.Config, *tls.Config) {
	ccfg := &tls.Config{ServerName: "example.com", RootCAs: e.pk.pool, OmitEmptyPsk: true}
	scfg := &tls.Config{Certificates: []tls.Certificate{e.pk.leaf}, NextProtos: []string{"h2", "http/1.1"}}
	if cs.has("v12") {
		scfg.MaxVersion = tls.VersionTLS12
	}
	if cs.has("hrr") {
		scfg.CurvePreferences = []tls.CurveID{tls.CurveP384}
	}
	// echkeys / echkeys2: an ECH-enabled server (one / two configs, ids 7 and 107, DHKEM(X25519), HKDF-SHA256, AES-128-GCM)
	if cs.has("echkeys") || cs.has("echkeys2") {
		scfg.EncryptedClientHelloKeys = echServerKeys(cs.has("echkeys2"))
	}
	for _, f := range cs.Flags {
		// cs=c02f: the server offers exactly this TLS <= 1.2 cipher suite
		if strings.HasPrefix(f, "cs=") {
			if v, err := strconv.ParseUint(f[3:], 16, 16); err == nil {
				scfg.CipherSuites = []uint16{uint16(v)}
			}
		}
	}
	if cs.has("psk") {
		ccfg.ClientSessionCache = tls.NewLRUClientSessionCache(4)
	}
	if cs.has("creq") || cs.has("alps") {
		scfg.ClientAuth = tls.RequestClientCert
	}
	if cs.has("mtls") {
		scfg.ClientAuth = tls.RequireAnyClientCert
		ccfg.Certificates = []tls.Certificate{e.pk.client}
	}
	if cs.has("alps") {
		ccfg.ApplicationSettings = map[string][]byte{"h2": []byte("CLNT")}
	}
	return ccfg, scfg
}

// once runs one handshake + ping/pong of the case; scn == nil: nothing is rewritten.
func (e *runEnv) once(cs flightCase, scn *scenario) (o connObs) {
	id, err := hlib.LookupID(cs.Parrot)
	if err != nil {
		o.PrimeErr = err.Error()
		return
	}
	ccfg, scfg := e.configs(cs)
	if cs.has("psk") {
		// a first, untouched connection fills the session cache
		p := e.plain(id, ccfg, scfg)
		if p != "" {
			o.PrimeErr = p
			return
		}
	}
	var cc clientCaps
	if cs.has("ccert") || cs.has("alps") {
		cc = probeClient(id, ccfg)
	}
	var mu sync.Mutex
	var nc, ns int
	var cap capture
	if scn != nil && scn.Mode == "replace" {
		cap = e.caps[cs.Name]
	}
	rewrite := func(side string, idx int, data []byte) []byte {
		if scn == nil || scn.Side != side || scn.Msg < 0 || scn.Kind == "rec" || scn.Kind == "post" {
			return data
		}
		if scn.Mode == "replace" {
			var src [][]int
			if side == "c" {
				src = cap.C
			} else {
				src = cap.S
			}
			if idx <= scn.Msg && idx < len(src) {
				data = hlib.Unints(src[idx])
			}
		}
		if idx == scn.Msg {
			o.Orig = append([]byte{}, data...)
			data, o.Fit = applySplices(data, scn.Sp)
			o.Mut = append([]byte{}, data...)
			o.Applied = true
		}
		return data
	}
	sov := &tls.VerifOverride{Outgoing: func(c *tls.Conn, data []byte) []byte {
		mu.Lock()
		defer mu.Unlock()
		idx := ns
		ns++
		// the server role: certificate compression / ALPS (base flight, also present in the capture)
		inner := []byte{}
		if len(data) > 4 && data[0] == 11 && cs.has("ccert") && len(cc.compAlgs) > 0 && !cs.has("v12") {
			if scn != nil && scn.Inner && scn.Side == "s" && idx == scn.Msg {
				// the hostile server mutates the certificate message first and compresses the result correctly
				o.Orig = append([]byte{}, data...)
				data, o.Fit = applySplices(data, scn.Sp)
				o.Mut = append([]byte{}, data...)
				o.Applied = true
			}
			inner = append(inner, data...)
			if len(data) >= 4 {
				data = compressCertificate(data, cs.compAlg(cc.compAlgs))
			}
		}
		if len(data) > 4 && data[0] == 8 && cs.has("alps") && cc.alpsCode != 0 {
			data = addALPS(data, cc.alpsCode, []byte("SRVR"))
		}
		if scn == nil || !scn.Inner {
			data = rewrite("s", idx, data)
		}
		o.SMsgs = append(o.SMsgs, append([]byte{}, data...))
		o.SInner = append(o.SInner, inner)
		return data
	}}
	if cs.has("alps") && cc.alpsCode != 0 {
		sov.ReadClientEE = true
	}
	cov := &tls.VerifOverride{Outgoing: func(c *tls.Conn, data []byte) []byte {
		mu.Lock()
		defer mu.Unlock()
		idx := nc
		nc++
		data = rewrite("c", idx, data)
		o.CMsgs = append(o.CMsgs, append([]byte{}, data...))
		return data
	}}
	tls.VerifSetOverride(scfg, sov)
	tls.VerifSetOverride(ccfg, cov)
	defer tls.VerifFlightClearOverride(scfg)
	defer tls.VerifFlightClearOverride(ccfg)

	c0, s0 := hlib.BufPipe()
	c, s := wrap(c0), wrap(s0)
	dl := time.Now().Add(e.deadline)
	c.SetDeadline(dl)
	s.SetDeadline(dl)
	// a raw record (bytes chosen by TLC) in place of one of this side's records, or right after its handshake
	var afterC, afterS func()
	if scn != nil && scn.Kind == "rec" {
		w, raw := c, hlib.Unints(scn.Rec.Raw)
		if scn.Side == "s" {
			w = s
		}
		o.Orig, o.Mut, o.Fit = []byte{}, raw, true
		if scn.Rec.Where == "replace" {
			w.repIdx, w.rep = scn.Rec.Index, raw
		} else {
			f := func() {
				if _, err := w.BufConn.Write(raw); err == nil {
					mu.Lock()
					o.Applied = true
					mu.Unlock()
				}
			}
			if scn.Side == "s" {
				afterS = f
			} else {
				afterC = f
			}
		}
	}
	var co, so sideObs
	cdone, sdone := make(chan struct{}), make(chan struct{})
	go func() {
		defer close(sdone)
		guard(&so, func() (string, error) { return serverFlow(tls.Server(s, scfg), cs.has("sku"), afterS) })
		s.CloseWrite()
	}()
	go func() {
		defer close(cdone)
		guard(&co, func() (string, error) {
			uc := tls.UClient(c, ccfg, id)
			st, err := clientFlow(uc, cs.has("cku"), afterC)
			if err == nil {
				uc.Close()
			}
			return st, err
		})
		c.Close()
	}()
	watchdog := time.After(e.deadline + 3*time.Second)
	cd, sd := false, false
	for !(cd && sd) {
		select {
		case <-cdone:
			cd = true
			cdone = nil
		case <-sdone:
			sd = true
			sdone = nil
		case <-watchdog:
			// still inside a library call long after the transport deadline
			c.Close()
			s.Close()
			rel := time.After(2 * time.Second)
			o.Released = true
			for !(cd && sd) {
				select {
				case <-cdone:
					cd, cdone = true, nil
				case <-sdone:
					sd, sdone = true, nil
				case <-rel:
					o.Released = false
					if !cd {
						co = sideObs{Outcome: "hang", ElapsedMs: int((e.deadline + 5*time.Second) / time.Millisecond)}
					}
					if !sd {
						so = sideObs{Outcome: "hang", ElapsedMs: int((e.deadline + 5*time.Second) / time.Millisecond)}
					}
					cd, sd = true, true
				}
			}
			if o.Released {
				// returned only because the transport was torn down: that is a hang w.r.t. the deadline
				if co.ElapsedMs > int((e.deadline+2*time.Second)/time.Millisecond) {
					co.Outcome = "hang"
				}
				if so.ElapsedMs > int((e.deadline+2*time.Second)/time.Millisecond) {
					so.Outcome = "hang"
				}
			}
		}
	}
	mu.Lock()
	o.Client, o.Server = co, so
	if scn != nil && scn.Kind == "rec" && scn.Rec.Where == "replace" {
		w := c
		if scn.Side == "s" {
			w = s
		}
		w.mu.Lock()
		o.Applied, o.RepHdr = w.repDone && !w.odd, w.repHdr
		w.mu.Unlock()
	}
	mu.Unlock()
	o.CRecs, o.SRecs = recHeaders(c.Written()), recHeaders(s.Written())
	if recs := hlib.Records(c.Written()); len(recs) > 0 {
		w := c.Written()
		o.Rec0 = w[:5+len(recs[0].Payload)]
	}
	return
}

// plain: one unmodified connection (session priming); returns "" on success.
func (e *runEnv) plain(id tls.ClientHelloID, ccfg, scfg *tls.Config) string {
	c, s := hlib.BufPipe()
	dl := time.Now().Add(5 * time.Second)
	c.SetDeadline(dl)
	s.SetDeadline(dl)
	var so, co sideObs
	done := make(chan struct{})
	go func() {
		defer close(done)
		guard(&so, func() (string, error) { return serverFlow(tls.Server(s, scfg), false, nil) })
		s.CloseWrite()
	}()
	guard(&co, func() (string, error) {
		uc := tls.UClient(c, ccfg, id)
		st, err := clientFlow(uc, false, nil)
		if err == nil {
			uc.Close()
		}
		return st, err
	})
	c.Close()
	<-done
	if co.Outcome != "ok" || so.Outcome != "ok" {
		return fmt.Sprintf("priming connection failed: client %s %s %s / server %s %s %s", co.Outcome, co.Err, co.Panic, so.Outcome, so.Err, so.Panic)
	}
	return ""
}

func intsList(m [][]byte) [][]int {
	r := make([][]int, len(m))
	for i, x := range m {
		r[i] = hlib.Ints(x)
	}
	return r
}

func pool(n, workers int, fn func(i int)) {
	if workers > n {
		workers = n
	}
	var wg sync.WaitGroup
	ch := make(chan int)
	for k := 0; k < workers; k++ {
		wg.Add(1)
		go func() {
			defer wg.Done()
			for i := range ch {
				fn(i)
			}
		}()
	}
	for i := 0; i < n; i++ {
		ch <- i
	}
	close(ch)
	wg.Wait()
}

type flightReq struct {
	PKI        pkiBlob            `json:"pki"`
	Cases      []flightCase       `json:"cases"`
	Scenarios  []scenario         `json:"scenarios"`
	Caps       map[string]capture `json:"caps"`
	DeadlineMs int                `json:"deadline_ms"`
	Workers    int                `json:"workers"`
	Repeat     int                `json:"repeat"`
	Serial     bool               `json:"serial"`
}

func (r *flightReq) env() (*runEnv, error) {
	pk, err := r.PKI.load()
	if err != nil {
		return nil, err
	}
	d := time.Duration(r.DeadlineMs) * time.Millisecond
	if d == 0 {
		d = 2 * time.Second
	}
	return &runEnv{pk: pk, deadline: d, caps: r.Caps}, nil
}

// peerAlert: the alert this side SENT, as reported by the peer's error ("remote error: tls: <alert>")
func sideEv(o sideObs, peer sideObs) map[string]any {
	alert := ""
	if i := strings.Index(peer.Err, "remote error: tls: "); i >= 0 {
		alert = peer.Err[i+len("remote error: tls: "):]
	}
	return map[string]any{"outcome": o.Outcome, "err": o.Err, "panic": o.Panic, "panic_at": o.PanicAt, "elapsed_ms": o.ElapsedMs, "stage": o.Stage, "alert": alert}
}

// digest: polynomial hash of a byte string (the same function is spec/Flight.tla Digest)
func digest(b []byte) int {
	a := 7
	for _, x := range b {
		a = (a*257 + int(x) + 1) % 1000003
	}
	return a
}

func init() {
	// capture: unmodified connections of every case (Repeat times), logging each side's plaintext
	// handshake messages in the order they were written.
	hlib.Register("capture", func(in []byte, out *hlib.Out) error {
		var req flightReq
		if err := json.Unmarshal(in, &req); err != nil {
			return err
		}
		env, err := req.env()
		if err != nil {
			return err
		}
		if req.Repeat == 0 {
			req.Repeat = 2
		}
		n := len(req.Cases) * req.Repeat
		res := make([]map[string]any, n)
		pool(n, runtime.NumCPU(), func(i int) {
			cs := req.Cases[i/req.Repeat]
			o := env.once(cs, nil)
			res[i] = map[string]any{"ev": "Capture", "case": cs.Name, "parrot": cs.Parrot, "flags": append([]string{}, cs.Flags...), "run": i % req.Repeat,
				"c": intsList(o.CMsgs), "s": intsList(o.SMsgs), "s_inner": intsList(o.SInner), "c_recs": o.CRecs, "s_recs": o.SRecs, "rec0": hlib.Ints(o.Rec0),
				"client": sideEv(o.Client, o.Server), "server": sideEv(o.Server, o.Client), "prime_err": o.PrimeErr, "deadline_ms": int(env.deadline / time.Millisecond)}
		})
		for _, e := range res {
			out.Emit(e)
		}
		return nil
	})

	// run: every scenario on a fresh connection; Serial: one at a time with allocation accounting.
	hlib.Register("run", func(in []byte, out *hlib.Out) error {
		var req flightReq
		if err := json.Unmarshal(in, &req); err != nil {
			return err
		}
		env, err := req.env()
		if err != nil {
			return err
		}
		byName := map[string]flightCase{}
		for _, c := range req.Cases {
			byName[c.Name] = c
		}
		res := make([]map[string]any, len(req.Scenarios))
		one := func(i int) {
			sc := req.Scenarios[i]
			cs, ok := byName[sc.Case]
			if !ok {
				res[i] = map[string]any{"ev": "Error", "sid": sc.Sid, "err": "unknown case " + sc.Case}
				return
			}
			var m0, m1 runtime.MemStats
			if req.Serial {
				runtime.GC()
				runtime.ReadMemStats(&m0)
			}
			if sc.Kind == "post" {
				po := env.oncePost(cs, sc.Post, sc.Side)
				agg := sideObs{Outcome: "ok", Stage: "post"}
				for _, c := range po.Calls {
					if c.RetMs > agg.ElapsedMs {
						agg.ElapsedMs = c.RetMs
					}
					if c.Outcome != "ok" && (agg.Outcome == "ok" || agg.Outcome == "error") {
						agg.Outcome, agg.Err, agg.Panic, agg.PanicAt = c.Outcome, c.Call+": "+c.Err, c.Panic, c.PanicAt
					}
				}
				res[i] = map[string]any{"ev": "Run", "sid": sc.Sid, "case": sc.Case, "side": sc.Side, "msg": sc.Msg, "mode": sc.Mode, "kind": "post",
					"applied": po.Ready, "fit": true, "orig": []int{}, "orig_len": 0, "orig_sum": 0, "mut_len": 0, "mut_sum": 0,
					"client": sideEv(map[bool]sideObs{true: agg, false: {Outcome: "ok"}}[sc.Side != "c"], sideObs{}),
					"server": sideEv(map[bool]sideObs{true: agg, false: {Outcome: "ok"}}[sc.Side == "c"], sideObs{}), "released": false, "prime_err": "",
					"deadline_ms": po.Deadline, "alloc_kb": -1, "serial": req.Serial, "nc": 0, "ns": 0,
					"ready": po.Ready, "sent": po.Sent, "sent_err": po.SentErr, "transport": sc.Post.Transport, "calls": po.Calls, "post_err": po.Err}
				return
			}
			o := env.once(cs, &sc)
			allocKB := -1
			if req.Serial {
				runtime.ReadMemStats(&m1)
				allocKB = int((m1.TotalAlloc - m0.TotalAlloc) / 1024)
			}
			orig := []int{}
			if sc.Mode == "live" && !req.Serial {
				orig = hlib.Ints(o.Orig) // replace mode: the bytes are the capture the runner already has
			}
			res[i] = map[string]any{"ev": "Run", "sid": sc.Sid, "case": sc.Case, "side": sc.Side, "msg": sc.Msg, "mode": sc.Mode,
				"applied": o.Applied, "fit": o.Fit, "orig": orig, "orig_len": len(o.Orig), "orig_sum": digest(o.Orig),
				"mut_len": len(o.Mut), "mut_sum": digest(o.Mut),
				"client": sideEv(o.Client, o.Server), "server": sideEv(o.Server, o.Client), "released": o.Released, "prime_err": o.PrimeErr,
				"deadline_ms": int(env.deadline / time.Millisecond), "alloc_kb": allocKB, "serial": req.Serial,
				"nc": len(o.CMsgs), "ns": len(o.SMsgs), "kind": sc.Kind, "rep_hdr": append([]int{}, o.RepHdr...)}
		}
		if req.Serial {
			for i := range req.Scenarios {
				one(i)
			}
		} else {
			w := req.Workers
			if w == 0 {
				w = 8 * runtime.NumCPU()
			}
			pool(len(req.Scenarios), w, one)
		}
		for _, e := range res {
			out.Emit(e)
		}
		return nil
	})
}
