package main

import (
	"errors"
	"io"
	"sync"
	"time"

	tls "github.com/refraction-networking/utls"
	"verif/harness/hlib"
)

// wconn is the transport one side of a scenario writes to. It can (all chosen by TLC, per scenario)
//   - put a raw record on the wire in place of the idx-th record this side writes,
//   - make this side's writes block until the write deadline, or fail at once
//     (the peer stopped reading / the path is gone).
// With nothing set it is a plain pass-through to the buffered pipe.
type wconn struct {
	*hlib.BufConn
	mu      sync.Mutex
	mode    string // "" / "ok" | "blocked" | "failing"
	wdl     time.Time
	closed  chan struct{}
	once    sync.Once
	repIdx  int // record index to replace (0-based in this side's stream); -1: none
	rep     []byte
	nrec    int
	repDone bool
	repHdr  []int // [content type, length] of the record that was replaced
	odd     bool  // a Write that was not a whole number of records
}

func wrap(b *hlib.BufConn) *wconn { return &wconn{BufConn: b, repIdx: -1, closed: make(chan struct{})} }

func (w *wconn) setMode(m string) {
	w.mu.Lock()
	w.mode = m
	w.mu.Unlock()
}

var errWireFail = errors.New("verif transport: write failed (connection reset by peer)")

func (w *wconn) Write(p []byte) (int, error) {
	w.mu.Lock()
	mode, wdl := w.mode, w.wdl
	w.mu.Unlock()
	switch mode {
	case "failing":
		return 0, errWireFail
	case "blocked":
		var t <-chan time.Time
		if !wdl.IsZero() {
			t = time.After(time.Until(wdl))
		}
		select {
		case <-t:
			return 0, hlib.TimeoutErr{}
		case <-w.closed:
			return 0, io.ErrClosedPipe
		}
	}
	w.mu.Lock()
	out := p
	if w.repIdx >= 0 && !w.repDone {
		out = nil
		b := p
		for len(b) >= 5 {
			n := int(b[3])<<8 | int(b[4])
			if len(b) < 5+n {
				break
			}
			if w.nrec == w.repIdx {
				w.repHdr = []int{int(b[0]), n}
				out = append(out, w.rep...)
				w.repDone = true
			} else {
				out = append(out, b[:5+n]...)
			}
			w.nrec++
			b = b[5+n:]
		}
		if len(b) > 0 {
			w.odd = true
			out = append(out, b...)
		}
	}
	w.mu.Unlock()
	if _, err := w.BufConn.Write(out); err != nil {
		return 0, err
	}
	return len(p), nil
}

func (w *wconn) SetDeadline(t time.Time) error {
	w.mu.Lock()
	w.wdl = t
	w.mu.Unlock()
	return w.BufConn.SetDeadline(t)
}

func (w *wconn) SetWriteDeadline(t time.Time) error {
	w.mu.Lock()
	w.wdl = t
	w.mu.Unlock()
	return w.BufConn.SetWriteDeadline(t)
}

func (w *wconn) Close() error {
	w.once.Do(func() { close(w.closed) })
	return w.BufConn.Close()
}

// recHeaders: [content type, length] of every record in a written stream
func recHeaders(stream []byte) [][]int {
	out := [][]int{}
	for _, r := range hlib.Records(stream) {
		out = append(out, []int{int(r.Typ), len(r.Payload)})
	}
	return out
}

// ---------------------------------------------------------------- post-handshake phase (C33)

type postSpec struct {
	Seq       []string `json:"seq"`       // what the server sends after the handshake, in order
	Transport string   `json:"transport"` // the client -> server direction from then on: ok | blocked | failing
}

type callObs2 struct {
	Call    string `json:"call"`
	Outcome string `json:"outcome"` // ok | error | panic | hang
	Err     string `json:"err"`
	Panic   string `json:"panic"`
	PanicAt string `json:"panic_at"`
	StartMs int    `json:"start_ms"` // when the call was made, counted from the moment the deadline was set
	RetMs   int    `json:"ret_ms"`   // when it returned
}

type postObs struct {
	Ready    bool
	Sent     []string
	SentErr  []string
	Calls    []callObs2
	Deadline int
	Err      string
}

// timed runs one client call under recover and a watchdog; a call that has not returned when the
// watchdog fires is reported as hang (its goroutine is left behind).
func timed(name string, t0 time.Time, watchdog time.Time, f func() error) callObs2 {
	o := callObs2{Call: name, StartMs: int(time.Since(t0) / time.Millisecond)}
	if name == "Close" {
		// closeNotify gives itself 5 s to write the alert, whatever the connection deadline says
		if w := time.Now().Add(7500 * time.Millisecond); w.After(watchdog) {
			watchdog = w
		}
	}
	done := make(chan struct{})
	var so sideObs
	go func() {
		defer close(done)
		guard(&so, func() (string, error) { return name, f() })
	}()
	wait := time.Until(watchdog)
	if wait < 1500*time.Millisecond {
		wait = 1500 * time.Millisecond
	}
	select {
	case <-done:
		o.Outcome, o.Err, o.Panic, o.PanicAt = so.Outcome, so.Err, so.Panic, so.PanicAt
	case <-time.After(wait):
		o.Outcome = "hang"
	}
	o.RetMs = int(time.Since(t0) / time.Millisecond)
	return o
}

// oncePost: handshake + ping/pong, then the hostile side (side "s": the server, C33; side "c": the client, C34)
// sends ps.Seq and stops reading; the other side's outgoing direction becomes ps.Transport, a deadline is
// set, and the application there calls Read (until an error), Write, Close.
func (e *runEnv) oncePost(cs flightCase, ps postSpec, side string) (po postObs) {
	po.Sent, po.SentErr, po.Calls = []string{}, []string{}, []callObs2{}
	po.Deadline = int(e.deadline / time.Millisecond)
	id, err := hlib.LookupID(cs.Parrot)
	if err != nil {
		po.Err = err.Error()
		return
	}
	ccfg, scfg := e.configs(cs)
	var mu sync.Mutex
	var savedNST []byte
	nstNext := false
	tls.VerifSetOverride(scfg, &tls.VerifOverride{Outgoing: func(c *tls.Conn, data []byte) []byte {
		mu.Lock()
		defer mu.Unlock()
		if len(data) > 0 && data[0] == 4 && savedNST == nil {
			savedNST = append([]byte{}, data...)
		}
		if nstNext && len(data) > 0 && data[0] == 24 {
			// "new_session_ticket": the ticket of this connection once more, followed (same record) by the
			// KeyUpdate(not requested) that keeps both key schedules in step
			nstNext = false
			return append(append([]byte{}, savedNST...), data...)
		}
		return data
	}})
	defer tls.VerifFlightClearOverride(scfg)
	c0, s0 := hlib.BufPipe()
	wc, ws := wrap(c0), wrap(s0)
	dl := time.Now().Add(5 * time.Second)
	wc.SetDeadline(dl)
	ws.SetDeadline(dl)
	srv := tls.Server(ws, scfg)
	uc := tls.UClient(wc, ccfg, id)
	warm := make(chan error, 1)
	go func() {
		var so sideObs
		guard(&so, func() (string, error) {
			if err := srv.Handshake(); err != nil {
				return "handshake", err
			}
			buf := make([]byte, 4)
			if _, err := io.ReadFull(srv, buf); err != nil {
				return "read", err
			}
			_, err := srv.Write(pong)
			return "write", err
		})
		if so.Outcome != "ok" {
			warm <- errors.New("server warm-up: " + so.Outcome + " " + so.Err + so.Panic)
			return
		}
		warm <- nil
	}()
	var co sideObs
	guard(&co, func() (string, error) { return clientFlow(uc, false, nil) })
	werr := <-warm
	if co.Outcome != "ok" || werr != nil || uc.ConnectionState().Version != tls.VersionTLS13 {
		po.Err = "warm-up failed: client " + co.Outcome + " " + co.Err + co.Panic
		if werr != nil {
			po.Err += " / " + werr.Error()
		}
		wc.Close()
		ws.Close()
		return
	}
	po.Ready = true
	// who speaks (the hostile side) and who is judged (the application on the other side)
	type end struct {
		conn  *tls.Conn
		read  func([]byte) (int, error)
		write func([]byte) (int, error)
		close func() error
		wire  *wconn
	}
	cEnd := end{uc.Conn, uc.Read, uc.Write, uc.Close, wc}
	sEnd := end{srv, srv.Read, srv.Write, srv.Close, ws}
	speaker, listener := sEnd, cEnd
	if side == "c" {
		speaker, listener = cEnd, sEnd
	}
	// the hostile side speaks, then never reads again
	speaker.wire.SetDeadline(time.Now().Add(5 * time.Second))
	for _, el := range ps.Seq {
		var so sideObs
		guard(&so, func() (string, error) {
			switch el {
			case "key_update_requested":
				return el, tls.VerifFlightSendKeyUpdate(speaker.conn, true)
			case "key_update_not_requested":
				return el, tls.VerifFlightSendKeyUpdate(speaker.conn, false)
			case "new_session_ticket":
				mu.Lock()
				nstNext = savedNST != nil
				mu.Unlock()
				return el, tls.VerifFlightSendKeyUpdate(speaker.conn, false)
			case "application_data":
				_, err := speaker.write([]byte("data"))
				return el, err
			case "bad_mac_record":
				bad := make([]byte, 5+32)
				copy(bad, []byte{23, 3, 3, 0, 32})
				for i := 5; i < len(bad); i++ {
					bad[i] = byte(i * 7)
				}
				_, err := speaker.wire.BufConn.Write(bad)
				return el, err
			case "raw_garbage":
				junk := make([]byte, 24)
				for i := range junk {
					junk[i] = byte(0xff - i*3)
				}
				_, err := speaker.wire.BufConn.Write(junk)
				return el, err
			case "close":
				return el, speaker.close()
			}
			return el, errors.New("unknown element")
		})
		po.Sent = append(po.Sent, el)
		po.SentErr = append(po.SentErr, so.Err+so.Panic)
	}
	// the judged side's outgoing direction changes, the deadline is set, the application uses the connection
	listener.wire.setMode(ps.Transport)
	t0 := time.Now()
	listener.wire.SetDeadline(t0.Add(e.deadline))
	watchdog := t0.Add(e.deadline + 2500*time.Millisecond)
	buf := make([]byte, 64)
	for i := 0; i < 8; i++ {
		o := timed("Read", t0, watchdog, func() error { _, err := listener.read(buf); return err })
		po.Calls = append(po.Calls, o)
		if o.Outcome != "ok" {
			break
		}
	}
	po.Calls = append(po.Calls, timed("Write", t0, watchdog, func() error { _, err := listener.write(ping); return err }))
	po.Calls = append(po.Calls, timed("Close", t0, watchdog, func() error { return listener.close() }))
	wc.Close()
	ws.Close()
	return
}
