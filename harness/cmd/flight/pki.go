package main

import (
	"crypto/ecdh"
	"crypto/ecdsa"
	"crypto/elliptic"
	"crypto/rand"
	"crypto/rsa"
	"crypto/x509"
	"crypto/x509/pkix"
	"math/big"
	"sync"
	"time"

	tls "github.com/refraction-networking/utls"
	"verif/harness/hlib"
)

// A PKI that is generated once per check run and shipped (as DER) to every later harness process,
// so that the Certificate / CertificateVerify messages have the same layout in the capture run and
// in every scenario run (RSA leaves: PKCS#1/PSS signatures have a fixed length).
type pkiBlob struct {
	CA        []byte `json:"ca"`
	Leaf      []byte `json:"leaf"`
	LeafKey   []byte `json:"leaf_key"`
	Client    []byte `json:"client"`
	ClientKey []byte `json:"client_key"`
}

type pki struct {
	pool   *x509.CertPool
	leaf   tls.Certificate
	client tls.Certificate
}

func newPKIBlob() (*pkiBlob, error) {
	caKey, err := ecdsa.GenerateKey(elliptic.P256(), rand.Reader)
	if err != nil {
		return nil, err
	}
	caTpl := &x509.Certificate{SerialNumber: big.NewInt(1), Subject: pkix.Name{CommonName: "verif flight ca"},
		NotBefore: time.Unix(0, 0), NotAfter: time.Date(2100, 1, 1, 0, 0, 0, 0, time.UTC),
		IsCA: true, KeyUsage: x509.KeyUsageCertSign, BasicConstraintsValid: true}
	caDER, err := x509.CreateCertificate(rand.Reader, caTpl, caTpl, &caKey.PublicKey, caKey)
	if err != nil {
		return nil, err
	}
	ca, _ := x509.ParseCertificate(caDER)
	mk := func(serial int64, cn string, eku x509.ExtKeyUsage) ([]byte, []byte, error) {
		k, err := rsa.GenerateKey(rand.Reader, 2048)
		if err != nil {
			return nil, nil, err
		}
		tpl := &x509.Certificate{SerialNumber: big.NewInt(serial), Subject: pkix.Name{CommonName: cn}, DNSNames: []string{cn},
			NotBefore: time.Unix(0, 0), NotAfter: time.Date(2099, 1, 1, 0, 0, 0, 0, time.UTC),
			KeyUsage: x509.KeyUsageDigitalSignature | x509.KeyUsageKeyEncipherment, ExtKeyUsage: []x509.ExtKeyUsage{eku}}
		der, err := x509.CreateCertificate(rand.Reader, tpl, ca, &k.PublicKey, caKey)
		if err != nil {
			return nil, nil, err
		}
		kb, err := x509.MarshalPKCS8PrivateKey(k)
		return der, kb, err
	}
	b := &pkiBlob{CA: caDER}
	if b.Leaf, b.LeafKey, err = mk(2, "example.com", x509.ExtKeyUsageServerAuth); err != nil {
		return nil, err
	}
	if b.Client, b.ClientKey, err = mk(3, "client.example.com", x509.ExtKeyUsageClientAuth); err != nil {
		return nil, err
	}
	return b, nil
}

func (b *pkiBlob) load() (*pki, error) {
	ca, err := x509.ParseCertificate(b.CA)
	if err != nil {
		return nil, err
	}
	p := &pki{pool: x509.NewCertPool()}
	p.pool.AddCert(ca)
	lk, err := x509.ParsePKCS8PrivateKey(b.LeafKey)
	if err != nil {
		return nil, err
	}
	ck, err := x509.ParsePKCS8PrivateKey(b.ClientKey)
	if err != nil {
		return nil, err
	}
	p.leaf = tls.Certificate{Certificate: [][]byte{b.Leaf}, PrivateKey: lk}
	p.client = tls.Certificate{Certificate: [][]byte{b.Client}, PrivateKey: ck}
	return p, nil
}

// ECH keys of the test server (generated once per process; the parrots only send GREASE ECH, so the
// keys never have to match anything the client holds). The config ids are fixed: spec/Flight.tla names them.
var (
	echOnce sync.Once
	echKeys []tls.EncryptedClientHelloKey
)

func echServerKeys(two bool) []tls.EncryptedClientHelloKey {
	echOnce.Do(func() {
		for _, id := range []byte{7, 107} {
			k, err := ecdh.X25519().GenerateKey(rand.Reader)
			if err != nil {
				panic(err)
			}
			pub, name := k.PublicKey().Bytes(), "public.example"
			body := []byte{id, 0x00, 0x20, byte(len(pub) >> 8), byte(len(pub))}
			body = append(body, pub...)
			body = append(body, 0, 4, 0, 1, 0, 1) // cipher suites: HKDF-SHA256 / AES-128-GCM
			body = append(body, 64, byte(len(name)))
			body = append(body, name...)
			body = append(body, 0, 0)
			cfg := append([]byte{0xfe, 0x0d, byte(len(body) >> 8), byte(len(body))}, body...)
			echKeys = append(echKeys, tls.EncryptedClientHelloKey{Config: cfg, PrivateKey: k.Bytes(), SendAsRetry: true})
		}
	})
	if two {
		return echKeys
	}
	return echKeys[:1]
}

func init() {
	hlib.Register("parrots", func(in []byte, out *hlib.Out) error {
		ids := []string{}
		nalg := map[string]int{} // how many certificate compression algorithms the parrot advertises (read from its spec objects)
		for _, id := range hlib.ParrotIDs {
			ids = append(ids, id.Str())
			nalg[id.Str()] = len(probeClient(id, &tls.Config{ServerName: "example.com", OmitEmptyPsk: true}).compAlgs)
		}
		out.Emit(map[string]any{"ev": "Parrots", "ids": ids, "compalgs": nalg})
		return nil
	})
	hlib.Register("mkpki", func(in []byte, out *hlib.Out) error {
		b, err := newPKIBlob()
		if err != nil {
			return err
		}
		out.Emit(map[string]any{"ev": "PKI", "pki": b})
		return nil
	})
}
