package main

import (
	"crypto/ecdh"
	"crypto/rand"
	"encoding/json"
	"errors"
	"fmt"
	"io"
	"reflect"
	"strings"
	"sync"
	"time"

	tls "github.com/refraction-networking/utls"
	"golang.org/x/crypto/cryptobyte"
	"verif/harness/hlib"
)

// ---------------------------------------------------------------- code -> model constants

// echids dumps, for every predefined ClientHelloID and HelloGolang, what the hello built WITHOUT an ECH config
// looks like as far as the ECH model needs it: the Go type names of the extension objects (TLC decides from them
// which IDs can carry a real ECH extension), the supported groups and the key-share groups.
func init() {
	hlib.Register("echids", func(in []byte, out *hlib.Out) error {
		ids := append([]tls.ClientHelloID{}, hlib.ParrotIDs...)
		ids = append(ids, tls.HelloGolang)
		res := map[string]any{}
		for _, id := range ids {
			c, _ := hlib.BufPipe()
			uc := tls.UClient(c, &tls.Config{ServerName: "probe.example", OmitEmptyPsk: true}, id)
			ent := map[string]any{"kinds": []string{}, "groups": []int{}, "shares": []int{}, "suites": []int{}}
			if err := uc.BuildHandshakeState(); err != nil {
				return fmt.Errorf("%s: BuildHandshakeState: %w", id.Str(), err)
			}
			kinds := []string{}
			for _, e := range uc.Extensions {
				t := reflect.TypeOf(e)
				for t.Kind() == reflect.Ptr {
					t = t.Elem()
				}
				kinds = append(kinds, t.Name())
			}
			ent["kinds"] = kinds
			if h := uc.HandshakeState.Hello; h != nil {
				ent["groups"] = hlib.U16s(h.SupportedCurves)
				ent["suites"] = hlib.U16s(h.CipherSuites)
				sh := []int{}
				for _, k := range h.KeyShares {
					sh = append(sh, int(k.Group))
				}
				ent["shares"] = sh
			}
			if id == tls.HelloGolang {
				res["Golang"] = ent
			} else {
				res[id.Str()] = ent
			}
		}
		out.Emit(map[string]any{"ev": "IDs", "ids": res})
		return nil
	})
}

// ---------------------------------------------------------------- scenarios

// One ECH scenario, as emitted by TLC (spec/ECH_MC.tla). Names are byte sequences (TLA+ has no string->bytes).
type echScn struct {
	Sc      int    `json:"sc"`
	ID      string `json:"id"`
	SName   []int  `json:"sname"`   // Config.ServerName (the secret name)
	PubName []int  `json:"pubname"` // public_name of the ECH config
	CfgID   int    `json:"cfgid"`   // config_id
	AEAD    int    `json:"aead"`    // HPKE AEAD id of the single cipher suite of the config (KDF = HKDF-SHA256)
	MaxLen  int    `json:"maxlen"`  // maximum_name_length
	Server  string `json:"server"`  // accept | hrr | reject | reject_hrr | noech
	HRRGrp  int    `json:"hrr_group"`
	Suite   int    `json:"suite"`  // TLS 1.3 cipher suite the server selects (hook ForceSuite13); 0 = its own choice
	Cookie  int    `json:"cookie"` // length of the cookie the HelloRetryRequest carries (0 = none)
	NRetry  int    `json:"nretry"` // rejecting server: number of its configs flagged SendAsRetry (it has one more that is not)
	Cert    string `json:"cert"`   // sn | pub | both | neither : names the server's certificate is valid for
	MinVer  int    `json:"minver"` // client Config.MinVersion (0 = unset)
	// shape of the client's ECHConfigList around the config built from the fields above:
	// single | two_usable (followed by another usable config with another key and config_id) |
	// usable_skipped (followed by an entry of an unknown version and one with an unsupported KEM) | skipped_usable (preceded by those)
	Shape string `json:"shape"`
	// how the caller drives the UConn: plain (Handshake only) | build (BuildHandshakeState, then Handshake) |
	// build2 (BuildHandshakeState twice, then Handshake) | build_random (BuildHandshakeState, SetClientRandom, then Handshake) |
	// build_setsni (BuildHandshakeState, SetSNI(Config.ServerName), then Handshake)
	Usage string `json:"usage"`
}

func marshalECHConfig(id uint8, pub []byte, publicName string, maxLen uint8, aead uint16) []byte {
	return marshalECHConfigKEM(id, 0x0020, pub, publicName, maxLen, aead) // DHKEM(X25519, HKDF-SHA256)
}

func marshalECHConfigKEM(id uint8, kem uint16, pub []byte, publicName string, maxLen uint8, aead uint16) []byte {
	b := cryptobyte.NewBuilder(nil)
	b.AddUint16(0xfe0d)
	b.AddUint16LengthPrefixed(func(b *cryptobyte.Builder) {
		b.AddUint8(id)
		b.AddUint16(kem)
		b.AddUint16LengthPrefixed(func(b *cryptobyte.Builder) { b.AddBytes(pub) })
		b.AddUint16LengthPrefixed(func(b *cryptobyte.Builder) {
			b.AddUint16(0x0001) // HKDF-SHA256
			b.AddUint16(aead)
		})
		b.AddUint8(maxLen)
		b.AddUint8LengthPrefixed(func(b *cryptobyte.Builder) { b.AddBytes([]byte(publicName)) })
		b.AddUint16(0)
	})
	return b.BytesOrPanic()
}

func configList(cfgs ...[]byte) []byte {
	b := cryptobyte.NewBuilder(nil)
	b.AddUint16LengthPrefixed(func(b *cryptobyte.Builder) {
		for _, c := range cfgs {
			b.AddBytes(c)
		}
	})
	return b.BytesOrPanic()
}

func errType(err error) string {
	if err == nil {
		return "none"
	}
	var cve *tls.CertificateVerificationError
	if errors.As(err, &cve) {
		return "CertificateVerificationError"
	}
	var ech *tls.ECHRejectionError
	if errors.As(err, &ech) {
		return "ECHRejectionError"
	}
	return "other"
}

func errOrigin(err error) string {
	if err == nil {
		return "none"
	}
	s := err.Error()
	if strings.HasPrefix(s, "remote error:") || strings.Contains(s, ": remote error:") {
		return "alert"
	}
	var ae tls.AlertError
	if errors.As(err, &ae) {
		return "alert"
	}
	var te hlib.TimeoutErr
	if errors.Is(err, io.EOF) || errors.Is(err, io.ErrClosedPipe) || errors.As(err, &te) {
		return "transport"
	}
	return "local"
}

type certStore struct {
	mu sync.Mutex
	pk *hlib.PKI
	m  map[string]tls.Certificate
}

func (cs *certStore) get(names ...string) tls.Certificate {
	key := strings.Join(names, "|")
	cs.mu.Lock()
	defer cs.mu.Unlock()
	if c, ok := cs.m[key]; ok {
		return c
	}
	c := cs.pk.Std("ecdsa", names...)
	cs.m[key] = c
	return c
}

func runECH(s *echScn, raw json.RawMessage, store *certStore) []map[string]any {
	var mu sync.Mutex
	var evs []map[string]any
	add := func(e map[string]any) {
		mu.Lock()
		e["sc"] = s.Sc
		evs = append(evs, e)
		mu.Unlock()
	}
	fail := func(err error) []map[string]any {
		return []map[string]any{{"ev": "Error", "sc": s.Sc, "err": err.Error()}}
	}
	id, err := hlib.LookupID(s.ID)
	if err != nil {
		return fail(err)
	}
	sname, pubname := string(hlib.Unints(s.SName)), string(hlib.Unints(s.PubName))

	// the client's ECH config (and the key that opens it)
	key, err := ecdh.X25519().GenerateKey(rand.Reader)
	if err != nil {
		return fail(err)
	}
	cfg := marshalECHConfig(uint8(s.CfgID), key.PublicKey().Bytes(), pubname, uint8(s.MaxLen), uint16(s.AEAD))
	// entries around it
	unknownVersion := []byte{0xfe, 0x0a, 0, 10, 1, 2, 3, 4, 5, 6, 7, 8, 9, 10}
	p256, err := ecdh.P256().GenerateKey(rand.Reader)
	if err != nil {
		return fail(err)
	}
	badKEM := marshalECHConfigKEM(uint8(s.CfgID+50), 0x0010, p256.PublicKey().Bytes(), pubname, uint8(s.MaxLen), uint16(s.AEAD)) // DHKEM(P-256): not implemented
	var list []byte
	switch s.Shape {
	case "", "single":
		list = configList(cfg)
	case "two_usable":
		k2, err := ecdh.X25519().GenerateKey(rand.Reader)
		if err != nil {
			return fail(err)
		}
		list = configList(cfg, marshalECHConfig(uint8(s.CfgID+100), k2.PublicKey().Bytes(), pubname, uint8(s.MaxLen), uint16(s.AEAD)))
	case "usable_skipped":
		list = configList(cfg, unknownVersion, badKEM)
	case "skipped_usable":
		list = configList(unknownVersion, badKEM, cfg)
	default:
		return fail(fmt.Errorf("unknown list shape %q", s.Shape))
	}

	// the server
	var names []string
	switch s.Cert {
	case "sn":
		names = []string{sname}
	case "pub":
		names = []string{pubname}
	case "both":
		names = []string{sname, pubname}
	case "neither":
		names = []string{"unrelated.example"}
	default:
		return fail(fmt.Errorf("unknown cert kind %q", s.Cert))
	}
	scfg := &tls.Config{Certificates: []tls.Certificate{store.get(names...)}}
	srvKeys := []map[string]any{}
	switch s.Server {
	case "accept", "hrr":
		scfg.EncryptedClientHelloKeys = []tls.EncryptedClientHelloKey{{Config: cfg, PrivateKey: key.Bytes(), SendAsRetry: true}}
	case "reject", "reject_hrr":
		// a server that has other keys: NRetry configs offered for retry and one that is not
		for k := 0; k <= s.NRetry; k++ {
			other, err := ecdh.X25519().GenerateKey(rand.Reader)
			if err != nil {
				return fail(err)
			}
			oc := marshalECHConfig(uint8(s.CfgID+k), other.PublicKey().Bytes(), pubname, uint8(s.MaxLen), uint16(s.AEAD))
			scfg.EncryptedClientHelloKeys = append(scfg.EncryptedClientHelloKeys,
				tls.EncryptedClientHelloKey{Config: oc, PrivateKey: other.Bytes(), SendAsRetry: k < s.NRetry})
		}
	case "noech":
	default:
		return fail(fmt.Errorf("unknown server behaviour %q", s.Server))
	}
	for _, k := range scfg.EncryptedClientHelloKeys {
		srvKeys = append(srvKeys, map[string]any{"config": hlib.Ints(k.Config), "retry": k.SendAsRetry})
	}
	if s.Server == "hrr" || s.Server == "reject_hrr" {
		scfg.CurvePreferences = []tls.CurveID{tls.CurveID(s.HRRGrp)}
	}
	scfg.GetConfigForClient = func(chi *tls.ClientHelloInfo) (*tls.Config, error) {
		add(map[string]any{"ev": "SrvName", "name": hlib.Ints([]byte(chi.ServerName))})
		return nil, nil
	}
	var hrrCookie []byte
	if s.Cookie > 0 && (s.Server == "hrr" || s.Server == "reject_hrr") {
		hrrCookie = make([]byte, s.Cookie)
		if _, err := rand.Read(hrrCookie); err != nil {
			return fail(err)
		}
	}
	tls.VerifSetOverride(scfg, &tls.VerifOverride{
		HRRCookie:    hrrCookie,
		ForceSuite13: uint16(s.Suite),
		Emit: func(ev string, data []byte) {
			add(map[string]any{"ev": "H9", "what": ev, "raw": hlib.Ints(data)})
		},
		Outgoing: func(c *tls.Conn, data []byte) []byte {
			if len(data) > 0 && (data[0] == 2 || data[0] == 8) {
				add(map[string]any{"ev": "SMsg", "t": int(data[0]), "raw": hlib.Ints(data)})
			}
			return data
		},
	})

	var m map[string]any
	if err := json.Unmarshal(raw, &m); err != nil {
		return fail(err)
	}
	m["ev"] = "Scn"
	m["cfg_list"] = hlib.Ints(list)
	m["srv_keys"] = srvKeys
	add(m)

	ccfg := &tls.Config{ServerName: sname, RootCAs: store.pk.Pool, EncryptedClientHelloConfigList: list, MinVersion: uint16(s.MinVer)}
	var prep func(uc *tls.UConn) error
	switch s.Usage {
	case "", "plain":
	case "build":
		prep = func(uc *tls.UConn) error { return uc.BuildHandshakeState() }
	case "build2":
		prep = func(uc *tls.UConn) error {
			if err := uc.BuildHandshakeState(); err != nil {
				return err
			}
			return uc.BuildHandshakeState()
		}
	case "build_random":
		prep = func(uc *tls.UConn) error {
			if err := uc.BuildHandshakeState(); err != nil {
				return err
			}
			rnd := make([]byte, 32)
			if _, err := rand.Read(rnd); err != nil {
				return err
			}
			return uc.SetClientRandom(rnd)
		}
	case "build_setsni":
		prep = func(uc *tls.UConn) error {
			if err := uc.BuildHandshakeState(); err != nil {
				return err
			}
			uc.SetSNI(sname)
			return nil
		}
	default:
		return fail(fmt.Errorf("unknown usage %q", s.Usage))
	}
	var pend []byte
	r := hlib.RunHandshake(ccfg, scfg, id, hlib.HSOpts{Timeout: 8 * time.Second, Echo: []int{5}, Prep: prep,
		OnClientWrite: func(b []byte) {
			// the transport sees whole records; keep a tail just in case
			pend = append(pend, b...)
			for len(pend) >= 5 {
				n := int(pend[3])<<8 | int(pend[4])
				if len(pend) < 5+n {
					break
				}
				add(map[string]any{"ev": "CRec", "typ": int(pend[0]), "vers": int(pend[1])<<8 | int(pend[2]), "payload": hlib.Ints(pend[5 : 5+n])})
				pend = pend[5+n:]
			}
		}})
	res := map[string]any{"ev": "Result", "cok": r.CErr == nil, "sok": r.SErr == nil, "cerr": hlib.ErrStr(r.CErr), "serr": hlib.ErrStr(r.SErr),
		"errtype": errType(r.CErr), "corigin": errOrigin(r.CErr), "cpanic": r.CPanic, "echo": r.EchoOK, "tail": len(pend),
		"retry": []int{}, "prep": errors.Is(r.CErr, hlib.ErrPrep)}
	var rej *tls.ECHRejectionError
	if errors.As(r.CErr, &rej) {
		res["retry"] = hlib.Ints(rej.RetryConfigList)
	}
	state := func(cs tls.ConnectionState) map[string]any {
		return map[string]any{"ech": cs.ECHAccepted, "sni": hlib.Ints([]byte(cs.ServerName)), "complete": cs.HandshakeComplete, "version": int(cs.Version), "suite": int(cs.CipherSuite)}
	}
	func() {
		defer func() {
			if p := recover(); p != nil {
				res["cpanic"] = fmt.Sprint(p)
			}
		}()
		res["cs"] = state(tls.ConnectionState{})
		res["ss"] = state(tls.ConnectionState{})
		if r.UC != nil {
			res["cs"] = state(r.UC.ConnectionState())
		}
		if r.Srv != nil {
			res["ss"] = state(r.Srv.ConnectionState())
		}
	}()
	add(res)
	return evs
}

func init() {
	hlib.Register("ech", func(in []byte, out *hlib.Out) error {
		var req struct{ Scenarios []json.RawMessage }
		if err := json.Unmarshal(in, &req); err != nil {
			return err
		}
		store := &certStore{pk: hlib.NewPKI(), m: map[string]tls.Certificate{}}
		res := make([][]map[string]any, len(req.Scenarios))
		hlib.Parallel(len(req.Scenarios), func(i int) {
			var s echScn
			if err := json.Unmarshal(req.Scenarios[i], &s); err != nil {
				res[i] = []map[string]any{{"ev": "Error", "err": err.Error()}}
				return
			}
			res[i] = runECH(&s, req.Scenarios[i], store)
		})
		for _, evs := range res {
			for _, e := range evs {
				out.Emit(e)
			}
		}
		return nil
	})
}
