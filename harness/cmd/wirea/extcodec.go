package main

import (
	"encoding/json"
	"errors"
	"fmt"
	"io"
	"reflect"

	tls "github.com/refraction-networking/utls"
	"verif/harness/hlib"
)

// errName classifies an error value by identity only (no judgement): "" nil, "EOF", "short", else "other:<text>".
func errName(err error) string {
	switch {
	case err == nil:
		return ""
	case errors.Is(err, io.EOF):
		return "EOF"
	case errors.Is(err, io.ErrShortBuffer):
		return "short"
	}
	return "other:" + err.Error()
}

const sentinel = 0xAA

// readObs calls e.Read on a buffer of `size` bytes: the first `zero` bytes are zero (as the buffer
// MarshalClientHello hands to extensions), the rest carries a sentinel. Logged: n, the error, the n bytes
// returned and how many bytes outside the returned region no longer hold what the harness put there.
func readObs(e tls.TLSExtension, rel string, size, zero int) map[string]any {
	buf := make([]byte, size)
	for i := zero; i < size; i++ {
		if i >= 0 {
			buf[i] = sentinel
		}
	}
	ob := map[string]any{"rel": rel, "size": size, "n": 0, "err": "", "bytes": []int{}, "dirty": 0, "panic": ""}
	func() {
		defer func() {
			if p := recover(); p != nil {
				ob["panic"] = fmt.Sprint(p)
			}
		}()
		n, err := e.Read(buf)
		ob["n"] = n
		ob["err"] = errName(err)
		if n >= 0 && n <= size {
			ob["bytes"] = hlib.Ints(buf[:n])
			dirty := 0
			for i := n; i < size; i++ {
				want := byte(0)
				if i >= zero {
					want = sentinel
				}
				if buf[i] != want {
					dirty++
				}
			}
			ob["dirty"] = dirty
		}
	}()
	return ob
}

func safeLen(e tls.TLSExtension) (n int, pn string) {
	defer func() {
		if p := recover(); p != nil {
			pn = fmt.Sprint(p)
		}
	}()
	return e.Len(), ""
}

// freshLike returns the object a decoder would write into: what the library's own ExtensionFromID hands out
// for the extension id found on the wire if that is of the same Go type, else a zero value of the type.
func freshLike(e tls.TLSExtension, id uint16) tls.TLSExtension {
	if x := tls.ExtensionFromID(id); x != nil && reflect.TypeOf(x) == reflect.TypeOf(e) {
		return x
	}
	return reflect.New(reflect.TypeOf(e).Elem()).Interface().(tls.TLSExtension)
}

type extScn struct {
	Sc     int            `json:"sc"`
	D      map[string]any `json:"d"`
	Sizes  []string       `json:"sizes"`
	Update []int          `json:"update"`
}

func relSize(rel string, l int) (size, zero int, ok bool) {
	switch rel {
	case "L":
		return l, l, true
	case "L-1":
		return l - 1, l - 1, l-1 >= 0
	case "L/2":
		return l / 2, l / 2, true
	case "0":
		return 0, 0, true
	case "L+3":
		return l + 3, l, true
	}
	return 0, 0, false
}

func runExtScn(s extScn) map[string]any {
	ev := map[string]any{"ev": "Ext", "sc": s.Sc, "kind": fmt.Sprint(s.D["kind"]), "built": false, "builderr": "", "len": 0, "lenpanic": "", "reads": []any{},
		"haswrite": false, "wrote": false, "wn": 0, "werr": "", "wpanic": "", "len2": 0, "read2": readObsEmpty(), "desc2": map[string]any{"kind": "none"},
		"updates": []any{}}
	e, err := buildExt(s.D)
	if err != nil {
		ev["builderr"] = err.Error()
		return ev
	}
	ev["built"] = true
	l, pn := safeLen(e)
	ev["len"], ev["lenpanic"] = l, pn
	if pn != "" {
		return ev
	}
	var reads []any
	var full map[string]any
	for _, rel := range s.Sizes {
		size, zero, ok := relSize(rel, l)
		if !ok {
			continue
		}
		ob := readObs(e, rel, size, zero)
		if rel == "L" {
			full = ob
		}
		reads = append(reads, ob)
	}
	ev["reads"] = reads
	target := e
	_, isW := e.(tls.TLSExtensionWriter)
	ev["haswrite"] = isW
	if isW && full != nil && full["panic"] == "" {
		if n, _ := full["n"].(int); n >= 4 {
			b := hlib.Unints(full["bytes"].([]int))
			id := uint16(b[0])<<8 | uint16(b[1])
			fresh := freshLike(e, id).(tls.TLSExtensionWriter)
			body := append([]byte{}, b[4:]...)
			ev["wrote"] = true
			func() {
				defer func() {
					if p := recover(); p != nil {
						ev["wpanic"] = fmt.Sprint(p)
					}
				}()
				wn, werr := fresh.Write(body)
				ev["wn"], ev["werr"] = wn, errName(werr)
			}()
			if ev["wpanic"] == "" {
				l2, pn2 := safeLen(fresh)
				ev["len2"] = l2
				if pn2 != "" {
					ev["wpanic"] = "Len after Write: " + pn2
				} else {
					ev["read2"] = readObs(fresh, "L+3", l2+3, l2)
					ev["desc2"] = dumpExt(fresh)
					target = fresh
				}
			}
		}
	}
	if up, ok := target.(interface{ Update(int) }); ok {
		var ups []any
		for _, u := range s.Update {
			up.Update(u)
			lu, _ := safeLen(target)
			ups = append(ups, map[string]any{"u": u, "len": lu, "read": readObs(target, "L+3", lu+3, lu), "onfresh": target != e})
		}
		if ups != nil {
			ev["updates"] = ups
		}
	}
	return ev
}

func readObsEmpty() map[string]any {
	return map[string]any{"rel": "none", "size": 0, "n": 0, "err": "", "bytes": []int{}, "dirty": 0, "panic": ""}
}

// extcodec: {"scns":[{sc, d:{kind,f,..}, sizes:[...], update:[...]}]} -> one "Ext" event per scenario.
// kinds: {} -> {"ev":"Kinds","ext":[...],"writers":[...]} (the registry, so that the runner can check that the
// TLC enumeration covers every registered type).
func init() {
	hlib.Register("extcodec", func(in []byte, out *hlib.Out) error {
		var req struct{ Scns []extScn }
		if err := json.Unmarshal(in, &req); err != nil {
			return err
		}
		res := make([]map[string]any, len(req.Scns))
		hlib.Parallel(len(req.Scns), func(i int) { res[i] = runExtScn(req.Scns[i]) })
		for _, e := range res {
			out.Emit(e)
		}
		return nil
	})
	hlib.Register("kinds", func(in []byte, out *hlib.Out) error {
		var writers []string
		for _, k := range extKindOrder {
			if _, ok := reflect.New(extKinds[k]).Interface().(tls.TLSExtensionWriter); ok {
				writers = append(writers, k)
			}
		}
		tps := []string{}
		for k := range tpKinds {
			tps = append(tps, k)
		}
		out.Emit(map[string]any{"ev": "Kinds", "ext": extKindOrder, "writers": writers, "tp": tps})
		return nil
	})
}
