// wirea: harness of the wire family (C08 extension codec, C02 ClientHello validity).
// It builds library objects from TLC-generated descriptors by reflection, calls the library and logs
// what it observed. No expected values, no grammar, no reference encoders: TLC judges the log.
// usage: wirea <command> <in.json> <out.ndjson>
package main

import "verif/harness/hlib"

func main() { hlib.Main() }
