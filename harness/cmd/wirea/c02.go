package main

import (
	"bytes"
	"context"
	"encoding/json"
	"fmt"
	"os"
	"os/exec"
	"strings"
	"sync"
	"time"

	tls "github.com/refraction-networking/utls"
	"verif/harness/hlib"
)

// One C02 case: a source of a ClientHelloSpec, a Config variation. The harness builds the UConn, calls
// BuildHandshakeState and Handshake (or UQUICConn.Start) and logs err / Hello.Raw / the ClientHello on the wire.
type c02Src struct {
	Type    string            `json:"type"`    // id | random | custom | fp | cap | json | import
	ID      string            `json:"id"`      // id, random
	Seed    int               `json:"seed"`    // random: PRNG seed number
	Spec    *c02Spec          `json:"spec"`    // custom
	Of      *c02Src           `json:"of"`      // fp: the source whose emitted hello is fingerprinted
	Raw     []int             `json:"raw"`     // cap: a TLS record holding a ClientHello
	Blunt   bool              `json:"blunt"`   // fp, cap: Fingerprinter.AllowBluntMimicry
	Pad     bool              `json:"pad"`     // fp, cap: Fingerprinter.AlwaysAddPadding
	RealPSK bool              `json:"realpsk"` // fp, cap: Fingerprinter.RealPSKResumption
	Data    []int             `json:"data"`    // json: bytes of a JSON ClientHelloSpec
	Map     map[string][]int  `json:"map"`     // import: ImportTLSClientHello field map
	Extra   map[string]string `json:"-"`
}

type c02Spec struct {
	Min    int              `json:"min"`
	Max    int              `json:"max"`
	Suites []int            `json:"suites"`
	Comp   []int            `json:"comp"`
	Exts   []map[string]any `json:"exts"`
}

type c02Cfg struct {
	SNI     []int   `json:"sni"`
	Skip    bool    `json:"skipverify"`
	ALPN    [][]int `json:"alpn"`
	Cache   string  `json:"cache"` // none | empty | tls12 | tls13
	OmitPSK bool    `json:"omitpsk"`
	QUIC    bool    `json:"quic"`
}

// c02Edit: an edit applied between BuildHandshakeState and a second marshal (MarshalClientHello, then Handshake).
type c02Edit struct {
	Op   string `json:"op"`   // sni | sni-remove | add-ext | del-ext | random
	Name []int  `json:"name"` // sni: the new server name; add-ext: the data of the GenericExtension put in front
}

// c02HRR: a real handshake against the in-tree server restricted to one group (HelloRetryRequest when the client
// has no share for it), optionally with a cookie in the HelloRetryRequest.
type c02HRR struct {
	Group  int `json:"group"`
	Cookie int `json:"cookie"`
}

type c02Case struct {
	Sc   int      `json:"sc"`
	Src  c02Src   `json:"src"`
	Cfg  c02Cfg   `json:"cfg"`
	Edit *c02Edit `json:"edit"`
	HRR  *c02HRR  `json:"hrr"`
}

func applyEdit(u *tls.UConn, e *c02Edit) error {
	switch e.Op {
	case "sni":
		u.SetSNI(string(hlib.Unints(e.Name)))
	case "sni-remove":
		return u.RemoveSNIExtension()
	case "add-ext":
		u.Extensions = append([]tls.TLSExtension{&tls.GenericExtension{Id: 0x1235, Data: hlib.Unints(e.Name)}}, u.Extensions...)
	case "del-ext":
		if len(u.Extensions) > 0 {
			u.Extensions = u.Extensions[1:]
		}
	case "random":
		r := make([]byte, 32)
		for i := range r {
			r[i] = byte(0xA0 + i)
		}
		return u.SetClientRandom(r)
	default:
		return fmt.Errorf("unknown edit %q", e.Op)
	}
	return nil
}

func sameInts(a, b []int) bool {
	if len(a) != len(b) {
		return false
	}
	for i := range a {
		if a[i] != b[i] {
			return false
		}
	}
	return true
}

var c02pki = sync.OnceValue(func() *hlib.PKI { return hlib.NewPKI() })
var c02cert = sync.OnceValue(func() tls.Certificate { return c02pki().Std("ecdsa", "example.com") })

func (c c02Cfg) config() *tls.Config {
	cfg := &tls.Config{ServerName: string(hlib.Unints(c.SNI)), InsecureSkipVerify: c.Skip, OmitEmptyPsk: c.OmitPSK}
	for _, p := range c.ALPN {
		cfg.NextProtos = append(cfg.NextProtos, string(hlib.Unints(p)))
	}
	if c.QUIC {
		cfg.MinVersion = tls.VersionTLS13
	}
	return cfg
}

// warmCache completes one real handshake (plain Go ClientHello) at the requested version with the same
// ServerName, so that the cache holds a stored session under the key the case's connection will look up.
func warmCache(cfg *tls.Config, vers uint16) (tls.ClientSessionCache, string) {
	cache := tls.NewLRUClientSessionCache(8)
	w := cfg.Clone()
	w.ClientSessionCache = cache
	w.InsecureSkipVerify = true
	w.MinVersion, w.MaxVersion = vers, vers
	w.NextProtos = nil
	scfg := &tls.Config{Certificates: []tls.Certificate{c02cert()}, MinVersion: vers, MaxVersion: vers}
	r := hlib.RunHandshake(w, scfg, tls.HelloGolang, hlib.HSOpts{Echo: []int{1}, Timeout: 5 * time.Second})
	if r.CErr != nil || r.SErr != nil {
		return cache, fmt.Sprintf("warm-up handshake failed: client %v server %v", r.CErr, r.SErr)
	}
	return cache, ""
}

func buildSpec(s *c02Spec) (*tls.ClientHelloSpec, error) {
	spec := &tls.ClientHelloSpec{TLSVersMin: uint16(s.Min), TLSVersMax: uint16(s.Max)}
	for _, x := range s.Suites {
		spec.CipherSuites = append(spec.CipherSuites, uint16(x))
	}
	spec.CompressionMethods = hlib.Unints(s.Comp)
	for _, d := range s.Exts {
		e, err := buildExt(d)
		if err != nil {
			return nil, err
		}
		spec.Extensions = append(spec.Extensions, e)
	}
	return spec, nil
}

func prngSeed(n int) *tls.PRNGSeed {
	var s tls.PRNGSeed
	for i := range s {
		s[i] = byte(n >> (8 * (i % 4)) * (i/4 + 1))
	}
	return &s
}

// firstRecord returns the first TLS record (header included) of a written stream.
func firstRecord(stream []byte) []byte {
	if len(stream) < 5 {
		return nil
	}
	n := int(stream[3])<<8 | int(stream[4])
	if len(stream) < 5+n {
		return nil
	}
	return stream[:5+n]
}

// resolve turns a source into (ClientHelloID, spec to ApplyPreset or nil). Errors of the library's importers are
// reported as srcerr (nothing is emitted then); harnessErr marks input the harness itself cannot use.
func resolve(src *c02Src) (id tls.ClientHelloID, spec *tls.ClientHelloSpec, srcerr string, harnessErr error) {
	switch src.Type {
	case "id":
		id, harnessErr = hlib.LookupID(src.ID)
		return
	case "random":
		id, harnessErr = hlib.LookupID(src.ID)
		id.Seed = prngSeed(src.Seed)
		return
	case "custom":
		spec, harnessErr = buildSpec(src.Spec)
		return tls.HelloCustom, spec, "", harnessErr
	case "fp", "cap":
		var rec []byte
		if src.Type == "cap" {
			rec = hlib.Unints(src.Raw)
		} else {
			iid, ispec, ierr, herr := resolve(src.Of)
			if herr != nil {
				return id, nil, "", herr
			}
			if ierr != "" {
				return id, nil, "inner: " + ierr, nil
			}
			cfg := &tls.Config{ServerName: "example.com", OmitEmptyPsk: true}
			var perr error
			_, wire, _, pn := wireHelloOf(func(c *hlib.BufConn) *tls.UConn {
				u := tls.UClient(c, cfg, iid)
				if ispec != nil {
					if perr = u.ApplyPreset(ispec); perr != nil {
						return nil
					}
				}
				return u
			})
			rec = firstRecord(wire)
			if rec == nil {
				return id, nil, fmt.Sprintf("inner: nothing emitted (%v %s)", perr, pn), nil
			}
		}
		f := &tls.Fingerprinter{AllowBluntMimicry: src.Blunt, AlwaysAddPadding: src.Pad, RealPSKResumption: src.RealPSK}
		sp, err := f.FingerprintClientHello(rec)
		if err != nil {
			return id, nil, "fingerprint: " + err.Error(), nil
		}
		return tls.HelloCustom, sp, "", nil
	case "json":
		sp := &tls.ClientHelloSpec{}
		if err := sp.UnmarshalJSON(hlib.Unints(src.Data)); err != nil {
			return id, nil, "json: " + err.Error(), nil
		}
		return tls.HelloCustom, sp, "", nil
	case "import":
		m := map[string][]byte{}
		for k, v := range src.Map {
			m[k] = hlib.Unints(v)
		}
		sp := &tls.ClientHelloSpec{}
		if err := sp.ImportTLSClientHello(m); err != nil {
			return id, nil, "import: " + err.Error(), nil
		}
		return tls.HelloCustom, sp, "", nil
	}
	return id, nil, "", fmt.Errorf("unknown source type %q", src.Type)
}

// wireHelloOf starts a real handshake on a pipe whose peer hangs up as soon as the client has written something.
func wireHelloOf(mk func(c *hlib.BufConn) *tls.UConn) (u *tls.UConn, wire []byte, err error, panicked string) {
	c, s := hlib.BufPipe()
	c.SetDeadline(time.Now().Add(3 * time.Second))
	var once sync.Once
	c.OnWrite = func([]byte) { once.Do(func() { go s.Close() }) }
	func() {
		defer func() {
			if p := recover(); p != nil {
				panicked = fmt.Sprint(p)
			}
		}()
		u = mk(c)
		if u != nil {
			err = u.Handshake()
		}
	}()
	c.Close()
	return u, c.Written(), err, panicked
}

func runC02(cs c02Case) (ev map[string]any, herr error) {
	t0 := time.Now()
	defer func() {
		if ev != nil {
			ev["ms"] = int(time.Since(t0).Milliseconds())
		}
	}()
	ev = map[string]any{"ev": "Hello", "sc": cs.Sc, "stage": "src", "srcerr": "", "preseterr": "", "builderr": "", "built": false,
		"raw": []int{}, "started": false, "hserr": "", "onwire": false, "wire": []int{}, "wiresame": false, "nwire": 0, "panic": "", "warm": "",
		"edited": false, "editerr": "", "raw2": []int{}, "wire2": []int{}, "serr": ""}
	defer func() {
		if p := recover(); p != nil {
			ev["panic"] = fmt.Sprint(p)
		}
	}()
	id, spec, srcerr, herr := resolve(&cs.Src)
	if herr != nil {
		return ev, herr
	}
	if srcerr != "" {
		ev["srcerr"] = srcerr
		return ev, nil
	}
	cfg := cs.Cfg.config()
	switch cs.Cfg.Cache {
	case "empty":
		cfg.ClientSessionCache = tls.NewLRUClientSessionCache(8)
	case "tls12", "tls13":
		v := uint16(tls.VersionTLS12)
		if cs.Cfg.Cache == "tls13" {
			v = tls.VersionTLS13
		}
		cache, werr := warmCache(cfg, v)
		cfg.ClientSessionCache = cache
		ev["warm"] = werr
	}
	if cs.Cfg.QUIC && !inChild {
		// UQUICConn.Start runs the handshake in a goroutine of the library: a panic there cannot be recovered by
		// the caller and kills the process. QUIC cases therefore run in a child process of their own.
		return runInChild(cs, ev), nil
	}
	if cs.Cfg.QUIC {
		ev["stage"] = "quic"
		uq := tls.UQUICClient(&tls.QUICConfig{TLSConfig: cfg}, id)
		if spec != nil {
			if err := uq.ApplyPreset(spec); err != nil {
				ev["preseterr"] = err.Error()
				return ev, nil
			}
		}
		uq.SetTransportParameters([]byte{1, 2, 0x40, 100})
		ctx, cancel := context.WithTimeout(context.Background(), 3*time.Second)
		defer cancel()
		ev["started"] = true
		err := uq.Start(ctx)
		ev["hserr"] = hlib.ErrStr(err)
		if err == nil {
			for {
				e := uq.NextEvent()
				if e.Kind == tls.QUICNoEvent {
					break
				}
				if e.Kind == tls.QUICWriteData && ev["onwire"] == false {
					ev["onwire"] = true
					ev["wire"] = hlib.Ints(e.Data)
					ev["nwire"] = 1
				}
			}
		}
		uq.Close()
		return ev, nil
	}
	if cs.HRR != nil {
		ev["stage"] = "hrr"
		scfg := &tls.Config{Certificates: []tls.Certificate{c02cert()}, CurvePreferences: []tls.CurveID{tls.CurveID(cs.HRR.Group)}}
		if cs.HRR.Cookie > 0 {
			ck := make([]byte, cs.HRR.Cookie)
			for i := range ck {
				ck[i] = byte(0xC0 + i%32)
			}
			tls.VerifSetOverride(scfg, &tls.VerifOverride{HRRCookie: ck})
		}
		r := hlib.RunHandshake(cfg, scfg, id, hlib.HSOpts{Timeout: 5 * time.Second, Prep: func(u *tls.UConn) error {
			if spec != nil {
				return u.ApplyPreset(spec)
			}
			return nil
		}})
		ev["started"] = true
		ev["hserr"], ev["serr"], ev["panic"] = hlib.ErrStr(r.CErr), hlib.ErrStr(r.SErr), r.CPanic
		chs := hlib.ClientHellos(r.CWire)
		ev["nwire"] = len(chs)
		if len(chs) > 0 {
			ev["onwire"] = true
			ev["wire"] = hlib.Ints(chs[0])
		}
		if len(chs) > 1 {
			ev["wire2"] = hlib.Ints(chs[1])
		}
		return ev, nil
	}
	var stage = "preset"
	u, wire, hserr, pn := wireHelloOf(func(c *hlib.BufConn) *tls.UConn {
		u := tls.UClient(c, cfg, id)
		ev["stage"] = stage
		if spec != nil {
			if err := u.ApplyPreset(spec); err != nil {
				ev["preseterr"] = err.Error()
				return nil
			}
		}
		stage = "build"
		ev["stage"] = stage
		if err := u.BuildHandshakeState(); err != nil {
			ev["builderr"] = err.Error()
			return nil
		}
		ev["built"] = true
		if u.HandshakeState.Hello != nil {
			ev["raw"] = hlib.Ints(u.HandshakeState.Hello.Raw)
		}
		if cs.Edit != nil {
			// edit the built hello, marshal again: every Raw the library hands out is logged
			stage = "edit"
			ev["stage"] = stage
			if err := applyEdit(u, cs.Edit); err != nil {
				ev["editerr"] = err.Error()
				return nil
			}
			if err := u.MarshalClientHello(); err != nil {
				ev["editerr"] = err.Error()
				return nil
			}
			ev["edited"] = true
			if u.HandshakeState.Hello != nil {
				ev["raw2"] = hlib.Ints(u.HandshakeState.Hello.Raw)
			}
		}
		stage = "handshake"
		ev["stage"] = stage
		ev["started"] = true
		return u
	})
	_ = u
	ev["panic"] = pn
	ev["hserr"] = hlib.ErrStr(hserr)
	chs := hlib.ClientHellos(wire)
	ev["nwire"] = len(chs)
	if len(chs) > 0 {
		ev["onwire"] = true
		w := hlib.Ints(chs[0])
		last, _ := ev["raw"].([]int)
		if ev["edited"] == true {
			last, _ = ev["raw2"].([]int)
		}
		if sameInts(last, w) {
			ev["wiresame"] = true // the harness does not ship the same bytes twice (TLC's JSON reader is the bottleneck)
		} else {
			ev["wire"] = w
		}
	}
	return ev, nil
}

var inChild bool

func runInChild(cs c02Case, ev map[string]any) map[string]any {
	ev["stage"] = "quic"
	dir, err := os.MkdirTemp("", "wirea-child-")
	if err != nil {
		panic(err)
	}
	defer os.RemoveAll(dir)
	in, _ := json.Marshal(map[string]any{"cases": []c02Case{cs}})
	if err := os.WriteFile(dir+"/in.json", in, 0o600); err != nil {
		panic(err)
	}
	cmd := exec.Command(os.Args[0], "c02child", dir+"/in.json", dir+"/out.ndjson")
	var stderr bytes.Buffer
	cmd.Stderr = &stderr
	cmd.Env = append(os.Environ(), "GOMAXPROCS=2")
	runErr := cmd.Run()
	if out, rerr := os.ReadFile(dir + "/out.ndjson"); runErr == nil && rerr == nil {
		var got map[string]any
		if json.Unmarshal(bytes.TrimSpace(out), &got) == nil && got["ev"] == "Hello" {
			return got
		}
	}
	msg := strings.TrimSpace(stderr.String())
	if i := strings.Index(msg, "\n"); i > 0 {
		msg = msg[:i]
	}
	ev["started"] = true
	ev["panic"] = "process died: " + msg
	return ev
}

// runChunkInChild runs several QUIC cases in one child process; nil if the child did not deliver every event.
func runChunkInChild(part []c02Case) []map[string]any {
	dir, err := os.MkdirTemp("", "wirea-chunk-")
	if err != nil {
		panic(err)
	}
	defer os.RemoveAll(dir)
	in, _ := json.Marshal(map[string]any{"cases": part})
	if err := os.WriteFile(dir+"/in.json", in, 0o600); err != nil {
		panic(err)
	}
	cmd := exec.Command(os.Args[0], "c02child", dir+"/in.json", dir+"/out.ndjson")
	cmd.Env = append(os.Environ(), "GOMAXPROCS=2")
	if cmd.Run() != nil {
		return nil
	}
	out, err := os.ReadFile(dir + "/out.ndjson")
	if err != nil {
		return nil
	}
	var evs []map[string]any
	for _, line := range bytes.Split(bytes.TrimSpace(out), []byte("\n")) {
		var got map[string]any
		if json.Unmarshal(line, &got) != nil || got["ev"] != "Hello" {
			return nil
		}
		evs = append(evs, got)
	}
	if len(evs) != len(part) {
		return nil
	}
	for j := range evs {
		if sc, _ := evs[j]["sc"].(float64); int(sc) != part[j].Sc {
			return nil
		}
	}
	return evs
}

// c02: {"cases":[{sc, src, cfg}]} -> one "Hello" event per case, in order.
func init() {
	hlib.Register("c02", func(in []byte, out *hlib.Out) error {
		var req struct{ Cases []c02Case }
		if err := json.Unmarshal(in, &req); err != nil {
			return err
		}
		res := make([]map[string]any, len(req.Cases))
		errs := make([]error, len(req.Cases))
		// QUIC cases go to child processes in chunks; a chunk whose child dies is repeated one case per child
		var quic, plain []int
		for i, c := range req.Cases {
			if c.Cfg.QUIC {
				quic = append(quic, i)
			} else {
				plain = append(plain, i)
			}
		}
		const chunk = 48
		nchunks := (len(quic) + chunk - 1) / chunk
		hlib.Parallel(len(plain)+nchunks, func(k int) {
			if k < len(plain) {
				i := plain[k]
				res[i], errs[i] = runC02(req.Cases[i])
				return
			}
			k -= len(plain)
			idx := quic[k*chunk : min((k+1)*chunk, len(quic))]
			part := make([]c02Case, len(idx))
			for j, i := range idx {
				part[j] = req.Cases[i]
			}
			if evs := runChunkInChild(part); evs != nil {
				for j, i := range idx {
					res[i] = evs[j]
				}
				return
			}
			for _, i := range idx {
				res[i], errs[i] = runC02(req.Cases[i])
			}
		})
		for i, e := range res {
			if errs[i] != nil {
				return fmt.Errorf("case %d: %w", req.Cases[i].Sc, errs[i])
			}
			out.Emit(e)
		}
		return nil
	})
	hlib.Register("c02child", func(in []byte, out *hlib.Out) error {
		inChild = true
		var req struct{ Cases []c02Case }
		if err := json.Unmarshal(in, &req); err != nil {
			return err
		}
		for _, c := range req.Cases {
			ev, err := runC02(c)
			if err != nil {
				return err
			}
			out.Emit(ev)
		}
		return nil
	})
	hlib.Register("ids", func(in []byte, out *hlib.Out) error {
		ids := []string{}
		for _, id := range hlib.ParrotIDs {
			ids = append(ids, id.Str())
		}
		out.Emit(map[string]any{"ev": "IDs", "parrots": ids, "randomized": []string{tls.HelloRandomized.Str(), tls.HelloRandomizedALPN.Str(), tls.HelloRandomizedNoALPN.Str()},
			"golang": tls.HelloGolang.Str()})
		return nil
	})
}
