package main

import (
	"fmt"
	"reflect"

	tls "github.com/refraction-networking/utls"
	"verif/harness/hlib"
)

// ---------------------------------------------------------------- registry: kind name -> Go type

var extKinds = map[string]reflect.Type{}
var tpKinds = map[string]reflect.Type{}
var extKindOrder []string

var tpIface = reflect.TypeOf((*tls.TransportParameter)(nil)).Elem()

func regExt(vs ...tls.TLSExtension) {
	for _, v := range vs {
		t := reflect.TypeOf(v).Elem()
		extKinds[t.Name()] = t
		extKindOrder = append(extKindOrder, t.Name())
	}
}

func regTP(vs ...any) {
	for _, v := range vs {
		t := reflect.TypeOf(v)
		if t.Kind() == reflect.Ptr {
			t = t.Elem()
		}
		tpKinds[t.Name()] = t
	}
}

func init() {
	// every built-in TLSExtension type (u_tls_extensions.go, u_pre_shared_key.go, u_ech.go, u_session_ticket.go)
	regExt(&tls.SNIExtension{}, &tls.StatusRequestExtension{}, &tls.SupportedCurvesExtension{}, &tls.SupportedPointsExtension{},
		&tls.SignatureAlgorithmsExtension{}, &tls.StatusRequestV2Extension{}, &tls.SignatureAlgorithmsCertExtension{},
		&tls.ALPNExtension{}, &tls.ApplicationSettingsExtension{}, &tls.ApplicationSettingsExtensionNew{}, &tls.SCTExtension{},
		&tls.GenericExtension{}, &tls.ExtendedMasterSecretExtension{}, &tls.UtlsGREASEExtension{}, &tls.UtlsPaddingExtension{},
		&tls.UtlsCompressCertExtension{}, &tls.KeyShareExtension{}, &tls.QUICTransportParametersExtension{},
		&tls.PSKKeyExchangeModesExtension{}, &tls.SupportedVersionsExtension{}, &tls.CookieExtension{}, &tls.NPNExtension{},
		&tls.RenegotiationInfoExtension{}, &tls.FakeChannelIDExtension{}, &tls.FakeRecordSizeLimitExtension{},
		&tls.FakeTokenBindingExtension{}, &tls.FakeDelegatedCredentialsExtension{}, &tls.UtlsPreSharedKeyExtension{},
		&tls.FakePreSharedKeyExtension{}, &tls.GREASEEncryptedClientHelloExtension{}, &tls.SessionTicketExtension{})
	// every TransportParameter type (u_quic_transport_parameters.go)
	regTP(&tls.GREASETransportParameter{}, tls.MaxIdleTimeout(0), tls.MaxUDPPayloadSize(0), tls.InitialMaxData(0),
		tls.InitialMaxStreamDataBidiLocal(0), tls.InitialMaxStreamDataBidiRemote(0), tls.InitialMaxStreamDataUni(0),
		tls.InitialMaxStreamsBidi(0), tls.InitialMaxStreamsUni(0), tls.MaxAckDelay(0), &tls.DisableActiveMigration{},
		tls.ActiveConnectionIDLimit(0), tls.InitialSourceConnectionID(nil), &tls.VersionInformation{},
		tls.PaddingTransportParameter(nil), tls.MaxDatagramFrameSize(0), &tls.GREASEQUICBit{}, &tls.FakeQUICTransportParameter{})
}

// ---------------------------------------------------------------- JSON value -> Go value (inverse of toJ)

func num(j any) (uint64, error) {
	switch x := j.(type) {
	case float64:
		if x < 0 {
			return uint64(int64(x)), nil
		}
		return uint64(x), nil
	case []any: // big-endian byte sequence (values >= 2^31 are shipped this way)
		var u uint64
		if len(x) > 8 {
			return 0, fmt.Errorf("number of %d bytes", len(x))
		}
		for _, b := range x {
			f, ok := b.(float64)
			if !ok {
				return 0, fmt.Errorf("bad byte %v", b)
			}
			u = u<<8 | uint64(byte(f))
		}
		return u, nil
	}
	return 0, fmt.Errorf("not a number: %T", j)
}

func byteSeq(j any) ([]byte, error) {
	a, ok := j.([]any)
	if !ok {
		return nil, fmt.Errorf("not a byte sequence: %T", j)
	}
	out := make([]byte, len(a))
	for i, b := range a {
		f, ok := b.(float64)
		if !ok {
			return nil, fmt.Errorf("bad byte %v", b)
		}
		out[i] = byte(f)
	}
	return out, nil
}

// fromJ sets v (settable) from the JSON value j.
func fromJ(v reflect.Value, j any) error {
	switch v.Kind() {
	case reflect.Bool:
		b, ok := j.(bool)
		if !ok {
			return fmt.Errorf("bool expected, got %T", j)
		}
		v.SetBool(b)
	case reflect.String:
		b, err := byteSeq(j)
		if err != nil {
			return err
		}
		v.SetString(string(b))
	case reflect.Uint8, reflect.Uint16, reflect.Uint32, reflect.Uint64, reflect.Uint:
		u, err := num(j)
		if err != nil {
			return err
		}
		v.SetUint(u)
	case reflect.Int, reflect.Int64, reflect.Int32, reflect.Int16, reflect.Int8:
		u, err := num(j)
		if err != nil {
			return err
		}
		v.SetInt(int64(u))
	case reflect.Slice:
		a, ok := j.([]any)
		if !ok {
			return fmt.Errorf("sequence expected, got %T", j)
		}
		s := reflect.MakeSlice(v.Type(), len(a), len(a))
		for i := range a {
			if v.Type().Elem().Kind() == reflect.Interface {
				x, err := ifaceFromJ(v.Type().Elem(), a[i])
				if err != nil {
					return err
				}
				s.Index(i).Set(x)
			} else if err := fromJ(s.Index(i), a[i]); err != nil {
				return err
			}
		}
		v.Set(s)
	case reflect.Struct:
		m, ok := j.(map[string]any)
		if !ok {
			return fmt.Errorf("record expected, got %T", j)
		}
		for k, x := range m {
			f := v.FieldByName(k)
			if !f.IsValid() || !f.CanSet() {
				return fmt.Errorf("%s has no settable field %q", v.Type().Name(), k)
			}
			if err := fromJ(f, x); err != nil {
				return fmt.Errorf("%s.%s: %w", v.Type().Name(), k, err)
			}
		}
	default:
		return fmt.Errorf("unsupported field kind %s", v.Kind())
	}
	return nil
}

// ifaceFromJ builds an element of an interface-typed list (TransportParameter) from {kind, f} / {kind, v}.
func ifaceFromJ(it reflect.Type, j any) (reflect.Value, error) {
	m, ok := j.(map[string]any)
	if !ok {
		return reflect.Value{}, fmt.Errorf("record expected for interface element")
	}
	kb, err := byteSeqOrString(m["kind"])
	if err != nil {
		return reflect.Value{}, err
	}
	t, ok := tpKinds[kb]
	if !ok || it != tpIface {
		return reflect.Value{}, fmt.Errorf("unknown element kind %q", kb)
	}
	p := reflect.New(t)
	if f, ok := m["f"]; ok {
		if err := fromJ(p.Elem(), f); err != nil {
			return reflect.Value{}, err
		}
	}
	if x, ok := m["v"]; ok {
		if err := fromJ(p.Elem(), x); err != nil {
			return reflect.Value{}, err
		}
	}
	if t.Implements(it) {
		return p.Elem(), nil
	}
	if p.Type().Implements(it) {
		return p, nil
	}
	return reflect.Value{}, fmt.Errorf("%s does not implement %s", t, it)
}

func byteSeqOrString(j any) (string, error) {
	if s, ok := j.(string); ok {
		return s, nil
	}
	b, err := byteSeq(j)
	return string(b), err
}

// buildExt constructs an extension from its descriptor {kind, f, [style, padto]}: registry kind -> zero value,
// exported fields set by reflection. The padding functor is the only non-data field; it is named by "style".
func buildExt(d map[string]any) (tls.TLSExtension, error) {
	kind, _ := d["kind"].(string)
	t, ok := extKinds[kind]
	if !ok {
		return nil, fmt.Errorf("unknown extension kind %q", kind)
	}
	p := reflect.New(t)
	if f, ok := d["f"]; ok {
		if err := fromJ(p.Elem(), f); err != nil {
			return nil, err
		}
	}
	e, ok := p.Interface().(tls.TLSExtension)
	if !ok {
		return nil, fmt.Errorf("%s is not a TLSExtension", kind)
	}
	if pe, ok := e.(*tls.UtlsPaddingExtension); ok {
		switch s, _ := d["style"].(string); s {
		case "boring":
			pe.GetPaddingLen = tls.BoringPaddingStyle
		case "padto":
			n, err := num(d["padto"])
			if err != nil {
				return nil, err
			}
			pe.GetPaddingLen = tls.AlwaysPadToLen(int(n))
		}
	}
	return e, nil
}

// ---------------------------------------------------------------- Go value -> JSON value (as verifdrv dump.go,
// plus: interface-typed list elements as {kind, f|v}, promoted fields of embedded exported structs)

func toJ(v reflect.Value) any {
	switch v.Kind() {
	case reflect.Bool:
		return v.Bool()
	case reflect.String:
		return hlib.Ints([]byte(v.String()))
	case reflect.Uint8, reflect.Uint16, reflect.Uint32, reflect.Uint64, reflect.Uint:
		u := v.Uint()
		if u >= 1<<31 {
			return be8(u)
		}
		return int(u)
	case reflect.Int, reflect.Int64, reflect.Int32, reflect.Int16, reflect.Int8:
		return int(v.Int())
	case reflect.Slice, reflect.Array:
		out := make([]any, 0, v.Len())
		for i := 0; i < v.Len(); i++ {
			out = append(out, toJ(v.Index(i)))
		}
		return out
	case reflect.Interface, reflect.Ptr:
		if v.IsNil() {
			return map[string]any{"kind": "nil"}
		}
		x := v.Elem()
		for x.Kind() == reflect.Ptr || x.Kind() == reflect.Interface {
			if x.IsNil() {
				return map[string]any{"kind": "nil"}
			}
			x = x.Elem()
		}
		if x.Kind() == reflect.Struct {
			return map[string]any{"kind": x.Type().Name(), "f": toJ(x)}
		}
		return map[string]any{"kind": x.Type().Name(), "v": toJ(x)}
	case reflect.Struct:
		m := map[string]any{}
		structFields(v, m)
		return m
	}
	return "?" + v.Kind().String()
}

func structFields(v reflect.Value, m map[string]any) {
	t := v.Type()
	for i := 0; i < v.NumField(); i++ {
		f := t.Field(i)
		if !f.IsExported() {
			continue
		}
		k := f.Type.Kind()
		if f.Anonymous {
			if k == reflect.Struct {
				structFields(v.Field(i), m)
			}
			continue
		}
		if k == reflect.Func || k == reflect.Ptr || k == reflect.Interface || k == reflect.Map || k == reflect.Chan {
			continue
		}
		m[f.Name] = toJ(v.Field(i))
	}
}

func be8(u uint64) []int {
	r := make([]int, 8)
	for i := 7; i >= 0; i-- {
		r[i] = int(u & 0xff)
		u >>= 8
	}
	return r
}

func dumpExt(e tls.TLSExtension) map[string]any {
	v := reflect.ValueOf(e)
	if v.Kind() == reflect.Ptr {
		v = v.Elem()
	}
	d := map[string]any{"kind": v.Type().Name(), "f": toJ(v)}
	if p, ok := e.(*tls.UtlsPaddingExtension); ok {
		style := "none"
		if p.GetPaddingLen != nil {
			if reflect.ValueOf(p.GetPaddingLen).Pointer() == reflect.ValueOf(tls.BoringPaddingStyle).Pointer() {
				style = "boring"
			} else {
				style = "other"
			}
		}
		d["style"] = style
	}
	return d
}
