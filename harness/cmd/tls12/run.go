package main

import (
	"bytes"
	"context"
	"crypto/rand"
	"crypto/rsa"
	"crypto/x509"
	"crypto/x509/pkix"
	"encoding/json"
	"errors"
	"fmt"
	"io"
	"math/big"
	"reflect"
	"runtime/debug"
	"strings"
	"sync"
	"time"

	tls "github.com/refraction-networking/utls"
	"verif/harness/hlib"
)

// ---------------------------------------------------------------- scenario format (written by TLC, spec/TLS12_MC.tla)

// One output item of an edit: the anchor message itself, an earlier natural message of this handshake, or a
// synthesized message.
type item struct {
	K       string   `json:"k"` // self | nat | syn
	T       int      `json:"t"` // nat: type of the buffered natural message; syn: type of the message to make
	Rw      []rwOp   `json:"rw"`
	Certs   []string `json:"certs"`   // syn Certificate: labels of the certificates to list
	Body    []int    `json:"body"`    // syn CertificateStatus response / NewSessionTicket ticket
	Types   []int    `json:"types"`   // syn CertificateRequest
	Sigalgs []int    `json:"sigalgs"` // syn CertificateRequest
}

// An edit replaces the n-th natural message of type At of one server handshake by Out (possibly nothing).
type edit struct {
	At  int    `json:"at"`
	Out []item `json:"out"`
}

type srvCfg struct {
	Ver        int      `json:"ver"`
	Suite      int      `json:"suite"`
	Group      int      `json:"group"`
	Cert       string   `json:"cert"` // A (ecdsa) | Arsa | B (another valid one, ecdsa) | Brsa | wrongname | expired | untrusted
	ALPN       []string `json:"alpn"`
	ClientAuth int      `json:"client_auth"` // tls.ClientAuthType
	Tickets    bool     `json:"tickets"`
	OCSP       bool     `json:"ocsp"`
	SCT        bool     `json:"sct"`
}

// One handshake on a connection: the initial one (k = 0) or a renegotiation the server starts.
type hsScn struct {
	Srv   srvCfg `json:"srv"`
	Edits []edit `json:"edits"`
	NoReq bool   `json:"noreq"` // renegotiation: do not send the HelloRequest (the server just waits for a ClientHello)
}

type connScn struct {
	ID       string   `json:"id"`       // ClientHelloID of this connection's UConn
	Variant  []string `json:"variant"`  // extension kinds removed from the parrot's spec (custom spec)
	Reneg    string   `json:"reneg"`    // "" as the spec says | never | once | freely
	OI       int      `json:"oi"`       // index of (id, variant, reneg) in the offers table the specification reads
	Insecure bool     `json:"insecure"` // Config.InsecureSkipVerify on this connection
	HS       []hsScn  `json:"hs"`
}

type scenario struct {
	Sc         int       `json:"sc"`
	CCert      string    `json:"ccert"` // "" | ecdsa | rsa | cb_ecdsa | cb_rsa | cb_empty | cb_err
	Cache      bool      `json:"cache"`
	SNI        string    `json:"sni"`
	DeadlineMs int       `json:"deadline_ms"`
	Conns      []connScn `json:"conns"`
}

// ---------------------------------------------------------------- certificates

type certSet struct {
	pk     *hlib.PKI
	certs  map[string]tls.Certificate
	byDER  map[string]string
	client map[string]tls.Certificate
}

func newCertSet() *certSet {
	pk := hlib.NewPKI()
	other := hlib.NewPKI()
	cs := &certSet{pk: pk, certs: map[string]tls.Certificate{}, byDER: map[string]string{}, client: map[string]tls.Certificate{}}
	names := []string{"example.com"}
	cs.certs["A"] = pk.Std("ecdsa", names...)
	cs.certs["Arsa"] = pk.Std("rsa", names...)
	cs.certs["B"] = pk.Std("ecdsa", names...)
	// (hlib issues every RSA leaf for one shared key; "another valid certificate" must carry another key)
	cs.certs["Brsa"] = otherRSALeaf(pk, names)
	cs.certs["wrongname"] = pk.Std("ecdsa", "other.example")
	cs.certs["wrongname_rsa"] = pk.Std("rsa", "other.example")
	cs.certs["expired"] = pk.Leaf("ecdsa", names, time.Now().Add(-48*time.Hour), time.Now().Add(-24*time.Hour))
	cs.certs["expired_rsa"] = pk.Leaf("rsa", names, time.Now().Add(-48*time.Hour), time.Now().Add(-24*time.Hour))
	cs.certs["untrusted"] = other.Std("ecdsa", names...)
	cs.certs["untrusted_rsa"] = other.Std("rsa", names...)
	for k, c := range cs.certs {
		cs.byDER[string(c.Certificate[0])] = k
	}
	cs.client["ecdsa"] = pk.Std("ecdsa", "client.example")
	cs.client["rsa"] = pk.Std("rsa", "client.example")
	for k, c := range cs.client {
		cs.byDER[string(c.Certificate[0])] = "client_" + k
	}
	return cs
}

// otherRSALeaf issues a leaf for a fresh RSA key under the test CA.
func otherRSALeaf(pk *hlib.PKI, names []string) tls.Certificate {
	key, err := rsa.GenerateKey(rand.Reader, 2048)
	if err != nil {
		panic(err)
	}
	tpl := &x509.Certificate{SerialNumber: big.NewInt(time.Now().UnixNano()), Subject: pkix.Name{CommonName: names[0]}, DNSNames: names,
		NotBefore: time.Now().Add(-2 * time.Hour), NotAfter: time.Now().Add(48 * time.Hour),
		KeyUsage: x509.KeyUsageDigitalSignature | x509.KeyUsageKeyEncipherment, ExtKeyUsage: []x509.ExtKeyUsage{x509.ExtKeyUsageServerAuth}}
	der, err := x509.CreateCertificate(rand.Reader, tpl, pk.CA, &key.PublicKey, pk.CAKey)
	if err != nil {
		panic(err)
	}
	return tls.Certificate{Certificate: [][]byte{der}, PrivateKey: key}
}

func (cs *certSet) label(der []byte) string {
	if l, ok := cs.byDER[string(der)]; ok {
		return l
	}
	return "unknown"
}

// labels of the certificates listed in a Certificate message (TLS <= 1.2 layout)
func (cs *certSet) labelsOf(msg []byte) []string {
	out := []string{}
	if len(msg) < 7 || msg[0] != 11 {
		return out
	}
	b := msg[7:]
	for len(b) >= 3 {
		n := int(b[0])<<16 | int(b[1])<<8 | int(b[2])
		if 3+n > len(b) {
			break
		}
		out = append(out, cs.label(b[3:3+n]))
		b = b[3+n:]
	}
	return out
}

// ---------------------------------------------------------------- event log of one scenario

type evlog struct {
	mu  sync.Mutex
	sc  int
	evs []map[string]any
}

func (l *evlog) emit(m map[string]any) {
	l.mu.Lock()
	m["sc"] = l.sc
	l.evs = append(l.evs, m)
	l.mu.Unlock()
}

// headOf is what the log keeps of a handshake message: everything, except for the messages whose body the
// specification does not read (certificates are identified by label, key-exchange values and signatures are opaque).
func headOf(m []byte) []byte {
	if len(m) > 16 && (m[0] == 11 || m[0] == 12 || m[0] == 15 || m[0] == 16) {
		return m[:16]
	}
	if len(m) > 6000 {
		return m[:6000]
	}
	return m
}

// panicSite returns the library frames of the stack of a recovered panic (called from the deferred function).
func panicSite() string {
	var out []string
	for _, l := range strings.Split(string(debug.Stack()), "\n") {
		l = strings.TrimSpace(l)
		if i := strings.Index(l, " +0x"); i > 0 {
			l = l[:i]
		}
		// file:line lines that are neither the Go runtime / standard library nor the harness: the library under test
		if strings.HasPrefix(l, "/") && strings.Contains(l, ".go:") && !strings.Contains(l, "harness/") && !strings.Contains(l, "/src/") {
			if j := strings.LastIndex(l, "/"); j >= 0 {
				l = l[j+1:]
			}
			out = append(out, l)
		}
		if len(out) >= 6 {
			break
		}
	}
	return strings.Join(out, " < ")
}

func errOrigin(err error) string {
	if err == nil {
		return "none"
	}
	s := err.Error()
	if strings.HasPrefix(s, "remote error:") || strings.Contains(s, ": remote error:") {
		return "alert"
	}
	var ae tls.AlertError
	if errors.As(err, &ae) {
		return "alert"
	}
	var te hlib.TimeoutErr
	if errors.As(err, &te) {
		return "timeout"
	}
	if errors.Is(err, io.EOF) || errors.Is(err, io.ErrClosedPipe) || errors.Is(err, io.ErrUnexpectedEOF) {
		return "transport"
	}
	return "local"
}

func (cs *certSet) stateJSON(s tls.ConnectionState) map[string]any {
	leaf := ""
	if len(s.PeerCertificates) > 0 {
		leaf = cs.label(s.PeerCertificates[0].Raw)
	}
	scts := []any{}
	for _, x := range s.SignedCertificateTimestamps {
		scts = append(scts, hlib.Ints(x))
	}
	return map[string]any{"version": int(s.Version), "suite": int(s.CipherSuite), "resumed": s.DidResume,
		"proto": hlib.Ints([]byte(s.NegotiatedProtocol)), "complete": s.HandshakeComplete, "leaf": leaf,
		"npeer": len(s.PeerCertificates), "nchains": len(s.VerifiedChains), "ocsp": hlib.Ints(s.OCSPResponse), "scts": scts,
		"unique": hlib.Ints(s.TLSUnique), "sni": hlib.Ints([]byte(s.ServerName)), "curve": int(tls.VerifCurveID(s))}
}

// ---------------------------------------------------------------- the client's ClientHelloSpec

var variantKinds = map[string]string{
	"no_ems": "*tls.ExtendedMasterSecretExtension", "no_ticket": "*tls.SessionTicketExtension",
	"no_ri": "*tls.RenegotiationInfoExtension", "no_alpn": "*tls.ALPNExtension",
	"no_status": "*tls.StatusRequestExtension", "no_sct": "*tls.SCTExtension",
}

func customSpec(id tls.ClientHelloID, variant []string, reneg string) (*tls.ClientHelloSpec, error) {
	spec, err := tls.UTLSIdToSpec(id)
	if err != nil {
		return nil, err
	}
	drop := map[string]bool{}
	for _, v := range variant {
		k, ok := variantKinds[v]
		if !ok {
			return nil, fmt.Errorf("unknown variant %q", v)
		}
		drop[k] = true
	}
	var exts []tls.TLSExtension
	for _, e := range spec.Extensions {
		if drop[reflect.TypeOf(e).String()] {
			continue
		}
		if ri, ok := e.(*tls.RenegotiationInfoExtension); ok {
			switch reneg {
			case "never":
				ri.Renegotiation = tls.RenegotiateNever
			case "once":
				ri.Renegotiation = tls.RenegotiateOnceAsClient
			case "freely":
				ri.Renegotiation = tls.RenegotiateFreelyAsClient
			}
		}
		exts = append(exts, e)
	}
	spec.Extensions = exts
	if drop["*tls.RenegotiationInfoExtension"] {
		var cs []uint16
		for _, s := range spec.CipherSuites {
			if s != 0x00ff {
				cs = append(cs, s)
			}
		}
		spec.CipherSuites = cs
	}
	return &spec, nil
}

func newClient(conn *hlib.BufConn, ccfg *tls.Config, name string, variant []string, reneg string) (*tls.UConn, error) {
	id, err := hlib.LookupID(name)
	if err != nil {
		return nil, err
	}
	if len(variant) == 0 && reneg == "" {
		return tls.UClient(conn, ccfg, id), nil
	}
	spec, err := customSpec(id, variant, reneg)
	if err != nil {
		return nil, err
	}
	uc := tls.UClient(conn, ccfg, tls.HelloCustom)
	if err := uc.ApplyPreset(spec); err != nil {
		return nil, err
	}
	return uc, nil
}

// ---------------------------------------------------------------- one connection

var ticketKey = func() (k [32]byte) { copy(k[:], "verif-tls12-ticket-key-verif-tls12"); return }()

func (cs *certSet) serverConfig(sc *srvCfg) *tls.Config {
	cert := cs.certs[sc.Cert]
	if sc.OCSP {
		cert.OCSPStaple = []byte("verif-ocsp-staple")
	}
	if sc.SCT {
		cert.SignedCertificateTimestamps = [][]byte{[]byte("verif-sct-1"), []byte("verif-sct-22")}
	}
	cfg := &tls.Config{Certificates: []tls.Certificate{cert}, NextProtos: sc.ALPN,
		MinVersion: uint16(sc.Ver), MaxVersion: uint16(sc.Ver), ClientAuth: tls.ClientAuthType(sc.ClientAuth),
		SessionTicketsDisabled: !sc.Tickets, ClientCAs: cs.pk.Pool}
	if sc.Suite != 0 {
		cfg.CipherSuites = []uint16{uint16(sc.Suite)}
	}
	if sc.Group != 0 {
		cfg.CurvePreferences = []tls.CurveID{tls.CurveID(sc.Group)}
	}
	cfg.SetSessionTicketKeys([][32]byte{ticketKey})
	return cfg
}

// serverSide holds what the server's outgoing hook needs: which handshake it is in, the natural messages seen
// so far in it, the Finished verify_data of both sides of the previous handshake.
type serverSide struct {
	log            *evlog
	cs             *certSet
	conn           int
	hs             []hsScn
	h              int            // index of the current handshake
	nat            map[int][]byte // natural messages of the current handshake by type
	used           map[int]bool   // edits already applied in the current handshake
	prevCF, prevSF []byte
	curCF, curSF   []byte
	mu             sync.Mutex
}

// reportUnused logs the edits of the current handshake whose anchor never came: the scenario's idea of the
// server's natural flight was wrong (or the server stopped early).
func (ss *serverSide) reportUnused() {
	if ss.h < len(ss.hs) {
		for i, e := range ss.hs[ss.h].Edits {
			if !ss.used[i] {
				ss.log.emit(map[string]any{"ev": "Unused", "conn": ss.conn, "h": ss.h, "at": e.At})
			}
		}
	}
}

func (ss *serverSide) nextHandshake() {
	ss.mu.Lock()
	ss.reportUnused()
	ss.h++
	ss.nat = map[int][]byte{}
	ss.used = map[int]bool{}
	ss.prevCF, ss.prevSF = ss.curCF, ss.curSF
	ss.mu.Unlock()
}

func (ss *serverSide) clientFinished(vd []byte) {
	ss.mu.Lock()
	ss.curCF = append([]byte{}, vd...)
	ss.mu.Unlock()
}

func (ss *serverSide) make(it item, anchor []byte) ([]byte, []string, bool) {
	var muts []string
	for _, r := range it.Rw {
		muts = append(muts, r.F)
	}
	switch it.K {
	case "self":
		return rewrite(anchor, it.Rw, ss.prevCF, ss.prevSF), muts, true
	case "nat":
		d, ok := ss.nat[it.T]
		if !ok {
			return nil, nil, false
		}
		return rewrite(d, it.Rw, ss.prevCF, ss.prevSF), muts, true
	case "syn":
		switch it.T {
		case 0:
			return hsMsg(0, nil), muts, true
		case 11:
			var ders [][]byte
			for _, l := range it.Certs {
				c, ok := ss.cs.certs[l]
				if !ok {
					return nil, nil, false
				}
				ders = append(ders, c.Certificate[0])
			}
			return synCertificate(ders), muts, true
		case 22:
			return synCertStatus(hlib.Unints(it.Body)), muts, true
		case 13:
			ver := 771
			if ss.h < len(ss.hs) {
				ver = ss.hs[ss.h].Srv.Ver
			}
			return synCertReq(it.Types, it.Sigalgs, ver >= 771), muts, true
		case 14:
			return hsMsg(14, nil), muts, true
		case 4:
			return synTicket(hlib.Unints(it.Body)), muts, true
		case 20:
			return synFinished(), muts, true
		}
	}
	return nil, nil, false
}

// outgoing is the server's VerifOverride.Outgoing: d is one natural handshake message.
func (ss *serverSide) outgoing(c *tls.Conn, d []byte) []byte {
	if len(d) < 4 {
		return d
	}
	ss.mu.Lock()
	defer ss.mu.Unlock()
	t := int(d[0])
	ss.nat[t] = append([]byte{}, d...)
	var out []byte
	logOne := func(m []byte, kind string, muts []string) {
		ev := map[string]any{"ev": "SMSG", "conn": ss.conn, "h": ss.h, "t": int(m[0]), "raw": hlib.Ints(headOf(m)), "len": len(m), "k": kind,
			// the server writes its ChangeCipherSpec right before it hands its Finished to the hook
			"ccs": t == 20}
		if muts == nil {
			muts = []string{}
		}
		ev["mut"] = muts
		if m[0] == 11 {
			ev["certs"] = ss.cs.labelsOf(m)
		} else {
			ev["certs"] = []string{}
		}
		ss.log.emit(ev)
		if m[0] == 20 && len(m) >= 16 {
			ss.curSF = append([]byte{}, m[4:16]...)
		}
	}
	var ed *edit
	if ss.h < len(ss.hs) {
		for i := range ss.hs[ss.h].Edits {
			e := &ss.hs[ss.h].Edits[i]
			if e.At == t && !ss.used[i] {
				ss.used[i] = true
				ed = e
				break
			}
		}
	}
	if ed == nil {
		logOne(d, "self", nil)
		return d
	}
	for _, it := range ed.Out {
		m, muts, ok := ss.make(it, d)
		if !ok {
			ss.log.emit(map[string]any{"ev": "Error", "err": fmt.Sprintf("conn %d handshake %d: item %+v cannot be made at anchor %d", ss.conn, ss.h, it, t)})
			continue
		}
		logOne(m, it.K, muts)
		out = append(out, m...)
	}
	return out
}

func runConn(s *scenario, k int, cn *connScn, cs *certSet, cache tls.ClientSessionCache, log *evlog) {
	log.emit(map[string]any{"ev": "Conn", "conn": k, "insecure": cn.Insecure, "nhs": len(cn.HS), "oi": cn.OI, "id": cn.ID})
	if len(cn.HS) == 0 {
		log.emit(map[string]any{"ev": "Error", "err": "connection without handshake"})
		return
	}
	deadline := time.Duration(s.DeadlineMs) * time.Millisecond
	if deadline == 0 {
		deadline = 5 * time.Second
	}
	cpipe, spipe := hlib.BufPipe()
	dl := time.Now().Add(deadline)
	cpipe.SetDeadline(dl)
	spipe.SetDeadline(dl)

	// ---- server: one Config per handshake (a renegotiation may present another certificate / ask for a client certificate)
	ss := &serverSide{log: log, cs: cs, conn: k, hs: cn.HS, h: 0, nat: map[int][]byte{}, used: map[int]bool{}}
	sov := &tls.VerifOverride{Outgoing: ss.outgoing}
	cfgs := make([]*tls.Config, len(cn.HS))
	for i := range cn.HS {
		cfgs[i] = cs.serverConfig(&cn.HS[i].Srv)
		tls.VerifSetOverride(cfgs[i], sov)
	}
	defer func() {
		for _, c := range cfgs {
			tls.VerifTLS12ClearOverride(c)
		}
	}()
	cfgs[0].GetConfigForClient = func(*tls.ClientHelloInfo) (*tls.Config, error) {
		ss.mu.Lock()
		h := ss.h
		ss.mu.Unlock()
		if h > 0 && h < len(cfgs) {
			return cfgs[h], nil
		}
		return nil, nil
	}
	srv := tls.Server(spipe, cfgs[0])

	// ---- client
	ccfg := &tls.Config{ServerName: s.SNI, RootCAs: cs.pk.Pool, InsecureSkipVerify: cn.Insecure, OmitEmptyPsk: true}
	if s.Cache {
		ccfg.ClientSessionCache = cache
	}
	cbCalls := 0
	switch s.CCert {
	case "ecdsa", "rsa":
		ccfg.Certificates = []tls.Certificate{cs.client[s.CCert]}
	case "cb_ecdsa", "cb_rsa":
		c := cs.client[strings.TrimPrefix(s.CCert, "cb_")]
		ccfg.GetClientCertificate = func(*tls.CertificateRequestInfo) (*tls.Certificate, error) { cbCalls++; return &c, nil }
	case "cb_empty":
		ccfg.GetClientCertificate = func(*tls.CertificateRequestInfo) (*tls.Certificate, error) {
			cbCalls++
			return new(tls.Certificate), nil
		}
	case "cb_err":
		ccfg.GetClientCertificate = func(*tls.CertificateRequestInfo) (*tls.Certificate, error) {
			cbCalls++
			return nil, errors.New("verif: no client certificate")
		}
	}
	ch := 0 // index of the client's current handshake
	cov := &tls.VerifOverride{Outgoing: func(c *tls.Conn, d []byte) []byte {
		if len(d) >= 4 {
			ev := map[string]any{"ev": "CMSG", "conn": k, "h": ch, "t": int(d[0]), "raw": hlib.Ints(headOf(d)), "len": len(d)}
			if d[0] == 11 {
				ev["certs"] = cs.labelsOf(d)
			} else {
				ev["certs"] = []string{}
			}
			log.emit(ev)
			if d[0] == 20 && len(d) >= 16 {
				ss.clientFinished(d[4:16])
			}
		}
		return d
	}}
	tls.VerifSetOverride(ccfg, cov)
	defer tls.VerifTLS12ClearOverride(ccfg)

	// the server starts a renegotiation only after the client has finished the echo exchange of the previous handshake
	echoDone := make([]chan struct{}, len(cn.HS))
	for i := range echoDone {
		echoDone[i] = make(chan struct{})
	}
	sdone := make(chan struct{})
	go func() {
		defer close(sdone)
		defer spipe.Close()
		defer func() {
			if p := recover(); p != nil {
				log.emit(map[string]any{"ev": "SRet", "conn": k, "h": ss.h, "err": fmt.Sprint("server panic: ", p), "origin": "panic", "ok": false,
					"ss": cs.stateJSON(tls.ConnectionState{}), "cri": []int{}})
			}
		}()
		for h := range cn.HS {
			var err error
			cri := []byte{}
			if h == 0 {
				err = srv.Handshake()
			} else {
				select {
				case <-echoDone[h-1]:
				case <-time.After(deadline):
				}
				ss.nextHandshake()
				if !cn.HS[h].NoReq {
					err = tls.VerifTLS12SendHelloRequest(srv)
				}
				if err == nil {
					cri, err = tls.VerifTLS12ServerRehandshake(srv, context.Background())
				}
			}
			ev := map[string]any{"ev": "SRet", "conn": k, "h": h, "err": hlib.ErrStr(err), "origin": errOrigin(err), "ok": err == nil, "cri": hlib.Ints(cri)}
			if err == nil {
				ev["ss"] = cs.stateJSON(srv.ConnectionState())
			} else {
				ev["ss"] = cs.stateJSON(tls.ConnectionState{})
			}
			log.emit(ev)
			if err != nil {
				return
			}
			if h > 0 {
				// the client's Read that drove the renegotiation returns this byte
				if _, err := srv.Write([]byte{'R'}); err != nil {
					return
				}
			}
			buf := make([]byte, 3)
			if _, err := io.ReadFull(srv, buf); err != nil {
				return
			}
			if _, err := srv.Write(buf); err != nil {
				return
			}
		}
	}()

	func() {
		defer func() {
			if p := recover(); p != nil {
				log.emit(map[string]any{"ev": "Ret", "conn": k, "h": ch, "call": "panic", "err": fmt.Sprint(p), "stack": panicSite(), "origin": "panic", "ok": false, "n": 0,
					"ms": 0, "cs": cs.stateJSON(tls.ConnectionState{}), "cb": cbCalls, "policy": int(ccfg.Renegotiation)})
			}
		}()
		uc, err := newClient(cpipe, ccfg, cn.ID, cn.Variant, cn.Reneg)
		if err != nil {
			log.emit(map[string]any{"ev": "Error", "err": "client setup: " + err.Error()})
			return
		}
		ret := func(call string, err error, n int, t0 time.Time) {
			ev := map[string]any{"ev": "Ret", "conn": k, "h": ch, "call": call, "err": hlib.ErrStr(err), "origin": errOrigin(err), "ok": err == nil,
				"n": n, "ms": int(time.Since(t0) / time.Millisecond), "cb": cbCalls, "policy": int(ccfg.Renegotiation)}
			if err == nil {
				ev["cs"] = cs.stateJSON(uc.ConnectionState())
			} else {
				ev["cs"] = cs.stateJSON(tls.ConnectionState{})
			}
			log.emit(ev)
		}
		for h := range cn.HS {
			ch = h
			t0 := time.Now()
			if h == 0 {
				err = uc.Handshake()
				ret("Handshake", err, 0, t0)
			} else {
				buf := make([]byte, 1)
				var n int
				n, err = uc.Read(buf)
				ret("Read", err, n, t0)
			}
			if err != nil {
				return
			}
			t0 = time.Now()
			msg := []byte{byte(7 + h), 1, 2}
			if _, err = uc.Write(msg); err == nil {
				buf := make([]byte, 3)
				if _, err = io.ReadFull(uc, buf); err == nil && !bytes.Equal(buf, msg) {
					err = errors.New("verif: echoed bytes differ")
				}
			}
			ret("Echo", err, 0, t0)
			close(echoDone[h])
			if err != nil {
				return
			}
		}
		uc.Close()
	}()
	cpipe.Close()
	<-sdone
	// an edit whose anchor never came means the scenario's idea of the server's natural flight is wrong
	ss.mu.Lock()
	ss.reportUnused()
	ss.mu.Unlock()
	// what the client's session cache now holds for this server
	ce := map[string]any{"ev": "Cache", "conn": k, "present": false, "vers": 0, "suite": 0, "ems": false, "ticket": []int{}, "leaf": ""}
	if s.Cache && cache != nil {
		if st, ok := cache.Get(s.SNI); ok && st != nil {
			ce["present"], ce["vers"], ce["suite"], ce["ems"] = true, int(st.Vers()), int(st.CipherSuite()), st.EMS()
			ce["ticket"] = hlib.Ints(st.SessionTicket())
			if cc := st.ServerCertificates(); len(cc) > 0 {
				ce["leaf"] = cs.label(cc[0].Raw)
			}
		}
	}
	log.emit(ce)
}

func init() {
	hlib.Register("run", func(in []byte, out *hlib.Out) error {
		var req struct{ Scenarios []json.RawMessage }
		if err := json.Unmarshal(in, &req); err != nil {
			return err
		}
		cs := newCertSet()
		res := make([]*evlog, len(req.Scenarios))
		hlib.Parallel(len(req.Scenarios), func(i int) {
			var s scenario
			res[i] = &evlog{sc: i}
			if err := json.Unmarshal(req.Scenarios[i], &s); err != nil {
				res[i].emit(map[string]any{"ev": "Error", "err": err.Error()})
				return
			}
			res[i].sc = s.Sc
			if s.SNI == "" {
				s.SNI = "example.com"
			}
			var scnMap map[string]any
			json.Unmarshal(req.Scenarios[i], &scnMap)
			scnMap["ev"] = "Scn"
			res[i].emit(scnMap)
			func() {
				defer func() {
					if p := recover(); p != nil {
						res[i].emit(map[string]any{"ev": "Error", "err": fmt.Sprint("harness panic: ", p)})
					}
				}()
				var cache tls.ClientSessionCache
				if s.Cache {
					cache = tls.NewLRUClientSessionCache(4)
				}
				for k := range s.Conns {
					runConn(&s, k, &s.Conns[k], cs, cache, res[i])
				}
			}()
			res[i].emit(map[string]any{"ev": "End"})
		})
		for _, l := range res {
			for _, e := range l.evs {
				out.Emit(e)
			}
		}
		return nil
	})
}
