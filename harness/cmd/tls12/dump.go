package main

import (
	"encoding/json"

	tls "github.com/refraction-networking/utls"
	"verif/harness/hlib"
)

// suites: -> one event {"suites": [VerifSuiteInfo...]} (the library's cipher-suite tables, read through the verif accessor)
//
// offers: {"ids":[{"id":"Chrome-58","variant":["no_ems"],"reneg":""}...]} -> per entry the ClientHello the client builds
// (BuildHandshakeState on an unconnected UConn) and the version range its Config ends up with. The specification parses the
// offer out of these bytes; nothing is interpreted here.
func init() {
	hlib.Register("suites", func(in []byte, out *hlib.Out) error {
		out.Emit(map[string]any{"suites": tls.VerifSuites()})
		return nil
	})
	// ids: -> {"ids": [names of every predefined parrot, plus Golang]}
	hlib.Register("ids", func(in []byte, out *hlib.Out) error {
		names := []string{}
		for _, id := range hlib.ParrotIDs {
			names = append(names, id.Str())
		}
		names = append(names, tls.HelloGolang.Str())
		out.Emit(map[string]any{"ids": names})
		return nil
	})
	hlib.Register("offers", func(in []byte, out *hlib.Out) error {
		var req struct {
			IDs []struct {
				ID      string   `json:"id"`
				Variant []string `json:"variant"`
				Reneg   string   `json:"reneg"`
			} `json:"ids"`
		}
		if err := json.Unmarshal(in, &req); err != nil {
			return err
		}
		for _, e := range req.IDs {
			ev := map[string]any{"ev": "Offer", "id": e.ID, "variant": e.Variant, "reneg": e.Reneg, "ok": false, "raw": []int{}, "min": 0, "max": 0, "err": "", "policy": 0}
			if ev["variant"] == nil {
				ev["variant"] = []string{}
			}
			func() {
				defer func() {
					if p := recover(); p != nil {
						ev["err"] = "panic"
					}
				}()
				c, _ := hlib.BufPipe()
				cfg := &tls.Config{ServerName: "example.com", OmitEmptyPsk: true}
				uc, err := newClient(c, cfg, e.ID, e.Variant, e.Reneg)
				if err != nil {
					ev["err"] = err.Error()
					return
				}
				if err := uc.BuildHandshakeState(); err != nil {
					ev["err"] = err.Error()
					return
				}
				ev["ok"] = true
				ev["raw"] = hlib.Ints(uc.HandshakeState.Hello.Raw)
				ev["min"], ev["max"] = int(cfg.MinVersion), int(cfg.MaxVersion)
				ev["policy"] = int(cfg.Renegotiation)
			}()
			out.Emit(ev)
		}
		return nil
	})
}
