// Command tls12 is the conformance harness of the TLS <= 1.2 client handshake family (spec/TLS12*.tla, props/X12.py).
//
//	offers  {"ids":[{"id":..,"variant":[..]}]}  -> the wire ClientHello of every (parrot, variant) plus the version range of its Config
//	suites  {}                                  -> the library's cipher-suite table (suites.json of module Negotiation)
//	run     {"scenarios":[...]}                 -> replays TLC-generated scenarios on real UConns against the hooked in-tree
//	                                               server and logs every plaintext handshake message of both sides and every
//	                                               call result in chronological order
//
// The harness contains no expected values: it performs the scripted actions and logs what it observed.
package main

import "verif/harness/hlib"

func main() { hlib.Main() }
