package main

// Byte-level construction and rewriting of TLS <= 1.2 handshake messages. Everything here is an action the
// scenario asks for ("replace the suite of the ServerHello by 0x1234", "put the other certificate"); nothing
// here decides what the client ought to do with the result.

// One rewrite of a natural message.
type rwOp struct {
	F string `json:"f"` // suite vers comp sid ext_del ext_set ri canary flip curve types sigalgs ticket
	V int    `json:"v"`
	T int    `json:"t"`
	S string `json:"s"`
	B []int  `json:"b"`
	L []int  `json:"l"`
}

func hsMsg(typ byte, body []byte) []byte {
	n := len(body)
	return append([]byte{typ, byte(n >> 16), byte(n >> 8), byte(n)}, body...)
}

func fixLen(m []byte) []byte {
	n := len(m) - 4
	m[1], m[2], m[3] = byte(n>>16), byte(n>>8), byte(n)
	return m
}

// splitMsgs cuts a concatenation of handshake messages (trailing garbage is returned as one last piece).
func splitMsgs(b []byte) [][]byte {
	var out [][]byte
	for len(b) >= 4 {
		n := int(b[1])<<16 | int(b[2])<<8 | int(b[3])
		if 4+n > len(b) {
			break
		}
		out = append(out, b[:4+n])
		b = b[4+n:]
	}
	if len(b) > 0 {
		out = append(out, b)
	}
	return out
}

type shExt struct {
	t    int
	body []byte
}

type shParts struct {
	vers   int
	random []byte
	sid    []byte
	suite  int
	comp   int
	exts   []shExt
	ok     bool
}

func parseSH(d []byte) (p shParts) {
	if len(d) < 4+2+32+1 || d[0] != 2 {
		return
	}
	p.vers = int(d[4])<<8 | int(d[5])
	p.random = append([]byte{}, d[6:38]...)
	sl := int(d[38])
	if 39+sl+3 > len(d) {
		return
	}
	p.sid = append([]byte{}, d[39:39+sl]...)
	q := 39 + sl
	p.suite = int(d[q])<<8 | int(d[q+1])
	p.comp = int(d[q+2])
	q += 3
	if q+2 <= len(d) {
		e := d[q+2:]
		for len(e) >= 4 {
			t := int(e[0])<<8 | int(e[1])
			n := int(e[2])<<8 | int(e[3])
			if 4+n > len(e) {
				break
			}
			p.exts = append(p.exts, shExt{t, append([]byte{}, e[4:4+n]...)})
			e = e[4+n:]
		}
	}
	p.ok = true
	return
}

func (p shParts) marshal() []byte {
	b := []byte{byte(p.vers >> 8), byte(p.vers)}
	b = append(b, p.random...)
	b = append(b, byte(len(p.sid)))
	b = append(b, p.sid...)
	b = append(b, byte(p.suite>>8), byte(p.suite), byte(p.comp))
	if len(p.exts) > 0 {
		var e []byte
		for _, x := range p.exts {
			e = append(e, byte(x.t>>8), byte(x.t), byte(len(x.body)>>8), byte(len(x.body)))
			e = append(e, x.body...)
		}
		b = append(b, byte(len(e)>>8), byte(len(e)))
		b = append(b, e...)
	}
	return hsMsg(2, b)
}

func (p *shParts) delExt(t int) {
	var out []shExt
	for _, x := range p.exts {
		if x.t != t {
			out = append(out, x)
		}
	}
	p.exts = out
}

func (p *shParts) setExt(t int, body []byte) {
	for i := range p.exts {
		if p.exts[i].t == t {
			p.exts[i].body = body
			return
		}
	}
	p.exts = append(p.exts, shExt{t, body})
}

// rewrite applies the scripted rewrites to a natural message. prevCF / prevSF are the verify_data of the two
// Finished messages of the previous handshake on this connection, as seen by the hooks.
func rewrite(d []byte, ops []rwOp, prevCF, prevSF []byte) []byte {
	out := append([]byte{}, d...)
	for _, op := range ops {
		switch {
		case op.F == "flip":
			// flip one bit of the last byte (signature of a ServerKeyExchange, verify_data of a Finished, ticket ...)
			if len(out) > 4 {
				out[len(out)-1] ^= 0x01
			}
		case op.F == "trunc":
			if len(out) > 4+op.V {
				out = fixLen(out[:len(out)-op.V])
			}
		case out[0] == 2:
			p := parseSH(out)
			if !p.ok {
				continue
			}
			switch op.F {
			case "suite":
				p.suite = op.V
			case "vers":
				p.vers = op.V
			case "comp":
				p.comp = op.V
			case "sid":
				switch op.S {
				case "flip":
					if len(p.sid) > 0 {
						p.sid[0] ^= 0xff
					} else {
						p.sid = []byte{0x42}
					}
				case "empty":
					p.sid = nil
				case "fresh":
					p.sid = make([]byte, 32)
					for i := range p.sid {
						p.sid[i] = byte(0xA0 + i)
					}
				}
			case "ext_del":
				p.delExt(op.T)
			case "ext_set":
				b := make([]byte, len(op.B))
				for i, x := range op.B {
					b[i] = byte(x)
				}
				p.setExt(op.T, b)
			case "canary":
				if op.V == 12 {
					copy(p.random[24:], "DOWNGRD\x01")
				} else if op.V == 11 {
					copy(p.random[24:], "DOWNGRD\x00")
				}
			case "ri":
				var rc []byte
				switch op.S {
				case "correct":
					rc = append(append([]byte{}, prevCF...), prevSF...)
				case "swapped":
					rc = append(append([]byte{}, prevSF...), prevCF...)
				case "client_only":
					rc = append([]byte{}, prevCF...)
				case "wrong":
					rc = append(append([]byte{}, prevCF...), prevSF...)
					if len(rc) > 0 {
						rc[len(rc)-1] ^= 0x80
					}
				case "empty":
					rc = nil
				case "absent":
					p.delExt(0xff01)
					out = p.marshal()
					continue
				}
				p.setExt(0xff01, append([]byte{byte(len(rc))}, rc...))
			}
			out = p.marshal()
		case out[0] == 12 && op.F == "curve":
			if len(out) >= 7 && out[4] == 3 {
				out[5], out[6] = byte(op.V>>8), byte(op.V)
			}
		case out[0] == 13 && (op.F == "types" || op.F == "sigalgs"):
			out = rewriteCertReq(out, op)
		case out[0] == 4 && op.F == "ticket":
			// replace the ticket by the given bytes (lifetime hint kept)
			if len(out) >= 10 {
				b := append([]byte{}, out[4:8]...)
				b = append(b, byte(len(op.B)>>8), byte(len(op.B)))
				for _, x := range op.B {
					b = append(b, byte(x))
				}
				out = hsMsg(4, b)
			}
		}
	}
	return out
}

// CertificateRequest: u8-vector certificate_types, [u16-vector signature algorithms (TLS 1.2)], u16-vector CAs
func rewriteCertReq(d []byte, op rwOp) []byte {
	b := d[4:]
	if len(b) < 1 || 1+int(b[0]) > len(b) {
		return d
	}
	types := b[1 : 1+int(b[0])]
	rest := b[1+int(b[0]):]
	if op.F == "types" {
		nt := make([]byte, len(op.L))
		for i, x := range op.L {
			nt[i] = byte(x)
		}
		nb := append([]byte{byte(len(nt))}, nt...)
		return hsMsg(13, append(nb, rest...))
	}
	// sigalgs: only meaningful when the natural message has the vector (TLS 1.2)
	if len(rest) < 2 {
		return d
	}
	sl := int(rest[0])<<8 | int(rest[1])
	if 2+sl > len(rest) {
		return d
	}
	tail := rest[2+sl:]
	ns := make([]byte, 0, 2*len(op.L))
	for _, x := range op.L {
		ns = append(ns, byte(x>>8), byte(x))
	}
	nb := append([]byte{byte(len(types))}, types...)
	nb = append(nb, byte(len(ns)>>8), byte(len(ns)))
	nb = append(nb, ns...)
	return hsMsg(13, append(nb, tail...))
}

func synCertificate(ders [][]byte) []byte {
	var l []byte
	for _, d := range ders {
		l = append(l, byte(len(d)>>16), byte(len(d)>>8), byte(len(d)))
		l = append(l, d...)
	}
	b := []byte{byte(len(l) >> 16), byte(len(l) >> 8), byte(len(l))}
	return hsMsg(11, append(b, l...))
}

func synCertStatus(resp []byte) []byte {
	b := []byte{1, byte(len(resp) >> 16), byte(len(resp) >> 8), byte(len(resp))}
	return hsMsg(22, append(b, resp...))
}

func synCertReq(types, sigalgs []int, withSigAlgs bool) []byte {
	b := []byte{byte(len(types))}
	for _, t := range types {
		b = append(b, byte(t))
	}
	if withSigAlgs {
		b = append(b, byte(2*len(sigalgs)>>8), byte(2*len(sigalgs)))
		for _, s := range sigalgs {
			b = append(b, byte(s>>8), byte(s))
		}
	}
	b = append(b, 0, 0)
	return hsMsg(13, b)
}

func synTicket(ticket []byte) []byte {
	b := []byte{0, 0, 0x1c, 0x20, byte(len(ticket) >> 8), byte(len(ticket))}
	return hsMsg(4, append(b, ticket...))
}

func synFinished() []byte {
	return hsMsg(20, []byte{0xAA, 0xAA, 0xAA, 0xAA, 0xAA, 0xAA, 0xAA, 0xAA, 0xAA, 0xAA, 0xAA, 0xAA})
}
