package hlib

import (
	"bytes"
	"crypto"
	"crypto/ecdsa"
	"crypto/ed25519"
	"crypto/elliptic"
	"crypto/rand"
	"crypto/rsa"
	"crypto/sha256"
	"strings"
	"crypto/x509"
	"crypto/x509/pkix"
	"errors"
	"fmt"
	"io"
	"math/big"
	mrand "math/rand"
	"net"
	"os"
	"runtime"
	"strconv"
	"sync"
	"time"

	tls "github.com/refraction-networking/utls"
)

// ---------------------------------------------------------------- JSON helpers (TLC: no null, Ints < 2^31)

func Ints(b []byte) []int {
	r := make([]int, len(b))
	for i, x := range b {
		r[i] = int(x)
	}
	return r
}

func Unints(v []int) []byte {
	r := make([]byte, len(v))
	for i, x := range v {
		r[i] = byte(x)
	}
	return r
}

func U16s[T ~uint16](v []T) []int {
	r := make([]int, len(v))
	for i, x := range v {
		r[i] = int(x)
	}
	return r
}

func ErrStr(err error) string {
	if err == nil {
		return ""
	}
	return err.Error()
}

func Seed() int64 {
	s, err := strconv.ParseInt(os.Getenv("VERIF_SEED"), 10, 64)
	if err != nil {
		return 1
	}
	return s
}

func NewRand(salt int64) *mrand.Rand { return mrand.New(mrand.NewSource(Seed()*1000003 + salt)) }

// ---------------------------------------------------------------- ClientHelloIDs

// predefined browser parrots (every exported non-alias, non-random ID)
var ParrotIDs = []tls.ClientHelloID{
	tls.HelloFirefox_55, tls.HelloFirefox_56, tls.HelloFirefox_63, tls.HelloFirefox_65, tls.HelloFirefox_99, tls.HelloFirefox_102, tls.HelloFirefox_105, tls.HelloFirefox_120,
	tls.HelloChrome_58, tls.HelloChrome_62, tls.HelloChrome_70, tls.HelloChrome_72, tls.HelloChrome_83, tls.HelloChrome_87, tls.HelloChrome_96, tls.HelloChrome_100, tls.HelloChrome_102, tls.HelloChrome_106_Shuffle,
	tls.HelloChrome_100_PSK, tls.HelloChrome_112_PSK_Shuf, tls.HelloChrome_114_Padding_PSK_Shuf, tls.HelloChrome_115_PQ, tls.HelloChrome_115_PQ_PSK, tls.HelloChrome_120, tls.HelloChrome_120_PQ, tls.HelloChrome_131, tls.HelloChrome_133,
	tls.HelloIOS_11_1, tls.HelloIOS_12_1, tls.HelloIOS_13, tls.HelloIOS_14, tls.HelloAndroid_11_OkHttp, tls.HelloEdge_85, tls.HelloEdge_106, tls.HelloSafari_16_0, tls.Hello360_7_5, tls.Hello360_11_0, tls.HelloQQ_11_1,
}

var IDByName = map[string]tls.ClientHelloID{}

func init() {
	for _, id := range ParrotIDs {
		IDByName[id.Str()] = id
	}
	for _, id := range []tls.ClientHelloID{tls.HelloGolang, tls.HelloCustom, tls.HelloRandomized, tls.HelloRandomizedALPN, tls.HelloRandomizedNoALPN} {
		IDByName[id.Str()] = id
	}
}

func init() {
	IDByName["Golang"] = tls.HelloGolang
	IDByName["Custom"] = tls.HelloCustom
	IDByName["Randomized"] = tls.HelloRandomized
	IDByName["Randomized-ALPN"] = tls.HelloRandomizedALPN
	IDByName["Randomized-NoALPN"] = tls.HelloRandomizedNoALPN
}

// LookupID resolves a ClientHelloID by its Str() name. "Name@n" gives the (randomized) ID a PRNG seed derived
// from the integer n, so that the same name always yields the same fingerprint.
func LookupID(name string) (tls.ClientHelloID, error) {
	if i := strings.IndexByte(name, '@'); i > 0 {
		id, err := LookupID(name[:i])
		if err != nil {
			return id, err
		}
		sum := sha256.Sum256([]byte("verif-seed-" + name[i+1:]))
		seed := tls.PRNGSeed(sum)
		id.Seed = &seed
		return id, nil
	}
	return lookupPlain(name)
}

func lookupPlain(name string) (tls.ClientHelloID, error) {
	id, ok := IDByName[name]
	if !ok {
		return id, fmt.Errorf("unknown ClientHelloID %q", name)
	}
	return id, nil
}

// ---------------------------------------------------------------- PKI

type PKI struct {
	Pool  *x509.CertPool
	CAKey *ecdsa.PrivateKey
	CA    *x509.Certificate
	CADER []byte
	n     int64
	mu    sync.Mutex
}

func NewPKI() *PKI {
	k, _ := ecdsa.GenerateKey(elliptic.P256(), rand.Reader)
	tpl := &x509.Certificate{SerialNumber: big.NewInt(1), Subject: pkix.Name{CommonName: "verif ca"},
		NotBefore: time.Unix(0, 0), NotAfter: time.Date(2100, 1, 1, 0, 0, 0, 0, time.UTC),
		IsCA: true, KeyUsage: x509.KeyUsageCertSign, BasicConstraintsValid: true}
	der, err := x509.CreateCertificate(rand.Reader, tpl, tpl, &k.PublicKey, k)
	if err != nil {
		panic(err)
	}
	ca, _ := x509.ParseCertificate(der)
	p := &PKI{Pool: x509.NewCertPool(), CAKey: k, CA: ca, CADER: der, n: 1}
	p.Pool.AddCert(ca)
	return p
}

// leaf issues a leaf of the given key kind ("ecdsa", "rsa", "ed25519", "ecdsa384") for names, valid [nb, na].
func (p *PKI) Leaf(kind string, names []string, nb, na time.Time) tls.Certificate {
	p.mu.Lock()
	p.n++
	serial := p.n
	p.mu.Unlock()
	var priv crypto.Signer
	switch kind {
	case "rsa":
		priv = RSAKey()
	case "ed25519":
		_, k, _ := ed25519.GenerateKey(rand.Reader)
		priv = k
	case "ecdsa384":
		k, _ := ecdsa.GenerateKey(elliptic.P384(), rand.Reader)
		priv = k
	default:
		k, _ := ecdsa.GenerateKey(elliptic.P256(), rand.Reader)
		priv = k
	}
	tpl := &x509.Certificate{SerialNumber: big.NewInt(serial), Subject: pkix.Name{CommonName: names[0]}, DNSNames: names,
		NotBefore: nb, NotAfter: na, KeyUsage: x509.KeyUsageDigitalSignature | x509.KeyUsageKeyEncipherment,
		ExtKeyUsage: []x509.ExtKeyUsage{x509.ExtKeyUsageServerAuth}}
	der, err := x509.CreateCertificate(rand.Reader, tpl, p.CA, priv.Public(), p.CAKey)
	if err != nil {
		panic(err)
	}
	return tls.Certificate{Certificate: [][]byte{der}, PrivateKey: priv}
}

func (p *PKI) Std(kind string, names ...string) tls.Certificate {
	return p.Leaf(kind, names, time.Now().Add(-time.Hour), time.Now().Add(24*time.Hour))
}

var (
	rsaOnce sync.Once
	rsaK    *rsa.PrivateKey
)

func RSAKey() *rsa.PrivateKey {
	rsaOnce.Do(func() { rsaK, _ = rsa.GenerateKey(rand.Reader, 2048) })
	return rsaK
}

// ---------------------------------------------------------------- buffered in-memory duplex conn

type half struct {
	mu       sync.Mutex
	cond     *sync.Cond
	buf      bytes.Buffer
	closed   bool // writer side closed: reader gets EOF after draining
	rclosed  bool // reader side closed: writer gets ErrClosedPipe
	rdl, wdl time.Time
}

func newHalf() *half { h := &half{}; h.cond = sync.NewCond(&h.mu); return h }

type BufConn struct {
	r, w     *half
	rec      *bytes.Buffer // everything written by this side
	recMu    sync.Mutex
	OnWrite  func(b []byte)
	PreWrite func(b []byte) // called before the bytes become readable by the peer
	name     string
}

type TimeoutErr struct{}

func (TimeoutErr) Error() string   { return "i/o timeout" }
func (TimeoutErr) Timeout() bool   { return true }
func (TimeoutErr) Temporary() bool { return true }

type pipeAddr string

func (a pipeAddr) Network() string { return "verifpipe" }
func (a pipeAddr) String() string  { return string(a) }

// BufPipe returns two connected buffered conns (writes never block).
func BufPipe() (*BufConn, *BufConn) {
	a, b := newHalf(), newHalf()
	return &BufConn{r: a, w: b, rec: &bytes.Buffer{}, name: "client"}, &BufConn{r: b, w: a, rec: &bytes.Buffer{}, name: "server"}
}

func (c *BufConn) Read(p []byte) (int, error) {
	h := c.r
	h.mu.Lock()
	defer h.mu.Unlock()
	for {
		if h.rclosed {
			return 0, io.ErrClosedPipe
		}
		if h.buf.Len() > 0 {
			return h.buf.Read(p)
		}
		if h.closed {
			return 0, io.EOF
		}
		if !h.rdl.IsZero() {
			d := time.Until(h.rdl)
			if d <= 0 {
				return 0, TimeoutErr{}
			}
			t := time.AfterFunc(d, func() { h.mu.Lock(); h.cond.Broadcast(); h.mu.Unlock() })
			h.cond.Wait()
			t.Stop()
			continue
		}
		h.cond.Wait()
	}
}

func (c *BufConn) Write(p []byte) (int, error) {
	if c.PreWrite != nil {
		c.PreWrite(p)
	}
	h := c.w
	h.mu.Lock()
	if h.closed || h.rclosed {
		h.mu.Unlock()
		return 0, io.ErrClosedPipe
	}
	if !h.wdl.IsZero() && time.Now().After(h.wdl) {
		h.mu.Unlock()
		return 0, TimeoutErr{}
	}
	h.buf.Write(p)
	h.cond.Broadcast()
	h.mu.Unlock()
	c.recMu.Lock()
	c.rec.Write(p)
	c.recMu.Unlock()
	if c.OnWrite != nil {
		c.OnWrite(p)
	}
	return len(p), nil
}

func (c *BufConn) Close() error {
	c.w.mu.Lock()
	c.w.closed = true
	c.w.cond.Broadcast()
	c.w.mu.Unlock()
	c.r.mu.Lock()
	c.r.rclosed = true
	c.r.cond.Broadcast()
	c.r.mu.Unlock()
	return nil
}

func (c *BufConn) CloseWrite() error {
	c.w.mu.Lock()
	c.w.closed = true
	c.w.cond.Broadcast()
	c.w.mu.Unlock()
	return nil
}

func (c *BufConn) LocalAddr() net.Addr  { return pipeAddr(c.name) }
func (c *BufConn) RemoteAddr() net.Addr { return pipeAddr("peer-of-" + c.name) }
func (c *BufConn) SetDeadline(t time.Time) error {
	c.SetReadDeadline(t)
	return c.SetWriteDeadline(t)
}
func (c *BufConn) SetReadDeadline(t time.Time) error {
	c.r.mu.Lock()
	c.r.rdl = t
	c.r.cond.Broadcast()
	c.r.mu.Unlock()
	return nil
}
func (c *BufConn) SetWriteDeadline(t time.Time) error {
	c.w.mu.Lock()
	c.w.wdl = t
	c.w.mu.Unlock()
	return nil
}

// Written returns a copy of everything this side wrote so far.
func (c *BufConn) Written() []byte {
	c.recMu.Lock()
	defer c.recMu.Unlock()
	return append([]byte{}, c.rec.Bytes()...)
}

// Inject puts bytes into this side's read buffer (as if the peer had written them).
func (c *BufConn) Inject(p []byte) {
	c.r.mu.Lock()
	c.r.buf.Write(p)
	c.r.cond.Broadcast()
	c.r.mu.Unlock()
}

// ---------------------------------------------------------------- TLS Record helpers

type Record struct {
	Typ     byte
	Vers    uint16
	Payload []byte
}

// Records splits a byte stream into TLS Records (incomplete tail ignored).
func Records(b []byte) []Record {
	var out []Record
	for len(b) >= 5 {
		n := int(b[3])<<8 | int(b[4])
		if len(b) < 5+n {
			break
		}
		out = append(out, Record{b[0], uint16(b[1])<<8 | uint16(b[2]), b[5 : 5+n]})
		b = b[5+n:]
	}
	return out
}

// ClientHellos returns the plaintext ClientHello handshake messages found in a client's written stream.
// ClientHellos are always sent in the clear and (for every size utls produces) in one Record each.
func ClientHellos(stream []byte) [][]byte {
	var out [][]byte
	var acc []byte
	for _, r := range Records(stream) {
		if r.Typ != 22 {
			if len(out) > 0 && r.Typ == 23 {
				break
			}
			continue
		}
		acc = append(acc, r.Payload...)
		for len(acc) >= 4 {
			n := int(acc[1])<<16 | int(acc[2])<<8 | int(acc[3])
			if len(acc) < 4+n {
				break
			}
			if acc[0] == 1 {
				out = append(out, append([]byte{}, acc[:4+n]...))
			} else {
				return out // first non-ClientHello plaintext handshake message (TLS <= 1.2 flight): stop
			}
			acc = acc[4+n:]
		}
	}
	return out
}

// ---------------------------------------------------------------- generic handshake runner

type HSResult struct {
	CErr, SErr   error
	CPanic       string
	CS, SS       tls.ConnectionState
	UC           *tls.UConn
	Srv          *tls.Conn
	CWire, SWire []byte
	EchoOK       bool
	HSOK         bool // the client's Handshake() returned nil (CErr may still report a later echo failure)
	CEKM, SEKM   [][]byte
}

type HSOpts struct {
	Prep      func(*tls.UConn) error // after UClient, before Handshake
	Timeout   time.Duration
	Echo      []int // sizes echoed client->server->client
	EKM       []EKMReq
	AfterBoth func(r *HSResult, uc *tls.UConn, srv *tls.Conn)
	KeepOpen  bool
	// OnClientWrite sees every buffer the client hands to the transport, before the peer can read it.
	OnClientWrite func(b []byte)
}

type EKMReq struct {
	Label   string
	Context []byte
	Len     int
}

var ErrPrep = errors.New("prep failed")

// RunHandshake runs one UConn against one tls.Server over a buffered pipe.
func RunHandshake(ccfg, scfg *tls.Config, id tls.ClientHelloID, o HSOpts) (r HSResult) {
	if o.Timeout == 0 {
		o.Timeout = 5 * time.Second
	}
	c, s := BufPipe()
	c.PreWrite = o.OnClientWrite
	dl := time.Now().Add(o.Timeout)
	c.SetDeadline(dl)
	s.SetDeadline(dl)
	srv := tls.Server(s, scfg)
	r.Srv = srv
	done := make(chan struct{})
	sdata := make(chan struct{})
	go func() {
		defer close(done)
		defer func() {
			if p := recover(); p != nil {
				r.SErr = fmt.Errorf("server panic: %v", p)
			}
		}()
		r.SErr = srv.Handshake()
		if r.SErr == nil {
			r.SS = srv.ConnectionState()
			for _, q := range o.EKM {
				b, err := r.SS.ExportKeyingMaterial(q.Label, q.Context, q.Len)
				if err != nil {
					b = nil // refused (documented: renegotiation enabled, or no EMS below TLS 1.3)
				}
				r.SEKM = append(r.SEKM, b)
			}
			for _, n := range o.Echo {
				buf := make([]byte, n)
				if _, err := io.ReadFull(srv, buf); err != nil {
					r.SErr = fmt.Errorf("server echo read: %w", err)
					break
				}
				if _, err := srv.Write(buf); err != nil {
					r.SErr = fmt.Errorf("server echo write: %w", err)
					break
				}
			}
		}
		<-sdata
		if !o.KeepOpen {
			s.Close()
		}
	}()
	uc := tls.UClient(c, ccfg, id)
	r.UC = uc
	func() {
		defer func() {
			if p := recover(); p != nil {
				r.CPanic = fmt.Sprint(p)
				r.CErr = fmt.Errorf("client panic: %v", p)
			}
		}()
		if o.Prep != nil {
			if err := o.Prep(uc); err != nil {
				r.CErr = fmt.Errorf("%w: %v", ErrPrep, err)
				return
			}
		}
		r.CErr = uc.Handshake()
		if r.CErr == nil {
			r.HSOK = true
			r.CS = uc.ConnectionState()
			for _, q := range o.EKM {
				b, err := r.CS.ExportKeyingMaterial(q.Label, q.Context, q.Len)
				if err != nil {
					b = nil // refused (documented: renegotiation enabled, or no EMS below TLS 1.3)
				}
				r.CEKM = append(r.CEKM, b)
			}
			r.EchoOK = true
			for i, n := range o.Echo {
				msg := make([]byte, n)
				for j := range msg {
					msg[j] = byte(j*7 + i)
				}
				if _, err := uc.Write(msg); err != nil {
					r.CErr = fmt.Errorf("echo write: %w", err)
					r.EchoOK = false
					break
				}
				buf := make([]byte, n)
				if _, err := io.ReadFull(uc, buf); err != nil {
					r.CErr = fmt.Errorf("echo read: %w", err)
					r.EchoOK = false
					break
				}
				if !bytes.Equal(buf, msg) {
					r.EchoOK = false
				}
			}
		}
	}()
	if r.CErr != nil {
		c.Close()
	}
	close(sdata)
	if r.CErr != nil || !o.KeepOpen {
		<-done
	} else {
		<-done
	}
	if o.AfterBoth != nil && r.CErr == nil && r.SErr == nil {
		o.AfterBoth(&r, uc, srv)
	}
	if !o.KeepOpen {
		c.Close()
	}
	r.CWire = c.Written()
	r.SWire = s.Written()
	return
}

// Parallel runs fn(i) for i in [0,n) on all cores.
func Parallel(n int, fn func(i int)) {
	w := runtime.NumCPU()
	if w > n {
		w = n
	}
	var wg sync.WaitGroup
	ch := make(chan int)
	for k := 0; k < w; k++ {
		wg.Add(1)
		go func() {
			defer wg.Done()
			for i := range ch {
				fn(i)
			}
		}()
	}
	for i := 0; i < n; i++ {
		ch <- i
	}
	close(ch)
	wg.Wait()
}
