// Package hlib is the shared part of the conformance harness: scenario I/O, an in-memory buffered
// transport, a throw-away PKI, a generic handshake runner. The harness contains no expected values:
// commands perform actions on the real library and log what they observed; TLC judges the log.
package hlib

import (
	"encoding/json"
	"fmt"
	"os"
	"sort"
	"sync"
)

type Out struct {
	mu  sync.Mutex
	f   *os.File
	enc *json.Encoder
	n   int
}

// Emit writes one event. Safe for concurrent use; the order of concurrent events is the order of
// the calls to Emit (callers that need a linearisation emit under their own lock).
func (o *Out) Emit(v any) {
	o.mu.Lock()
	defer o.mu.Unlock()
	o.n++
	if err := o.enc.Encode(v); err != nil {
		panic(err)
	}
}

type Command func(in []byte, out *Out) error

var commands = map[string]Command{}

func Register(name string, c Command) { commands[name] = c }

// Main is the entry point of every harness binary: <prog> <command> <in.json> <out.ndjson>
func Main() {
	if len(os.Args) != 4 {
		names := []string{}
		for n := range commands {
			names = append(names, n)
		}
		sort.Strings(names)
		fmt.Fprintf(os.Stderr, "usage: %s <command> <in.json> <out.ndjson>\ncommands: %v\n", os.Args[0], names)
		os.Exit(64)
	}
	c, ok := commands[os.Args[1]]
	if !ok {
		fmt.Fprintf(os.Stderr, "unknown command %q\n", os.Args[1])
		os.Exit(64)
	}
	in, err := os.ReadFile(os.Args[2])
	if err != nil {
		fmt.Fprintln(os.Stderr, err)
		os.Exit(65)
	}
	f, err := os.Create(os.Args[3])
	if err != nil {
		fmt.Fprintln(os.Stderr, err)
		os.Exit(65)
	}
	out := &Out{f: f, enc: json.NewEncoder(f)}
	if err := c(in, out); err != nil {
		fmt.Fprintln(os.Stderr, "harness:", err)
		os.Exit(3)
	}
	f.Close()
}
