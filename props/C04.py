"""C04 - GREASE values are well-formed, distinct where required, fresh.
TLA+: spec/Grease.tla (reserved spaces, per-hello invariants, freshness), trace spec spec/Grease_Trace.tla.
Harness: harness/cmd/gen/grease.go (boring, quicgrease, ghellos). The harness only reports values; TLC judges."""
import copy, json
import concurrent.futures as cf
import vlib

TP_CASES = [
    {"kinds": ["grease"], "avail": []},
    {"kinds": ["grease", "vi", "maxidle", "greasebadid"], "avail": ["grease", "v1", "grease"]},
    {"kinds": ["maxidle", "vilegacy", "quicbit", "grease"], "avail": ["v2", "grease"]},
    {"kinds": ["vi"], "avail": ["grease", "grease", "grease", "v1"]},
]


def be8(u):
    return list(u.to_bytes(8, "big"))


def tp_inputs(ctx):
    """Inputs (not expectations) for IsGREASEID and IdOverride: dense small range, the progression 31*N+27 and its
    neighbours, the 2^62 / 2^64 boundary regions."""
    top = 1000 if ctx.quick else 20000
    pred = set(range(0, top + 1))
    for n in range(0, 120 if ctx.quick else 2000):
        pred.update((31 * n + 26, 31 * n + 27, 31 * n + 28))
    m62 = (1 << 62) - 1
    gmax = 27 + ((m62 - 27) // 31) * 31                    # largest 31*N+27 below 2^62
    for c in (m62, 1 << 62, (1 << 63) - 1, 1 << 63, (1 << 64) - 1, gmax, 1 << 32, (1 << 32) + 27, 1 << 53):
        for d in range(-35, 36):
            if 0 <= c + d < (1 << 64):
                pred.add(c + d)
    pred = sorted(pred)
    # overrides must be encodable (< 2^62): a valid GREASE id above that is returned as it is and cannot be marshaled
    over = set(range(0, 65)) | {31 * n + 27 for n in range(0, 70)} | {31 * n + 27 + d for n in (1, 2, 50, 1000) for d in (-1, 1)}
    over |= {gmax, gmax - 1, gmax - 31, m62, m62 - 1, 1 << 32, (1 << 61) + 5, 0x2ab2, 0xff73db}
    over |= {(1 << 64) - k for k in range(1, 40)} | {(1 << 63) + 11, 1 << 62}
    over = sorted(i for i in over if not (i > m62 and i >= 27 and (i - 27) % 31 == 0))
    return [be8(i) for i in pred], [be8(i) for i in over]


def has_grease(sp):
    def g(v):
        return (v >> 8) == (v & 0xff) and (v & 0xf) == 0xa
    return any(g(s) for s in sp["suites"]) or any(e["kind"] == "UtlsGREASEExtension" for e in sp["exts"])


PAIRS = {}      # batch -> number of distinct (extension1, extension2) seed nibble pairs among pairrand connections (counted by TLC)


def validate(ctx, rows, name):
    """Runs Grease_Trace over rows; returns (rejections [(idx, why)], collided)."""
    mod = "Grease_Trace_" + name
    src = open(ctx.scratch + "/Grease_Trace.tla").read().replace("c04_trace.ndjson", name + ".ndjson").replace(
        "MODULE Grease_Trace", "MODULE " + mod)
    open(ctx.scratch + "/" + mod + ".tla", "w").write(src)
    ctx.write_ndjson(name + ".ndjson", rows)
    res = ctx.tlc(mod, cfg="Grease_Trace", timeout=900, heap="4g")
    done = res.tagged("DONE")
    if not done or done[0] != len(rows):
        raise vlib.Machinery("C04 trace validation did not reach the end of batch %s: %r\n%s" % (name, done, res.out[-2000:]))
    rej = [(r[0], r[1]) for r in res.tagged("REJ")]
    coll = res.tagged("COLLIDED")
    pr = res.tagged("PAIRS")
    PAIRS[name] = pr[0] if pr else 0
    return rej, (coll[0] if coll else 0)


def sig_of(why):
    if why[0] == "hello":
        w = why[2]
        return "hello:%s:%s" % (why[1], w if isinstance(w, str) else ":".join(str(x) for x in w))
    if why[0] == "not-fresh":
        return "not-fresh:%s" % why[1]
    if why[0] == "boring-not-grease":
        return "boring-not-grease:%s" % why[1]
    if why[0] in ("tp-isgreaseid-disagrees", "tp-override-id-not-grease"):
        ids = sorted(int.from_bytes(bytes(b), "big") for b in why[1])
        return "%s:%s" % (why[0], ",".join(str(i) for i in ids[:8]) + ("..." if len(ids) > 8 else ""))
    if why[0] in ("tp-body", "fingerprint-failed"):
        return "%s:%s" % (why[0], why[1] if isinstance(why[1], str) else ",".join(why[1]))
    return why[0]


def regroup(rows, offset=0):
    """Re-number the g back references of a slice of ghellos events so that they are valid in a new trace."""
    out, cur = [], None
    for r in rows:
        r = dict(r)
        if r["ev"] == "Group":
            cur = offset + len(out) + 1
        elif r["ev"] in ("Hello", "EndGroup"):
            r["g"] = cur
        out.append(r)
    return out


def canary(ctx, boring, ghello_rows):
    """Binding canary: corrupted copies of good events must be rejected, the good copies accepted."""
    good_b = boring[0]
    bad_b = copy.deepcopy(good_b); bad_b["vals"][4660] = 0x0a0b
    # one complete good group, then the same group with (a) one hello whose GREASE cipher is spoiled,
    # (b) all hellos identical (not fresh)
    grp = None
    for i, r in enumerate(ghello_rows):
        if r["ev"] == "Group" and r["mode"] == "parrot" and has_grease(r["spec"]) and any(
                (s >> 8) == (s & 0xff) and (s & 0xf) == 0xa for s in r["spec"]["suites"]):
            j = i
            while ghello_rows[j]["ev"] != "EndGroup":
                j += 1
            grp = ghello_rows[i:j + 1]
            break
    if grp is None:
        raise vlib.Machinery("C04 canary: no GREASE-bearing parrot group recorded")
    spoiled = copy.deepcopy(grp)
    h = spoiled[1]["raw"]
    off = 4 + 2 + 32
    off += 1 + h[off]
    n = (h[off] << 8) | h[off + 1]
    pos = None
    for k in range(off + 2, off + 2 + n, 2):
        v = (h[k] << 8) | h[k + 1]
        if (v >> 8) == (v & 0xff) and (v & 0xf) == 0xa:
            pos = k
            break
    if pos is None:
        raise vlib.Machinery("C04 canary: recorded hello carries no GREASE cipher suite")
    h[pos + 1] ^= 0x01
    stale = copy.deepcopy(grp)
    for r in stale[2:-1]:
        r["raw"] = stale[1]["raw"]
    rows = [good_b, bad_b,
            {"ev": "TPIds", "ids": [[0, 0, 0, 0, 0, 0, 0, 27], [0, 0, 0, 0, 0, 0, 0, 58]]},
            {"ev": "TPIds", "ids": [[0, 0, 0, 0, 0, 0, 0, 28]]},
            {"ev": "TPIds", "ids": [[0, 0, 0, 0, 0, 0, 0, 26]]},
            {"ev": "QVers", "vs": [[0x1a, 0x2a, 0x3a, 0x4a]]},
            {"ev": "QVers", "vs": [[0x1a, 0x2a, 0x3a, 0x4b]]},
            {"ev": "TPIsGrease", "ids": [be8(27), be8(11), be8(58)], "res": [True, False, True]},
            {"ev": "TPIsGrease", "ids": [be8(27), be8(11)], "res": [True, True]},
            {"ev": "TPOverride", "ins": [be8(58), be8(5)], "ids": [be8(58), be8(89)], "bodies": [[58, 1, 0], [64, 89, 1, 0]]},
            {"ev": "TPOverride", "ins": [be8(11)], "ids": [be8(11)], "bodies": [[11, 1, 0]]}]
    base = len(rows)
    rows += regroup(grp, len(rows))
    i_spoiled = len(rows) + 2
    rows += regroup(spoiled, len(rows))
    i_stale_end = len(rows) + len(stale)
    rows += regroup(stale, len(rows))
    rej, _ = validate(ctx, rows, "c04_canary")
    got = sorted(i for i, _ in rej)
    want = sorted([2, 4, 5, 7, 9, 11, i_spoiled, i_stale_end])
    if got != want:
        raise vlib.Machinery("C04 binding canary: TLC rejected events %r, expected exactly %r (%r)" % (got, want, rej))
    return len(want)


def run(ctx):
    d = ctx.drv("dumpspecs", {"ids": []}, prog="gen")[0]
    gids = sorted(i for i, sp in d["specs"].items() if has_grease(sp))
    if len(gids) < 5:
        raise vlib.Machinery("C04: only %d GREASE-bearing parrots found in the spec dump" % len(gids))
    nconn = 64
    ndraw = 10000 if ctx.quick else 100000
    boring = ctx.drv("boring", {}, prog="gen")
    nidx = boring[0]["nidx"]
    quic = ctx.drv("quicgrease", {"n": ndraw, "cases": TP_CASES, "per": 50 if ctx.quick else 500}, prog="gen")
    tp_pred, tp_over = tp_inputs(ctx)
    tpev = ctx.drv("tpids", {"pred": tp_pred, "override": tp_over}, prog="gen")
    if len(tpev) != 2 or len(tpev[0]["res"]) != len(tp_pred) or len(tpev[1]["ids"]) != len(tp_over):
        raise vlib.Machinery("C04: tpids returned an incomplete answer")
    if not any(tpev[0]["res"]) or all(tpev[0]["res"]) or not any(a == b for a, b in zip(tpev[1]["ins"], tpev[1]["ids"])) \
            or all(a == b for a, b in zip(tpev[1]["ins"], tpev[1]["ids"])):
        raise vlib.Machinery("C04 vacuity: IsGREASEID / IdOverride inputs do not exercise both outcomes")
    fp_ids = gids[:: max(1, len(gids) // (4 if ctx.quick else 12))]
    cases = [{"id": i, "mode": "parrot", "n": nconn} for i in gids]
    cases += [{"id": i, "mode": "fingerprint", "n": nconn} for i in fp_ids]
    cr_ids = [gids[(ctx.seed + k) % len(gids)] for k in range(1 if ctx.quick else 4)]
    cases += [{"id": i, "mode": "constrand", "n": 256, "k": 2 * nidx, "b0": 0} for i in cr_ids]
    # every pair of nibbles for the seeds of the two GREASE extensions (exhaustive: 16 x 16 connections per parrot)
    two_ext = [i for i in gids if sum(1 for e in d["specs"][i]["exts"] if e["kind"] == "UtlsGREASEExtension") >= 2]
    pr_ids = [two_ext[(ctx.seed + k) % len(two_ext)] for k in range(1 if ctx.quick else 3)]
    cases += [{"id": i, "mode": "pairrand", "n": 256, "k": 2 * nidx, "i1": 2, "i2": 3} for i in pr_ids]
    # spec-object reuse: ApplyPreset writes the per-connection GREASE values into the spec's extension objects, so a spec
    # applied again (next connection, or a second ApplyPreset on the same UConn) starts from the previous values
    def is_g(v):
        return (v >> 8) == (v & 0xff) and (v & 0xf) == 0xa
    def share_grease(sp):
        return any(e["kind"] == "KeyShareExtension" and any(is_g(k["Group"]) for k in e["f"]["KeyShares"]) for e in sp["exts"])
    def no_psk(sp):
        return not any("PreSharedKey" in e["kind"] for e in sp["exts"])
    rids = [i for i in gids if share_grease(d["specs"][i]) and no_psk(d["specs"][i])]
    if len(rids) < 3:
        raise vlib.Machinery("C04: fewer than 3 parrots with a GREASE key share and no PSK extension for the reuse cases")
    rot = ctx.seed % len(rids)
    rids = rids[rot:] + rids[:rot]
    reuse_modes = ["reuse-id", "reuse-fp", "reuse-custom", "twice", "twice-custom"]
    per_mode = 2 if ctx.quick else len(rids)
    reuse_cases = [{"id": rids[(k + m) % len(rids)], "mode": mode, "n": nconn}
                   for m, mode in enumerate(reuse_modes) for k in range(per_mode)]
    cases += reuse_cases
    # GREASE key shares with a multi-byte body and GREASE entries at non-default positions: custom specs, the same hello
    # imported back by the fingerprinter and through its JSON description (built-in parrots use a one-byte GREASE share)
    def json_ok(sp):
        curves = [c for e in sp["exts"] if e["kind"] == "SupportedCurvesExtension" for c in e["f"]["Curves"]]
        return not any("EncryptedClientHello" in e["kind"] for e in sp["exts"]) and all(is_g(c) or c in (29, 23, 24, 25) for c in curves)
    jids = [i for i in rids if json_ok(d["specs"][i])]
    if not jids:
        raise vlib.Machinery("C04: no GREASE-key-share parrot that the JSON format can describe")
    ks_bodies = [2, 7, 32]
    ks_cases = []
    nper = 1 if ctx.quick else 4
    for bi, body in enumerate(ks_bodies):
        for k in range(nper):
            ks_cases.append({"id": rids[(bi + k) % len(rids)], "mode": "custom-ks", "n": nconn, "ksbody": body})
            ks_cases.append({"id": rids[(bi + k + 1) % len(rids)], "mode": "fp-ks", "n": nconn, "ksbody": body})
            ks_cases.append({"id": jids[(bi + k) % len(jids)], "mode": "json-ks", "n": nconn, "ksbody": body})
    ks_cases += [{"id": rids[0], "mode": "custom-ks", "n": nconn, "ksbody": 1, "shape": True},
                 {"id": rids[1 % len(rids)], "mode": "custom-ks", "n": nconn, "ksbody": 7, "shape": True},
                 {"id": rids[2 % len(rids)], "mode": "fp-ks", "n": nconn, "ksbody": 2, "shape": True},
                 {"id": jids[0], "mode": "json-ks", "n": nconn, "ksbody": 32, "shape": True},
                 {"id": rids[0], "mode": "reuse-custom-ks", "n": nconn, "ksbody": 32}]
    cases += ks_cases
    # Config.Rand variants: io.Reader allows short reads; the GREASE seed must be complete (fresh) with any of them
    rand_variants = ["full", "onebyte", "chunks"]
    rand_ids = [gids[(ctx.seed + 3 * k) % len(gids)] for k in range(2 if ctx.quick else 8)]
    rand_cases = [{"id": i, "mode": mode, "n": nconn, "rand": rv} for rv in rand_variants for i in rand_ids for mode in ("parrot",)]
    rand_cases += [{"id": rids[0], "mode": "reuse-id", "n": nconn, "rand": rv} for rv in rand_variants]
    cases += rand_cases
    gh = ctx.drv("ghellos", {"cases": cases}, prog="gen", timeout=1500)
    panics = [e for e in gh if e["ev"] == "Hello" and e["panic"]]
    for e in panics:
        ctx.finding("panic:%s" % gh[e["g"] - 1]["grp"], "panic while sending hello: %s" % e["panic"], {"grp": gh[e["g"] - 1]["grp"]})

    # ---- shards: generator events in shard 0, connection groups spread over the others
    groups, cur = [], []
    for r in gh:
        cur.append(r)
        if r["ev"] == "EndGroup":
            groups.append(cur); cur = []
    nsh = 4 if ctx.quick else 12
    shards = [[] for _ in range(nsh)]
    shards[0] = list(boring) + list(quic) + list(tpev)
    for k, g in enumerate(groups):
        s = shards[1 + k % (nsh - 1)]
        s.extend(regroup(g, len(s)))
    with cf.ThreadPoolExecutor(max_workers=nsh) as ex:
        results = list(ex.map(lambda k: validate(ctx, shards[k], "c04_s%d" % k), range(nsh)))
    ctx.traces += sum(1 for s in shards for r in s if r["ev"] in ("Hello", "TPBody")) + len(boring) + 2
    collided = sum(c for _, c in results)
    rejected = []
    for k, (rej, _) in enumerate(results):
        for i, why in rej:
            rejected.append((shards[k][i - 1], why, k))

    # ---- honesty
    ncan = canary(ctx, boring, gh)
    npairs = max(PAIRS.get("c04_s%d" % k, 0) for k in range(nsh))
    if npairs < 240:
        raise vlib.Machinery("C04 vacuity: the pairrand connections show only %d distinct (extension1, extension2) seed nibble pairs" % npairs)
    if collided < 1:
        raise vlib.Machinery("C04 vacuity: no recorded connection went through the equal-GREASE-extension repair branch of ApplyPreset")
    for mode in reuse_modes:
        ok = [g for g in groups if g[0]["mode"] == mode and sum(1 for e in g[1:-1] if e["sent"]) == nconn]
        if not ok:
            raise vlib.Machinery("C04 vacuity: no complete group of %d hellos for spec-reuse mode %s" % (nconn, mode))
    for mode in ("custom-ks", "fp-ks", "json-ks", "reuse-custom-ks"):
        for body in (ks_bodies if mode != "reuse-custom-ks" else [32]):
            ok = False
            for g in groups:
                if g[0]["mode"] != mode or ("/ksbody=%d" % body) not in g[0]["grp"] or sum(1 for e in g[1:-1] if e["sent"]) != nconn:
                    continue
                ks = [k for e in g[0]["spec"]["exts"] if e["kind"] == "KeyShareExtension" for k in e["f"]["KeyShares"]]
                ok = ok or any(is_g(k["Group"]) and len(k["Data"]) == body for k in ks)
            if not ok:
                raise vlib.Machinery("C04 vacuity: no complete group for mode %s whose spec has a GREASE key share of %d bytes" % (mode, body))
    for rv in rand_variants:
        if not [g for g in groups if g[0].get("rand") == rv and sum(1 for e in g[1:-1] if e["sent"]) == nconn]:
            raise vlib.Machinery("C04 vacuity: no complete group of hellos with Config.Rand variant %s" % rv)
    ngroups_with_ext2 = sum(1 for g in groups if sum(1 for e in g[0]["spec"]["exts"] if e["kind"] == "UtlsGREASEExtension") >= 2)
    if ngroups_with_ext2 < 3:
        raise vlib.Machinery("C04 vacuity: fewer than 3 groups with two GREASE extensions")

    # ---- reproduce each class of rejection on fresh observations before reporting it
    classes = {}
    for ev, why, k in rejected:
        if ev["ev"] in ("Hello", "EndGroup"):      # g was renumbered for the shard: resolve the group there
            ev = dict(ev, grp_name=shards[k][ev["g"] - 1]["grp"])
        classes.setdefault(sig_of(why), []).append((ev, why))
    unreproduced, reproduced = [], 0
    for sig, items in sorted(classes.items()):
        ev, why = items[0]
        if ev["ev"] in ("TPIds", "QVers", "TPBody"):
            again = ctx.drv("quicgrease", {"n": 2000, "cases": TP_CASES, "per": 20}, prog="gen", name="quic_again")
            rows = [e for e in again if e["ev"] == ev["ev"] and (ev["ev"] != "TPBody" or e["kinds"] == ev["kinds"])]
        elif ev["ev"] in ("TPIsGrease", "TPOverride"):
            rows = [e for e in ctx.drv("tpids", {"pred": tp_pred, "override": tp_over}, prog="gen", name="tpids_again") if e["ev"] == ev["ev"]]
        elif ev["ev"] == "Boring":
            rows = [e for e in ctx.drv("boring", {}, prog="gen", name="boring_again") if e["idx"] == ev["idx"]]
        else:
            gname = ev["grp_name"] if ev["ev"] in ("Hello", "EndGroup") else ev["grp"]
            gidx = next(i for i, g in enumerate(groups) if g[0]["grp"] == gname)
            rows = regroup(ctx.drv("ghellos", {"cases": [cases[gidx]]}, prog="gen", name="gh_again"))
        rej2, _ = validate(ctx, rows, "c04_again")
        sigs2 = {sig_of(w) for _, w in rej2}
        if sig not in sigs2:
            # a rejection seen on randomly seeded connections need not recur on fresh randomness: it is set aside (never
            # reported); if nothing at all reproduces the run is not a verdict (see below)
            unreproduced.append(sig)
            continue
        reproduced += 1
        replay = {"event": ev["ev"], "why": why, "cases": len(items)}
        if ev["ev"] == "QVers":
            bad = [bytes(v).hex() for v in ev["vs"] if any((b & 0xf) != 0xa for b in v)][:8]
            replay["examples_hex"] = bad
            replay["call"] = "(&tls.VersionInformation{}).GetGREASEVersion()"
        elif ev["ev"] in ("TPIsGrease", "TPOverride"):
            replay["ids"] = sorted(int.from_bytes(bytes(b), "big") for b in why[1])[:50]
            replay["call"] = ("tls.GREASETransportParameter{}.IsGREASEID(id)" if ev["ev"] == "TPIsGrease"
                              else "tls.TransportParameters{&tls.GREASETransportParameter{IdOverride: id, Length: 2}}.Marshal()")
        elif ev["ev"] == "TPIds":
            replay["call"] = "tls.GREASETransportParameter{}.GetGREASEID()"
        elif ev["ev"] == "Hello":
            replay["grp"] = ev["grp_name"]; replay["raw_hex"] = bytes(ev["raw"]).hex(); replay["seed"] = ev["seed"]
        elif ev["ev"] == "TPBody":
            replay["kinds"] = ev["kinds"]; replay["avail"] = ev["avail"]; replay["body_hex"] = bytes(ev["body"]).hex()
        ctx.finding(sig, "GREASE rule rejected by spec/Grease.tla: %s" % json.dumps(why), replay)

    if unreproduced and not reproduced:
        raise vlib.Machinery("C04: rejections not reproduced on a fresh run: %r" % unreproduced)
    for sig in unreproduced:
        ctx.note("rejection %s did not recur on fresh randomness (set aside; other rejections of this run were reproduced)" % sig)
    nh = sum(1 for r in gh if r["ev"] == "Hello")
    evals = len(tp_pred) + len(tp_over) + len(boring) * 65536 + 3 * ndraw + sum(1 for e in quic if e["ev"] == "TPBody") + nh
    samples = [{"boring_idx0_first8": boring[0]["vals"][:8]},
               {"tp_id_be8": quic[0]["ids"][0], "quic_version_be4": quic[1]["vs"][0]},
               {"group": groups[0][0]["grp"], "seed": groups[0][1]["seed"], "hello_len": len(groups[0][1]["raw"])}]
    cov = {"evaluations": evals, "distinct_nontrivial": len(boring) * 65536 + len(groups),
           "rule": "evaluations = 65536 seed values x %d indices of GetBoringGREASEValue (exhaustive) + %d draws each of GetGREASEID, GREASETransportParameter.ID, GetGREASEVersion + marshaled transport-parameter lists + wire hellos; distinct = (seed value, index) pairs + connection groups (spec x mode) whose freshness was judged" % (nidx, ndraw),
           "samples": samples, "grease_parrots": len(gids), "connection_groups": len(groups), "connections_per_group": nconn,
           "config_rand_groups": {rv: sum(1 for c in rand_cases if c["rand"] == rv) for rv in rand_variants}, "grease_keyshare_body_groups": len(ks_cases), "grease_keyshare_bodies": ks_bodies, "isgreaseid_inputs": len(tp_pred), "idoverride_inputs": len(tp_over), "fingerprinted_groups": len(fp_ids), "spec_reuse_groups": {m: sum(1 for c in reuse_cases if c["mode"] == m) for m in reuse_modes}, "forced_collision_connections": 256 * len(cr_ids), "collision_branch_seen": collided, "extension_seed_nibble_pairs_seen": npairs,
           "canary_events_rejected": ncan, "exhaustive": False,
           "exhaustive_part": "GetBoringGREASEValue over all 65536 seed values for each index"}
    return "model_checking", cov, [
        "reflection dump of ClientHelloSpec is faithful (placeholders are counted from it)",
        "GetBoringGREASEValue depends only on seed[index] (other seed entries were zero in the exhaustive sweep)",
        "spec-object reuse (one spec for successive connections, ApplyPreset twice on one UConn) is exercised sequentially on parrots with a GREASE key share and no PSK extension",
        "randomized specs carry no GREASE placeholders (generateRandomizedSpec adds none), so GREASE freshness is judged on parrots and fingerprinted specs",
        "freshness is statistical: >= 2 distinct values per kind among 64 connections (false alarm probability 16^-63 on a correct generator)"]
