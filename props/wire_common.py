"""Shared runner pieces of the wire family (C08 ExtCodec, C02): cfg instantiation, sharded TLC trace validation."""
import concurrent.futures as cf
import json, os, re
import vlib


def write_cfg(ctx, name, base, consts):
    """Copy spec/<base>.cfg to <name>.cfg in the scratch dir with CONSTANT values replaced (NAME = value)."""
    src = open(os.path.join(ctx.scratch, base + ".cfg")).read()
    for k, v in consts.items():
        src, n = re.subn(r"(?m)^(\s*%s\s*=\s*).*$" % re.escape(k), lambda m: m.group(1) + str(v), src)
        if n != 1:
            raise vlib.Machinery("cfg %s: constant %s not found" % (base, k))
    open(os.path.join(ctx.scratch, name + ".cfg"), "w").write(src)
    return name


def instantiate(ctx, module, newname, repl):
    src = open(os.path.join(ctx.scratch, module + ".tla")).read()
    for a, b in repl.items():
        if a not in src:
            raise vlib.Machinery("%s.tla does not mention %s" % (module, a))
        src = src.replace(a, b)
    src = src.replace("MODULE " + module, "MODULE " + newname)
    open(os.path.join(ctx.scratch, newname + ".tla"), "w").write(src)


def validate(ctx, module, cfg, scn_file, trace_file, pairs, nshards, tag, timeout=1500, count=True):
    """pairs: list of (scenario_obj, event_obj); event_obj['sc'] is rewritten to the 1-based index inside the shard.
    Returns (rejections [(pair_index, rej_obj)], set of coverage tags, number validated)."""
    n = len(pairs)
    if n == 0:
        return [], set(), 0
    nshards = max(1, min(nshards, n))
    per = (n + nshards - 1) // nshards

    def shard(k):
        part = pairs[k * per:(k + 1) * per]
        if not part:
            return None
        name = "%s_%s_%d" % (module, tag, k)
        sf, tf = "%s_scn.json" % name, "%s_trace.ndjson" % name
        instantiate(ctx, module, name, {scn_file: sf, trace_file: tf})
        ctx.write_json(sf, [s for s, _ in part])
        rows = []
        for i, (_, e) in enumerate(part):
            e = dict(e)
            e["sc"] = i + 1
            rows.append(e)
        ctx.write_ndjson(tf, rows)
        return ctx.tlc(name, cfg=cfg, timeout=timeout, count=count), k * per, len(part)

    with cf.ThreadPoolExecutor(max_workers=nshards) as ex:
        results = [r for r in ex.map(shard, range(nshards)) if r is not None]
    rej, cov, done = [], set(), 0
    for res, base, cnt in results:
        d = res.tagged("DONE")
        if not d or d[0] != cnt:
            raise vlib.Machinery("%s trace validation did not reach the end of its batch: DONE=%r of %d\n%s" % (module, d, cnt, res.out[-1500:]))
        done += cnt
        for c in res.tagged("COV"):
            cov |= set(c)
        for r in res.tagged("REJ"):
            rej.append((base + r["ev"] - 1, r))
    return rej, cov, done
