"""C16 - GREASE ECH extensions look like real outer ECH extensions.
TLA+: spec/C16.tla (grammar + candidate lists + freshness over recorded hellos), Negotiation!CH2Problems
("ch2-ech-grease-changed": identical bytes after a HelloRetryRequest) on NegoMC c17 scenarios of the GREASE-ECH parrots."""
import data, nego_common as nc, vlib

def run(ctx):
    d = data.dump_specs(ctx)
    ids = sorted(i for i, sp in d["specs"].items() if any(e["kind"] == "GREASEEncryptedClientHelloExtension" for e in sp["exts"]))
    if not ids:
        raise vlib.Machinery("vacuous: no parrot with a GREASE ECH extension in the dumped specs")
    n = 64 if ctx.quick else 512
    # server names of every length class: nothing about the extension may depend on the name (lengths up to the DNS limit)
    def name(k):
        labels, left = [], k - 4
        while left > 0:
            labels.append("a" * min(60, left))
            left -= 61
        return ".".join(labels) + ".com" if k > 4 else "a.io"
    snis = ["example.com"] + [name(k) for k in (96, 128, 200, 253)]
    hel = [e for e in ctx.drv("hellos", {"cases": [{"id": i, "sni": sn, "n": n if sn == "example.com" else max(8, n // 8), "omit": True}
                                                   for i in ids for sn in snis]}) if e["ev"] == "Hello"]
    # the same parrots in a process that has first fingerprinted hellos of every GREASE-ECH parrot (an importer must not
    # change what later connections send: candidate tables are not shared state)
    hel += [e for e in ctx.drv("hellos", {"pre_fp": ids, "cases": [{"id": i, "sni": "example.com", "n": n, "omit": True} for i in ids]},
                               name="hellos_after_fp") if e["ev"] == "Hello"]
    notsent = [e for e in hel if not e["sent"]]
    if notsent:
        raise vlib.Machinery("hello not sent: %r" % notsent[0]["err"])
    ctx.write_ndjson("c16_hellos.ndjson", [{"id": e["id"], "raw": e["raw"]} for e in hel])
    res = ctx.tlc("C16", timeout=1200)
    if res.tagged("DONE") != [len(hel)]:
        raise vlib.Machinery("C16 trace not fully consumed: %r" % res.tagged("DONE"))
    ctx.traces += len(hel)
    for b in res.tagged("BAD"):
        ctx.finding("ech-grease:%s:%s" % (b[1], b[0]), "GREASE ECH extension of %s: %s" % (b[0], b[1]), {"id": b[0], "problem": b[1]})
    # binding canary: flip the KDF id of one recorded extension to an impossible value -> must be rejected
    import json
    bad = json.loads(json.dumps(hel[0]))
    raw = bad["raw"]
    pos = next(i for i in range(len(raw) - 4) if raw[i] == 0xfe and raw[i + 1] == 0x0d)
    raw[pos + 5], raw[pos + 6] = 0x7f, 0x7f
    ctx.write_ndjson("c16_hellos.ndjson", [{"id": bad["id"], "raw": raw}])
    cres = ctx.tlc("C16", timeout=300, count=False)
    if not any(b[1] == "malformed-grease-ech" for b in cres.tagged("BAD")):
        raise vlib.Machinery("binding canary: corrupted GREASE ECH extension was accepted")
    # HRR: identical bytes resent
    # (also with a client random that happens to contain the bytes fe 0d, the code point of the extension itself)
    def hrr_subset(xs):
        mine = [x for x in xs if x["id"] in ids]
        return mine + [dict(x, rand_fe0d=True) for x in mine]
    scns, events, rej, _, _ = nc.run_nego(ctx, "c17", subset=hrr_subset, shards=4)
    for r in rej:
        dd = nc.sig_detail(r["detail"])
        if r["kind"] in ("order", "timeout"):
            raise vlib.Machinery("trace problem: %r" % (r,))
        if r["kind"] == "ch2" and "ech" in dd:
            ctx.finding("ech-grease:hrr:%s:%s" % (dd, r["scn"]["id"]), "GREASE ECH extension changed in the second ClientHello of %s" % r["scn"]["id"], {"scenario": nc.scn_brief(r["scn"])})
    two = sum(1 for e in events if e["ev"] == "Result" and e["nch"] == 2)
    if two == 0:
        raise vlib.Machinery("vacuous: no HelloRetryRequest handshake for GREASE-ECH parrots")
    cov = {"evaluations": len(hel) + len(scns), "distinct_nontrivial": len(hel),
           "rule": "%d connections for each parrot whose dumped spec has a GREASE ECH extension (%s), each wire extension judged by TLC against the descriptor's candidate lists, freshness of key/payload/config id; plus every HRR scenario of those parrots (extension bytes must be identical in CH2); distinct = recorded hellos (all carry different random material)" % (n, ", ".join(ids)),
           "samples": [{"id": e["id"], "hello_len": len(e["raw"])} for e in hel[:3]], "hrr_handshakes": two, "exhaustive": False}
    return "model_checking", cov, ["real ECH configs are C15's subject", "config id is a single byte: freshness is stated as >= 8 distinct values per parrot"]
