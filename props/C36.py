"""C36 - the LRU client session cache behaves as a bounded LRU map (sequential and linearizable).

TLA+: spec/LRU.tla (the object + call/linearise/return steps), spec/LRU_MC.tla (exhaustive histories,
scenario emission, soundness of the linearisation device), spec/LRU_Trace.tla (validation of recorded
call/return events of the real cache).  Harness: harness/cmd/lru (lru_seq, lru_conc) - performs and logs only.

 1. TLC enumerates every sequential history of length L (5 quick, 6 thorough) over 4 keys x capacity {1,2,3} (per key: Get, Put fresh,
    Put nil), one representative per key renaming, and checks the model-level invariants; every complete history is a scenario.
 2. Every scenario is replayed on tls.NewLRUClientSessionCache; TLC validates every recorded call
    (result, identity of the returned pointer, len(map), list length, keys of the recency list front to back) against LRU!Do.
 3. Thorough: TLC -simulate produces long random histories (also capacity 0 => default 64, 70 keys).
 4. Concurrent: seeded programs for several goroutines run on one cache under -race; only call-start /
    call-end are logged and TLC searches for a linearisation (LRU!Lin) explaining all results.
 5. Rejected executions are re-run alone in a fresh process and re-validated before they are reported.
"""
import concurrent.futures as cf
import json, random, re
import vlib

SEQ_COVER = ["TDoHit", "TDoMiss", "TDoDelete", "TDoDeleteAbsent", "TDoUpdate", "TDoInsert", "TDoEvict"]
CONC_COVER = ["TCall", "TLin", "TRet", "TFinal"]


def _cfg(ctx, name, base, **repl):
    """copy of spec/<base>.cfg with constants replaced (name = value lines)"""
    txt = open("%s/%s.cfg" % (ctx.scratch, base)).read()
    for k, v in repl.items():
        txt, n = re.subn(r"(?m)^(\s*%s\s*=).*$" % k, r"\1 %s" % v, txt)
        if n != 1:
            raise vlib.Machinery("cfg %s: constant %s not found" % (base, k))
    open("%s/%s.cfg" % (ctx.scratch, name), "w").write(txt)
    return name


def _validate(ctx, tag, events, dfs=False, coverage=False, count=True):
    """Run LRU_Trace on one batch of events. Returns (ok_ids, rejs{id: [rej...]}, res)."""
    mod = "LRU_Trace_%s" % tag
    src = open(ctx.scratch + "/LRU_Trace.tla").read()
    src = src.replace("MODULE LRU_Trace", "MODULE " + mod).replace("lru_trace.ndjson", "lru_trace_%s.ndjson" % tag)
    open("%s/%s.tla" % (ctx.scratch, mod), "w").write(src)
    ctx.write_ndjson("lru_trace_%s.ndjson" % tag, events)
    res = ctx.tlc(mod, cfg="LRU_Trace", dfs=dfs, coverage=coverage, timeout=1700, count=count)
    done = res.tagged("DONE")
    if not done or done[0] != len(events):
        raise vlib.Machinery("LRU_Trace(%s) did not consume the whole batch (%r of %d events)\n%s" % (tag, done, len(events), res.out[-1500:]))
    if res.violated:
        raise vlib.Machinery("LRU_Trace(%s): unexpected TLC violation %r" % (tag, res.violated))
    ok = set(res.tagged("OK"))
    rejs = {}
    for r in res.tagged("REJ"):
        rejs.setdefault(r["id"], []).append(r)
    return ok, rejs, res


def _split(events):
    """batch -> {id: [events of that execution incl. Reset]}"""
    d, cur = {}, None
    for e in events:
        if e["ev"] == "Reset":
            cur = d.setdefault(e["id"], [])
        cur.append(e)
    return d


def _sharded(ctx, tag, events, nshards, dfs=False, coverage=False):
    """validate a batch in nshards TLC processes (cut at Reset events)"""
    per = _split(events)
    ids = list(per.keys())
    if not ids:
        raise vlib.Machinery("no executions recorded for " + tag)
    nshards = max(1, min(nshards, len(ids)))
    parts = [[] for _ in range(nshards)]
    for n, i in enumerate(ids):
        parts[n * nshards // len(ids)].extend(per[i])
    ok, rejs, cov = set(), {}, {}
    with cf.ThreadPoolExecutor(max_workers=nshards) as ex:
        futs = [ex.submit(_validate, ctx, "%s%d" % (tag, k), parts[k], dfs, coverage) for k in range(nshards)]
        for f in futs:
            o, r, res = f.result()
            ok |= o
            rejs.update(r)
            for a, c in res.coverage.items():
                cov[a] = cov.get(a, 0) + c
    rejected = [i for i in ids if i not in ok]
    for i in rejected:
        if i not in rejs:
            raise vlib.Machinery("execution %r neither accepted nor rejected by LRU_Trace" % i)
    return per, rejected, rejs, cov


def _sig(kind, rej):
    """stable signature of a rejection: what the model says vs what the cache did at the first unexplained event"""
    r = max(rej, key=lambda x: x["at"])          # the branch that got furthest
    ev, m = r["ev"], r["model"]
    what = ev.get("op") or ev["ev"]
    if ev["ev"] in ("Do", "Ret"):
        def res(ok, v):
            return ("hit(nil)" if v == 0 else "hit") if ok else "miss"
        obs = res(ev["ok"], ev["rv"]) if (ev.get("op") == "Get" or ev["ev"] == "Ret") else "-"
        mod = res(m["res"]["ok"], m["res"]["v"]) if (ev.get("op") == "Get" or ev["ev"] == "Ret") else "-"
        if obs == mod and ev["ev"] == "Do":
            if ev["ok"] and ev["rv"] != m["res"]["v"]:
                obs, mod = "value", "othervalue"
            elif ev["mlen"] != m["len"] or ev["qlen"] != m["len"]:
                obs, mod = "len=%+d" % (ev["mlen"] - m["len"]), "len"
            else:
                obs, mod = "other-recency-order", "recency-order"
        detail = "model=%s:impl=%s" % (mod, obs)
    elif ev["ev"] == "Final":
        detail = ("model-len%+d" % (ev["mlen"] - m["len"])) if ev["mlen"] != m["len"] else "recency-order"
    else:
        detail = ev["ev"]
    cause = "after-nil-put-of-absent-key" if any(x["nilabs"] for x in rej) else "no-nil-put-of-absent-key"
    return "%s:%s:%s:%s" % (kind, cause, what, detail), r


def _programs(rnd, nthreads, nops, nkeys, base=0):
    progs, v = [], base
    for t in range(nthreads):
        p = []
        for _ in range(nops):
            k = rnd.randint(1, nkeys)
            x = rnd.random()
            if x < 0.40:
                p.append({"op": "Get", "k": k, "v": 0})
            elif x < 0.85:
                v += 1
                p.append({"op": "Put", "k": k, "v": v})
            else:
                p.append({"op": "Put", "k": k, "v": 0})
        progs.append(p)
    return progs


def _lap(ctx, what):
    import time
    now = time.time()
    ctx.laps.append((what, round(now - ctx.lap0, 1)))
    ctx.lap0 = now


def run(ctx):
    import time
    ctx.laps, ctx.lap0 = [], time.time()
    q = ctx.quick
    vacuous = []        # needed spec branches that no recorded event matched (judged at the end, see _vacuity)
    rnd = random.Random(ctx.seed * 1000003 + 36)
    assumptions = [
        "key names are uninterpreted by the cache: the exhaustive part enumerates histories up to renaming of keys (4 keys) and replays each "
        "class under one seeded random renaming; values are compared by pointer identity",
        "the harness reads len(c.m), c.q.Len() and the keys of the list c.q by reflection, sequentially (after every call / after joining all goroutines)",
        "concurrent schedules are those the Go scheduler produced (16 cores, optional seeded yields), not an exhaustive set; "
        "data-race freedom is the verdict of the Go race detector on those runs, not of TLC",
        "call/return events are ordered by a process-wide atomic counter taken before the call and after the return",
    ]

    # ------------------------------------------------------------------ 1. exhaustive sequential histories
    # every history of L calls over 4 keys x capacity {1,2,3}, one representative per class of key renamings (LRU_MC Canon = TRUE:
    # keys are introduced in the order 1,2,3,4); 4 keys > capacity 3, so every capacity can fill up and evict after hits below capacity
    L = 5 if q else 6
    NK = 4
    mc = ctx.tlc("LRU_MC", cfg=_cfg(ctx, "LRU_MC_run", "LRU_MC", MaxLen=L, Keys="{1, 2, 3, 4}", Canon="TRUE"), workers=4 if q else 8, coverage=False, timeout=1500)
    if mc.violated:
        raise vlib.Machinery("LRU_MC: model-level invariant %r violated - the specification contradicts itself" % mc.violated)
    growth = {0: 1}                 # number of key patterns of length L: each key <= (largest key so far) + 1, at most NK keys
    for _ in range(L):
        nxt = {}
        for m, c in growth.items():
            for k in range(1, min(m + 1, NK) + 1):
                nxt[max(m, k)] = nxt.get(max(m, k), 0) + c
        growth = nxt
    expect = 3 * 3 ** L * sum(growth.values())
    scen = []
    for i, sc in enumerate(mc.tagged("SCN")):
        # the representative is replayed under a random renaming of the keys (a history is a history: TLC judges the renamed one)
        perm = list(range(1, NK + 1))
        rnd.shuffle(perm)
        scen.append({"id": i + 1, "cap": sc["cap"], "ops": [dict(o, k=perm[o["k"] - 1]) for o in sc["ops"]]})
    if len(scen) != expect:
        raise vlib.Machinery("LRU_MC emitted %d scenarios, expected all %d canonical histories" % (len(scen), expect))
    # soundness of the call / linearise / return device itself (all interleavings, 2 goroutines x 2 calls)
    mcc = ctx.tlc("LRU_MC", cfg=_cfg(ctx, "LRU_MCc_run", "LRU_MCc", Caps="{1}" if q else "{1, 2}", Keys="{1}" if q else "{1, 2}"), workers=8, timeout=1500)
    if mcc.violated:
        raise vlib.Machinery("LRU_MCc: %r violated - the linearisation device of the specification is unsound" % mcc.violated)
    # 2 goroutines x 2 calls x (call, linearise, return): only a run that took all three kinds of step reaches depth 13
    if mcc.depth != 13:
        raise vlib.Machinery("vacuity: LRU_MCc explored depth %d, expected 13 (2 goroutines x 2 calls x call/linearise/return)" % mcc.depth)

    _lap(ctx, "model checking")
    inductive = None
    if not q:
        inductive = _inductive(ctx)
        _lap(ctx, "inductive invariant (Apalache)")
    # ------------------------------------------------------------------ 3. long random histories (TLC simulation)
    nexh = len(scen)
    sims = []
    # (keys, capacities, history length, simulated runs, Put(k, nil) included, histories kept per run)
    for (keys, caps, ln, num, nilputs, keep) in ([("{1, 2, 3}", "{1, 2, 3}", 20, 20, True, 9), ("{1, 2, 3, 4, 5}", "{3, 4}", 30, 20, True, 15)] if q else
                                  [("{1, 2, 3}", "{1, 2, 3}", 40, 400, True, 9), ("{1, 2, 3, 4, 5}", "{2, 3, 4}", 60, 200, True, 15),
                                   ("{%s}" % ", ".join(map(str, range(1, 71))), "{0, 64}", 400, 4, False, 10)]):
        cfgname = _cfg(ctx, "LRU_MC_sim%d" % len(sims), "LRU_MCsim", MaxLen=ln, Keys=keys, Caps=caps, NilPuts="TRUE" if nilputs else "FALSE")
        sm = ctx.tlc("LRU_MC", cfg=cfgname, simulate="num=%d" % num, depth=ln + 1, extra=["-seed", str(ctx.seed)], timeout=1500)
        if sm.violated:
            raise vlib.Machinery("LRU_MC simulation: model-level invariant %r violated" % sm.violated)
        # TLC prints every terminal successor of the last step (siblings that differ in the last call only): keep `keep` per run
        got, seen = [], {}
        for s in sm.tagged("SCN"):
            pre = json.dumps([s["cap"], s["ops"][:-1]])
            seen[pre] = seen.get(pre, 0) + 1
            if seen[pre] <= keep:
                got.append(s)
        if len(got) < num:
            raise vlib.Machinery("LRU_MC simulation emitted %d histories for %d runs" % (len(got), num))
        sims.append((keys if len(keys) < 40 else "{1..70}", caps, ln, len(got)))
        scen += [dict(s, id=len(scen) + i + 1) for i, s in enumerate(got)]
    byid = {s["id"]: s for s in scen}

    _lap(ctx, "simulation")
    # ------------------------------------------------------------------ 2. replay + validation
    evs = ctx.drv("lru_seq", {"scenarios": scen}, prog="lru", name="lru_seq")
    _lap(ctx, "sequential replay")
    per, rejected, rejs, cov = _sharded(ctx, "s", evs, 4 if q else 12, coverage=True)
    ctx.traces += len(per)
    for a in SEQ_COVER + ["TReset"]:
        if cov.get(a, 0) == 0:
            vacuous.append("vacuity: trace action %s never matched a recorded call" % a)
    seq_calls = sum(cov.get(a, 0) for a in SEQ_COVER)

    _lap(ctx, "sequential validation")
    # ------------------------------------------------------------------ 5. reproduce rejected sequential executions
    groups = {}
    for i in rejected:
        s, r = _sig("seq", rejs[i])
        groups.setdefault(s, []).append((r["at"], i))
    # the shortest failing prefixes of each signature are re-run together in one fresh process (a fresh cache each)
    # and re-validated by a fresh TLC; a signature is reported only if one of its candidates is rejected again
    cands = []
    for s, lst in sorted(groups.items()):
        lst.sort()
        for at, i in lst[:3]:
            cands.append((s, dict(cap=byid[i]["cap"], ops=byid[i]["ops"][:at], id=len(cands) + 1)))
    if cands:
        ev1 = ctx.drv("lru_seq", {"scenarios": [c[1] for c in cands]}, prog="lru", name="lru_seq_re")
        ok1, rej1, _ = _validate(ctx, "re", ev1, count=False)
        per1 = _split(ev1)
        conf = {}
        for s, sc in cands:
            if s not in conf and sc["id"] not in ok1 and _sig("seq", rej1[sc["id"]])[0] == s:
                conf[s] = (sc, per1[sc["id"]], rej1[sc["id"]][0])
        unrepro = [s for s in groups if s not in conf]
        if unrepro:
            raise vlib.Machinery("rejections not reproduced in a fresh process: %r" % unrepro)
        for s, lst in sorted(groups.items()):
            sc, es, r = conf[s]
            what = ("sequential history rejected by LRU_Trace at call %d: %s returned ok=%s rv=%s (len %s), model: %s; history cap=%d %s"
                    % (r["at"], {k: r["ev"][k] for k in ("op", "k", "v") if k in r["ev"]}, r["ev"].get("ok"), r["ev"].get("rv"), "%s, list %s" % (r["ev"].get("mlen"), r["ev"].get("order")),
                       r["model"], sc["cap"], [(o["op"], o["k"], o["v"]) for o in sc["ops"]]))
            for _ in lst:
                ctx.finding(s, what, {"scenario": sc, "events": es, "rejection": r})

    _lap(ctx, "sequential reproduction")
    # ------------------------------------------------------------------ 4. concurrent executions under -race
    shapes = [(3, 4, 3, 250), (3, 5, 4, 150)] if q else [(3, 4, 3, 4000), (2, 6, 2, 2000), (4, 5, 3, 1500), (6, 3, 4, 1000)]
    rounds = []
    for (nt, nops, nkeys, count) in shapes:
        for _ in range(count):
            rounds.append({"id": len(rounds) + 1, "cap": rnd.choice([1, 2, 3]) if nkeys <= 3 else rnd.choice([2, 3]),
                           "progs": _programs(rnd, nt, nops, nkeys), "yield": rnd.choice([0, 0, 2, 4])})
    cevs, races = _conc(ctx, rounds, "lru_conc")
    _lap(ctx, "concurrent runs (-race)")
    cper, crejected, crejs, ccov = _sharded(ctx, "c", cevs, 4 if q else 12, dfs=True, coverage=True)
    ctx.traces += len(cper)
    for a in CONC_COVER:
        if ccov.get(a, 0) == 0:
            vacuous.append("vacuity: trace action %s never matched in the concurrent executions" % a)
    _lap(ctx, "concurrent validation")
    overl = 0
    for i, es in cper.items():
        open_, hit = set(), False
        for e in es:
            if e["ev"] == "Call":
                hit = hit or bool(open_)
                open_.add(e["t"])
            elif e["ev"] == "Ret":
                open_.discard(e["t"])
        overl += hit
    if overl < len(cper) // 20:
        raise vlib.Machinery("vacuity: only %d of %d concurrent executions had overlapping calls" % (overl, len(cper)))
    if races:
        ctx.finding("race:lruSessionCache", "Go race detector reported a data race while %d goroutine programs ran on one cache" % len(rounds),
                    {"report": races[:6000]})
    rbyid = {r["id"]: r for r in rounds}
    cgroups = {}
    for i in crejected:
        s, r = _sig("conc", crejs[i])
        cgroups.setdefault(s, []).append(i)
    if cgroups:
        # a schedule cannot be replayed: the programs of (two executions of) every signature are re-run RERUN times in one
        # fresh process; the signature is reported if an execution rejected for the same cause class shows up again
        RERUN = 60
        again, owner = [], {}
        for s, lst in sorted(cgroups.items()):
            for i in lst[:2]:
                for _ in range(RERUN):
                    again.append(dict(rbyid[i], id=len(again) + 1))
                    owner[len(again)] = (s, i)
        ev2, _ = _conc(ctx, again, "lru_conc_re")
        per2, rej2, rejs2, _ = _sharded(ctx, "cre", ev2, 2 if q else 8, dfs=True)
        conf = {}
        for j in rej2:
            s, i = owner[j]
            if _sig("conc", rejs2[j])[0].split(":")[:2] == s.split(":")[:2]:
                c = conf.setdefault(s, [rbyid[i], per2[j], _sig("conc", rejs2[j])[1], 0])
                c[3] += 1
        for s, lst in sorted(cgroups.items()):
            if s not in conf:
                raise vlib.Machinery("concurrent rejection %s not reproduced in 2 x %d re-runs of the same programs; recorded execution: %s"
                                     % (s, RERUN, json.dumps(cper[lst[0]])))
            rd, es, r, n = conf[s]
            what = ("no linearisation of the recorded calls explains event %s (model in the deepest branch: %s); cap=%d programs=%s; rejected again in %d re-runs"
                    % (r["ev"], r["model"], rd["cap"], [[(o["op"], o["k"], o["v"]) for o in p] for p in rd["progs"]], n))
            for _ in lst:
                ctx.finding(s, what, {"round": rd, "events": es, "rejection": r})

    _lap(ctx, "concurrent reproduction")
    # ------------------------------------------------------------------ binding canaries
    if vacuous:
        # a needed branch that never matched is a machinery problem - unless the implementation's deviation is the reason
        # (then the rejections above are the finding and the unmatched branches are only noted)
        if not ctx.findings:
            raise vlib.Machinery("; ".join(vacuous))
        for v in vacuous:
            ctx.note(v + " (rejections reported instead)")
    canaries = _canaries(ctx, per, rejected, cper, crejected)
    _lap(ctx, "canaries")
    print("laps:", ctx.laps)

    samples = [{"scenario": {"cap": s["cap"], "ops": [(o["op"], o["k"], o["v"]) for o in s["ops"]]},
                "recorded": [{k: e[k] for k in ("op", "k", "ok", "rv", "mlen", "order") if k in e} for e in per[s["id"]][1:]]}
               for s in (scen[4], scen[len(scen) // 3], scen[nexh - 1])]
    if cper:
        i0 = next(iter(cper))
        samples.append({"concurrent": rbyid[i0], "recorded": cper[i0][:12]})
    covd = {
        "evaluations": len(per) + len(cper),
        "distinct_nontrivial": len(per) - sum(1 for s in scen if all(o["op"] == "Get" for o in s["ops"])) + overl,
        "rule": "evaluations = recorded executions of the real cache judged by TLC (sequential scenarios + concurrent rounds); "
                "distinct_nontrivial = sequential scenarios with at least one Put (all distinct histories) + concurrent rounds in which calls really overlapped",
        "exhaustive": True,
        "exhaustive_scope": "all %d sequential histories of %d calls over 4 keys x capacity 1..3 up to renaming of keys (every prefix included; each representative replayed "
                            "under one random renaming); everything else is sampled" % (nexh, L),
        "sequential": {"history_length": L, "scenarios_exhaustive": nexh, "simulated": [dict(keys=k, caps=c, length=l, histories=n) for (k, c, l, n) in sims],
                       "calls_validated": seq_calls, "matched_by_branch": {a: cov.get(a, 0) for a in SEQ_COVER}, "rejected": len(rejected),
                       "rejection_signatures": {s: len(l) for s, l in groups.items()}},
        "concurrent": {"rounds": len(cper), "shapes_threads_ops_keys_rounds": shapes, "with_overlapping_calls": overl, "rejected": len(crejected),
                       "rejection_signatures": {s: len(l) for s, l in cgroups.items()}, "race_reports": 1 if races else 0,
                       "matched": {a: ccov.get(a, 0) for a in CONC_COVER}},
        "device_check": {"module": "LRU_MC/LRU_MCc", "distinct_states": mcc.distinct, "depth": mcc.depth},
        "inductive_invariant": inductive if inductive is not None else "thorough tier only",
        "canaries_rejected": canaries,
        "wall_s_by_phase": dict(ctx.laps),
        "samples": samples,
    }
    return "model_checking", covd, assumptions


# ---------------------------------------------------------------------- inductive invariant (Apalache, thorough tier)
def _defs(text):
    """definitions of a TLA+ text, comments stripped and whitespace collapsed: {name: body}"""
    text = re.sub(r"\\\*[^\n]*", "", text)
    text = re.sub(r"\(\*.*?\*\)", "", text, flags=re.S)
    out, name, buf = {}, None, []
    for line in text.splitlines():
        m = re.match(r"^([A-Za-z]\w*)(\([^)]*\))?\s*==", line)
        if m:
            if name:
                out[name] = " ".join(" ".join(buf).split())
            name, buf = m.group(1), [line]
        elif name is not None:
            if line.startswith("----") or line.startswith("====") or re.match(r"^(VARIABLES?|CONSTANTS?)\b", line):
                out[name] = " ".join(" ".join(buf).split())
                name, buf = None, []
            else:
                buf.append(line)
    if name:
        out[name] = " ".join(" ".join(buf).split())
    return out


def _apalache(wd, module, init, inv, length, timeout):
    """one apalache-mc check; returns (status, seconds, tail) with status proved | counterexample | timeout | crash"""
    import os, signal, subprocess, time
    t0 = time.time()
    p = subprocess.Popen(["apalache-mc", "check", "--config=LRU_Ind.cfg", "--init=" + init, "--inv=" + inv, "--length=%d" % length,
                          "--out-dir=" + os.path.join(wd, "_out_%s_%s_%s" % (module, init, inv)), module + ".tla"],
                         cwd=wd, stdout=subprocess.PIPE, stderr=subprocess.STDOUT, text=True, start_new_session=True)
    try:
        out, _ = p.communicate(timeout=timeout)
    except subprocess.TimeoutExpired:
        try:
            os.killpg(p.pid, signal.SIGKILL)      # the process group of this very child, nothing else
        except ProcessLookupError:
            pass
        p.communicate()
        return "timeout", round(time.time() - t0, 1), ""
    dt = round(time.time() - t0, 1)
    if "The outcome is: NoError" in out and "EXITCODE: OK" in out:
        return "proved", dt, out[-400:]
    if "The outcome is: Error" in out and "EXITCODE: ERROR (12)" in out:
        return "counterexample", dt, "\n".join(l for l in out.splitlines() if "violated" in l or "outcome" in l)
    return "crash", dt, out[-1500:]


def _inductive(ctx):
    """Apalache: IndInv (and the per-call StepInv) of spec/LRU_Ind.tla hold initially and are preserved by every Get/Put from EVERY
    state satisfying IndInv - i.e. for histories of any length.  Returns the evidence record; never produces a finding."""
    import os, shutil
    wd = os.path.join(ctx.scratch, "apalache")
    os.makedirs(wd, exist_ok=True)
    for f in ("LRU_Ind.tla", "LRU_Ind.cfg"):
        shutil.copy(os.path.join(ctx.scratch, f), wd)
    src = open(os.path.join(wd, "LRU_Ind.tla")).read()
    # the typed copy must say what LRU.tla says: every definition between the COPY markers is compared with LRU.tla
    copy = src[src.index("\\* BEGIN COPY"):src.index("\\* END COPY")]
    copy = re.sub(r"\\\* @type:[^;]*;", "", copy)
    mine, orig = _defs(copy), _defs(open(os.path.join(ctx.scratch, "LRU.tla")).read())
    if len(mine) < 12:
        raise vlib.Machinery("LRU_Ind.tla: only %d copied definitions recognised" % len(mine))
    for name, body in mine.items():
        if orig.get(name) != body:
            raise vlib.Machinery("LRU_Ind.tla is out of sync with LRU.tla: definition %s differs\n  LRU:     %s\n  LRU_Ind: %s" % (name, orig.get(name), body))
    cfg = open(os.path.join(wd, "LRU_Ind.cfg")).read()
    mincap, maxcap = int(re.search(r"MinCap\s*=\s*(-?\d+)", cfg).group(1)), int(re.search(r"MaxCap\s*=\s*(-?\d+)", cfg).group(1))
    # canary: the same module with the unrepaired Put (a nil Put of an absent key stores an entry) must NOT be inductive
    can = src.replace("MODULE LRU_Ind", "MODULE LRU_IndCanary")
    can, n = re.subn(r"IF v = Nil THEN Without\(q, k\)", "IF v = Nil /\\ Has(q, k) THEN Without(q, k)", can)
    if n != 1:
        raise vlib.Machinery("LRU_Ind canary: Put's delete branch not found")
    open(os.path.join(wd, "LRU_IndCanary.tla"), "w").write(can)
    T = 1200
    jobs = {"base: Init => IndInv": ("LRU_Ind", "Init", "IndInv", 0),
            "step: IndInv /\\ Next => IndInv'": ("LRU_Ind", "IndInit", "IndInv", 1),
            "results: IndInv /\\ Next => StepInv": ("LRU_Ind", "IndInit", "StepInv", 1),
            "canary (unrepaired Put is not inductive)": ("LRU_IndCanary", "IndInit", "IndInv", 1)}
    with cf.ThreadPoolExecutor(max_workers=len(jobs)) as ex:
        futs = {k: ex.submit(_apalache, wd, m, i, v, l, T) for k, (m, i, v, l) in jobs.items()}
        res = {k: f.result() for k, f in futs.items()}
    shutil.rmtree(wd, ignore_errors=True)
    for k, (st, dt, tail) in res.items():
        if st == "crash":
            raise vlib.Machinery("apalache-mc crashed on '%s':\n%s" % (k, tail))
    ck = "canary (unrepaired Put is not inductive)"
    if res[ck][0] == "proved":
        raise vlib.Machinery("Apalache accepted the canary (a Put that stores nil entries) as inductive: the proof set-up is vacuous")
    obligations = {k: {"status": st, "wall_s": dt} for k, (st, dt, _) in res.items() if k != ck}
    for k, (st, dt, tail) in res.items():
        if k != ck and st == "counterexample":
            # a counterexample to induction is an error of the model / invariant, never a statement about utls
            raise vlib.Machinery("LRU_Ind: '%s' has a counterexample to induction - the invariant or the model needs fixing:\n%s" % (k, tail))
    proved = all(o["status"] == "proved" for o in obligations.values())
    return {
        "tool": "apalache-mc 0.58.0 (symbolic, SMT), spec/LRU_Ind.tla",
        "established": proved,
        "verdict": "proved" if proved else "not established (an obligation did not finish within %d s; neither a pass nor a violation)" % T,
        "obligations": obligations,
        "canary": {"status": res[ck][0], "wall_s": res[ck][1]},
        "statement": "for every capacity %d..%d, all integer keys and values (unbounded), and every history of Get/Put of ANY length: at most cap entries, "
                     "keys unique, no nil value stored, the recency list is a permutation of the map's key set; every call returns what LRU!GetRes/PutQ define, "
                     "moves the used key to the front, evicts only the least recently used entry and only when full, and keeps the order and values of all other entries"
                     % (mincap, maxcap),
        "scope": {"capacities": [mincap, maxcap], "keys": "Int (unbounded)", "values": "Int (unbounded, Nil = 0)", "history_length": "unbounded (induction)",
                  "not_covered": "capacity < 1 (default 64) and capacities > %d: Apalache's Gen(64) encoding did not finish within 28 min at design time; "
                                 "the call/linearise/return layer (part 2 of LRU.tla) is covered by TLC only" % maxcap},
        "copied_definitions_checked_against_LRU.tla": sorted(mine),
    }


def _conc(ctx, rounds, name):
    """runs the concurrent driver under the race detector; returns (events, race report text or '')"""
    evs = ctx.drv("lru_conc", {"rounds": rounds}, race=True, prog="lru", name=name,
                  env_extra={"GORACE": "exitcode=0 halt_on_error=0"})
    err = getattr(ctx, "last_drv_stderr", "") or ""
    return evs, (err if "DATA RACE" in err else "")


def _canaries(ctx, per, rejected, cper, crejected):
    """corrupt one logged field / drop one event of accepted executions: TLC must reject every one of them"""
    bad = set(rejected)
    good = [es for i, es in per.items() if i not in bad]
    cgood = [es for i, es in cper.items() if i not in set(crejected)]
    if not good or not cgood:
        return 0   # nothing accepted at all: findings are being reported; canaries need a good trace
    def find(pred):
        for es in good:
            for n, e in enumerate(es):
                if pred(e):
                    return es, n
        raise vlib.Machinery("canary: no accepted execution contains the event needed")
    muts = []
    es, n = find(lambda e: e["ev"] == "Do" and e["op"] == "Get" and e["ok"])
    muts.append(("hit->miss", [dict(e, ok=False, rv=0) if k == n else e for k, e in enumerate(es)]))
    muts.append(("value", [dict(e, rv=e["rv"] + 1) if k == n else e for k, e in enumerate(es)]))
    es, n = find(lambda e: e["ev"] == "Do" and e["op"] == "Get" and not e["ok"])
    muts.append(("miss->hit(nil)", [dict(e, ok=True) if k == n else e for k, e in enumerate(es)]))
    es, n = find(lambda e: e["ev"] == "Do" and e["op"] == "Put" and e["v"] != 0)
    muts.append(("len", [dict(e, mlen=e["mlen"] + 1) if k == n else e for k, e in enumerate(es)]))
    es2, n2 = find(lambda e: e["ev"] == "Do" and len(e["order"]) >= 2)
    muts.append(("order", [dict(e, order=[e["order"][1], e["order"][0]] + e["order"][2:]) if k == n2 else e for k, e in enumerate(es2)]))
    muts.append(("qlen", [dict(e, qlen=e["qlen"] - 1) if k == n else e for k, e in enumerate(es)]))
    for es in good:     # drop an inserting Put that is followed by a Get: the Get's sizes no longer fit
        n = next((k for k in range(1, len(es) - 1) if es[k]["ev"] == "Do" and es[k]["op"] == "Put" and es[k]["v"] != 0
                  and es[k]["mlen"] > (es[k - 1].get("mlen", 0)) and es[k + 1].get("op") == "Get"), None)
        if n is not None:
            muts.append(("drop-put", [e for k, e in enumerate(es) if k != n]))
            break
    else:
        raise vlib.Machinery("canary: no accepted execution with an inserting Put followed by a Get")
    # concurrent: a hit of a value that was put makes every linearisation fail when turned into a miss of... use drop of a Ret
    ces = cgood[0]
    n = next(k for k, e in enumerate(ces) if e["ev"] == "Ret")
    muts.append(("drop-ret", [e for k, e in enumerate(ces) if k != n]))
    for ces in cgood:
        n = next((k for k, e in enumerate(ces) if e["ev"] == "Ret" and e["ok"] and e["rv"] > 0), None)
        if n is not None:
            muts.append(("conc-value", [dict(e, rv=-1) if k == n else e for k, e in enumerate(ces)]))
            break
    ces = cgood[-1]
    muts.append(("final-len", [dict(e, mlen=e["mlen"] + 1) if e["ev"] == "Final" else e for e in ces]))
    ces = next((c for c in cgood if len(c[-1]["order"]) >= 2), None)
    if ces is not None:
        muts.append(("final-order", [dict(e, order=e["order"][::-1]) if e["ev"] == "Final" else e for e in ces]))
    batch = []
    for k, (_, es) in enumerate(muts):
        batch += [dict(es[0], id=k + 1)] + es[1:]
    ok, rejs, _ = _validate(ctx, "canary", batch, dfs=True, count=False)
    for k, (name, es) in enumerate(muts):
        if (k + 1) in ok:
            raise vlib.Machinery("binding canary %r was ACCEPTED by LRU_Trace: the trace binding is broken" % name)
    return [m[0] for m in muts]
