"""C08 - every built-in TLSExtension's encoder and decoder agree.
TLA+: spec/ExtCodec.tla (reference encoders XEnc, wire limits InLimits, documented normalisations NormDesc, Judge),
spec/ExtCodec_MC.tla (TLC enumerates the descriptors and checks the halves of the codec specification against each
other and against TLSWire), spec/ExtCodec_Trace.tla (TLC judges what the real Len/Read/Write did).
Harness: harness/cmd/wirea (extcodec): builds each extension from its descriptor by reflection and logs."""
import concurrent.futures as cf
import copy, json
import vlib, wire_common

NEED_TAGS = ["full:L", "full:L+3", "short:L-1", "short:L/2", "short:0", "omit", "refuse", "hole", "roundtrip", "update"]


def gen_scenarios(ctx):
    small = wire_common.write_cfg(ctx, "ExtCodec_MC_run", "ExtCodec_MC", {"Seed": ctx.seed, "MaxList": 2 if ctx.quick else 3})
    bnd = wire_common.write_cfg(ctx, "ExtCodec_MC_boundary_run", "ExtCodec_MC_boundary", {"Seed": ctx.seed})
    with cf.ThreadPoolExecutor(max_workers=2) as ex:
        fa = ex.submit(ctx.tlc, "ExtCodec_MC", cfg=small, timeout=900, workers=1 if ctx.quick else 4)
        fb = ex.submit(ctx.tlc, "ExtCodec_MC", cfg=bnd, timeout=900)
        ra, rb = fa.result(), fb.result()
    for r, what in ((ra, "small alphabet"), (rb, "boundary")):
        if r.violated:
            raise vlib.Machinery("ExtCodec_MC (%s): the specification's own consistency invariants fail: %r\n%s" % (what, r.violated, r.out[-2000:]))
    scns = ra.tagged("SCN") + rb.tagged("SCN")
    nb = len(rb.tagged("SCN"))
    if len(scns) != ra.distinct + rb.distinct or nb == 0:
        raise vlib.Machinery("ExtCodec_MC emitted %d scenarios for %d states" % (len(scns), ra.distinct + rb.distinct))
    return scns, nb


def brief(d):
    s = json.dumps(d, separators=(",", ":"))
    return s if len(s) < 400 else s[:400] + "...(%d chars)" % len(s)


def canaries(ctx, pairs):
    """Corrupt one logged field of good events; every corruption must be rejected, the originals accepted."""
    def pick(pred):
        for s, e in pairs:
            if pred(s, e):
                return s, e
        raise vlib.Machinery("canary: no suitable good event")
    full = lambda e: next(r for r in e["reads"] if r["rel"] == "L")
    s1, e1 = pick(lambda s, e: s["d"]["kind"] == "ALPNExtension" and s["inlimits"] and e["wrote"] and len(full(e)["bytes"]) > 8)
    s2, e2 = pick(lambda s, e: s["d"]["kind"] == "GREASEEncryptedClientHelloExtension" and e["wrote"] and s["inlimits"])
    s3, e3 = pick(lambda s, e: s["d"]["kind"] == "UtlsPaddingExtension" and e["updates"] and any(u["len"] > 0 for u in e["updates"]))
    cases = [("good-alpn", s1, e1, False), ("good-ech", s2, e2, False), ("good-pad", s3, e3, False)]
    c = copy.deepcopy(e1); full(c)["bytes"][-1] ^= 1; cases.append(("byte-flipped", s1, c, True))
    c = copy.deepcopy(e1); c["len"] += 1; cases.append(("len-off-by-one", s1, c, True))
    c = copy.deepcopy(e1); full(c)["bytes"][3] += 1; cases.append(("inner-length", s1, c, True))
    c = copy.deepcopy(e1)
    sh = next(r for r in c["reads"] if r["rel"] == "L-1"); sh["err"] = "EOF"; sh["n"] = sh["size"]
    cases.append(("short-buffer-accepted", s1, c, True))
    c = copy.deepcopy(e1); c["read2"]["bytes"][-1] ^= 1; cases.append(("reencode-differs", s1, c, True))
    c = copy.deepcopy(e1); c["werr"] = "other:forged"; cases.append(("decoder-error", s1, c, True))
    c = copy.deepcopy(e1); next(r for r in c["reads"] if r["rel"] == "L+3")["dirty"] = 1; cases.append(("overrun", s1, c, True))
    c = copy.deepcopy(e2); b = c["read2"]["bytes"]      # a re-encoded payload one byte shorter, framing kept consistent
    el = b[10] * 256 + b[11]; po = 12 + el
    pl = b[po] * 256 + b[po + 1] - 1; b[po], b[po + 1] = pl >> 8, pl & 255
    tot = b[2] * 256 + b[3] - 1; b[2], b[3] = tot >> 8, tot & 255
    b.pop(); c["read2"]["n"] -= 1; c["len2"] -= 1
    cases.append(("ech-reencode-size", s2, c, True))
    c = copy.deepcopy(e3); u = next(u for u in c["updates"] if u["len"] > 0); u["len"] += 1; cases.append(("padding-update", s3, c, True))
    rej, _, done = wire_common.validate(ctx, "ExtCodec_Trace", "ExtCodec_Trace", "extcodec_scn.json", "extcodec_trace.ndjson",
                                        [(s, e) for _, s, e, _ in cases], 1, "canary", count=False)
    rejected = {i for i, _ in rej}
    for i, (name, _, _, want) in enumerate(cases):
        if (i in rejected) != want:
            raise vlib.Machinery("binding canary %s: expected rejection=%s, TLC said %s" % (name, want, i in rejected))
    return len(cases)


def run(ctx):
    kinds = ctx.drv("kinds", {}, prog="wirea")[0]
    scns, nboundary = gen_scenarios(ctx)
    # vacuity of the enumeration: every registered Go type is enumerated, every type with a decoder has a descriptor
    # inside the wire limits whose encoder produces bytes (so the decode half is exercised for it)
    bykind = {}
    for s in scns:
        bykind.setdefault(s["d"]["kind"], []).append(s)
    missing = [k for k in kinds["ext"] if k not in bykind]
    extra = [k for k in bykind if k not in kinds["ext"]]
    if missing or extra:
        raise vlib.Machinery("descriptor enumeration and the harness registry disagree: missing %r, unknown %r" % (missing, extra))
    nodec = [k for k in kinds["writers"] if not any(s["inlimits"] and s["st"] == "ok" for s in bykind[k])
             and k not in ("UtlsPreSharedKeyExtension",)]   # without a session this type never produces bytes (C19/C02 cover it with one)
    if nodec:
        raise vlib.Machinery("no in-limits descriptor for decoder kinds %r" % nodec)
    for i, s in enumerate(scns):
        s["sc"] = i + 1
    evs = ctx.drv("extcodec", {"scns": scns}, prog="wirea", timeout=600)
    if len(evs) != len(scns) or any(e["sc"] != s["sc"] for e, s in zip(evs, scns)):
        raise vlib.Machinery("harness returned %d events for %d scenarios" % (len(evs), len(scns)))
    unbuilt = [e for e in evs if not e["built"]]
    if unbuilt:
        raise vlib.Machinery("harness could not build %d descriptors, e.g. %s: %s" % (len(unbuilt), unbuilt[0]["kind"], unbuilt[0]["builderr"]))
    pairs = list(zip(scns, evs))
    # big boundary events are spread over the shards (they dominate the JSON parsing time)
    nshards = 4 if ctx.quick else 8
    flat = [i for k in range(nshards) for i in range(k, len(pairs), nshards)]
    spairs = [pairs[i] for i in flat]
    rej, cov, done = wire_common.validate(ctx, "ExtCodec_Trace", "ExtCodec_Trace", "extcodec_scn.json", "extcodec_trace.ndjson",
                                          spairs, nshards, "run")
    ctx.traces += done
    # reproduce every rejection alone: fresh harness process, fresh TLC run
    confirmed = []
    classes = {}
    for idx, r in rej:
        classes.setdefault((spairs[idx][0]["d"]["kind"], "+".join(sorted(r["why"]))), []).append(idx)
    ridx = [i for members in classes.values() for i in members[:3]]
    if ridx:
        rs = []
        for k, i in enumerate(ridx):
            s1 = dict(spairs[i][0]); s1["sc"] = k + 1
            rs.append(s1)
        e2 = ctx.drv("extcodec", {"scns": rs}, prog="wirea", name="extcodec_repro")
        rej2, _, _ = wire_common.validate(ctx, "ExtCodec_Trace", "ExtCodec_Trace", "extcodec_scn.json", "extcodec_trace.ndjson",
                                          list(zip(rs, e2)), 1, "repro", count=False)
        again = {k: r for k, r in rej2}
        for (kind, why), members in classes.items():
            ks = [k for k, i in enumerate(ridx) if i in members[:3] and k in again and "+".join(sorted(again[k]["why"])) == why]
            if not ks:
                raise vlib.Machinery("rejection of %s (%s) did not reproduce" % (kind, why))
            for _ in members:
                confirmed.append((rs[ks[0]], e2[ks[0]], again[ks[0]]))
    for s, e, r in confirmed:
        why = "+".join(sorted(r["why"]))
        ctx.finding("codec:%s:%s" % (s["d"]["kind"], why),
                    "%s: encoder/decoder disagree with the reference codec (%s)" % (s["d"]["kind"], why),
                    {"descriptor": brief(s["d"]), "inlimits": s["inlimits"], "len": e["len"],
                     "reads": [{k: (v if k != "bytes" else bytes(v[:64]).hex()) for k, v in r0.items()} for r0 in e["reads"]],
                     "werr": e["werr"], "wpanic": e["wpanic"], "len2": e["len2"], "why": r["why"]})
    # honesty checks (after the findings, so that a defective tree is reported as such and not as a machinery problem)
    ncan = 0
    try:
        bad = {id(spairs[idx][1]) for idx, _ in rej}
        ncan = canaries(ctx, [p for p in pairs if id(p[1]) not in bad])
        lacking = [t for t in NEED_TAGS if t not in cov]
        if lacking:
            raise vlib.Machinery("judgement branches never taken in trace validation: %r (taken: %r)" % (lacking, sorted(cov)))
    except vlib.Machinery as m:
        if not ctx.findings:
            raise
        ctx.note("honesty checks incomplete on a tree with findings: %s" % str(m)[:300])
    nreads = sum(len(e["reads"]) + (1 if e["wrote"] else 0) + len(e["updates"]) for e in evs)
    rt = sum(1 for s, e in pairs if e["wrote"] and s["inlimits"] and s["st"] == "ok")
    sample = [{"descriptor": brief(s["d"]), "len": e["len"], "read_full_hex": bytes(next(r for r in e["reads"] if r["rel"] == "L")["bytes"][:48]).hex(),
               "write_err": e["werr"], "len_after_write": e["len2"]} for s, e in pairs[200:203]]
    covd = {"evaluations": nreads, "distinct_nontrivial": len(scns),
            "rule": "evaluations = Read/Write/Update observations judged by TLC; distinct = descriptors enumerated by TLC (every registered extension "
                    "type x list lengths 0..%d over 2-3 symbols, plus %d boundary descriptors with seed-dependent contents) x buffer sizes L, L-1, L/2, 0, L+3" % (2 if ctx.quick else 3, nboundary),
            "kinds": len(bykind), "kinds_with_decoder": len(kinds["writers"]), "roundtrips_in_limits": rt, "boundary_descriptors": nboundary,
            "branches_taken": sorted(cov), "canaries": ncan, "samples": sample, "exhaustive": True}
    return "model_checking", covd, ["the harness builds the object the descriptor names (reflection, no per-type code except the padding functor)",
                                     "Read is called on zero-filled buffers, as MarshalClientHello does (several encoders rely on it for their zero bytes)",
                                     "TLSWire/ExtCodec state the RFC wire formats; ExtCodec_MC cross-checks XEnc against TLSWire!EncodeExt and ValidBody"]
