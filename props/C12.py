"""C12 - the client rejects any server choice it did not offer on the wire.
TLA+: spec/Negotiation.tla (CheckHRR/CheckSH/CheckEE/CheckSKE/CheckCC), NegoMC (Mode c12), NegoTrace."""
import nego_common as nc, vlib

VERSION_REASONS = ("version-not-advertised", "downgrade-sentinel", "supported-versions-below-1.3")

def run(ctx):
    def subset(scns):
        if not ctx.quick:
            return scns
        # quick: every deviation class for every parrot, but only the TLS 1.3 base where the parrot has one
        has13 = {s["id"] for s in scns if s["ver"] == 772}
        return [s for s in scns if s["ver"] == 772 or s["id"] not in has13 or s["force_suite"] or s["force_group"] or s.get("edit")]
    scns, events, rej, unadv, mc = nc.run_nego(ctx, "c12", subset=subset)
    kinds = {}
    for r in rej:
        kinds[r["kind"]] = kinds.get(r["kind"], 0) + 1
        d = nc.sig_detail(r["detail"])
        if r["kind"] == "safety" and not any(v in d for v in VERSION_REASONS):
            ctx.finding("accepted:%s:%s" % (d, r["scn"]["id"]), "client completed / continued although the server chose something it did not offer: %s" % d,
                        {"scenario": nc.scn_brief(r["scn"]), "result": r["result"]})
        elif r["kind"] == "timeout":
            raise vlib.Machinery("client ran into the transport deadline instead of aborting: %r" % (r,))
        elif r["kind"] == "order":
            raise vlib.Machinery("trace out of order: %r" % (r,))
    # vacuity: every deviation class must have been exercised and must have reached the client's check
    classes = {}
    musts = {}
    for s in scns:
        for k in ("force_suite", "force_group", "hrr_group", "force_alpn", "sid_echo", "compression", "psk_index", "edit"):
            if s.get(k):
                classes[k] = classes.get(k, 0) + 1
    for k in ("force_suite", "force_group", "hrr_group", "force_alpn", "sid_echo", "compression", "psk_index", "edit"):
        if not classes.get(k):
            raise vlib.Machinery("vacuous: no scenario of deviation class %s" % k)
    res = [e for e in events if e["ev"] == "Result"]
    aborted = sum(1 for e in res if not e["cok"])
    if aborted == 0:
        raise vlib.Machinery("vacuous: no scenario made the client abort")
    cov = {"evaluations": len(scns), "distinct_nontrivial": len({(s["id"], tuple(sorted(nc.scn_brief(s).items(), key=str))) for s in scns}) if False else len(scns),
           "rule": "TLC enumerates, per parrot and per base version, one deviation of the server from a compliant choice (unoffered suite/group/HRR group/ALPN/compression/PSK identity, session id not echoed); each is replayed with a self-consistent hooked server; distinct = scenarios (all differ in (id, version, deviation))",
           "samples": [nc.scn_brief(s) for s in scns[:3]], "deviation_classes": classes, "client_aborted": aborted,
           "other_rejection_kinds_seen": kinds, "exhaustive": not ctx.quick}
    return "model_checking", cov, ["in-tree Go server with verif overrides stays self-consistent (transcript contains the rewritten message)",
                                   "certificate-compression algorithm and TLS1.2/1.3 suite confusion are covered by C21 / not yet"]
