"""C09 - randomized fingerprints are seed-reproducible and internally consistent.
TLA+: spec/Randomized.tla (generateRandomizedSpec as a nondeterministic action + consistency invariants),
spec/Randomized_MC.tla (all coin outcomes; Randomized_MC_D14a/b.cfg show the inconsistency D14 at model level),
spec/Randomized_Trace.tla (real generated specs: reproducibility, consistency, membership in the model).
Harness: harness/cmd/gen/randomized.go. Suite classes come from the code (verif accessor VerifCipherSuiteTable)."""
import copy, json, random, re
import concurrent.futures as cf
import vlib

VARIANTS = ["Randomized", "Randomized-ALPN", "Randomized-NoALPN"]
NEXTPROTOS = [[], ["h2"], ["h2", "http/1.1"], ["foo"]]          # Config.NextProtos shapes ([] = nil)
SNIS = ["example.com", "a-rather-long-server-name.subdomain.of.some.example-domain.org", "a.b"]
GEN_PCS = ["alpn", "shuffleCiphers", "tls13", "min", "shuffle13", "remove", "sha1", "p521sig", "pss256", "pss384",
           "shuffleSigs", "mlkemGroup", "x25519", "p521curve", "padding", "status", "sct", "reneg", "ems",
           "p256first", "ksP256", "ksMLKEM", "alps", "shuffleExts"]
GEN_ACTIONS = ["ChooseALPN", "ShuffleCiphers", "FlipTLS13", "ChooseMin", "Shuffle13", "RemoveRandomCiphers", "FlipSHA1",
               "FlipP521Sig", "FlipPSS256", "FlipPSS384", "ShuffleSigs", "FlipMLKEMGroup", "FlipX25519", "FlipP521Curve",
               "FlipPadding", "FlipStatus", "FlipSCT", "FlipReneg", "FlipEMS", "FlipP256First", "FlipKSP256", "FlipKSMLKEM",
               "FlipALPS", "ShuffleExts"]
MLKEM = 4588


def wclass(x):
    return 0 if x <= 0 else (1 if x >= 1 else 2)


def make_cases(ctx, names, default, n):
    rnd = random.Random(ctx.seed * 7919 + 9)
    vectors = [("default-nil", {}, default)]
    for nm in names:
        for c in (0.0, 1.0):
            w = dict(default); w[nm] = c
            vectors.append(("%s=%g" % (nm, c), w, w))
    for c in (0.0, 1.0, 0.5):
        w = {nm: c for nm in names}
        vectors.append(("all=%g" % c, w, w))
    cases = []
    corner_seeds = [[0] * 32, [255] * 32, list(range(32))]
    for i in range(n):
        variant = VARIANTS[i % 3]
        if i % 2 == 0:
            tag, wgo, wabs = vectors[0]
        else:
            tag, wgo, wabs = vectors[1 + (i // 2) % (len(vectors) - 1)]
        seed = corner_seeds[i] if i < len(corner_seeds) else [rnd.randrange(256) for _ in range(32)]
        if i % 97 == 50:
            seed = []      # seedless: the library draws the seed on the first connection
        # (variant, weight family) repeat with period 6: NextProtos steps every 6 cases, the server name every 24
        cases.append({"variant": variant, "seed": seed, "weights": wgo, "wclass": {k: wclass(v) for k, v in wabs.items()},
                      "sni": SNIS[(i // 24) % len(SNIS)], "alpn": NEXTPROTOS[(i // 6) % len(NEXTPROTOS)], "tag": tag})
    return cases, len(vectors)


def validate(ctx, rows, name, timeout=1200):
    mod = "Randomized_Trace_" + name
    src = open(ctx.scratch + "/Randomized_Trace.tla").read().replace("c09_trace.ndjson", name + ".ndjson").replace(
        "MODULE Randomized_Trace", "MODULE " + mod)
    open(ctx.scratch + "/" + mod + ".tla", "w").write(src)
    ctx.write_ndjson(name + ".ndjson", rows)
    res = ctx.tlc(mod, cfg="Randomized_Trace", timeout=timeout, heap="4g")
    done = res.tagged("DONE")
    if not done or done[0] != len(rows):
        raise vlib.Machinery("C09 trace validation did not reach the end of batch %s: %r\n%s" % (name, done, res.out[-2000:]))
    taken = res.tagged("TAKEN")
    return [(r[0], sorted(r[1]), r[2]) for r in res.tagged("REJ")], set(taken[0]) if taken else set()


def sig_of(fail, detail):
    if fail == "SharesListed":
        u = detail.get("unlisted", [])
        return "mlkem-share-without-group" if u == [MLKEM] else "share-without-group:%s" % ",".join(map(str, u))
    if fail == "HybridHasShare":
        u = detail.get("shareless", [])
        return "mlkem-group-without-share" if u == [MLKEM] else "hybrid-group-without-share:%s" % ",".join(map(str, u))
    return fail


def cex_vector(out):
    """Decision vector of the last state of a TLC counterexample."""
    blocks = out.split("/\\ fv = [")
    if len(blocks) < 2:
        return {}
    last = blocks[-1].split("]")[0]
    return {k: (v == "TRUE" if v in ("TRUE", "FALSE") else int(v)) for k, v in re.findall(r"(\w+) \|-> (\w+)", last)}


def run(ctx):
    suites = ctx.drv("suites", {}, prog="gen")[0]["suites"]
    ctx.write_json("suites.json", suites)
    ctx.write_json("specs.json", ctx.drv("dumpspecs", {"ids": ["Chrome-133"]}, prog="gen")[0])   # Parrots.tla reads it
    wd = ctx.drv("weights", {}, prog="gen")[0]
    names, default = wd["names"], wd["default"]

    # ---- model level: all coin outcomes (the three TLC runs go in parallel)
    def run_mc():
        return ctx.tlc("Randomized_MC", cfg="Randomized_MC_basic" if ctx.quick else "Randomized_MC", workers=4 if ctx.quick else 8,
                       timeout=1500, coverage=True, heap="6g")
    def run_d14(cfg):
        return ctx.tlc("Randomized_MC", cfg=cfg, workers=1, timeout=600, count=False, dfs=True)
    with cf.ThreadPoolExecutor(max_workers=3) as ex:
        f_mc = ex.submit(run_mc)
        f_a = ex.submit(run_d14, "Randomized_MC_D14a")
        f_b = ex.submit(run_d14, "Randomized_MC_D14b")
        mc, ra, rb = f_mc.result(), f_a.result(), f_b.result()
    model_viol = list(mc.violated)
    for a in GEN_ACTIONS:
        if mc.coverage.get(a, 0) == 0:
            raise vlib.Machinery("C09 vacuity: action %s of Randomized was never taken in the exhaustive run" % a)
    model_d14 = {}
    for r, inv in ((ra, "InvSharesListed"), (rb, "InvHybridHasShare")):
        model_d14[inv] = {"violated": inv in r.violated, "counterexample_decisions": cex_vector(r.out) if inv in r.violated else {}}

    # ---- real generated specs
    n = 2000 if ctx.quick else 24000
    cases, nvec = make_cases(ctx, names, default, n)
    evs = ctx.drv("randomized", {"cases": cases}, prog="gen", timeout=1500)
    if len(evs) != len(cases):
        raise vlib.Machinery("C09: harness returned %d events for %d cases" % (len(evs), len(cases)))
    nsh = 8 if ctx.quick else 14
    per = (len(evs) + nsh - 1) // nsh
    parts = [evs[k * per:(k + 1) * per] for k in range(nsh)]
    parts = [p for p in parts if p]
    with cf.ThreadPoolExecutor(max_workers=len(parts)) as ex:
        results = list(ex.map(lambda k: validate(ctx, parts[k], "c09_s%d" % k), range(len(parts))))
    ctx.traces += len(evs)
    taken = set()
    rejected = []       # (case index, fails, detail)
    for k, (rej, tk) in enumerate(results):
        taken |= tk
        for i, fails, detail in rej:
            rejected.append((k * per + i - 1, fails, detail))
    missing = [p for p in GEN_PCS if p not in taken]
    if missing:
        raise vlib.Machinery("C09 vacuity: generator steps never matched while replaying real specs: %s" % missing)

    # ---- vacuity of the NextProtos dimension: TLS 1.3 specs without ALPN generated with a non-empty NextProtos must exist
    for shape in NEXTPROTOS[1:]:
        hit = [e for e, c in zip(evs, cases) if c["alpn"] == shape and not e["err"] and e["d1"].get("max") == 772
               and not any(x["kind"] == "ALPNExtension" for x in e["d1"]["exts"])]
        if len(hit) < 5:
            raise vlib.Machinery("C09 vacuity: only %d TLS 1.3 specs without ALPN were generated with NextProtos %r" % (len(hit), shape))
    if not any(e.get("src") == "uconn" for e in evs) or not any(e.get("src") == "spec" for e in evs):
        raise vlib.Machinery("C09 vacuity: both generation paths (UTLSIdToSpec, connection) must be exercised")

    # ---- binding canary: corrupted copies of accepted events must be rejected for the stated reason
    bad_idx = {i for i, _, _ in rejected}
    good13 = next((i for i, e in enumerate(evs) if i not in bad_idx and e["d1"].get("max") == 772
                   and any(x["kind"] == "StatusRequestExtension" for x in e["d1"]["exts"])), None)
    if good13 is None:
        raise vlib.Machinery("C09 canary: no accepted TLS 1.3 spec with status_request among the generated ones")
    g = evs[good13]
    c1 = copy.deepcopy(g); c1["W"]["Extensions_Append_Status"] = 0                     # weight says: never
    c2 = copy.deepcopy(g)                                                             # RSA-PSS removed from a TLS 1.3 spec
    for d in (c2["d1"], c2["d2"]):
        for x in d["exts"]:
            if x["kind"] == "SignatureAlgorithmsExtension":
                x["f"]["SupportedSignatureAlgorithms"] = [v for v in x["f"]["SupportedSignatureAlgorithms"] if v != 2052]
    c3 = copy.deepcopy(g)                                                             # first cipher suite of the 2nd hello
    c3["h2"][39 + c3["h2"][38] + 2] ^= 0x40
    mut = ctx.drv("randomized", {"cases": [dict(cases[good13], mutation="second-seed")]}, prog="gen", name="canary_gen")
    rows = [g, c1, c2, c3] + mut
    crej, _ = validate(ctx, rows, "c09_canary")
    got = {}
    for i, f, _ in crej:
        got.setdefault(i, set()).update(f)
    ok = (1 not in got and {"weights-not-respected", "not-a-model-output"} & got.get(2, set())
          and "PSSIn13" in got.get(3, set()) and "hello-not-reproducible" in got.get(4, set())
          and {"dump-not-reproducible", "hello-not-reproducible"} & got.get(5, set()))
    if not ok:
        raise vlib.Machinery("C09 binding canary failed: %r" % (crej,))

    # ---- classify, reproduce, report
    classes = {}
    for i, fails, detail in rejected:
        for f in fails:
            classes.setdefault(sig_of(f, detail), []).append(i)
    for sig, idxs in sorted(classes.items()):
        probe = idxs[:3] if sig.startswith("mlkem-") else idxs[:12]
        reps = []
        for i in probe:
            if evs[i].get("seedless"):
                c = dict(cases[i], seed=evs[i]["seed"])
            else:
                c = cases[i]
            if not c["seed"]:
                continue
            again = ctx.drv("randomized", {"cases": [c]}, prog="gen", name="again")
            rj, _ = validate(ctx, again, "c09_again")
            if any(sig_of(f, d) == sig for _, fs, d in rj for f in fs):
                reps.append(i)
        if not reps:
            raise vlib.Machinery("C09: rejection class %s was not reproduced when its cases were re-run alone" % sig)
        ex = [{"variant": cases[i]["variant"], "seed_hex": bytes(evs[i]["seed"]).hex(), "weights": cases[i]["tag"],
               "next_protos": cases[i]["alpn"], "server_name": cases[i]["sni"]} for i in reps[:5]]
        ctx.finding(sig, "randomized spec rejected by spec/Randomized.tla (%s): %d of %d generated specs, e.g. %s seed %s" % (
            sig, len(idxs), len(evs), ex[0]["variant"], ex[0]["seed_hex"]),
            {"class": sig, "cases": len(idxs), "of": len(evs), "examples": ex,
             "how": "tls.UTLSIdToSpec(tls.ClientHelloID{Client: variant, Version: \"0\", Seed: &seed, Weights: weights})"})
    real_sigs = set(classes)
    for inv, sig in (("InvSharesListed", "mlkem-share-without-group"), ("InvHybridHasShare", "mlkem-group-without-share")):
        if model_d14[inv]["violated"] and sig not in real_sigs:
            ctx.note("model-level violation of %s was not observed on %d real specs" % (inv, len(evs)))
    if model_viol:
        if not real_sigs - {"mlkem-share-without-group", "mlkem-group-without-share"}:
            raise vlib.Machinery("C09: Randomized_MC violates %s but no real generated spec does: model or invariant wrong" % model_viol)

    n13 = sum(1 for e in evs if e["d1"].get("max") == 772)
    fvs = {json.dumps([e["variant"], e["d1"].get("min"), e["d1"].get("max"), len(e["d1"].get("suites", [])),
                       sorted(x["kind"] for x in e["d1"].get("exts", []))]) for e in evs}
    cov = {"evaluations": len(evs), "distinct_nontrivial": len(fvs),
           "rule": "evaluations = (variant, weights, seed) triples, each generated twice (2 reflection dumps + 2 wire hellos) and judged by TLC; distinct = distinct (variant, versions, #suites, extension set) shapes among them",
           "samples": [{"variant": cases[i]["variant"], "weights": cases[i]["tag"], "seed_hex": bytes(evs[i]["seed"]).hex(),
                        "suites": evs[i]["d1"].get("suites"), "exts": [x["kind"] for x in evs[i]["d1"].get("exts", [])]} for i in (0, 1, 2)],
           "weight_vectors": nvec, "nextprotos_shapes": NEXTPROTOS, "sni_shapes": len(SNIS),
           "generated_via_connection": sum(1 for e in evs if e.get("src") == "uconn"), "tls13_specs": n13, "seedless_cases": sum(1 for e in evs if e.get("seedless")),
           "model": {"distinct_states": mc.distinct, "generated": mc.generated, "invariants_violated": model_viol,
                     "weight_vectors": "basic (all-either, default, all-0, all-1)" if ctx.quick else "all (basic + every single weight at 0 and at 1)",
                     "actions_covered": len(GEN_ACTIONS), "pools": {k: sum(1 for s in suites if s["Pool"] and pred(s)) for k, pred in (
                         ("tls13", lambda s: s["TLS13"]), ("tls12_only", lambda s: not s["TLS13"] and s["TLS12"]),
                         ("older", lambda s: not s["TLS13"] and not s["TLS12"] and not s["RC4"]),
                         ("rc4", lambda s: not s["TLS13"] and not s["TLS12"] and s["RC4"]))}},
           "model_level_D14": model_d14,
           "rejection_classes": {s: len(v) for s, v in classes.items()},
           "replay_steps_matched": sorted(taken), "exhaustive": False,
           "exhaustive_part": "coin outcomes of the model (Randomized_MC); seeds are sampled"}
    return "model_checking", cov, [
        "reflection dump of ClientHelloSpec is faithful",
        "removeRandomCiphers is modelled by per-class survivor counts, shuffles by sets (order is judged on the real dumps: SuiteOrder, d1 = d2)",
        "weights are abstracted to {never, always, either}; FlipWeightedCoin(1.0) is false with probability 2^-63",
        "seeds are sampled (2^256 space); the model is exhaustive over coin outcomes, membership ties every sampled output to it"]
