"""C21 - compressed server certificates are recovered exactly.
TLA+: spec/CertComp.tla (decompressor as chunk producer; ReadPolicy full satisfies Correct for every chunking, the pre-fix
"single" Read is refuted by TLC), spec/CertCompTrace.tla (observed outcome must be in Allowed(scenario))."""
import json, vlib

ALGN = {1: "zlib", 2: "brotli", 3: "zstd"}

def run(ctx):
    full = ctx.tlc("CertComp", cfg="CertComp_full", timeout=300)
    if full.violated:
        raise vlib.Machinery("CertComp: the required mechanism violates its own invariant: %s" % full.violated)
    single = ctx.tlc("CertComp", cfg="CertComp_single", timeout=300, count=False)
    if "Correct" not in single.violated:
        raise vlib.Machinery("vacuity: the single-Read mechanism is not refuted by the model (invariant too weak)")
    abstract = full.tagged("SCN")
    scns = []
    def add(**kw):
        s = {"sc": len(scns), "id": "Chrome-133", "advertised": [1, 2, 3], "alg": 1, "chain": 0, "flush_every": 0, "flush_num": 0, "flush_den": 0,
             "level": 6, "decl_delta": 0, "decl_huge": False, "corrupt": "", "drop_ext": False, "zwindow": 0, "client_auth": 0, "advertised0": []}
        s.update(kw)
        scns.append(s)
    sizes = {1: 0, 2: 20, 3: 70}          # abstract length class -> extra certificates in the chain (~0.5 kB, ~9 kB, ~30 kB)
    for a in abstract:
        adv = [1, 2, 3] if a["adv"] else [x for x in (1, 2, 3) if x != a["alg"]]
        d = a["declared"] - a["actual"]
        delta = d if abs(d) <= 1 else d * 700
        ch = a["chunks"]
        fn, fd = (0, 0) if len(ch) == 1 else (ch[0], a["actual"])
        corrupt = "" if a["valid"] and a["same"] else ("other" if a["valid"] else ("flip" if a["same"] else "truncate"))
        add(alg=a["alg"], advertised=adv, chain=sizes[a["actual"]], flush_num=fn, flush_den=fd, decl_delta=delta, corrupt=corrupt)
    # concrete encoder variety beyond the abstract grid
    levels = {1: [1, 9], 2: [0, 11], 3: [1, 9]}
    # parrots whose dumped spec carries a compress_certificate extension (the scenario overrides its algorithm list)
    import data
    specs = data.dump_specs(ctx)["specs"]
    capable = sorted(i for i, sp in specs.items() if any(e["kind"] == "UtlsCompressCertExtension" for e in sp["exts"]))
    if "Chrome-133" not in capable:
        raise vlib.Machinery("Chrome-133 has no compress_certificate extension any more: adjust the base parrot of C21")
    ids = ["Chrome-133"] if ctx.quick else capable
    for i in ids:
        for alg in (1, 2, 3):
            for lv in levels[alg]:
                for fe in ([0, 100] if ctx.quick else [0, 1, 100, 1000, 16384]):
                    for chain in ([0, 70] if ctx.quick else [0, 20, 70, 140]):
                        add(id=i, alg=alg, level=lv, flush_every=fe, chain=chain)
            add(id=i, alg=alg, decl_huge=True)
            add(id=i, alg=alg, decl_delta=-1, flush_every=100, chain=20)
            add(id=i, alg=alg, decl_delta=1, flush_every=100, chain=20)
        # zstd frames that declare a large window (a streaming encoder's setting, unrelated to the content size)
        for zw in (1 << 20, 1 << 23, 1 << 24, 1 << 25, 1 << 27):
            add(id=i, alg=3, zwindow=zw, flush_every=100, chain=20)
            add(id=i, alg=3, zwindow=zw)
        # the server also asks for a client certificate: CertificateRequest precedes the compressed certificate in the
        # transcript, and the client answers with (or without) a certificate of its own
        for alg in (1, 2, 3):
            for ca in (1, 2):
                add(id=i, alg=alg, client_auth=ca)
                add(id=i, alg=alg, client_auth=ca, chain=20, flush_every=100)
        # a first build advertised more than the hello that is finally sent: the server uses what only the first build had
        for alg in (1, 2, 3):
            rest = [x for x in (1, 2, 3) if x != alg]
            add(id=i, alg=alg, advertised=rest, advertised0=[1, 2, 3])
            add(id=i, alg=rest[0], advertised=rest, advertised0=[1, 2, 3])
        add(id=i, alg=4, advertised=[1, 2, 3])           # an algorithm nobody advertised or implements
        for alg in (1, 2, 3):
            add(id=i, alg=alg, drop_ext=True)             # extension removed from the hello after it was built (also C12)
        for alg in (1, 2, 3):
            add(id=i, alg=alg, corrupt="trailing")        # a complete stream followed by foreign bytes
            add(id=i, alg=alg, corrupt="trailing", chain=20, flush_every=100)
    evs = ctx.drv("certcomp", {"scenarios": scns}, timeout=1200)
    # second pass: the same scenarios one after the other in a seeded order within one process, so that decoder state
    # carried from one handshake into the next (pooled readers, shared buffers) shows up in the following handshake
    import random
    order = list(scns)
    random.Random(ctx.seed).shuffle(order)
    nfirst = len(scns)
    seq = [dict(s, sc=nfirst + j) for j, s in enumerate(order)]
    evs2 = ctx.drv("certcomp", {"scenarios": seq, "sequential": True}, timeout=1200, name="certcomp_seq")
    scns = scns + seq
    evs = evs + evs2
    if any(e["ev"] == "Error" for e in evs):
        raise vlib.Machinery("harness error: %r" % [e for e in evs if e["ev"] == "Error"][:2])
    ctx.write_ndjson("certcomp_trace.ndjson", evs)
    res = ctx.tlc("CertCompTrace", timeout=900)
    if res.tagged("DONE") != [len(evs)]:
        raise vlib.Machinery("trace not fully consumed")
    ctx.traces += len(scns)
    results = {e["sc"]: e for e in evs if e["ev"] == "Result"}
    for sc, obs in res.tagged("REJ"):
        s = scns[sc]
        if obs == "hang" or "i/o timeout" in results[sc]["cerr"]:
            # the transport deadline expired: not a judgement about decompression unless it reproduces alone
            again = ctx.drv("certcomp", {"scenarios": [s]}, name="certcomp_again_%d" % sc)
            r2 = [e for e in again if e["ev"] == "Result"][0]
            if "i/o timeout" not in r2["cerr"]:
                # the deadline was an artefact of machine load: the run made alone is the observation that counts, and it
                # is judged by the same trace specification
                ctx.write_ndjson("certcomp_trace.ndjson", again)
                rr = ctx.tlc("CertCompTrace", timeout=300, count=False)
                if rr.tagged("DONE") != [len(again)]:
                    raise vlib.Machinery("re-run of scenario %d not consumed by the trace specification" % sc)
                ctx.note("scenario %d hit the transport deadline under load; re-run alone and judged again" % sc)
                if not rr.tagged("REJ"):
                    continue
                results[sc] = r2
                obs = rr.tagged("REJ")[0][1]
        kind = ("flushed-valid-stream-refused" if obs != "accept" and not s["corrupt"] and s["decl_delta"] == 0 and not s["decl_huge"] and s["alg"] in s["advertised"]
                else "longer-than-declared-wrong-alert" if s["decl_delta"] < 0 and obs == "abort" else "other")
        ctx.finding("certcomp:%s:%s:%s" % (kind, ALGN.get(s["alg"], s["alg"]), obs),
                    "compressed certificate (%s) handled wrongly: observed %s; client error: %s" % (ALGN.get(s["alg"], s["alg"]), obs, results[sc]["cerr"]),
                    {"scenario": s, "result": {k: results[sc][k] for k in ("cok", "cerr", "serr", "alert_from_client")}})
    # binding canary: claim that a not-advertised scenario was accepted
    bad = json.loads(json.dumps([e for e in evs if e["sc"] == next(s["sc"] for s in scns if s["alg"] not in s["advertised"])]))
    bad[-1]["cok"] = True
    ctx.write_ndjson("certcomp_trace.ndjson", bad)
    c = ctx.tlc("CertCompTrace", timeout=300, count=False)
    if not c.tagged("REJ"):
        raise vlib.Machinery("binding canary accepted")
    acc = sum(1 for e in results.values() if e["cok"])
    badc = sum(1 for e in results.values() if e["serr"] == "remote error: tls: bad certificate")
    if acc == 0 or badc == 0:
        raise vlib.Machinery("vacuous: accepted=%d bad_certificate=%d" % (acc, badc))
    cov = {"evaluations": len(scns), "distinct_nontrivial": len(scns),
           "rule": "all %d terminal states of the abstract model (algorithm x advertised x length class x declared length x chunking x valid x same) mapped to encoder settings, plus concrete variety (levels, flush every k bytes, chain sizes, huge declared length, unknown algorithm); distinct = scenarios" % len(abstract),
           "samples": scns[:2] + scns[-1:], "accepted": acc, "bad_certificate_alerts": badc, "single_read_refuted_by_model": True, "exhaustive": False}
    return "model_checking", cov, ["the hooked in-tree server sends the CompressedCertificate consistently (it is in the server's transcript)",
                                   "encoders: compress/zlib, andybalholm/brotli, klauspost/zstd as vendored by the repository"]
