"""C02 - every ClientHello utls emits is syntactically valid TLS, or an error is returned instead.
TLA+: TLSWire!ValidClientHello / WhyInvalid (the grammar), spec/C02_MC.tla (TLC generates custom specs, Config
variations, crafted boundary captures; model-level consistency of encoders vs grammar), spec/C02_Trace.tla (TLC
judges what the library emitted), spec/C02_Import.tla (TLC cuts recorded hellos into ImportTLSClientHello maps).
Harness: harness/cmd/wirea (c02): builds each case and logs err or Raw plus the ClientHello found on the wire."""
import concurrent.futures as cf
import copy, json, os, re
import vlib, wire_common

NEED_TAGS = ["hrr-second-hello-judged", "hrr-cookie-echoed", "remarshal-judged:sni", "remarshal-judged:sni-remove", "remarshal-judged:add-ext",
             "remarshal-judged:del-ext", "remarshal-judged:random", "raw-judged", "wire-judged", "wire-same-as-raw", "nothing-emitted:build", "nothing-emitted:preset", "nothing-emitted:src",
             "quic", "psk-present", "padding-present", "sni-omitted"]
FLAGS = [(b, p, r) for b in (True, False) for p in (False, True) for r in (False, True)]


def tlc_mode(ctx, name, consts, workers=2, timeout=900):
    base = {"Seed": ctx.seed}
    base.update(consts)
    cfgname = wire_common.write_cfg(ctx, "C02_MC_" + name, "C02_MC", base)
    res = ctx.tlc("C02_MC", cfg=cfgname, workers=workers, timeout=timeout)
    if res.violated:
        raise vlib.Machinery("C02_MC (%s): model-level consistency invariant fails: %r\n%s" % (name, res.violated, res.out[-2500:]))
    return res


def generate(ctx):
    q = ctx.quick
    jobs = {
        "cfg": dict(Mode='"cfg"'),
        "cap": dict(Mode='"cap"'),
        "sweep": dict(Mode='"sweep"'),
        "var": dict(Mode='"var"'),
        "pairs": dict(Mode='"sel"', MaxSel=2, AllShapes="TRUE"),
        "deep": dict(Mode='"sel"', MaxSel=3 if q else 4, AllShapes="FALSE", TripleMod=16 if q else 1, QuadMod=64 if q else 48),
    }
    with cf.ThreadPoolExecutor(max_workers=6) as ex:
        futs = {k: ex.submit(tlc_mode, ctx, k, v, 2 if k != "deep" else (4 if q else 8)) for k, v in jobs.items()}
        res = {k: f.result() for k, f in futs.items()}
    sweep = sorted(res["sweep"].tagged("CFG"), key=lambda c: len(c["sni"]))
    if len(sweep) != 260:
        raise vlib.Machinery("C02_MC sweep emitted %d names" % len(sweep))
    variations = [x["v"] for x in sorted(res["var"].tagged("VAR"), key=lambda x: x["i"])]
    if len(variations) != res["var"].distinct or not any(v["kind"] == "hrr" for v in variations):
        raise vlib.Machinery("C02_MC var emitted %d variations" % len(variations))
    cfgs = res["cfg"].tagged("CFG")
    caps = res["cap"].tagged("CAP")
    sels = res["pairs"].tagged("SEL") + res["deep"].tagged("SEL")
    if len(cfgs) != res["cfg"].distinct or len(caps) != res["cap"].distinct or not sels:
        raise vlib.Machinery("C02_MC emitted %d configs / %d captures / %d specs for %d / %d states" % (
            len(cfgs), len(caps), len(sels), res["cfg"].distinct, res["cap"].distinct))
    by_len = {}
    for s in sels:
        by_len[len(s["exts"])] = by_len.get(len(s["exts"]), 0) + 1
    return cfgs, caps, sels, by_len, sweep, variations


def plain_cfg(c):
    return {k: c[k] for k in ("sni", "skipverify", "alpn", "cache", "omitpsk", "quic")}


def src_sig(src):
    t = src["type"]
    if t in ("id", "random"):
        return "%s:%s" % (t, src["id"])
    if t == "custom":
        return "custom:" + ",".join(d["kind"].replace("Extension", "") for d in src["spec"]["exts"])
    if t == "fp":
        return "fp(%s)" % src_sig(src["of"])
    if t == "cap":
        return "cap:" + "/".join(str(x) for x in src["name"])
    if t == "json":
        return "json:" + src["file"]
    if t == "import":
        return "import(%s)" % src["of"]
    return t


def cfg_sig(c):
    sn = {1: "none", 2: "dns", 3: "ipv4", 4: "ipv6", 5: "dot", 6: "long"}
    return "sni=%s/%d,alpn=%d,cache=%s,omit=%d,quic=%d" % (sn.get(c.get("snikind"), "?"), len(c["sni"]), len(c["alpn"]), c["cache"], c["omitpsk"], c["quic"])


def mkcase(src, c, var=None):
    """var: a TLC variation record (edit / hrr); the name in force after an edit goes into the scenario as sni2."""
    cfg = plain_cfg(c)
    if var is not None and var["kind"] == "hrr" and var["cookie"] > 0 and has_cookie(src):
        var = dict(var, cookie=0)       # a hello that already carries a cookie is no first ClientHello: no second cookie on top
    case = {"src": src, "cfg": cfg, "cfgfull": c, "var": var, "sni2": cfg["sni"], "edit": "none"}
    if var is not None:
        if var["kind"] == "hrr":
            cfg["skipverify"] = True
            case["hrr"] = {"group": var["group"], "cookie": var["cookie"]}
        else:
            case["edit"] = var["op"]
            case["editrec"] = {"op": var["op"], "name": var["name"]}
            if var["op"] == "sni":
                case["sni2"] = var["name"]
            elif var["op"] == "sni-remove":
                case["sni2"] = []
    return case


def has_cookie(src):
    t = src["type"]
    if t == "custom":
        return any(d["kind"] == "CookieExtension" for d in src["spec"]["exts"])
    if t == "cap":
        return len(src["name"]) > 1 and src["name"][1] == 44
    if t == "fp":
        return has_cookie(src["of"])
    if t == "import":
        return "/44/" in src["of"]
    return False


def var_sig(v):
    if v is None:
        return ""
    return "+hrr(%d,cookie=%d)" % (v["group"], v["cookie"]) if v["kind"] == "hrr" else "+edit(%s%s)" % (v["op"], "/%d" % len(v["name"]) if v["name"] else "")


def build_cases(ctx, ids, cfgs, caps, sels, sweep, variations):
    q, seed = ctx.quick, ctx.seed
    n = len(cfgs)
    default = next(c for c in cfgs if c["snikind"] == 2 and c["alpnkind"] == 1 and c["cache"] == "none" and not c["omitpsk"] and not c["quic"])
    cases = []
    def add(src, c, var=None):
        cases.append(mkcase(src, c, var))
    # (a) every predefined parrot and the Go default x Config variations
    for i, name in enumerate(ids["parrots"] + [ids["golang"]]):
        for j, c in enumerate(cfgs):
            if not q or (j + i + seed) % 6 == 0:
                add({"type": "id", "id": name}, c)
    # (a') server names of every length 1..260 (padding window crossed byte by byte): 3 parrots by seed / every second parrot
    allp = ids["parrots"]
    for name in ([allp[(seed + 2 * k) % len(allp)] for k in range(len(allp) // 2)] if not q else [allp[(seed * 3 + k * 13) % len(allp)] for k in range(3)]):
        for c in sweep:
            add({"type": "id", "id": name}, c)
    # (b) randomized ids x PRNG seeds, Config rotating over the grid
    nseeds = 60 if q else 1200
    for i, name in enumerate(ids["randomized"]):
        for k in range(nseeds):
            add({"type": "random", "id": name, "seed": seed * 100003 + k * 7 + i}, cfgs[(k * 5 + i + seed) % n])
    # (c) TLC-generated custom specs, Config rotating (the default one for every other spec)
    for k, s in enumerate(sels):
        spec = {"min": s["min"], "max": s["max"], "suites": s["suites"], "comp": s["comp"], "exts": s["exts"]}
        add({"type": "custom", "spec": spec}, default if k % 2 == 0 else cfgs[(s["h"] + k + seed) % n])
    # (d) fingerprinted copies of emitted hellos (parrots, a sample of custom specs), then ApplyPreset
    for i, name in enumerate(ids["parrots"]):
        for fi, (b, p, r) in enumerate(FLAGS):
            if not q or (fi + i + seed) % 4 == 0:
                add({"type": "fp", "of": {"type": "id", "id": name}, "blunt": b, "pad": p, "realpsk": r}, cfgs[(i * 11 + fi * 3 + seed) % n])
    step = 12 if q else 5
    for k, s in enumerate(sels[::step]):
        spec = {"min": s["min"], "max": s["max"], "suites": s["suites"], "comp": s["comp"], "exts": s["exts"]}
        b, p, r = FLAGS[(k + seed) % 8]
        add({"type": "fp", "of": {"type": "custom", "spec": spec}, "blunt": b, "pad": p, "realpsk": r}, default if k % 2 else cfgs[(k * 7 + seed) % n])
    # (e) crafted boundary captures from the TLA+ encoder, fingerprinted with every flag combination
    for i, c in enumerate(caps):
        for fi, (b, p, r) in enumerate(FLAGS):
            add({"type": "cap", "name": c["name"], "raw": c["raw"], "blunt": b, "pad": p, "realpsk": r}, default if fi % 2 == 0 else cfgs[(i * 13 + fi + seed) % n])
    # (f) the repository's JSON ClientHelloSpecs
    tdir = os.path.join(vlib.REPO, "testdata")
    jsons = []
    for fn in sorted(os.listdir(tdir)):
        if fn.startswith("ClientHello-JSON-") and fn.endswith(".json"):
            data = list(open(os.path.join(tdir, fn), "rb").read())
            jsons.append((fn, data))
            for j in range(6):
                add({"type": "json", "file": fn, "data": data}, cfgs[(j * 37 + seed) % n])
    # (h) every source class again, followed by a variation from TLC: an edit of the built hello + second marshal,
    #     or a real HelloRetryRequest (with / without cookie); every Raw and both wire hellos are judged
    nv = len(variations)
    plaincfgs = [c for c in cfgs if not c["quic"] and c["cache"] == "none" and c["snikind"] in (2, 5, 6)]
    def vcfg(k):
        return default if k % 3 == 0 else plaincfgs[(k + seed) % len(plaincfgs)]
    k = 0
    for name in ids["parrots"] + [ids["golang"]]:
        for v in variations:
            add({"type": "id", "id": name}, vcfg(k), v); k += 1
    for i, name in enumerate(ids["randomized"]):
        for j in range(10 if q else 80):
            add({"type": "random", "id": name, "seed": seed * 7919 + j * 3 + i}, vcfg(k), variations[(j + i) % nv]); k += 1
    for j, s in enumerate(sels[::(25 if q else 6)]):
        spec = {"min": s["min"], "max": s["max"], "suites": s["suites"], "comp": s["comp"], "exts": s["exts"]}
        add({"type": "custom", "spec": spec}, vcfg(k), variations[(j + seed) % nv]); k += 1
    for i, name in enumerate(ids["parrots"]):
        for j in range(3 if q else nv):
            b, p, r = FLAGS[(i + j + seed) % 8]
            add({"type": "fp", "of": {"type": "id", "id": name}, "blunt": b, "pad": p, "realpsk": r}, vcfg(k), variations[(i * 5 + j * 7 + seed) % nv]); k += 1
    for i, c in enumerate(caps):
        for j in range(2 if q else 6):
            add({"type": "cap", "name": c["name"], "raw": c["raw"], "blunt": True, "pad": j % 2 == 1, "realpsk": False}, vcfg(k), variations[(i + j * 9 + seed) % nv]); k += 1
    for fn, data in jsons:
        for v in variations:
            add({"type": "json", "file": fn, "data": data}, vcfg(k), v); k += 1
    return cases, default


def run_cases(ctx, cases, name, base=0):
    wire = []
    for i, c in enumerate(cases):
        src = {k: v for k, v in c["src"].items() if k not in ("name", "file", "of_name")}
        if "of" in c["src"] and c["src"]["type"] == "import":
            src.pop("of")
        w = {"sc": base + i + 1, "src": src, "cfg": c["cfg"]}
        if c.get("hrr"):
            w["hrr"] = c["hrr"]
        if c.get("editrec"):
            w["edit"] = c["editrec"]
        wire.append(w)
    evs = ctx.drv("c02", {"cases": wire}, prog="wirea", timeout=1200, name=name)
    if len(evs) != len(cases) or any(e["sc"] != base + i + 1 for i, e in enumerate(evs)):
        raise vlib.Machinery("c02 harness returned %d events for %d cases" % (len(evs), len(cases)))
    return evs


def validate(ctx, cases, evs, nshards, tag, count=True):
    pairs = [({"cfg": {"sni": c["cfg"]["sni"], "sni2": c["sni2"], "quic": c["cfg"]["quic"]}, "edit": c["edit"]}, e) for c, e in zip(cases, evs)]
    return wire_common.validate(ctx, "C02_Trace", "C02_Trace", "c02_scn.json", "c02_trace.ndjson", pairs, nshards, tag, count=count)


def import_maps(ctx, rows):
    ctx.write_ndjson("c02_import_in.ndjson", [{"raw": r} for r in rows])
    res = ctx.tlc("C02_Import", timeout=600)
    out = {}
    for m in res.tagged("IMP"):
        out[m["row"] - 1] = m["map"]
    return out


def canaries(ctx, c1, e1, edit=None, hrr=None):
    tests = [("good", c1, e1, False)]
    # the extension block length sits after random(32) sid cipher suites compression: corrupt specific, parsed places
    def mut(f):
        e = copy.deepcopy(e1); f(e["raw"]); return e
    raw = e1["raw"]
    sid = raw[38]; cso = 39 + sid; csl = raw[cso] * 256 + raw[cso + 1]; cmo = cso + 2 + csl; exo = cmo + 1 + raw[cmo]
    tests.append(("handshake-length", c1, mut(lambda r: r.__setitem__(3, (r[3] + 1) % 256)), True))
    tests.append(("extensions-length", c1, mut(lambda r: r.__setitem__(exo + 1, (r[exo + 1] + 1) % 256)), True))
    tests.append(("first-extension-length", c1, mut(lambda r: r.__setitem__(exo + 5, (r[exo + 5] + 1) % 256)), True))
    tests.append(("truncated", c1, mut(lambda r: r.pop()), True))
    def dup(r):          # append a copy of the first extension: every length prefix kept consistent
        t0 = exo + 2; l0 = r[t0 + 2] * 256 + r[t0 + 3]; ext = r[t0:t0 + 4 + l0]
        r.extend(ext)
        el = r[exo] * 256 + r[exo + 1] + len(ext); r[exo], r[exo + 1] = el >> 8, el & 255
        hl = (r[1] << 16 | r[2] << 8 | r[3]) + len(ext); r[1], r[2], r[3] = hl >> 16, (hl >> 8) & 255, hl & 255
    tests.append(("duplicate-extension", c1, mut(dup), True))
    e = copy.deepcopy(e1); e["wiresame"] = False; e["wire"] = e["raw"][:-1]; tests.append(("wire-truncated", c1, e, True))
    c2 = copy.deepcopy(c1); c2["cfg"]["sni"] = list(b"other.example"); tests.append(("sni-other-name", c2, e1, True))
    e = copy.deepcopy(e1); e["built"] = False; e["onwire"] = False; tests.append(("dropped-emission-is-not-judged", c1, e, False))
    if edit is None or hrr is None:
        raise vlib.Machinery("canary: no good re-marshal / HelloRetryRequest event available")
    ce, ee = edit
    tests.append(("good-remarshal", ce, ee, False))
    e = copy.deepcopy(ee); e["raw2"][-1] = (e["raw2"][-1] + 1) % 256; e["raw2"].append(0); tests.append(("remarshal-trailing-byte", ce, e, True))
    c2 = copy.deepcopy(ce); c2["sni2"] = c2["cfg"]["sni"]; tests.append(("remarshal-kept-old-name", c2, ee, True))
    ch, eh = hrr
    tests.append(("good-hrr", ch, eh, False))
    e = copy.deepcopy(eh); e["wire2"] = e["wire2"][:-1]; tests.append(("second-hello-truncated", ch, e, True))
    rej, _, _ = validate(ctx, [t[1] for t in tests], [t[2] for t in tests], 1, "canary", count=False)
    rejected = {i for i, _ in rej}
    for i, (name, _, _, want) in enumerate(tests):
        if (i in rejected) != want:
            raise vlib.Machinery("binding canary %s: expected rejection=%s, TLC said %s" % (name, want, i in rejected))
    return len(tests)


def why_sig(why):
    parts = []
    for w in why:
        tag, p = w[0], w[1]
        parts.append("%s=%s" % (tag, p if isinstance(p, str) else "/".join(str(x) for x in p)))
    return "+".join(sorted(parts))


class Stats:
    def __init__(self):
        self.bysrc, self.errs, self.panics = {}, {}, {}
        self.emitted = self.warmfail = self.n = 0
        self.distinct = set()
        self.firsts = {}        # id name -> first emitted Raw (input of the import phase)
        self.canary = None      # one good (case, event) pair kept for the binding canaries
        self.canary_edit = None # ... one whose hello was marshaled again after an edit
        self.canary_hrr = None  # ... one with a second ClientHello after a HelloRetryRequest
        self.rejected = []      # (case, event, rej)
        self.cov = set()
        self.samples = []
        self.slow = {}

    def add(self, cases, evs, rej, cov):
        self.cov |= cov
        bad = {idx for idx, _ in rej}
        for idx, r in rej:
            self.rejected.append((cases[idx], evs[idx], r))
        for i, (c, e) in enumerate(zip(cases, evs)):
            self.n += 1
            t = c["src"]["type"]
            self.bysrc[t] = self.bysrc.get(t, 0) + 1
            self.distinct.add((src_sig(c["src"]) + var_sig(c["var"]), cfg_sig(c["cfgfull"])))
            if (e["built"] and e["raw"]) or e["onwire"]:
                self.emitted += 1
            else:
                k = e["stage"] + ": " + re.sub(r"\d+", "N", (e["srcerr"] or e["preseterr"] or e["builderr"] or e["hserr"] or e["panic"] or "?"))[:90]
                self.errs[k] = self.errs.get(k, 0) + 1
            if e["panic"]:
                k = re.sub(r"\d+", "N", e["panic"])[:100]
                self.panics[k] = self.panics.get(k, 0) + 1
            if e["warm"]:
                self.warmfail += 1
            if e.get("ms", 0) > 2000:
                k = "%s%s %s | %s" % (src_sig(c["src"])[:60], var_sig(c["var"]), cfg_sig(c["cfgfull"]), (e["hserr"] or e["panic"])[:60])
                self.slow[k] = e["ms"]
            if t in ("id", "random") and e["built"] and e["raw"] and c["src"]["id"] not in self.firsts:
                self.firsts[c["src"]["id"]] = e["raw"]
            if self.canary_edit is None and i not in bad and t == "id" and c["src"]["id"] != "Golang-0" and e["edited"] and len(e["raw2"]) > 300 and c["edit"] == "sni" and c["sni2"] and c["sni2"][0] > 57:
                self.canary_edit = (c, e)
            if self.canary_hrr is None and i not in bad and e["nwire"] >= 2 and len(e["wire2"]) > 300:
                self.canary_hrr = (c, e)
            if (self.canary is None and i not in bad and c["var"] is None and t == "id" and e["built"] and len(e["raw"]) > 300 and e["wiresame"]
                    and c["cfgfull"]["snikind"] == 2):
                self.canary = (c, e)
            if self.n % 977 == 5 and len(self.samples) < 4:
                self.samples.append({"source": src_sig(c["src"]), "config": cfg_sig(c["cfgfull"]), "emitted_len": len(e["raw"]),
                                     "error": e["builderr"] or e["preseterr"] or e["srcerr"]})


def process(ctx, st, cases, nshards, tag, batch=12000):
    """harness + TLC validation in batches (the events of 10^5 cases do not fit comfortably in memory)."""
    for b in range(0, len(cases), batch):
        part = cases[b:b + batch]
        evs = run_cases(ctx, part, "c02_%s_%d" % (tag, b))
        nshards = max(1, min(nshards, len(part) // 150))      # a JVM start per shard: small batches use few shards
        order = [i for k in range(nshards) for i in range(k, len(part), nshards)]
        scases, sevs = [part[i] for i in order], [evs[i] for i in order]
        rej, cov, done = validate(ctx, scases, sevs, nshards, "%s%d" % (tag, b))
        ctx.traces += done
        st.add(scases, sevs, rej, cov)


def run(ctx):
    ids = ctx.drv("ids", {}, prog="wirea")[0]
    cfgs, caps, sels, by_len, sweep, variations = generate(ctx)
    cases, default = build_cases(ctx, ids, cfgs, caps, sels, sweep, variations)
    nshards = 8 if ctx.quick else 14
    st = Stats()
    process(ctx, st, cases, nshards, "main")
    # (g) JSON-import copies: TLC cuts the emitted hello of every id into the field map ImportTLSClientHello documents
    names = list(st.firsts.keys())
    rows = [st.firsts[k] for k in names]
    for c in caps:                       # ... and the crafted captures (record header stripped)
        names.append("cap:" + "/".join(str(x) for x in c["name"]))
        rows.append(c["raw"][5:])
    maps = import_maps(ctx, rows)
    if len(maps) < len(names) // 2:
        raise vlib.Machinery("C02_Import produced %d maps for %d hellos" % (len(maps), len(names)))
    icases = []
    for r, m in sorted(maps.items()):
        for j in range(2 if ctx.quick else 8):
            c = default if j == 0 else cfgs[(r * 17 + j * 5 + ctx.seed) % len(cfgs)]
            icases.append(mkcase({"type": "import", "of": names[r], "map": m}, c))
    process(ctx, st, icases, nshards, "import")
    badimports = {c["src"]["of"] for c, _, _ in st.rejected if c["src"]["type"] == "import"}
    vcases = []
    for r, m in sorted(maps.items()):
        if names[r] in badimports:
            continue        # already reported by its signature; variations of it would only repeat that finding
        for j in range(2 if ctx.quick else 6):
            vcases.append(mkcase({"type": "import", "of": names[r], "map": m}, default, variations[(r * 3 + j * 5 + ctx.seed) % len(variations)]))
    process(ctx, st, vcases, nshards, "importvar")
    icases = icases + vcases
    ncases = len(cases) + len(icases)
    # reproduce each rejection class alone (fresh harness process, fresh TLC): at most 3 cases per signature
    classes = {}
    for c, e, r in st.rejected:
        sig = "invalid:%s%s:%s" % (src_sig(c["src"]), var_sig(c["var"]), why_sig(r["why"]))
        classes.setdefault(sig, []).append((c, e, r))
    # Shuffling parrots / randomized layouts make the exact reason vary between runs, so a class counts as reproduced
    # when the same (source, variation) is rejected again; the signature reported is the one of the re-run.
    keyof = lambda c: src_sig(c["src"]) + var_sig(c["var"])
    bykey = {}
    for sig, members in classes.items():
        bykey.setdefault(keyof(members[0][0]), []).extend(members)
    rcases = [c for members in bykey.values() for c, e, r in members[:3] for _ in range(2)]
    reproduced, unreproduced = {}, []
    if rcases:
        e2 = run_cases(ctx, rcases, "c02_repro")          # a fresh harness process and a fresh TLC run for the rejected cases only
        rej2, _, _ = validate(ctx, rcases, e2, min(4, len(rcases)), "repro", count=False)
        for idx, r in rej2:
            reproduced.setdefault(keyof(rcases[idx]), (rcases[idx], e2[idx], r))
    for key, members in bykey.items():
        if key not in reproduced:
            unreproduced.append(key)
            continue
        c, e, r = reproduced[key]
        sig = "invalid:%s:%s" % (key, why_sig(r["why"]))
        for _ in members:
            ctx.finding(sig, "a malformed ClientHello was emitted (%s) for %s under %s" % (why_sig(r["why"]), key, cfg_sig(c["cfgfull"])),
                        {"source": {k: (v if k not in ("raw", "data", "map") else "(%d items)" % len(v)) for k, v in c["src"].items()} if c["src"]["type"] != "custom" else c["src"],
                         "variation": c["var"] or "", "capture_record_hex": bytes(c["src"]["raw"]).hex() if c["src"]["type"] == "cap" else "",
                         "config": cfg_sig(c["cfgfull"]), "why": r["why"], "build_error": e["builderr"], "emitted_len": len(e["raw"]),
                         "emitted_head_hex": bytes((e["raw2"] or e["wire2"] or e["raw"] or e["wire"])[:96]).hex()})
    if unreproduced:
        if not ctx.findings:
            raise vlib.Machinery("%d rejection(s) did not reproduce, e.g. %s" % (len(unreproduced), unreproduced[0]))
        ctx.note("%d rejected (source, variation) pairs did not reproduce in 6 re-runs and are not reported: %s" % (len(unreproduced), unreproduced[:5]))
    # honesty checks (after the findings, so that a defective tree is reported as such and not as a machinery problem)
    ncan = 0
    try:
        if st.canary is None:
            raise vlib.Machinery("canary: no suitable good event")
        ncan = canaries(ctx, st.canary[0], st.canary[1], st.canary_edit, st.canary_hrr)
        lacking = [t for t in NEED_TAGS if t not in st.cov]
        if lacking:
            raise vlib.Machinery("judgement branches never taken in trace validation: %r (taken: %r)" % (lacking, sorted(st.cov)))
    except vlib.Machinery as m:
        if not ctx.findings:
            raise
        ctx.note("honesty checks incomplete on a tree with findings: %s" % str(m)[:300])
    if st.warmfail > st.n // 20:
        raise vlib.Machinery("%d warm-up handshakes for the stored-session variations failed" % st.warmfail)
    covd = {"evaluations": ncases, "distinct_nontrivial": len(st.distinct),
            "rule": "one evaluation = one (spec source, Config variation) case built on the real library whose emitted bytes TLC judged with ValidClientHello; "
                    "distinct = different (source signature, config signature) pairs; custom specs: every ordered selection of <= 2 kinds x every shape, "
                    "selections of 3%s kinds with rotating shapes (residue class of the seed)" % ("" if ctx.quick else "-4"),
            "cases_by_source": st.bysrc, "custom_specs_by_length": by_len, "config_variations": len(cfgs), "captures": len(caps),
            "emitted": st.emitted, "not_emitted_by_error": dict(sorted(st.errs.items(), key=lambda kv: -kv[1])[:12]), "panics_not_emitting": st.panics,
            "branches_taken": sorted(st.cov), "canaries": ncan, "warmup_failures": st.warmfail, "slow_cases": len(st.slow), "slow_examples": dict(list(st.slow.items())[:8]), "samples": st.samples, "exhaustive": False}
    return "model_checking", covd, ["TLSWire!ValidClientHello states the RFC grammar; C02_MC checks it against the reference encoders (ParseInvertsEncode, EncodedIsValid, CapValid)",
                                     "a panic or an error before anything is handed out counts as 'nothing emitted' (the property only speaks about emitted bytes)",
                                     "stored sessions come from a real warm-up handshake of the Go default hello against the in-tree server"]
