"""C13 - the client never settles on a protocol version it did not advertise; downgrade sentinel honoured.
TLA+: spec/Negotiation.tla CheckSH (version-not-advertised, downgrade-sentinel), NegoMC Mode c13
(every parrot x server version x {honest, legacy_version-only server} x sentinel {default, suppressed, forced}),
model-level table check AcceptRange(spec) subset of Advertised(spec), NegoTrace."""
import nego_common as nc, vlib

VERSION_REASONS = ("version-not-advertised", "downgrade-sentinel", "supported-versions-below-1.3")

def run(ctx):
    def with_golang(scns):
        # the default Go fingerprint (no preset applied: the Config's own MinVersion/MaxVersion, here unset, decide what
        # the client accepts) against the same server behaviours
        out = list(scns)
        base = dict(scns[0])
        for v in (769, 770, 771, 772):
            for lo in (False, True):
                for cn in (0, 1, 2):
                    out.append(dict(base, id="Golang", ver=v, legacy_only=lo, canary=cn, suite=0, group=0, cert="ecdsa", resume=False, mode="adversarial"))
        # custom specs whose supported_versions list is narrower than the spec's TLSVersMin..TLSVersMax (one version, or
        # two in ascending order): what the client accepts must still be what the wire advertises
        seen = set()
        for s in scns:
            if s["legacy_only"] and not s.get("resume") and s["canary"] == 0 and s["ver"] < 772 and (s["id"], s["ver"]) not in seen and "Randomized" not in s["id"]:
                seen.add((s["id"], s["ver"]))
                out.append(dict(s, sv_list=[772]))
                out.append(dict(s, sv_list=[771, 772]))
                # ... and the downgrade sentinel when the list is not highest-first (TLS 1.3 is still offered)
                out.append(dict(s, sv_list=[771, 772], canary=2))
                out.append(dict(s, sv_list=[771, 772], canary=3))
        return out
    scns, events, rej, unadv, mc = nc.run_nego(ctx, "c13", shards=8, subset=with_golang)
    for r in rej:
        d = nc.sig_detail(r["detail"])
        if r["kind"] in ("order", "timeout"):
            raise vlib.Machinery("trace problem: %r" % (r,))
        if r["kind"] == "safety" and (any(v in d for v in VERSION_REASONS) or "connection-state" in d):
            s = r["scn"]
            ctx.finding("version:%s:%s:v%d:legacy=%s:canary=%d%s" % (d, s["id"], s["ver"], s["legacy_only"], s["canary"], (":sv=%s" % "+".join(map(str, s["sv_list"]))) if s.get("sv_list") else ""),
                        "%s completed a handshake at version %#x although: %s" % (s["id"], s["ver"], d),
                        {"scenario": nc.scn_brief(s), "result": r["result"]})
    # the model-level table check must agree with what the real code did: every (id, version) pair the tables accept
    # without advertising it has been replayed above with a legacy server; pairs are listed in the evidence
    res = {e["sc"]: e for e in events if e["ev"] == "Result"}
    done_low = sum(1 for s in scns if s["ver"] < 772 and res[s["sc"]]["cok"])
    canary_abort = sum(1 for s in scns if s["canary"] == 2 and s["ver"] < 772 and not res[s["sc"]]["cok"])
    legacy_done = sum(1 for s in scns if s["legacy_only"] and res[s["sc"]]["cok"])
    resumed_done = sum(1 for s in scns if s.get("resume") and res[s["sc"]]["cok"] and res[s["sc"]]["cs"]["resumed"])
    resumed_canary = sum(1 for s in scns if s.get("resume") and s["canary"] == 2 and not res[s["sc"]]["cok"])
    if resumed_done == 0 or resumed_canary == 0:
        raise vlib.Machinery("vacuous: resumed completions=%d, sentinel aborts on resumable sessions=%d" % (resumed_done, resumed_canary))
    if done_low == 0 or canary_abort == 0 or legacy_done == 0:
        raise vlib.Machinery("vacuous: completed-below-1.3=%d sentinel-aborts=%d legacy-server-completions=%d" % (done_low, canary_abort, legacy_done))
    cov = {"evaluations": len(scns), "distinct_nontrivial": len(scns),
           "rule": "every predefined parrot x server version 1.0..1.3 x {server honours supported_versions, server negotiates from legacy_version only (hook H3)} x downgrade sentinel {default, suppressed, forced (hook H4)}; the advertised set is parsed from the wire hello by TLC; distinct = scenarios",
           "samples": [nc.scn_brief(s) for s in scns[:3]], "table_pairs_accepted_but_not_advertised": unadv,
           "completed_below_tls13": done_low, "aborted_on_forced_sentinel": canary_abort, "completed_with_legacy_server": legacy_done, "completed_by_resumption": resumed_done, "sentinel_aborts_with_resumable_session": resumed_canary, "exhaustive": True}
    return "model_checking", cov, ["server versions limited to what the in-tree server implements (TLS 1.0-1.3)"]
