"""C11 - client and server agree on every negotiated parameter and exported key.
TLA+: spec/Negotiation.tla AgreeProblems (both ConnectionStates field by field, server name = the SNI actually sent as parsed
from the wire hello, exporter outputs byte by byte), evaluated by NegoTrace at every successful Result of the compliant grid
(NegoMC Mode c10) plus RemoveSNIExtension variants."""
import nego_common as nc, vlib

def run(ctx):
    k = ctx.seed % 3
    def subset(scns):
        if not ctx.quick:
            return scns
        return [s for i, s in enumerate(scns) if i % 3 == k or s["alpn"]]
    extra = []
    def add_extra(scns):
        out = subset(scns)
        seen = set()
        for s in scns:
            if (s["id"], s["ver"]) not in seen and s["ver"] in (771, 772) and not s["alpn"]:
                seen.add((s["id"], s["ver"]))
                x = dict(s); x["remove_sni"] = True
                out.append(x)
                # client authentication requested (the client writes Certificate / CertificateVerify before its Finished)
                for ca in (1, 2):
                    y = dict(s); y["client_auth"] = ca
                    out.append(y)
                # a custom spec: the parrot's spec plus generic extensions the server may react to (an
                # encrypted_client_hello extension of the inner form sent in the clear, an unknown extension)
                if s["ver"] == 772:
                    w = dict(s); w["no_reneg"] = True
                    w["extra_exts"] = [{"id": 0xfe0d, "data": [1]}, {"id": 0xabcd, "data": [1, 2, 3]}]
                    out.append(w)
                # TLS <= 1.2: the ECDHE curve is the client's first group the server supports, the server's own preference
                # order differs (custom spec with P-256 / P-384 moved to the front, server prefers X25519)
                if s["ver"] <= 771:
                    for g in (23, 24):
                        t = next((t for t in scns if t["id"] == s["id"] and t["ver"] == s["ver"] and t["group"] == g and not t["alpn"]), None)
                        if t is not None:
                            out.append(dict(t, groups_first=g, srv_groups=[29, 23, 24, 25]))
                # the same spec with renegotiation support off: there the client does export keying material
                for ca in (0, 1, 2):
                    z = dict(s); z["client_auth"] = ca; z["no_reneg"] = True
                    out.append(z)
        return out
    scns, events, rej, unadv, mc = nc.run_nego(ctx, "c10", ekm=4 if ctx.quick else 32, subset=add_extra, shards=12)
    for r in rej:
        d = nc.sig_detail(r["detail"])
        s = r["scn"]
        if r["kind"] in ("order", "timeout", "calibration"):
            raise vlib.Machinery("trace problem: %r" % (r,))
        if r["kind"] == "agree":
            ctx.finding("agree:%s:%s:sni_removed=%s" % (d, "any-parrot" if s.get("remove_sni") else s["id"], bool(s.get("remove_sni"))),
                        "client and server views differ after a successful handshake of %s: %s" % (s["id"], d),
                        {"scenario": dict(nc.scn_brief(s), remove_sni=bool(s.get("remove_sni"))), "result": r["result"]})
    res = [e for e in events if e["ev"] == "Result" and e["cok"] and e["sok"]]
    # exporters that both sides produced (the client refuses when the parrot enables renegotiation, both refuse without EMS below 1.3)
    nek = sum(1 for e in res for a, b in zip(e["cekm"], e["sekm"]) if a and b)
    nosni = sum(1 for s in scns if s.get("remove_sni"))
    if not res or nek < 100 or nosni == 0:
        raise vlib.Machinery("vacuous: %d successful handshakes, %d exporter comparisons, %d no-SNI scenarios" % (len(res), nek, nosni))
    cov = {"evaluations": len(scns), "distinct_nontrivial": len(res),
           "rule": "compliant grid of C10 (quick: one third chosen by VERIF_SEED plus all ALPN scenarios) plus one RemoveSNIExtension handshake per (parrot, version); for every successful one TLC compares both ConnectionStates, the SNI parsed from the wire, and random exporter (label, context, length) triples; distinct = successful handshakes compared",
           "samples": [nc.scn_brief(s) for s in scns[:3]], "exporter_comparisons": nek, "no_sni_scenarios": nosni, "exhaustive": not ctx.quick}
    return "model_checking", cov, ["resumed and ECH handshakes are compared by the C19 / C15 checks", "curve is read through the verif accessor of ConnectionState.testingOnlyCurveID"]
