"""C25 - application data arrives intact for every negotiable (version, suite) and any read/write sequence,
also across TLS 1.3 key updates; an altered or truncated record yields an error, never altered plaintext.

TLA+: spec/Record.tla. spec/Record_MC.tla explores every sequence of at most MaxOps operations (writes of the boundary
sizes 0,1,2,16383,16384,16385,32768 by either side, reads of 0,1,2,16384,32768 bytes, key updates with and without
update_requested, one in-flight alteration, Close) per behaviour class, checks the model properties and emits one
scenario per terminal state. spec/Record_Grid.tla computes the negotiable (version, suite, weak) cells from the dumped
suite tables. harness/cmd/record replays sampled scenarios on a real UConn <-> Server pair for every cell (weak-on
cells in their own process; a verif hook makes the in-tree server select suites it never would) and logs what it
saw; spec/Record_Trace.tla judges framing, sequence numbers, stream equality and error behaviour."""
import random
import record_lib as rl
import vlib

SIZES = [0, 1, 2, 16383, 16384, 16385, 32768]
READS = [0, 1, 2, 16384, 32768]
BURSTS = [1, 16, 32, 33, 40]     # key updates in a row from one side (the library tolerates 32 NON-advancing records)
PADS = [0, 1, 255, 256, 257, 1000, 99999]   # padding lengths of a padding peer (99999: pad the record to 2^14 - 1 bytes)
ROUNDS = [8, 40]                 # upload rounds with a KeyUpdate of the receiver after every write


def pick(pool, rng, k):
    """k scenarios from TLC's list for one class, stratified so that alterations, key updates and Close all occur."""
    buckets = [[ops for ops in pool if any(o["op"] == t for o in ops)] for t in ("M", "KU", "C")]
    out = []
    for b, q in zip(buckets, (max(2, k // 3), max(1, k // 4), 1)):
        if b:
            out += rng.sample(b, min(q, len(b)))
    rest = k - len(out)
    if rest > 0:
        out += rng.sample(pool, min(rest, len(pool)))
    return out[:max(k, 1)]


def blocked_then_requested(ops, data=False):
    """x half-closes or gets a passed write deadline, afterwards the OTHER side sends a KeyUpdate with update_requested
    (data: and application data after it)"""
    for i, o in enumerate(ops):
        if o["op"] in ("CW", "WD"):
            y = "s" if o["x"] == "c" else "c"
            for j, p in enumerate(ops[i + 1:], i + 1):
                if p["op"] in ("KU", "KUB", "UPS") and p["x"] == y and p["req"]:
                    if not data or (p["op"] == "UPS" and p["n"] > 0) or any(
                            q["op"] in ("W", "UPS") and q["x"] == y and q["n"] > 0 for q in ops[j + 1:]):
                        return True
    return False


def run(ctx):
    rng = random.Random(ctx.seed * 7919 + 25)
    t, grid = rl.tables(ctx)
    classes = ["cbc10", "tls12", "tls13"]
    res, scns = rl.mc(ctx, "Record_MC_c25", classes=classes, sizes=SIZES, reads=READS,
                      maxops=3 if ctx.quick else 4, maxw=3, maxku=2, maxmut=1, maxclose=1,
                      # one worker: with a VIEW the path that represents a state depends on the exploration order,
                      # so only a single-worker BFS makes the emitted scenarios (and the run) a function of the seed
                      workers=1 if ctx.quick else 8, timeout=1700)
    # second, shallow exploration (TLS 1.3 only) with the macro steps "k key updates in a row" and "upload during which only
    # the receiver rekeys" (kept out of the main run: their 40-record states would multiply its size by ten)
    _, burst = rl.mc(ctx, "Record_MC_c25_burst", classes=["tls13"], sizes=[1, 16385], reads=[1, 32768],
                     maxops=2 if ctx.quick else 3, maxw=2, maxku=1, maxmut=1, maxclose=0,
                     bursts=BURSTS, uprounds=ROUNDS, upsizes=[1, 16385], maxburst=1, workers=1 if ctx.quick else 8, timeout=900)
    burst = [s for s in burst if any(o["op"] in ("KUB", "UPL") for o in s["ops"])]
    scns = scns + burst
    # third exploration: half-closed / write-blocked sides (CloseWrite, a passed write deadline): the side keeps reading while
    # the other one sends data and key updates (requested and not), single or in runs, interleaved with data
    _, half = rl.mc(ctx, "Record_MC_c25_half", classes=classes, sizes=[1, 16385], reads=[1, 32768],
                    maxops=3 if ctx.quick else 4, maxw=2, maxku=2, maxmut=0, maxclose=1,
                    bursts=[1, 3], uprounds=[3], upsizes=[1, 16385], maxburst=1, halfops=["CW", "WD"], maxhalf=1,
                    # every ORDER of the calls matters here (block first, key update after): paths, not states
                    paths=True, workers=8, timeout=1200)
    half = [s for s in half if any(o["op"] in ("CW", "WD") for o in s["ops"])]
    scns = scns + half
    # fourth exploration: a peer that PADS its TLS 1.3 records (RFC 8446 5.4; the in-tree writer never does). Needs the
    # verif method Conn.VerifWritePaddedRecord (patches/hook-record-padding.diff); without it this class is skipped.
    can_pad = bool(ctx.drv("caps", {}, prog=rl.PROG)[0]["pad"])
    padded = []
    if can_pad:
        _, padded = rl.mc(ctx, "Record_MC_c25_pad", classes=["tls13"], sizes=[1, 16385], reads=[1, 32768],
                          maxops=3, maxw=1, maxku=1, maxmut=1, maxclose=0,
                          padsizes=[0, 238, 16000], padlens=PADS, maxpad=2 if ctx.quick else 3,
                          paths=True, workers=8, timeout=1200)
        padded = [s for s in padded if any(o["op"] == "WP" for o in s["ops"])]
        scns = scns + padded
    else:
        ctx.note("padded TLS 1.3 records not exercised: the checkout has no Conn.VerifWritePaddedRecord (patches/hook-record-padding.diff)")
    deep = []
    if not ctx.quick:
        # random deep paths beyond the exhaustive bound
        _, deep = rl.mc(ctx, "Record_MC_c25_sim", classes=classes, sizes=SIZES, reads=READS, maxops=9, maxw=5, maxku=3,
                        maxmut=1, maxclose=1, workers=4, simulate="num=1500", depth=12, timeout=600)
    by_class = {c: [] for c in classes}
    for s in scns + deep:
        by_class[s["class"]].append(s["ops"])
    opkinds = {o["op"] for s in scns for o in s["ops"]}
    if not {"W", "R", "KU", "M", "C", "KUB", "UPL", "UPS", "CW", "WD"} <= opkinds or any(not by_class[c] for c in classes):
        raise vlib.Machinery("Record_MC: vacuous exploration (operations %s, classes %s)" % (sorted(opkinds), {c: len(v) for c, v in by_class.items()}))
    if not any(o["op"] == "KU" and o["req"] for ops in by_class["tls13"] for o in ops):
        raise vlib.Machinery("Record_MC: no key update with update_requested explored")
    cells = sorted(grid["hs"], key=lambda c: (c["weak"], c["vers"], c["suite"]))
    if ctx.quick:
        # weak-on process: the suites EnableWeakCiphers is about (uTLS additions) plus a few ordinary ones
        ordinary = [c for c in cells if c["weak"] and not c["extra"]]
        keep = rng.sample(ordinary, min(4, len(ordinary)))
        cells = [c for c in cells if not c["weak"] or c["extra"] or c in keep]
    per = 8 if ctx.quick else 60
    jobs, mutctr, n = [], [0], 0
    for c in cells:
        # only TLS 1.3 has key updates and there are few TLS 1.3 suites: give those cells three times the scenarios
        picks = pick(by_class[c["class"]], rng, per * 3 if c["class"] == "tls13" else per)
        hp = [s["ops"] for s in half if s["class"] == c["class"]]
        picks += rng.sample(hp, min(2 if ctx.quick else 12, len(hp)))
        if c["class"] == "tls13":
            # a half-closed / write-blocked side that is then sent requested key updates and data by the other side
            hk = [ops for ops in hp if blocked_then_requested(ops)]
            picks += rng.sample(hk, min(6 if ctx.quick else 40, len(hk)))
            hd = [ops for ops in hk if blocked_then_requested(ops, data=True)]     # ... and data after the key update
            picks += rng.sample(hd, min(6 if ctx.quick else 40, len(hd)))
            # a padding peer: every padding length on every TLS 1.3 cell
            pp = [sc["ops"] for sc in padded]
            for k in PADS:
                cand = [ops for ops in pp if any(o["op"] == "WP" and (o["pad"] == k if k != 99999 else o["pad"] + o["n"] == 16383) for o in ops)]
                picks += rng.sample(cand, min(3 if ctx.quick else 15, len(cand)))
            # every burst length and every upload length on every TLS 1.3 cell
            pool = by_class["tls13"]
            for k in BURSTS:
                picks += rng.sample([ops for ops in pool if any(o["op"] == "KUB" and o["k"] == k for o in ops)], 1 if ctx.quick else 4)
            for k in ROUNDS:
                picks += rng.sample([ops for ops in pool if any(o["op"] == "UPL" and o["k"] == k for o in ops)], 1 if ctx.quick else 4)
        for ops in picks:
            n += 1
            jobs.append(rl.job(n, "hs", c, rl.concretise(ops, rng, mutctr), rng, dyn=rng.random() < 0.6))
    out = rl.judge(ctx, jobs, "c25", 8 if ctx.quick else 16,
                   canary_pick=lambda j, evs: any(e["ev"] == "Read" and e["m"] > 0 for e in evs) and any(e["ev"] == "Write" and e["ret"] > 0 for e in evs))
    ctx.traces += len(jobs)
    jb = {j["sc"]: j for j in jobs}
    cell = {(c["vers"], c["suite"], c["weak"]): c for c in cells}
    for sc, why in sorted(out["rej"].items()):
        j = jb[sc]
        c = cell[(j["vers"], j["suite"], j["weak"])]
        if why in ("handshake-failed", "negotiated-something-else", "init-counters"):
            sig = "hs:%s:0x%04x:weak=%d" % (why, j["suite"], j["weak"])
        else:
            sig = "hs:%s:%s:%s" % (why, c["kind"], c["class"])
        ctx.finding(sig, "version 0x%04x suite 0x%04x weak=%s: %s" % (j["vers"], j["suite"], j["weak"], why),
                    dict(rl.first_bad_event(out["by"][sc], why), scenario=j["ops"], dyn=j["dyn"]))
    # ---- vacuity
    if not out["rej"]:    # (with reproduced rejections the verdict stands on those)
        rl.need(out["stats"], ["Init.hs", "Write", "Write.multi", "Write.split", "Write.zero", "Read.data", "Read.partial", "Read.zero",
                               "Read.timeout", "Read.eof", "Read.error", "Read.alert", "Read.sticky", "Read.kuresp", "KeyUpdate", "Close",
                               "Mutate", "Nonce", "CloseWrite", "WriteDeadline", "Read.kublocked", "Read.halfclosed", "Write.blocked"]
                + (["WritePadded", "WritePadded.long"] if can_pad else []), "C25")
    if not out["rej"]:
        # long runs of key updates without application data from that side must really have been read through
        longest = 0
        for evs in out["by"].values():
            run = {"c": 0, "s": 0}
            for e in evs:
                if e["ev"] == "KeyUpdate" and e["err"] == "":
                    run[e["x"]] += 1
                    longest = max(longest, run[e["x"]])
                elif e["ev"] == "Write" and e["ret"] > 0:
                    run[e["x"]] = 0
        if longest < 40:
            raise vlib.Machinery("C25: longest run of key updates of one side without data in between was %d" % longest)
    muts = {}
    for evs in out["by"].values():
        for e in evs:
            if e["ev"] == "Mutate" and e["did"]:
                k = e["kind"] + ("/" + e["where"] if e["where"] else "")
                muts[k] = muts.get(k, 0) + 1
    want = {k + ("/" + w if w else "") for k, w in rl.MUT_KINDS}
    if set(muts) != want:
        raise vlib.Machinery("C25: not every kind of alteration was applied: %s" % muts)
    kinds = {}
    for c in cells:
        kinds[(c["class"], c["kind"])] = kinds.get((c["class"], c["kind"]), 0) + 1
    cov = {"evaluations": out["events"], "distinct_nontrivial": len({(j["vers"], j["suite"], j["weak"], str(j["ops"])) for j in jobs}),
           "rule": "every negotiable (version, suite) cell (weak-on cells: %s) x %d scenarios sampled (stratified: alteration / key update / close / any) "
                   "from the TLC-enumerated set; evaluations = events judged by TLC, distinct = distinct (cell, scenario) pairs"
                   % ("uTLS additions + 4 others" if ctx.quick else "all", per),
           "cells": len(cells), "cells_by_class_kind": {"%s/%s" % k: v for k, v in sorted(kinds.items())},
           "mc_scenarios": len(scns), "padded_records_exercised": can_pad, "mc_random_deep_scenarios": len(deep), "alterations_applied": muts,
           "matched_steps": out["stats"], "canaries_rejected": out["canaries"],
           "samples": [{"vers": j["vers"], "suite": j["suite"], "weak": j["weak"], "dyn": j["dyn"], "ops": j["ops"][:5]} for j in jobs[:3]],
           "exhaustive": False}
    return "model_checking", cov, ["abstract AEAD: a record opens iff unaltered and (epoch, seq) agree",
                                   "the attacker alters one record and then closes that direction (so a reader never blocks for ever)",
                                   "for CBC suites the plaintext length of a record is taken from the reader's own counter (Conn.input), the wire only bounds it",
                                   "suite tables dumped through the verif accessors are the code's tables"]
