"""C29 - Roller prefers the last working fingerprint and tries each at most once.

TLA+: spec/Roller.tla (Dial loop step by step, WorkingHelloID, per-call order/tried, 2 concurrent callers),
      spec/Roller_MC.tla (exhaustive histories, safety + liveness), spec/Roller_Scn.tla (emits Dial histories),
      spec/Roller_Trace.tla (recorded histories of the real Roller must be behaviours of Roller).
Harness: harness/cmd/quic (rollerdial): real Roller.Dial over loopback TCP against a TLS server that recognises the
ClientHelloID from the hello and accepts or refuses it; built with -race. No expected values in the harness."""
import concurrent.futures as cf
import json, os, re, shutil, tempfile
import vlib

IDS = ["Chrome-120", "Firefox-120", "Randomized"]  # must be the IDs of spec/Roller_*.cfg; "Randomized" = HelloRandomized (unseeded)
RAND = "Randomized"
STALL_TMO_MS = 3000   # Roller.TlsHandshakeTimeout in histories with a stalling server (NewRoller's own choice, 11..30 s, otherwise)
TIMEOUT_MS = 90000                                 # watchdog per Dial (Roller's own timeouts are 7..30 s per attempt)
MC_ACTIONS = ["BeginStep", "Shuffle", "ReadWorking", "TcpDial", "Handshake", "Record"]


def mkcfg(ctx, base, name, **consts):
    src = open(os.path.join(ctx.scratch, base + ".cfg")).read()
    for k, v in consts.items():
        src, n = re.subn(r"(?m)^(\s*%s\s*=).*$" % re.escape(k), lambda m: m.group(1) + " " + v, src)
        if n != 1:
            raise vlib.Machinery("cfg %s has no constant %s" % (base, k))
    open(os.path.join(ctx.scratch, name + ".cfg"), "w").write(src)
    return name


def shm_extra(ctx):
    if os.path.isdir("/dev/shm") and os.access("/dev/shm", os.W_OK):
        d = tempfile.mkdtemp(prefix="verif-c29-", dir="/dev/shm")
        ctx._shm = getattr(ctx, "_shm", []) + [d]
        return ["-metadir", d]
    return []


def run_roller(ctx, scs, name, race=True):
    inp = {"ids": IDS, "timeout_ms": TIMEOUT_MS,
           "scenarios": [{"id": s["id"], "configured": s["configured"], "preset": "" if s["preset"] == "-" else s["preset"], "steps": s["steps"],
                          "tmo_ms": STALL_TMO_MS if any(st.get("stall") or st["rmode"] == "stall" for st in s["steps"]) else 0} for s in scs]}
    racerep = None
    try:
        evs = ctx.drv("rollerdial", inp, race=race, prog="quic", name=name, timeout=2400)
    except vlib.Machinery:
        err = getattr(ctx, "last_drv_stderr", "") or ""
        if race and "DATA RACE" in err:
            racerep = err
            evs = ctx.drv("rollerdial", inp, race=False, prog="quic", name=name + "-norace", timeout=2400)
        else:
            raise
    if not evs or evs[0].get("ev") != "Table" or evs[0]["fingerprints"] < len([i for i in IDS if i != RAND]):
        raise vlib.Machinery("the test server cannot tell the candidate IDs apart: %r" % (evs[:1],))
    rows = {}
    for s in scs:
        steps = []
        for k, st in enumerate(s["steps"]):
            d = sorted([e for e in evs if e.get("ev") == "Dial" and e["sc"] == s["id"] and e["step"] == k + 1], key=lambda e: e["caller"])
            se = [e for e in evs if e.get("ev") == "StepEnd" and e["sc"] == s["id"] and e["step"] == k + 1]
            if len(d) != st["n"] or len(se) != 1:
                raise vlib.Machinery("harness log incomplete for scenario %d step %d" % (s["id"], k + 1))
            steps.append({"accept": st["accept"], "stall": st.get("stall", []), "rmode": st["rmode"], "tcpfail": st["tcpfail"], "n": st["n"],
                          "working": se[0]["working"], "wseed": se[0]["wseed"], "stray": se[0]["stray"],
                          "dials": [{"caller": e["caller"], "ret": e["ret"], "seen": [[a, b] for a, b in zip(e["seen"], e["seen_k"])], "sok": e["seen_ok"], "snis": e["snis"],
                                     "given": e["given"], "conn": e["conn"], "csni": e["csni"], "cseed": e["cseed"], "ms": e["ms"], "tmo": e["tmo"]} for e in d]})
        rows[s["id"]] = {"id": s["id"], "configured": s["configured"], "preset": s["preset"], "steps": steps}
    return rows, racerep


def validate(ctx, rows, shards=1, tagname="t"):
    if not rows:
        return set()
    shards = max(1, min(shards, len(rows)))
    per = (len(rows) + shards - 1) // shards

    def one(k):
        part = rows[k * per:(k + 1) * per]
        if not part:
            return None
        mod = "Roller_Trace_%s%d" % (tagname, k)
        src = open(os.path.join(ctx.scratch, "Roller_Trace.tla")).read()
        src = src.replace("MODULE Roller_Trace", "MODULE " + mod).replace("roller_traces.ndjson", mod + ".ndjson")
        open(os.path.join(ctx.scratch, mod + ".tla"), "w").write(src)
        ctx.write_ndjson(mod + ".ndjson", part)
        return ctx.tlc(mod, cfg="Roller_Trace", workers=2, timeout=1500, heap="3g", extra=shm_extra(ctx))
    with cf.ThreadPoolExecutor(max_workers=shards) as ex:
        results = list(ex.map(one, range(shards)))
    acc = set()
    for res in results:
        if res is None:
            continue
        if res.violated:
            raise vlib.Machinery("trace validation: model invariant %s violated while following a trace" % res.violated)
        acc |= {int(v) for v in res.tagged("ACC")}
    return acc


RERUNS = 12   # Roller shuffles with its own PRNG: a rejected history is re-run up to RERUNS times in fresh processes


def classes_of(row):
    """Describes WHAT is odd in a rejected history (TLC has already rejected it; this only names the class for the
    signature): a set of class names, computed from the observations alone. seen entries are [id, k]."""
    out = set()
    w = [row["preset"], 0]          # the working ClientHelloID as far as the observations tell: [id, fingerprint number]
    for st in row["steps"]:
        conf = set(row["configured"])
        for d in st["dials"]:
            seen = d["seen"]
            names = [x[0] for x in seen]
            keys = [tuple(x) for x in seen]
            if len(set(keys)) != len(keys) or any(names.count(x) > 1 for x in set(names) if x != RAND):
                out.add("id-tried-twice")
            if st["n"] == 1 and w[0] != "-" and seen and seen[0][0] != w[0]:
                out.add("working-id-not-first")
            if st["n"] == 1 and w[0] == RAND and w[1] > 0 and seen and seen[0][0] == RAND and seen[0][1] != w[1]:
                out.add("working-fingerprint-rerandomized")
            if any(x[0] in st["accept"] for x in seen[:-1]):
                out.add("kept-trying-after-accepted-id")
            if d["ret"] == "hserr" and not st["tcpfail"] and not (conf | ({w[0]} - {"-"} if st["n"] == 1 else set())) <= set(names):
                out.add("configured-id-never-tried")
            if d["ret"] == "hserr" and any(x in st["accept"] for x in names):
                out.add("failed-although-an-id-was-accepted")
            if d["ret"] == "ok" and (not seen or d["conn"] != names[-1] or (d["conn"] != RAND and d["conn"] not in st["accept"])):
                out.add("returned-conn-not-the-accepted-id")
            if d["ret"] == "ok" and (d["conn"] == RAND) != (d["cseed"] != ""):
                out.add("returned-conn-seed-odd")
            if st["tcpfail"] and (d["ret"] != "tcperr" or seen):
                out.add("tcp-error-not-immediate")
            if not st["tcpfail"] and d["ret"] == "tcperr":
                out.add("spurious-tcp-error")
            if any(x != d["given"] for x in d["snis"]) or (d["ret"] == "ok" and d["csni"] != d["given"]):
                out.add("sni-not-the-given-name")
            if d["ret"] not in ("ok", "hserr", "tcperr"):
                out.add("dial-" + d["ret"])
            stalled = [x for x in seen if (x[0] == RAND and st["rmode"] == "stall") or x[0] in st.get("stall", [])]
            if stalled and d["ret"] == "hserr" and (any(x in st["accept"] for x in names) or not conf <= set(names)):
                out.add("gave-up-after-stalled-id")
            if d["ms"] * 10 < len(stalled) * d["tmo"] * 9:
                out.add("stalled-attempt-shorter-than-timeout")
            if d["ms"] > (len(stalled) + 1) * d["tmo"] + 3000:
                out.add("dial-longer-than-per-attempt-timeouts")
            if any(x not in conf and x != w[0] for x in names) and st["n"] == 1:
                out.add("unconfigured-id-tried")
        oks = [d for d in st["dials"] if d["ret"] == "ok" and d["seen"]]
        if (oks and st["working"] not in [d["conn"] for d in oks]) or (not oks and st["working"] != w[0]):
            out.add("working-id-not-recorded")
        if oks and st["working"] == RAND and st["wseed"] == "":
            out.add("working-seed-missing")
        if oks and st["working"] == RAND and st["wseed"] != "" and st["wseed"] not in [d["cseed"] for d in oks]:
            out.add("working-seed-not-the-connections")
        if st["stray"]:
            out.add("stray-hello")
        if oks:
            m = [d for d in oks if d["conn"] == st["working"] and (st["working"] != RAND or d["cseed"] == st["wseed"])]
            w = list(m[0]["seen"][-1]) if m else [st["working"], 0]
    return out or {"other"}


def sig_of(classes):
    return "rejected:" + "+".join(sorted(classes))


def run(ctx):
    pool = cf.ThreadPoolExecutor(max_workers=6)
    try:
        return _run(ctx, pool)
    finally:
        pool.shutdown(wait=False)
        for d in getattr(ctx, "_shm", []):
            shutil.rmtree(d, ignore_errors=True)


def _run(ctx, pool):
    q = ctx.quick
    if getattr(ctx, "replay", None):      # ./check C29 --replay replays/C29/<x>.json
        sc = dict(ctx.replay.get("replay", ctx.replay)["scenario"], id=1)
        n = 0
        for k in range(RERUNS):
            rows, _ = run_roller(ctx, [sc], "c29-replay%d" % k, race=False)
            n += 1
            ctx.traces += 1
            if 1 not in validate(ctx, [rows[1]], tagname="p%d_" % k):
                for c in sorted(classes_of(rows[1])):
                    ctx.finding("rejected:" + c, "replayed Dial history is rejected by Roller_Trace (run %d, class %s)" % (k + 1, c),
                                {"scenario": {k2: sc[k2] for k2 in ("configured", "preset", "steps")}, "class": c})
                break
        return "model_checking", {"evaluations": n, "distinct_nontrivial": 1, "rule": "replay of one recorded history, up to %d runs until one is rejected" % RERUNS, "samples": [sc], "exhaustive": False}, []
    # ------------------------------------------------------------------ 1. model checking (background)
    # quick: every 1-step history with 2 concurrent callers + every sequential history of length 2;
    # thorough: every history of length <= 2 with 2 concurrent callers + every sequential history of length 3
    # (3 steps x 2 callers was 12.8M states before the stall reaction was added; it is sampled by the simulated histories instead)
    safe_cfg = mkcfg(ctx, "Roller_MC", "c29_safe", MaxSteps="1" if q else "2")
    seq_cfg = mkcfg(ctx, "Roller_MC", "c29_seq", MaxSteps="2" if q else "3", MaxCallers="1")
    cov_cfg = mkcfg(ctx, "Roller_MC", "c29_cov", MaxSteps="1", IDs='{"Chrome-120", "Randomized"}')
    live_cfg = mkcfg(ctx, "Roller_MC_live", "c29_live", IDs='{"Chrome-120", "Randomized"}' if q else '{"Chrome-120", "Firefox-120", "Randomized"}')
    f_safe = pool.submit(ctx.tlc, "Roller_MC", cfg=safe_cfg, workers=8, timeout=2400, heap="6g", extra=shm_extra(ctx))
    f_seq = pool.submit(ctx.tlc, "Roller_MC", cfg=seq_cfg, workers=4, timeout=2400, heap="4g", extra=shm_extra(ctx))
    f_cov = pool.submit(ctx.tlc, "Roller_MC", cfg=cov_cfg, workers=2, timeout=1200, heap="3g", coverage=True, extra=shm_extra(ctx), count=False)
    f_live = pool.submit(ctx.tlc, "Roller_MC", cfg=live_cfg, workers=4, timeout=2400, heap="4g", extra=shm_extra(ctx))
    # ------------------------------------------------------------------ 2. Dial histories chosen by TLC
    f_sim = pool.submit(ctx.tlc, "Roller_Scn", cfg="Roller_Scn", workers=1, timeout=1200, heap="3g", count=False,
                        simulate="num=%d" % (150 if q else 2500), depth=150, extra=["-seed", str(ctx.seed)] + shm_extra(ctx))
    one_cfg = mkcfg(ctx, "Roller_Scn", "c29_scn1", MaxSteps="1")
    f_one = pool.submit(ctx.tlc, "Roller_Scn", cfg=one_cfg, workers=4, timeout=1200, heap="3g", count=False, extra=shm_extra(ctx)) if not q else None
    hists = {}
    for res in [f_sim.result()] + ([f_one.result()] if f_one else []):
        for o in res.tagged("SCN"):
            if not isinstance(o, dict):
                raise vlib.Machinery("unparsable SCN line %r" % (o,))
            hists.setdefault(json.dumps(o, sort_keys=True), o)
    # drop histories that are a proper prefix of another emitted history (simulation prints after every step)
    longer = {}
    for o in hists.values():
        for k in range(1, len(o["steps"])):
            longer[json.dumps([o["configured"], o["preset"], o["steps"][:k]], sort_keys=True)] = True
    chosen = [o for kk, o in sorted(hists.items()) if json.dumps([o["configured"], o["preset"], o["steps"]], sort_keys=True) not in longer]
    if not chosen:
        raise vlib.Machinery("TLC emitted no Dial histories")
    # a stalled attempt costs a full TlsHandshakeTimeout of wall time: histories with a stalling server are capped (VERIF_SEED-chosen)
    stallers = [o for o in chosen if any(st["stall"] or st["rmode"] == "stall" for st in o["steps"])]
    cap = 10 ** 6 if q else 400
    if len(stallers) > cap:
        import random
        random.Random(ctx.seed).shuffle(stallers)
        drop = {json.dumps(o, sort_keys=True) for o in stallers[cap:]}
        chosen = [o for o in chosen if json.dumps(o, sort_keys=True) not in drop]
    # Designated histories (behaviours of the model like every other one; they come first): the binding canaries are cut from
    # these, so that their construction does not depend on what the seed happened to sample.
    #   D1  the preset working parrot is refused, the other parrot is accepted
    #   D2  a randomized hello works against a pinning server, the next Dial must present the same fingerprint (3 copies: ~3.5% of
    #       the randomized specs are unusable)
    #   D3  the preset working parrot is STALLED, the other parrot is accepted: the call must go on and succeed
    def step(accept, stall=(), rmode="refuse", n=1):
        return {"accept": list(accept), "stall": list(stall), "rmode": rmode, "tcpfail": False, "n": n}
    P1, P2 = [i for i in IDS if i != RAND][:2]
    designated = [
        {"configured": [P1, P2], "preset": P1, "steps": [step([P2])]},
        {"configured": [RAND], "preset": "-", "steps": [step([], rmode="pin"), step([], rmode="pin")]},
        {"configured": [RAND], "preset": "-", "steps": [step([], rmode="pin"), step([], rmode="pin")]},
        {"configured": [RAND], "preset": "-", "steps": [step([], rmode="pin"), step([], rmode="pin")]},
        {"configured": [P1, P2], "preset": P1, "steps": [step([P2], stall=[P1])]},
    ]
    ND = len(designated)
    scs = [{"id": i + 1, "configured": o["configured"], "preset": o["preset"], "steps": o["steps"]} for i, o in enumerate(designated + chosen)]
    by_id = {s["id"]: s for s in scs}

    # ------------------------------------------------------------------ 3. replay on the real Roller (-race), record, judge
    rows, racerep = run_roller(ctx, scs, "c29-main", race=True)
    if racerep:
        m = re.search(r"WARNING: DATA RACE[\s\S]{0,1500}", racerep)
        top = re.search(r"\n\s+([\w./*()-]+)\(\)\n", racerep)
        ctx.finding("race:%s" % (top.group(1) if top else "unknown"), "data race reported during concurrent Roller.Dial calls", {"report": m.group(0) if m else racerep[-1500:]})
    allrows = [rows[s["id"]] for s in scs]
    acc = validate(ctx, allrows, shards=4 if q else 12, tagname="m")
    ctx.traces += len(allrows)
    rejected = [s for s in scs if s["id"] not in acc]
    sigs = {}
    reruns_used = 0
    if rejected:
        # Every rejection is an observation of the real code leaving the specification; the re-runs (fresh processes)
        # only guard against a flaky harness. Roller shuffles with its own PRNG, so a history counts as reproduced as
        # soon as ANY re-run is rejected again with a common class; only "never again in RERUNS re-runs" is exit 2.
        first = {s["id"]: classes_of(rows[s["id"]]) for s in rejected}
        pending = list(rejected)
        for k in range(RERUNS):
            if not pending:
                break
            reruns_used = k + 1
            rows2, _ = run_roller(ctx, pending, "c29-repro%d" % k, race=False)
            acc2 = validate(ctx, [rows2[s["id"]] for s in pending], shards=2, tagname="r%d_" % k)
            ctx.traces += len(pending)
            still = []
            for s in pending:
                common = set() if s["id"] in acc2 else (first[s["id"]] & classes_of(rows2[s["id"]]))
                if not common:
                    still.append(s)
                    continue
                sigs[s["id"]] = sig_of(common)
                for c in sorted(common):
                    ctx.finding("rejected:" + c, "recorded Dial history is not a behaviour of Roller (first run and re-run %d, class %s): last step %s"
                                % (k + 1, c, json.dumps(rows2[s["id"]]["steps"][-1])), {"scenario": {k2: s[k2] for k2 in ("configured", "preset", "steps")}, "class": c})
            pending = still
        if pending and ctx.findings:
            ctx.note("%d further rejected histories (first-run classes %s) were not rejected again in %d re-runs; the run already has reproduced rejections"
                     % (len(pending), sorted(set().union(*[first[s["id"]] for s in pending])), RERUNS))
        elif pending:
            raise vlib.Machinery("%d rejected histories were never rejected again in %d re-runs (ids %s, classes %s); first run of the first one: %s"
                                 % (len(pending), RERUNS, [s["id"] for s in pending][:10], sorted(first[pending[0]["id"]]), json.dumps(rows[pending[0]["id"]])[:3000]))

    # ------------------------------------------------------------------ 4. binding canaries
    def two_tried(r):   # first call: a preset working ID is tried first and refused, a later ID is accepted
        d = r["steps"][0]["dials"][0]
        return (r["id"] in acc and r["steps"][0]["n"] == 1 and r["preset"] not in ("-", RAND) and len(d["seen"]) >= 2 and d["seen"][0] == [r["preset"], 0]
                and d["ret"] == "ok" and all(x[1] == 0 for x in d["seen"]))
    base = next((r for r in allrows if two_tried(r)), None)
    if base is None and not ctx.findings:
        raise vlib.Machinery("vacuity: no accepted history whose first Dial tried the preset working ID and then another one")
    if base is None:       # reproduced rejections are the result of this run; the canaries need an accepted history
        ctx.note("binding canaries skipped: no accepted history to derive them from (the run has reproduced rejections)")
        base = None
    def variant(f):
        c = json.loads(json.dumps(base)); f(c["steps"][0], c["steps"][0]["dials"][0]); return c
    def swap(st, d): d["seen"][0], d["seen"][1] = d["seen"][1], d["seen"][0]
    def dup(st, d): d["seen"].insert(0, d["seen"][0]); d["sok"].insert(0, d["sok"][0])
    def wrongconn(st, d): d["conn"] = d["seen"][0][0]
    def notrecorded(st, d): st["working"] = d["seen"][0][0]
    def wrongsni(st, d): d["snis"][0] = "other.example.com"
    def tcpish(st, d): d["ret"] = "tcperr"; d["conn"] = "-"; d["cseed"] = ""
    def toomany(st, d): d["seen"].append([next(x for x in IDS if x != RAND and x != d["seen"][-1][0]), 0]); d["sok"].append(False)
    muts = {"order-swapped": swap, "id-tried-twice": dup, "returned-conn-not-the-accepted-one": wrongconn, "working-not-recorded": notrecorded,
            "wrong-sni": wrongsni, "tcp-error-after-hellos": tcpish, "kept-trying-after-success": toomany}
    names = sorted(muts)
    if base is not None:
        crow = [dict(base, id=1)] + [dict(variant(muts[n]), id=k + 2) for k, n in enumerate(names)]
        cacc = validate(ctx, crow, shards=1, tagname="c")
        if 1 not in cacc:
            raise vlib.Machinery("canary control history was rejected")
        swallowed = [names[k - 2] for k in cacc if k != 1]
        if swallowed:
            raise vlib.Machinery("binding canary accepted by the trace specification: %s" % swallowed)
    else:
        names = []
    # canaries about the concrete fingerprint of a randomized working ID
    def rand_reused(r):   # a randomized hello worked, and the next (sequential) Dial presented the same fingerprint first
        if r["id"] not in acc or len(r["steps"]) < 2:
            return False
        s1, s2 = r["steps"][0], r["steps"][1]
        d1, d2 = s1["dials"][0], s2["dials"][0]
        return (s1["n"] == 1 and s2["n"] == 1 and d1["ret"] == "ok" and d1["conn"] == RAND and s1["wseed"] != "" and d2["seen"] and d2["seen"][0] == d1["seen"][-1])
    rbase = next((r for r in allrows if rand_reused(r)), None)
    if rbase is None and not ctx.findings:
        raise vlib.Machinery("vacuity: no accepted history in which a randomized fingerprint worked and was presented again by the next Dial")
    rnames = []
    if rbase is not None:
        def rvariant(f):
            c = json.loads(json.dumps(rbase)); f(c); return c
        def seed_dropped(c): c["steps"][0]["wseed"] = ""
        def seed_other(c): c["steps"][0]["wseed"] = "00" * 32
        def rerandomized(c): c["steps"][1]["dials"][0]["seen"][0][1] = 23
        def conn_without_seed(c): c["steps"][0]["dials"][0]["cseed"] = ""
        rmuts = {"working-seed-dropped": seed_dropped, "working-seed-not-the-connections": seed_other,
                 "working-fingerprint-rerandomized": rerandomized, "returned-conn-without-seed": conn_without_seed}
        rnames = sorted(rmuts)
        crow = [dict(rbase, id=1)] + [dict(rvariant(rmuts[n]), id=k + 2) for k, n in enumerate(rnames)]
        cacc = validate(ctx, crow, shards=1, tagname="d")
        if 1 not in cacc:
            raise vlib.Machinery("canary control history (randomized) was rejected")
        swallowed = [rnames[k - 2] for k in cacc if k != 1]
        if swallowed:
            raise vlib.Machinery("binding canary accepted by the trace specification: %s" % swallowed)
    names = names + rnames
    # canaries about stalled attempts: every attempt has its own timeout
    def stall_then_ok(r):
        s1 = r["steps"][0]; d = s1["dials"][0]
        # the stalled ID and the one that then works are parrots: a parrot the server accepts MUST succeed (a randomized spec may be unusable)
        return (r["id"] in acc and s1["n"] == 1 and d["ret"] == "ok" and len(d["seen"]) >= 2 and d["seen"][0][0] in s1["stall"]
                and all(x[1] == 0 for x in d["seen"]) and d["seen"][-1][0] in s1["accept"])
    sbase = next((r for r in allrows if stall_then_ok(r)), None)
    if sbase is None and not ctx.findings:
        raise vlib.Machinery("vacuity: no accepted history whose first Dial met a stalled ID and then succeeded with another one")
    snames = []
    if sbase is not None:
        def svariant(f):
            c = json.loads(json.dumps(sbase)); f(c["steps"][0]["dials"][0]); return c
        def too_fast(d): d["ms"] = 5
        def too_slow(d): d["ms"] = (len(d["seen"]) + 1) * d["tmo"] + 60000
        def gave_up(d): d["ret"] = "hserr"; d["conn"] = "-"; d["csni"] = ""; d["cseed"] = ""; d["sok"][-1] = False
        smuts = {"stalled-attempt-cut-short": too_fast, "dial-exceeds-per-attempt-timeouts": too_slow, "gave-up-after-stalled-id": gave_up}
        snames = sorted(smuts)
        crow = [dict(sbase, id=1)] + [dict(svariant(smuts[n]), id=k + 2) for k, n in enumerate(snames)]
        # gave_up also has to leave WorkingHelloID where it was
        crow[1 + snames.index("gave-up-after-stalled-id")]["steps"][0]["working"] = sbase["preset"]
        crow[1 + snames.index("gave-up-after-stalled-id")]["steps"][0]["wseed"] = ""
        crow[1 + snames.index("gave-up-after-stalled-id")]["steps"] = crow[1 + snames.index("gave-up-after-stalled-id")]["steps"][:1]
        cacc = validate(ctx, crow, shards=1, tagname="e")
        if 1 not in cacc:
            raise vlib.Machinery("canary control history (stall) was rejected")
        swallowed = [snames[k - 2] for k in cacc if k != 1]
        if swallowed:
            raise vlib.Machinery("binding canary accepted by the trace specification: %s" % swallowed)
    names = names + snames

    # ------------------------------------------------------------------ 5. model-checking results + vacuity
    safe, seq, cov, live = f_safe.result(), f_seq.result(), f_cov.result(), f_live.result()
    if safe.violated or seq.violated or cov.violated or live.violated:
        raise vlib.Machinery("the Roller model violates its own properties: %s" % (safe.violated + seq.violated + cov.violated + live.violated))
    never = [a for a in MC_ACTIONS if cov.coverage.get(a, 0) == 0]
    if never:
        raise vlib.Machinery("vacuity: actions never taken in the exhaustive run: %s" % never)
    accrows = [r for r in allrows if r["id"] in acc]
    def dials(r):
        w = r["preset"]
        for st in r["steps"]:
            for d in st["dials"]:
                yield r, st, d, w
            w = st["working"]
    seen = {"working_tried_first_then_fallthrough": 0, "preset_outside_configured_prepended": 0, "all_ids_refused": 0, "tcp_error": 0,
            "two_concurrent_successes": 0, "working_updated": 0, "histories_of_length_3": 0,
            "randomized_fingerprint_presented_again_by_next_dial": 0, "randomized_fingerprint_pinned_server_accepts_again": 0, "seeded_working_refused_then_fresh_randomized": 0,
            "stalled_id_then_success_with_a_later_id": 0, "last_working_id_stalled_then_another_id_works": 0, "two_stalled_ids_in_one_call": 0}
    for r in accrows:
        seen["histories_of_length_3"] += len(r["steps"]) >= 3
        for _, st, d, w in dials(r):
            seen["working_tried_first_then_fallthrough"] += (st["n"] == 1 and w != "-" and len(d["seen"]) >= 2 and d["seen"][0][0] == w)
            seen["preset_outside_configured_prepended"] += (st["n"] == 1 and w != "-" and w not in r["configured"] and [x[0] for x in d["seen"][:1]] == [w])
            nst = [x for x in d["seen"] if (x[0] == RAND and st["rmode"] == "stall") or x[0] in st["stall"]]
            seen["stalled_id_then_success_with_a_later_id"] += (d["ret"] == "ok" and len(nst) >= 1)
            seen["last_working_id_stalled_then_another_id_works"] += (st["n"] == 1 and d["ret"] == "ok" and len(nst) >= 1 and w != "-" and d["seen"][0][0] == w and d["seen"][0] in nst)
            seen["two_stalled_ids_in_one_call"] += len(nst) >= 2
            seen["all_ids_refused"] += d["ret"] == "hserr"
            seen["tcp_error"] += d["ret"] == "tcperr"
            seen["working_updated"] += (st["n"] == 1 and d["ret"] == "ok" and d["conn"] != w)
        for s1, s2 in zip(r["steps"], r["steps"][1:]):
            d1, d2 = s1["dials"][0], s2["dials"][0]
            if s1["n"] == 1 and s2["n"] == 1 and d1["ret"] == "ok" and d1["conn"] == RAND and s1["wseed"] != "" and d2["seen"] and d2["seen"][0] == d1["seen"][-1]:
                seen["randomized_fingerprint_presented_again_by_next_dial"] += 1
                seen["randomized_fingerprint_pinned_server_accepts_again"] += (s2["rmode"] == "pin" and d2["ret"] == "ok" and len(d2["seen"]) == 1)
                seen["seeded_working_refused_then_fresh_randomized"] += (len([x for x in d2["seen"] if x[0] == RAND]) >= 2)
        for st in r["steps"]:
            seen["two_concurrent_successes"] += (st["n"] == 2 and all(d["ret"] == "ok" for d in st["dials"]))
    empty = [k for k, v in seen.items() if v == 0]
    if empty and not ctx.findings:
        raise vlib.Machinery("vacuity: no accepted real history exercised %s" % empty)
    ndials = sum(len(st["dials"]) for r in allrows for st in r["steps"])
    nhello = sum(len(d["seen"]) for r in allrows for st in r["steps"] for d in st["dials"])
    sample = [{"configured": r["configured"], "preset": r["preset"],
               "steps": [{"accept": st["accept"], "stall": st["stall"], "rmode": st["rmode"], "tcpfail": st["tcpfail"], "dials": [{"seen": d["seen"], "ret": d["ret"], "conn": d["conn"], "ms": d["ms"]} for d in st["dials"]], "working_after": st["working"], "working_seed": st["wseed"][:8]} for st in r["steps"]]}
              for r in accrows[:2]]
    cov_d = {"evaluations": ndials, "distinct_nontrivial": len({json.dumps([s["configured"], s["preset"], s["steps"]], sort_keys=True) for s in scs}),
             "designated_histories": ND,
             "rule": "evaluations = Roller.Dial calls made on the real code (loopback TCP, -race); distinct = distinct Dial histories "
                     "(configured set, preset working ID, per step accept set / TCP failure / 1-2 concurrent callers) chosen by TLC "
                     "and judged by TLC (Roller_Trace): shuffles and interleavings are found by TLC, hellos seen by the server, results and WorkingHelloID are bound",
             "histories": len(scs), "accepted": len(acc), "rejected_and_reproduced": len(sigs), "rejected_signatures": sorted(set(sigs.values())), "rerun_rounds_used": reruns_used,
             "hellos_seen_by_server": nhello, "branches_seen_in_accepted_histories": seen, "canaries_rejected": names,
             "mc_actions_covered": {a: cov.coverage.get(a, 0) for a in MC_ACTIONS},
             "model": {"safety_states_2_callers": safe.distinct, "max_steps_2_callers": 1 if q else 2, "safety_states_sequential": seq.distinct,
                       "max_steps_sequential": 2 if q else 3, "liveness_states": live.distinct},
             "race_detector": "on", "race_reports": 1 if racerep else 0, "samples": sample, "exhaustive": False}
    return "model_checking", cov_d, [
        "the test server recognises a parrot by its GREASE-free suite / extension-set / curve / signature-algorithm fingerprint (learned from the real code per run); any other hello is a randomized one, identified by its order-sensitive fingerprint (two hellos get the same number iff suites, extension sequence, curves, signature algorithms, versions and ALPN agree)",
        "Roller.HelloIDs holds no repeated ID; of the randomized IDs only the unseeded HelloRandomized is a candidate",
        "data-race freedom is the Go race detector's judgement on the executed schedules, not a TLA+ result",
    ]
