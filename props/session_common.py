"""Shared runner code for the session family (C19, C20).
TLA+: spec/Session.tla (mechanism, Legal, cache model, judgement), spec/Session_MC.tla (enumeration),
spec/Session_Trace.tla (trace validation). Go: harness/cmd/session (replay + observation only).
Nothing here judges: it moves scenarios from TLC to the harness, observations from the harness to TLC,
and turns TLC's rejections into findings (after re-running and re-validating them)."""
import concurrent.futures as cf
import json, os, re
import data, vlib

# many TLC processes run side by side (sharded validation): keep each JVM's GC / JIT thread pools small
os.environ.setdefault("JAVA_TOOL_OPTIONS", "-XX:ParallelGCThreads=2 -XX:TieredStopAtLevel=1")

MC_CFG = """CONSTANTS
  Mode = "%(mode)s"
  MaxLen = %(maxlen)d
  PostLen = %(postlen)d
  Deep = %(deep)s
  Prune = %(prune)s
INIT Init
NEXT Next
CONSTRAINT EmitAll
INVARIANT ModelOK
CHECK_DEADLOCK FALSE
"""


def run_mc(ctx, mode, maxlen, postlen, deep, prune=True, workers=8, timeout=1500):
    """Runs Session_MC; returns (TLCResult, scenarios). A model-level violation of the *repaired* mechanism
    means the specification itself is inconsistent: not a verdict about the code."""
    if not os.path.exists(os.path.join(ctx.scratch, "specs.json")):
        evs = ctx.drv("dumpspecs", {"ids": []}, prog="session")
        ctx.write_json("specs.json", {"specs": evs[0]["specs"], "shuffling": evs[0]["shuffling"]})
    name = "Session_MC_%s_%d_%s_%s" % (mode, maxlen, "deep" if deep else "quick", "pruned" if prune else "full")
    with open(os.path.join(ctx.scratch, name + ".cfg"), "w") as f:
        f.write(MC_CFG % dict(mode=mode, maxlen=maxlen, postlen=postlen, deep="TRUE" if deep else "FALSE", prune="TRUE" if prune else "FALSE"))
    res = ctx.tlc("Session_MC", cfg=name, workers=workers, timeout=timeout, heap="6g")
    if res.violated:
        raise vlib.Machinery("Session_MC %s: the repaired mechanism model violates %s (specification bug)\n%s" % (mode, res.violated, res.out[-3000:]))
    scns = res.tagged("SCN")
    if not scns or not all(isinstance(s, dict) for s in scns):
        raise vlib.Machinery("Session_MC %s emitted no (or unparsable) scenarios" % mode)
    return res, scns


def txt(ints):
    return bytes(ints).decode("latin1")


def replay(ctx, scns, name):
    """scns: list of scenario dicts with 'sid' set. Returns {sid: [events ordered by k]}."""
    evs = ctx.drv("replay", {"scenarios": [{"sid": s["sid"], "conns": s["conns"]} for s in scns]}, prog="session", name=name, timeout=2400)
    by = {}
    for e in evs:
        by.setdefault(e["sid"], []).append(e)
    for s in scns:
        got = sorted(by.get(s["sid"], []), key=lambda e: e["k"])
        if [e["k"] for e in got] != list(range(1, len(s["conns"]) + 1)):
            raise vlib.Machinery("harness lost events of scenario %d" % s["sid"])
        by[s["sid"]] = got
        for e in got:
            for o in [e["prep"]] + e["ops"]:
                if o["res"] == "panic" and txt(o["msg"]).startswith("harness:"):
                    raise vlib.Machinery("harness could not perform %s in scenario %d: %s" % (o["op"], s["sid"], txt(o["msg"])))
    return by


def rows_of(s, evs):
    rows = []
    for k, (cd, ev) in enumerate(zip(s["conns"], evs), 1):
        row = {"sid": s["sid"], "k": k, "n": len(s["conns"]), "kind": s["kind"], "role": cd["role"], "cd": cd, "ev": ev}
        if cd["role"] == "target":
            row["env"] = s["cfg"]["env"]
            row["pred0"], row["pred1"] = s["pred0"], s["pred1"]
        rows.append(row)
    return rows


def validate(ctx, rows, tag, nshards=8, timeout=1500):
    """Validates rows (scenario rows consecutive) with Session_Trace in nshards TLC processes.
    Returns (rejections [(row, why)], drift rows, number of rows validated)."""
    # split on scenario boundaries
    groups, cur = [], []
    for r in rows:
        if r["k"] == 1 and cur:
            groups.append(cur)
            cur = []
        cur.append(r)
    if cur:
        groups.append(cur)
    # at most `nshards` TLC processes at a time, at most ~6000 rows per process (JSON is held in memory)
    nparts = max(1, min(len(groups), max(nshards, (len(rows) + 5999) // 6000)))
    shards = [[] for _ in range(nparts)]
    for i, g in enumerate(groups):
        shards[i % nparts].extend(g)
    src = open(os.path.join(ctx.scratch, "Session_Trace.tla")).read()

    def one(k):
        part = shards[k]
        if not part:
            return None, part
        mod = "Session_Trace_%s_%d" % (tag, k)
        fn = "sess_trace_%s_%d.ndjson" % (tag, k)
        with open(os.path.join(ctx.scratch, mod + ".tla"), "w") as f:
            f.write(src.replace("sess_trace.ndjson", fn).replace("MODULE Session_Trace", "MODULE " + mod))
        ctx.write_ndjson(fn, part)
        return ctx.tlc(mod, cfg="Session_Trace", timeout=timeout, heap="3g"), part

    with cf.ThreadPoolExecutor(max_workers=nshards) as ex:
        results = list(ex.map(one, range(nparts)))
    rej, drift, n = [], [], 0
    for res, part in results:
        if res is None:
            continue
        done = res.tagged("DONE")
        if not done or done[0] != len(part):
            raise vlib.Machinery("Session_Trace did not consume its batch: %r of %d\n%s" % (done, len(part), res.out[-2000:]))
        n += len(part)
        for line in res.out.splitlines():
            m = re.match(r'^<<"REJ", (\d+), "(.*)">>$', line.strip())
            if m:
                rej.append((part[int(m.group(1)) - 1], m.group(2)))
            m = re.match(r'^<<"DRIFT", (\d+)>>$', line.strip())
            if m:
                drift.append(part[int(m.group(1)) - 1])
    return rej, drift, n


def spec_label(sd):
    s = sd["base"]
    if sd["custom"]:
        s += "(custom" + "".join("-" + d.replace("Extension", "") for d in sd["drop"]) + ")"
    if sd.get("alpn", "spec") != "spec":
        s += "(alpn-%s)" % sd["alpn"]
    if not sd["omitpsk"]:
        s += "(noOmitEmptyPsk)"
    if sd["custom"] and not sd["skipnil"]:
        s += "(noPreferSkip)"
    return s


def srv_label(srv):
    return "srv%d%s%s" % (srv["max"], "+hrr" if srv["hrr"] else "", "+cookie%d" % srv["cookie"] if srv.get("cookie") else "") + ("+nonce%d" % srv["nonce"] if srv.get("nonce") else "") + ("+suite%x" % srv["suite13"] if srv.get("suite13") else "")


def first_failure(ev):
    for o in [ev["prep"]] + ev["ops"]:
        if o["res"] in ("err", "panic"):
            return "%s:%s:%s" % (o["op"], o["res"], re.sub(r"\d+", "N", txt(o["msg"]))[:90])
    if not ev["s_ok"]:
        return "server:" + re.sub(r"\d+", "N", txt(ev["serr"]))[:90]
    return "-"


CALL_WHYS = ("legal-call-failed", "legal-call-panicked", "legal-handshake-failed", "runtime-panic", "undocumented-panic", "prep-failed", "hang",
             "assertion-panic", "handshake-broken-by-cache", "server-aborted", "not-resumed", "seed-failed")


def failure_for(why, ev):
    """The failure that belongs to the rejected clause: for clauses about a failing call the first failing call,
    for clauses about the wire / resumption only what the Handshake call itself reported (later calls of an
    undocumented tail may legitimately fail and must not leak into the signature)."""
    if why in CALL_WHYS:
        return first_failure(ev)
    for o in ev["ops"]:
        if o["op"] == "Handshake":
            if o["res"] in ("err", "panic"):
                return "%s:%s:%s" % (o["op"], o["res"], re.sub(r"\d+", "N", txt(o["msg"]))[:90])
            if o["res"] == "ok" and not ev["s_ok"]:
                return "server:" + re.sub(r"\d+", "N", txt(ev["serr"]))[:90]
            break
    return "-"


def ops_str(cd):
    return ",".join(o["op"] + ("(" + o["arg"] + ("*" if o.get("forge") else "") + ")" if o["arg"] else "") for o in cd["ops"])


def confirm(ctx, rej, scn_by_sid, tag):
    """Re-runs every rejected scenario in fresh harness processes and re-validates it; returns the
    reproduced rejections [(row, why)]. An unreproduced rejection is not a finding (exit 2)."""
    if not rej:
        return []
    sids = sorted({r["sid"] for r, _ in rej})
    rej2, _, _ = process(ctx, [scn_by_sid[i] for i in sids], "confirm_" + tag, lambda s, es, ks: None)
    again = {(r["sid"], r["k"], w) for r, w in rej2}
    lost = [(r["sid"], r["k"], w) for r, w in rej if (r["sid"], r["k"], w) not in again]
    if lost:
        raise vlib.Machinery("%d rejection(s) did not reproduce in a fresh process, e.g. %r" % (len(lost), lost[:3]))
    return rej2


def process(ctx, scns, tag, visit, batch=12000, nshards=14):
    """Replays and validates the scenarios batch by batch (bounded memory). visit(s, evs, rejected_ks) is called for
    every scenario with its events and the set of rejected connection indices. Returns (rejections, drift rows, rows validated)."""
    rej, drift, n = [], [], 0
    for b, part in enumerate(vlib.chunks(scns, batch)):
        evs = replay(ctx, part, "replay_%s_%d" % (tag, b))
        rows = []
        for s in part:
            rows.extend(rows_of(s, evs[s["sid"]]))
        r, d, k = validate(ctx, rows, "%s_%d" % (tag, b), nshards=nshards)
        for row, _ in r:
            row["ev"] = dict(row["ev"], hellos=[])      # rejected rows are kept for reporting: drop the bulk
        rej.extend(r)
        drift.extend(d[:3] if len(drift) < 3 else [{"_": 1}] * len(d))
        n += k
        rk = {}
        for row, _ in r:
            rk.setdefault(row["sid"], set()).add(row["k"])
        for s in part:
            visit(s, evs[s["sid"]], rk.get(s["sid"], set()))
    return rej, drift, n


def replay_only(ctx, sig_of):
    """./check Cxx --replay replays/Cxx/<h>.json : re-runs the recorded scenario alone and lets TLC judge it again."""
    s = ctx.replay["replay"]["scenario"]
    if not os.path.exists(os.path.join(ctx.scratch, "specs.json")):
        evs = ctx.drv("dumpspecs", {"ids": []}, prog="session")
        ctx.write_json("specs.json", {"specs": evs[0]["specs"], "shuffling": evs[0]["shuffling"]})
    rej, _, n = process(ctx, [s], "replayfile", lambda s, es, ks: None)
    ctx.traces += n
    for row, why in rej:
        ctx.finding(sig_of(row, why), "%s (replayed scenario): %s" % (why, first_failure(row["ev"])), {"scenario": s, "why": why, "k": row["k"]})
    return "model_checking", {"evaluations": n, "distinct_nontrivial": 1, "rule": "one recorded scenario replayed", "samples": [], "exhaustive": False}, []
