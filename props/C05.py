"""C05 - padding makes the ClientHello length follow the declared padding policy.
TLA+: spec/Padding.tla (policies as total functions + hello assembly state machine), spec/Padding_MC.tla (exhaustive u in 0..700,
per-parrot solving for the server-name lengths on the policy's boundaries), spec/Padding_Trace.tla (u recomputed from the parsed
wire hello, policy applied, compared with the padding extension on the wire; fingerprinted padded captures).
Harness: wireb roundtrip (real UConns, wire hello only)."""
import random
import vlib
import wireb_common as W

TARGETS = [254, 255, 256, 257] + list(range(506, 514))
ALPN = {"spec": None, "none": {"drop": True, "protos": []}, "h2": {"drop": False, "protos": ["h2"]},
        "h2http": {"drop": False, "protos": ["h2", "http/1.1"]}}
FLAGS = [{"blunt": b, "pad": p, "realpsk": r} for b in (False, True) for p in (False, True) for r in (False, True)]


def hello_case(s, salt=0):
    return {"what": "hello", "scn": s, "src": {"kind": "parrot", "id": s["id"], "alpn": ALPN[s["alpn"]], "ticket": s["ticket"]},
            "sni": W.sni_name(s["sni"], salt), "sni2": "", "flags": FLAGS[0], "omit": True, "steps": 0}


def rows_of(cases, evs):
    """Trace rows for Padding_Trace: one per observed wire hello that the property speaks about."""
    rows, nohello = [], []
    for c in cases:
        e = evs[c["sc"]]
        if c["what"] == "hello":
            if not e["a"]:
                nohello.append((c, e))
                continue
            rows.append({"sc": c["sc"], "kind": "hello", "id": c["scn"]["id"], "raw": e["a"], "cap": []})
        else:
            if not e["a"] or not e["b"]:
                nohello.append((c, e))
                continue
            rows.append({"sc": c["sc"], "kind": "recap", "id": "", "raw": e["b"], "cap": e["a"]})
    return rows, nohello


def judge(ctx, cases, shards, name, count=True, tag=""):
    evs = W.run_cases(ctx, cases, name=name)
    rows, nohello = rows_of(cases, evs)
    results, parts = W.validate(ctx, "Padding_Trace", "pad_trace.ndjson", rows, shards, count=count, tag=tag)
    rej, hits = [], set()
    seen = {"padded": 0, "unpadded": 0, "recap": 0, "onebyte": 0}
    for res in results:
        for r in W.tagged(res, "REJ"):
            rej.append({"sc": r[0], "flaws": sorted(r[1]), "u": r[2], "wpads": r[3]})
        for h in W.tagged(res, "HITS"):
            hits |= {(x[0], x[1]) for x in h}
        for s in W.tagged(res, "SEEN"):
            for k in seen:
                seen[k] += s[k]
    return evs, rows, rej, hits, seen, nohello


def re_cases(ctx, rescn):
    out = []
    for s in rescn:
        c = {"id": s["id"], "sni": W.sni_name(s["sni"], ctx.seed), "mode": s["re"], "sni2": "", "group": 0, "scn": s}
        if s["re"] == "sni":
            c["sni2"] = W.sni_name(s["arg"], ctx.seed + 3)
        else:
            c["group"] = s["arg"]
        out.append(c)
    return out


def judge_re(ctx, recases, shards, name, count=True, tag="re"):
    """Re-marshalled hellos (SetSNI + MarshalClientHello, second ClientHello after a HelloRetryRequest): every Raw / wire
    hello of the scenario is one row; row id = 3 * case + k (k = 0 first hello, 1 re-marshalled Raw, 2 wire)."""
    for i, c in enumerate(recases):
        c["sc"] = i
    evs = [e for e in ctx.drv("remarshal", {"cases": recases}, prog=W.PROG, name=name) if e.get("ev") == "RM"]
    if len(evs) != len(recases):
        raise vlib.Machinery("harness returned %d events for %d re-marshal cases" % (len(evs), len(recases)))
    evs = {e["sc"]: e for e in evs}
    rows, broken = [], []
    for c in recases:
        e = evs[c["sc"]]
        if e["panic"] or not e["h1"] or not e["h2"] or not e["w"]:
            broken.append((c, e))
            continue
        for k, key in enumerate(("h1", "h2", "w")):
            if c["mode"] == "hrr" and key == "w":
                continue
            rows.append({"sc": 3 * c["sc"] + k, "kind": "hello", "id": c["id"], "raw": e[key], "cap": []})
    results, _ = W.validate(ctx, "Padding_Trace", "pad_trace.ndjson", rows, shards, count=count, tag=tag)
    rej, wire_u = [], {}
    for res in results:
        for r in W.tagged(res, "REJ"):
            rej.append({"sc": r[0], "flaws": sorted(r[1]), "u": r[2], "wpads": r[3]})
        for h in W.tagged(res, "HITS"):
            wire_u.update({x[0]: x[1] for x in h})
    return evs, rows, rej, wire_u, broken


def sig_of(case, r):
    who = case["scn"]["id"] if case["what"] == "hello" else "recap:" + case["origin"]
    return "pad:%s:%s" % (who, "+".join(r["flaws"]))


def canaries(ctx, rows):
    """Binding canaries: corrupted copies of good rows must be rejected with the right flaw, the originals accepted."""
    padded = next((r for r in rows if r["kind"] == "hello" and 21 in W.ext_types(r["raw"])
                   and len(dict(W.split_hello(r["raw"])[1])[21]) >= 8), None)
    plain = next((r for r in rows if r["kind"] == "hello" and 21 not in W.ext_types(r["raw"])), None)
    recap = next((r for r in rows if r["kind"] == "recap" and 21 in W.ext_types(r["raw"]) and len(r["raw"]) == len(r["cap"])), None)
    if not padded or not plain or not recap:
        raise vlib.Machinery("C05 canary: no padded / unpadded / recaptured hello available to corrupt")
    prefix, exts = W.split_hello(padded["raw"])
    k = [t for t, _ in exts].index(21)
    body = exts[k][1]
    nz = list(exts); nz[k] = (21, body[:-1] + b"\x01")
    dup = list(exts); dup.insert(k, (21, b""))
    short = list(exts); short[k] = (21, body[:-1])
    p2, e2 = W.split_hello(plain["raw"])
    p3, e3 = W.split_hello(recap["raw"])
    k3 = [t for t, _ in e3].index(21)
    grown = list(e3); grown[k3] = (21, e3[k3][1] + b"\x00")
    tests = [
        ("good-padded", dict(padded), None),
        ("good-plain", dict(plain), None),
        ("good-recap", dict(recap), None),
        ("nonzero-byte", dict(padded, raw=W.join_hello(prefix, nz)), "nonzero-padding-body"),
        ("duplicate", dict(padded, raw=W.join_hello(prefix, dup)), "duplicate-padding-extension"),
        ("one-byte-short", dict(padded, raw=W.join_hello(prefix, short)), "wrong-padding-length"),
        ("padding-added", dict(plain, raw=W.join_hello(p2, e2 + [(21, bytes(7))])), "ANY"),
        ("recap-grown", dict(recap, raw=W.join_hello(p3, grown)), "captured-length-not-reproduced"),
    ]
    rows2 = []
    for i, (name, row, want) in enumerate(tests):
        row["sc"] = i
        rows2.append(row)
    results, _ = W.validate(ctx, "Padding_Trace", "pad_trace.ndjson", rows2, 1, count=False, tag="canary")
    got = {}
    for res in results:
        for r in W.tagged(res, "REJ"):
            got[r[0]] = set(r[1])
    for i, (name, row, want) in enumerate(tests):
        g = got.get(i, set())
        if want is None and g:
            raise vlib.Machinery("C05 canary %s: a good hello was rejected: %s" % (name, sorted(g)))
        if want == "ANY" and not g:
            raise vlib.Machinery("C05 canary %s: corrupted hello was accepted" % name)
        if want not in (None, "ANY") and want not in g:
            raise vlib.Machinery("C05 canary %s: expected flaw %s, TLC reported %s" % (name, want, sorted(g)))
    return len(tests)


def run(ctx):
    rnd = random.Random(ctx.seed)
    d = W.dump_specs(ctx)
    # ---- 1. model: policy invariants for every u in 0..700, per-parrot scenarios
    mc = ctx.tlc("Padding_MC", cfg="Padding_MC" if ctx.quick else "Padding_MC_thorough", workers=4, timeout=1700)
    if mc.violated:
        raise vlib.Machinery("Padding_MC: invariant %s violated at model level (the specification contradicts itself)\n%s"
                             % (mc.violated, mc.out[-2500:]))
    scns = W.tagged(mc, "SCN")
    meta = W.tagged(mc, "META")[0]
    absd = {a: b for (t, v) in mc.printed if t == "ABS" for a, b in [v]}
    if set(absd) != {0, 255, 256, 507, 508, 511, 512, 700} or not ({1, -1} <= set(absd.values()) and max(absd.values()) > 1):
        raise vlib.Machinery("Padding_MC did not pad the abstract boundary lengths (vacuous): %r" % absd)
    if not scns:
        raise vlib.Machinery("Padding_MC emitted no scenario (vacuous)")
    if meta["unmodelled"]:
        ctx.note("padding-bearing parrots whose assembly is not modelled (no scenario solved): %s" % meta["unmodelled"])
    boring = sorted(meta["boring"])
    nopad_ids = sorted(set(d["specs"]) - set(boring))

    # ---- 2. cases
    cases = [hello_case(s, salt=ctx.seed) for s in scns]
    # parrots without a padding extension in their spec: policy "none"
    for i in nopad_ids:
        for L in sorted(rnd.sample(range(1, 254), 3 if ctx.quick else 24)):
            cases.append(hello_case({"id": i, "alpn": "spec", "ticket": 0, "sni": L, "u": -1, "pad": -1}, salt=ctx.seed))
    # fingerprinted padded captures (a): real padded hellos of the parrots, same-length and different-length server names
    padded_scn = [s for s in scns if s["pad"] != -1]
    one = [s for s in padded_scn if s["pad"] == 1]
    nre = 60 if ctx.quick else 900
    pick = rnd.sample(padded_scn, min(nre, len(padded_scn))) + rnd.sample(one, min(len(one), 12 if ctx.quick else 120))
    deltas = [0, 0, 0, -3, -1, 1, 4, 5, 20]
    for j, s in enumerate(pick):
        dl = deltas[j % len(deltas)]
        L2 = min(253, max(1, s["sni"] + dl))
        c = hello_case(s, salt=ctx.seed)
        c.update({"what": "recap", "origin": "parrot", "sni2": W.sni_name(L2, ctx.seed + 1), "flags": rnd.choice(FLAGS), "steps": 1})
        cases.append(c)
    evs, rows, rej, hits, seen, nohello = judge(ctx, cases, 1 if ctx.quick and len(cases) < 600 else (6 if ctx.quick else 12), "c05_main")
    # fingerprinted padded captures (b): crafted captures = real hellos whose padding extension is replaced by one of p bytes
    base = [c for c in cases if c["what"] == "hello" and evs[c["sc"]]["a"]]
    crafted = []
    plens = [1, 2, 4, 5, 6, 33, 200, 1000]
    for j, c in enumerate(rnd.sample(base, min(len(base), 48 if ctx.quick else 600))):
        p = plens[j % len(plens)]
        where = "end" if j % 3 else 2
        raw = W.with_padding(evs[c["sc"]]["a"], p, where)
        dl = deltas[j % len(deltas)]
        L = c["scn"]["sni"]
        L2 = min(253, max(1, L + dl))
        crafted.append({"what": "recap", "origin": "crafted", "scn": dict(c["scn"], crafted_pad=p, where=where),
                        "src": {"kind": "capture", "raw": raw, "recvers": 0x0301}, "sni": "", "sni2": W.sni_name(L2, ctx.seed + 2),
                        "flags": rnd.choice(FLAGS), "omit": True, "steps": 1})
    evs2, rows2, rej2, hits2, seen2, nohello2 = judge(ctx, crafted, 2 if ctx.quick else 8, "c05_crafted", tag="cr")
    for k in seen:
        seen[k] += seen2[k]

    # ---- 3. rejections -> reproduce alone -> findings (before any vacuity verdict)
    def report(cases_, rej_, evs_, name):
        if not rej_:
            return
        bad = [dict(cases_[r["sc"]]) for r in rej_][:40]
        old = [(cases_[r["sc"]], r) for r in rej_][:40]
        _, _, rej_again, _, _, _ = judge(ctx, bad, 1, name + "_repro", count=False, tag="rp")
        again = {r["sc"]: r for r in rej_again}
        for i, (c, r) in enumerate(old):
            flaws = [f for f in r["flaws"] if not f.startswith("premise:")]
            if not flaws:
                raise vlib.Machinery("C05: input premise failed for %r: %s" % (c.get("scn"), r["flaws"]))
            if i not in again:
                raise vlib.Machinery("C05: rejection of %r (%s) did not reproduce" % (c.get("scn"), r["flaws"]))
            ctx.finding(sig_of(c, r), "padding policy violated (%s): unpadded length %d, padding bodies on the wire %s, scenario %s"
                        % (", ".join(flaws), r["u"], r["wpads"], c.get("scn")),
                        {"case": {k: c[k] for k in ("src", "sni", "sni2", "flags", "steps")}, "flaws": r["flaws"], "u": r["u"], "wire_padding": r["wpads"]})
    report(cases, rej, evs, "c05_main")
    report(crafted, rej2, evs2, "c05_crafted")
    for c, e in nohello + nohello2:
        ctx.finding("pad:nohello:%s" % (c["scn"]["id"] if c["what"] == "hello" else "recap:" + c["origin"]),
                    "no ClientHello on the wire: %s" % {k: e[k] for k in ("aerr0", "ferr1", "aerr1", "panic") if e[k]},
                    {"case": {k: c[k] for k in ("src", "sni", "sni2", "flags", "steps")}})
    # re-marshalled hellos of one UConn: SetSNI to a shorter / longer name, second ClientHello after a HelloRetryRequest
    rescn = W.tagged(mc, "RESCN")
    if not rescn:
        raise vlib.Machinery("Padding_MC emitted no re-marshal scenario (vacuous)")
    recases = re_cases(ctx, rescn)
    evs3, rows3, rej3, wire_u3, broken3 = judge_re(ctx, recases, 4 if ctx.quick else 12, "c05_re")
    if rej3:
        idx = sorted({r["sc"] // 3 for r in rej3})[:40]
        again = [dict(recases[i]) for i in idx]
        _, _, rej3b, _, _ = judge_re(ctx, again, 1, "c05_re_repro", count=False, tag="rerp")
        seen_again = {(r["sc"] // 3, r["sc"] % 3) for r in rej3b}
        for r in rej3:
            c = recases[r["sc"] // 3]
            if r["sc"] // 3 in idx and (idx.index(r["sc"] // 3), r["sc"] % 3) not in seen_again:
                raise vlib.Machinery("C05: rejection of re-marshalled hello %r (%s) did not reproduce" % (c["scn"], r["flaws"]))
            which = ("first", "re-marshalled Raw" if c["mode"] == "sni" else "second ClientHello", "wire")[r["sc"] % 3]
            ctx.finding("pad:%s:%s:%s" % (c["id"], "remarshal-sni" if c["mode"] == "sni" else "hrr", "+".join(r["flaws"])),
                        "padding policy violated in the %s hello (%s) of a UConn that marshals twice: unpadded length %d, padding bodies %s, scenario %s"
                        % (which, ", ".join(r["flaws"]), r["u"], r["wpads"], c["scn"]),
                        {"case": {k: c[k] for k in ("id", "sni", "mode", "sni2", "group")}, "hello": which, "flaws": r["flaws"], "u": r["u"], "wire_padding": r["wpads"]})
    for c, e in broken3:
        if e["panic"]:
            ctx.finding("pad:%s:%s:panic" % (c["id"], c["mode"]), "panic while re-marshalling: %s" % e["panic"], {"case": {k: c[k] for k in ("id", "sni", "mode", "sni2", "group")}})
    ctx.traces += len(rows) + len(rows2) + len(rows3)
    if W.unknown_findings(ctx):
        cov = {"evaluations": len(rows) + len(rows2), "distinct_nontrivial": len(rows), "rule": "see passing runs", "samples": [], "exhaustive": False}
        return "model_checking", cov, []

    # ---- 4. vacuity / binding of the assembly model: every scenario's wire hello had exactly the unpadded length the
    #         model assembled from the dumped spec (so every boundary TLC solved for was really hit)
    wire_u = dict(hits)
    off = [(c["scn"], wire_u.get(c["sc"])) for c in cases if c["what"] == "hello" and c["scn"]["u"] != -1 and wire_u.get(c["sc"]) != c["scn"]["u"]]
    if off:
        raise vlib.Machinery("C05: the wire hello does not have the unpadded length the assembly model predicted (scenario, wire u): %s" % off[:4])
    hits = {(c["scn"]["id"], c["scn"]["u"]) for c in cases if c["what"] == "hello" and c["scn"]["u"] in TARGETS}
    nb = [(c["scn"], {k: e[k] for k in ("err", "serr") if e[k]}) for c, e in broken3]
    if nb:
        raise vlib.Machinery("C05: re-marshal scenarios without both hellos (not a padding judgement): %s" % nb[:3])
    off3 = []
    stats3 = {"sni_shrunk_padded": 0, "sni_grown": 0, "hrr_shrunk_padded": 0, "hrr_grown": 0}
    for c in recases:
        s = c["scn"]
        want = [s["u1"], s["u"], s["u"]]
        for k in range(2 if c["mode"] == "hrr" else 3):
            if wire_u3.get(3 * c["sc"] + k) != want[k]:
                off3.append((s, k, wire_u3.get(3 * c["sc"] + k)))
        if s["u"] < s["u1"] and s["pad"] != -1:
            stats3[c["mode"] + "_shrunk_padded"] += 1
        if s["u"] > s["u1"]:
            stats3[c["mode"] + "_grown"] += 1
    if off3:
        raise vlib.Machinery("C05: a re-marshalled hello does not have the unpadded length the model predicted (scenario, hello, wire u): %s" % off3[:4])
    if not all(stats3.values()):
        raise vlib.Machinery("C05 vacuity: re-marshal classes not all exercised: %r" % stats3)
    classes = {u for (_, u) in hits}
    if set(TARGETS) - classes:
        raise vlib.Machinery("C05 vacuity: boundary lengths never observed: %s" % sorted(set(TARGETS) - classes))
    if not (seen["padded"] and seen["unpadded"] and seen["onebyte"] and seen["recap"]):
        raise vlib.Machinery("C05 vacuity: padded / unpadded / one-byte / recaptured hellos not all observed: %r" % seen)
    ncan = canaries(ctx, rows)

    perid = {}
    for (i, u) in hits:
        perid.setdefault(i, set()).add(u)
    sample = [{"scenario": c["scn"], "wire_len": len(evs[c["sc"]]["a"]), "ext_types": W.ext_types(evs[c["sc"]]["a"])}
              for c in cases[:1] + [c for c in cases if c["what"] == "hello" and c["scn"]["pad"] == 1][:1]]
    cov = {"evaluations": len(rows) + len(rows2) + len(rows3),
           "distinct_nontrivial": len(recases) + len({(c["scn"]["id"], c["scn"]["alpn"], c["scn"]["ticket"], c["scn"]["sni"]) for c in cases if c["what"] == "hello"}),
           "rule": "TLC: all u in 0..700 x {boring, none, captured p in {1,2,3,4,5,6,17,200} -> refingerprinted}; per padding-bearing parrot x ALPN "
                   "{spec, none, [h2], [h2 http/1.1]} x ticket {absent, 120 B}: %s; evaluations = wire hellos judged by TLC; distinct = (parrot, alpn, ticket, "
                   "sni length) points + re-marshal scenarios (SetSNI -40/-5/+5 then MarshalClientHello: both Raw values and the wire hello; second ClientHello "
                   "after a real HelloRetryRequest for every listed group without a share) from the corner lengths" % ("SNI lengths solved for u in {254..257, 506..513}" if ctx.quick else "every SNI length 1..253"),
           "samples": sample, "exhaustive": not ctx.quick,
           "boring_parrots": boring, "boundary_lengths_hit_per_parrot": {i: sorted(v) for i, v in sorted(perid.items())},
           "seen": seen, "recaptured_from_parrots": len(pick), "recaptured_from_crafted": len(crafted),
           "policy_none_parrots": nopad_ids, "canaries": ncan, "mc_scenarios": len(scns),
           "remarshal_scenarios": len(recases), "remarshal_hellos_judged": len(rows3), "remarshal_classes": stats3}
    return "model_checking", cov, ["reflection dump of the padding style (GetPaddingLen == BoringPaddingStyle) is faithful",
                                    "TLSWire.ParseHello states the ClientHello framing"]
