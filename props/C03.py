"""C03 - predefined parrots send exactly the ClientHello their spec describes.
TLA+: spec/Parrots.tla (HelloMatchesSpec, reference encoders in TLSWire), trace spec spec/C03.tla."""
import data, vlib

def run(ctx):
    d = data.dump_specs(ctx)
    ids = sorted(d["specs"].keys())
    n = 4 if ctx.quick else 48
    snis = ["example.com", "a-rather-long-server-name.subdomain.of.some.example-domain.org"]
    cases = [{"id": i, "sni": s, "n": n, "omit": omit, "tag": "c03"} for i in ids for s in snis for omit in (True, False)]
    # the same parrots when another connection is built on the same *Config in between (shared Config state must not leak
    # into a hello that was already built): partners = a TLS 1.2-only parrot, a TLS 1.3 parrot, a post-quantum parrot
    partners = ["Firefox-55", "Chrome-133", "Chrome-58"] if ctx.quick else ids
    cases += [{"id": i, "sni": snis[0], "n": 1, "omit": True, "tag": "shared", "shared_with": b} for i in ids for b in partners if b != i]
    # version bounds left in the caller's Config must not leak into the hello of a predefined parrot
    for lo, hi in ((0x301, 0x302), (0x301, 0x301), (0x303, 0x303), (0x304, 0x304), (0x302, 0x304)):
        cases += [{"id": i, "sni": snis[0], "n": 1, "omit": True, "tag": "cfgvers", "cfg_min": lo, "cfg_max": hi} for i in ids]
    # a hello built once and marshalled again for another server name (SetSNI between BuildHandshakeState and Handshake):
    # shorter, longer, same length; the second encoding must again be exactly the spec's, nothing of the first may survive
    renames = [("example.com", "a.io"), ("example.com", "exbmple.com"), ("example.com", snis[1]), (snis[1], "example.com"),
               ("example.com", "an-even-longer-server-name-than-before." + snis[1])]
    cases += [{"id": i, "sni": a, "sni2": b, "n": 1, "omit": True, "tag": "rename"} for i in ids for a, b in renames]
    evs = [e for e in ctx.drv("hellos", {"cases": cases}) if e["ev"] == "Hello"]
    # PSK parrots without OmitEmptyPsk and without a session legitimately emit nothing / or an error: only
    # hellos that were actually sent are judged (C03 speaks about the ClientHello sent).
    sent = [e for e in evs if e["sent"]]
    rows = [{"id": e["id"], "sni": e["sni"], "raw": e["raw"], "sent": True} for e in sent]
    total_rej = []
    nshards = 1 if ctx.quick else 8
    per = (len(rows) + nshards - 1) // nshards
    import concurrent.futures as cf
    def shard(k):
        part = rows[k*per:(k+1)*per]
        if not part:
            return None, part
        name = "c03_trace_%d" % k
        # each shard gets its own copy of the trace spec reading its own file
        src = open(ctx.scratch + "/C03.tla").read().replace("c03_trace.ndjson", name + ".ndjson").replace("MODULE C03", "MODULE C03_%d" % k)
        open(ctx.scratch + "/C03_%d.tla" % k, "w").write(src)
        ctx.write_ndjson(name + ".ndjson", part)
        return ctx.tlc("C03_%d" % k, cfg="C03", timeout=1500), part
    with cf.ThreadPoolExecutor(max_workers=nshards) as ex:
        results = list(ex.map(shard, range(nshards)))
    validated = 0
    for res, part in results:
        if res is None:
            continue
        done = res.tagged("DONE")
        if not done or done[0] != len(part):
            raise vlib.Machinery("C03 trace validation did not reach the end of the batch: %r" % (done,))
        validated += len(part)
        for idx, why in res.tagged("REJ"):
            total_rej.append((part[idx - 1], str(why).replace('"', '')))
    ctx.traces += validated
    for ev, why in total_rej:
        ctx.finding("mismatch:%s:%s" % (ev["id"], why),
                    "wire ClientHello of %s is not what its spec describes (%s)" % (ev["id"], why),
                    {"id": ev["id"], "sni": bytes(ev["sni"]).decode(), "raw_hex": bytes(ev["raw"]).hex(), "why": why})
    notsent = {}
    for e in evs:
        if not e["sent"]:
            notsent[e["id"]] = e["err"] or e["panic"]
    if any(e["panic"] for e in evs):
        for e in evs:
            if e["panic"]:
                ctx.finding("panic:%s" % e["id"], "panic while sending hello: %s" % e["panic"], {"id": e["id"]})
    ids_sent = {e["id"] for e in sent}
    for i in ids:
        if i not in ids_sent:
            ctx.finding("nohello:%s" % i, "parrot %s never put a ClientHello on the wire: %s" % (i, notsent.get(i)), {"id": i})
    sample = [{"id": e["id"], "sni": bytes(e["sni"]).decode(), "wire_hello_len": len(e["raw"]), "first_bytes_hex": bytes(e["raw"][:48]).hex()} for e in sent[:3]]
    cov = {"evaluations": len(evs), "distinct_nontrivial": len({(e["id"], bytes(e["sni"])) for e in sent}),
           "rule": "every predefined ClientHelloID x 2 SNI values x OmitEmptyPsk on/off x %d connections; distinct = (id, sni) pairs whose wire hello was judged by TLC against the separately dumped spec" % n,
           "samples": sample, "ids": len(ids), "shuffling_ids": d["shuffling"], "not_sent": notsent, "exhaustive": False}
    return "model_checking", cov, ["Go reflection dump of ClientHelloSpec is faithful", "TLSWire reference encoders state the RFC wire format"]
