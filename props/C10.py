"""C10 - every offered fingerprint completes a handshake with a compliant server.
TLA+: spec/NegoMC.tla (Mode c10: the full product of offered x implemented choices per predefined parrot,
invariant CompliantCompletes), spec/NegoTrace.tla (progress kinds)."""
import re
import nego_common as nc, vlib

def classify(ctx, rej, scns, events, kinds_wanted, prop):
    seen = {}
    for r in rej:
        seen[r["kind"]] = seen.get(r["kind"], 0) + 1
        if r["kind"] in ("order", "timeout", "calibration"):
            raise vlib.Machinery("trace problem (%s): %r" % (r["kind"], r))
        if r["kind"] not in kinds_wanted:
            continue
        s = r["scn"]
        d = nc.sig_detail(r["detail"])
        yield r, s, d
    ctx.note("rejection kinds in this batch: %r" % seen)

def run(ctx):
    def subset(scns):
        # fingerprinted copies: the same offers from a custom spec obtained by fingerprinting the parrot's own hello
        # (quick: one suite per (parrot, version, group); thorough: every scenario without ALPN)
        seen, copies = set(), []
        for x in scns:
            if x["alpn"] or x["cert"] not in ("ecdsa", "rsa"):
                continue
            key = (x["id"], x["ver"], x["group"]) if ctx.quick else (x["id"], x["ver"], x["group"], x["suite"], x["cert"])
            if key in seen:
                continue
            seen.add(key)
            copies.append(dict(x, fp_copy=True))
        # the same choices when another fingerprint used the very same *Config object before (state left in a shared
        # Config by an earlier connection must not make the client refuse what its own hello offers)
        seen2, shared = set(), []
        for x in scns:
            if x["alpn"] or (x["id"], x["ver"]) in seen2:
                continue
            seen2.add((x["id"], x["ver"]))
            for prior in ("Chrome-133", "Firefox-55"):
                if prior != x["id"]:
                    shared.append(dict(x, prior_id=prior))
        # custom specs that add a signature_algorithms_cert extension (PKCS#1 v1.5 + ECDSA) after signature_algorithms:
        # the server still signs the handshake with a scheme from signature_algorithms (rsa_pss for an RSA key)
        seen3, sac = set(), []
        for x in scns:
            if x["alpn"] or x["ver"] < 771 or (x["id"], x["ver"], x["cert"]) in seen3 or "Randomized" in x["id"]:
                continue
            seen3.add((x["id"], x["ver"], x["cert"]))
            sac.append(dict(x, sigalgs_cert=True))
        return scns + copies + shared + sac
    scns, events, rej, unadv, mc = nc.run_nego(ctx, "c10", subset=subset, shards=12)
    for r, s, d in classify(ctx, rej, scns, events, ("progress",), "C10"):
        err = (r["result"] or {}).get("cerr", "")
        grp = ("shared-group-%d" % s["group"] if "invalid server key share" in err
               else "hrr-to-hybrid-group-%d" % s["group"] if "CurvePreferences includes unsupported curve" in err else "other")
        ctx.finding("progress:%s:%s:%s:v%d" % (d, grp, re.sub(r"@\d+", "@seed", s["id"]), s["ver"]) + (":fpcopy" if s.get("fp_copy") else "") + (":after-" + s["prior_id"] if s.get("prior_id") else "") + (":sigalgs-cert" if s.get("sigalgs_cert") else ""),
                    "compliant server choice offered by %s is not completed: %s (client error: %s)" % (s["id"], d, err),
                    {"scenario": nc.scn_brief(s), "result": r["result"]})
    res = [e for e in events if e["ev"] == "Result"]
    ok = sum(1 for e in res if e["cok"] and e["sok"] and e["echo"])
    hrr = sum(1 for e in res if e["nch"] == 2 and e["cok"])
    if ok == 0 or hrr == 0:
        raise vlib.Machinery("vacuous: %d completed handshakes, %d through HelloRetryRequest" % (ok, hrr))
    cov = {"evaluations": len(scns), "distinct_nontrivial": len(scns),
           "rule": "TLC enumerates for every predefined parrot the full product version x suite x group x certificate kind x ALPN of what the dumped spec offers and the in-tree server implements (groups without a share force a HelloRetryRequest); every scenario is replayed and its trace validated; distinct = scenarios",
           "samples": [nc.scn_brief(s) for s in scns[:3]], "completed": ok, "completed_after_hrr": hrr, "exhaustive": True}
    return "model_checking", cov, ["the in-tree Go server (plus forced TLS 1.3 suite) acts as the compliant server",
                                   "randomized / fingerprinted / custom specs are exercised by C02/C06/C09, not here"]
