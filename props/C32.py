"""C32 - JSON and dictionary imports map names to the intended code points.
TLA+: spec/Dicttls.tla (round trip of the tables, Describable, NormG), trace spec spec/Dicttls_Trace.tla.
Harness: harness/cmd/gen/dict.go (dump of every exported table pair of package dicttls),
jsonhello.go (JSON rendering of a wire hello from the value-indexed tables; raw import vs JSON import)."""
import copy, json
import concurrent.futures as cf
import vlib

RANDOMIZED = ["Randomized-0", "Randomized-ALPN-0", "Randomized-NoALPN-0"]


EXPLICIT = {}     # batch name -> number of compared hellos with an explicit, non-BoringSSL padding length (counted by TLC)
PADLENS = [1, 17, 200, 512]


def validate(ctx, rows, name):
    mod = "Dicttls_Trace_" + name
    src = open(ctx.scratch + "/Dicttls_Trace.tla").read().replace("c32_trace.ndjson", name + ".ndjson").replace(
        "MODULE Dicttls_Trace", "MODULE " + mod)
    open(ctx.scratch + "/" + mod + ".tla", "w").write(src)
    ctx.write_ndjson(name + ".ndjson", rows)
    res = ctx.tlc(mod, cfg="Dicttls_Trace", timeout=900, heap="4g")
    done = res.tagged("DONE")
    if not done or done[0] != len(rows):
        raise vlib.Machinery("C32 trace validation did not reach the end of batch %s: %r\n%s" % (name, done, res.out[-2000:]))
    cmp_ = res.tagged("COMPARED")
    exp_ = res.tagged("EXPLICITPAD")
    EXPLICIT[name] = exp_[0] if exp_ else 0
    return [(r[0], r[1]) for r in res.tagged("REJ")], (cmp_[0] if cmp_ else 0)


def sig_of(why):
    if why[0] == "dict":
        return "dict:%s:%s" % (why[1], ",".join(str(v) for v in sorted(why[2]))) + ("" if why[3] else ":not-a-function")
    if why[0] == "json":
        r = why[2]
        pad = ":padlen=%d" % why[3] if len(why) > 3 and why[3] else ""
        return "json:%s%s:%s" % (why[1], pad, r if isinstance(r, str) else ":".join(str(x) for x in r))
    return str(why[0])


def run(ctx):
    dicts = ctx.drv("dicts", {}, prog="gen")
    ids = sorted(ctx.drv("dumpspecs", {"ids": []}, prog="gen")[0]["specs"].keys())
    n = 3 if ctx.quick else 24
    jh = ctx.drv("jsonhellos", {"ids": ids, "n": n, "sni": "example.com"}, prog="gen", timeout=1200)
    jh += ctx.drv("jsonhellos", {"ids": ids[ctx.seed % 3::3], "n": 1 if ctx.quick else 6,
                                 "sni": "a-rather-long-server-name.subdomain.of.some.example-domain.org"}, prog="gen", name="jh2", timeout=1200)
    # explicit padding lengths: the described hello is the parrot's hello with its padding extension set to 1/17/200/512
    # bytes (hellos shorter than 256, within 256..511 and longer than 511 bytes without padding; two SNI lengths)
    pad_ids = ids if not ctx.quick else ids[ctx.seed % 2::2]
    jh += ctx.drv("jsonhellos", {"ids": pad_ids, "n": 0, "sni": "example.com", "padlens": PADLENS}, prog="gen", name="jh4", timeout=1200)
    jh += ctx.drv("jsonhellos", {"ids": pad_ids, "n": 0, "sni": "a-rather-long-server-name.subdomain.of.some.example-domain.org",
                                 "padlens": PADLENS}, prog="gen", name="jh5", timeout=1200)
    # one JSON document per extension name the importer knows (names of the dictionary whose type ExtensionFromID turns into
    # a JSON-capable extension), compared on the wire with the raw import, type by type
    EXT_BASES = ["Chrome-100", "Firefox-105", "Chrome-58", "Firefox-55"]
    jx = ctx.drv("jsonexts", {"sni": "example.com", "bases": EXT_BASES}, prog="gen", name="jx", timeout=1200)
    ext_skipped = {e["name"]: e["why"] for e in jx if e["ev"] == "JsonExtSkipped"}
    ext_docs = [e for e in jx if e["ev"] == "JsonHello"]
    if len(ext_docs) < 20 or not any(e["id"] == "ext:channel_id_old" for e in ext_docs):
        raise vlib.Machinery("C32 vacuity: only %d per-extension JSON documents (skipped: %r)" % (len(ext_docs), ext_skipped))
    jh += ext_docs
    # list-valued members listing EVERY value of the dictionary they are named from (code point 0 included)
    jl = ctx.drv("jsonlists", {"sni": "example.com", "bases": EXT_BASES}, prog="gen", name="jl", timeout=1200)
    list_docs = [e for e in jl if e["ev"] == "JsonHello"]
    need = {"list:ke_modes", "list:ec_point_format_list", "list:compress_certificate", "list:named_group_list",
            "list:supported_signature_algorithms", "list:compression_methods"}
    if not need <= {e["id"] for e in list_docs} or not any(e["id"].startswith("list:cipher_suites") for e in list_docs):
        raise vlib.Machinery("C32 vacuity: all-values list documents missing: %r" % sorted(need - {e["id"] for e in list_docs}))
    jh += list_docs
    long_sni = ".".join(["w" * 60, "x" * 60, "y" * 60, "z" * 50, "example.com"])      # pushes mid-size hellos above 511 bytes
    jh += ctx.drv("jsonhellos", {"ids": pad_ids, "n": 1, "sni": long_sni, "padlens": PADLENS}, prog="gen", name="jh6", timeout=1200)
    jh += ctx.drv("jsonhellos", {"ids": RANDOMIZED, "n": 40 if ctx.quick else 400, "sni": "example.com"}, prog="gen", name="jh3", timeout=1200)
    nsh = 4 if ctx.quick else 12
    per = (len(jh) + nsh - 1) // nsh
    parts = [jh[k * per:(k + 1) * per] for k in range(nsh)]
    parts = [p for p in parts if p]
    # every shard starts with the table dump (the hello judgements read the tables from the trace)
    with cf.ThreadPoolExecutor(max_workers=len(parts)) as ex:
        results = list(ex.map(lambda k: validate(ctx, dicts + parts[k], "c32_s%d" % k), range(len(parts))))
    ctx.traces += len(jh) + len(dicts)
    compared = sum(c for _, c in results)
    rejected = {}
    for k, (rej, _) in enumerate(results):
        for i, why in rej:
            ev = (dicts + parts[k])[i - 1]
            if ev["ev"] == "Dict" and k > 0:
                continue                      # the same table dump is judged in every shard
            rejected.setdefault(sig_of(why), []).append((ev, why))
    explicit = sum(EXPLICIT.get("c32_s%d" % k, 0) for k in range(len(parts)))
    unp = {"short": 0, "mid": 0, "long": 0}
    for e in jh:
        if e.get("padlen") and not e["renderr"] and e["b"]:
            u = len(e["orig"]) - 4 - e["padlen"]
            unp["short" if u < 256 else "mid" if u < 512 else "long"] += 1
    if explicit < 3 * len(PADLENS) or min(unp.values()) < len(PADLENS):
        raise vlib.Machinery("C32 vacuity: explicit padding lengths not exercised (non-BoringSSL cases counted by TLC: %d; by unpadded size: %r)" % (explicit, unp))
    if compared < len(ids):
        raise vlib.Machinery("C32 vacuity: only %d hellos were describable in JSON and compared (parrots: %d)" % (compared, len(ids)))
    nentries = sum(len(d["vi"]) for d in dicts)
    if len(dicts) < 20 or nentries < 500:
        raise vlib.Machinery("C32 vacuity: table dump too small (%d tables, %d entries)" % (len(dicts), nentries))

    # ---- binding canary
    good = next((e for e in jh if e["renderr"] == "" and e["jsonerr"] == "" and e["rawerr"] == "" and e["b"]
                 and not any(sig.startswith("json:%s:" % e["id"]) for sig in rejected)), None)
    undesc = next((e for e in jh if e["renderr"] != ""), None)
    if good is None:
        raise vlib.Machinery("C32 canary: no accepted JSON/raw pair recorded")
    c1 = copy.deepcopy(good); c1["b"][39 + c1["b"][38] + 2 + 3] ^= 0x01          # second cipher suite of the JSON-built hello
    d_ok = next(d for d in dicts if d["table"] == "SupportedGroups")
    d_bad = copy.deepcopy(d_ok); d_bad["ni"][3]["v"][7] ^= 0x01                   # one name maps to another code point
    rows = dicts + [good, c1, d_bad]
    if undesc is not None:
        c2 = copy.deepcopy(undesc); c2["renderr"] = ""                            # claims to have described it
        rows.append(c2)
    crej, _ = validate(ctx, rows, "c32_canary")
    got = sorted(i for i, _ in crej if i > len(dicts))
    want = [len(dicts) + 2, len(dicts) + 3] + ([len(dicts) + 4] if undesc is not None else [])
    if got != want:
        raise vlib.Machinery("C32 binding canary: TLC rejected %r, expected %r (%r)" % (got, want, crej))

    # ---- reproduce (all rejected cases re-run in one batch per server name, judged again by TLC) and report
    resigs = set()
    if rejected:
        rows = list(ctx.drv("dicts", {}, prog="gen", name="dicts_again"))
        ndict = len(rows)
        by_sni = {}
        ext_again = False
        list_again = False
        for sig, items in rejected.items():
            for ev, why in items:
                if ev["ev"] == "JsonHello" and ev["id"].startswith("list:"):
                    list_again = True
                elif ev["ev"] == "JsonHello" and ev["id"].startswith("ext:"):
                    ext_again = True
                elif ev["ev"] == "JsonHello":
                    g = by_sni.setdefault(bytes(ev["sni"]).decode(), {"ids": set(), "pads": set(), "plain": False})
                    g["ids"].add(ev["id"])
                    if ev.get("padlen"):
                        g["pads"].add(ev["padlen"])
                    else:
                        g["plain"] = True
        for k, (sni, g) in enumerate(sorted(by_sni.items())):
            rows += ctx.drv("jsonhellos", {"ids": sorted(g["ids"]), "n": 4 if g["plain"] else 0, "sni": sni, "padlens": sorted(g["pads"])},
                            prog="gen", name="jh_again%d" % k, timeout=1200)
        if ext_again:
            rows += [e for e in ctx.drv("jsonexts", {"sni": "example.com", "bases": EXT_BASES}, prog="gen", name="jx_again", timeout=1200)
                     if e["ev"] == "JsonHello"]
        if list_again:
            rows += [e for e in ctx.drv("jsonlists", {"sni": "example.com", "bases": EXT_BASES}, prog="gen", name="jl_again", timeout=1200)
                     if e["ev"] == "JsonHello"]
        rj, _ = validate(ctx, rows, "c32_again")
        resigs = {sig_of(w) for _, w in rj}
    for sig, items in sorted(rejected.items()):
        ev, why = items[0]
        if sig not in resigs:
            raise vlib.Machinery("C32: rejection %s was not reproduced on a fresh run" % sig)
        if ev["ev"] == "Dict":
            replay = {"table": ev["table"], "unresolved_values": sorted(why[2]),
                      "names": [bytes(x["n"]).decode() for x in ev["vi"] if int.from_bytes(bytes(x["v"]), "big") in why[2]]}
        else:
            replay = {"id": ev["id"], "why": why[2], "padlen": ev.get("padlen", 0), "sni": bytes(ev["sni"]).decode(),
                      "orig_hex": bytes(ev["orig"]).hex(), "json": bytes(ev["json"]).decode(),
                      "renderr": ev["renderr"], "jsonerr": ev["jsonerr"], "rawerr": ev["rawerr"],
                      "a_hex": bytes(ev["a"]).hex(), "b_hex": bytes(ev["b"]).hex()}
        ctx.finding(sig, "rejected by spec/Dicttls.tla: %s (%d case(s))" % (json.dumps(why), len(items)), replay)

    undescribed = {}
    for e in jh:
        if e["renderr"]:
            undescribed.setdefault(e["renderr"], set()).add(e["id"])
    cov = {"evaluations": nentries + len(jh), "distinct_nontrivial": nentries + len({e["id"] for e in jh if not e["renderr"]}),
           "rule": "evaluations = entries of the value-indexed tables resolved through their name-indexed twin (exhaustive over %d table pairs) + parrot/randomized wire hellos put through raw import and JSON import; distinct = table entries + ClientHelloIDs whose JSON-built hello was compared with the raw-import hello" % len(dicts),
           "samples": [{"table": dicts[0]["table"], "first_entry": {"value": int.from_bytes(bytes(dicts[0]["vi"][0]["v"]), "big"), "name": bytes(dicts[0]["vi"][0]["n"]).decode()}},
                       {"id": good["id"], "json": bytes(good["json"]).decode()[:400]}],
           "tables": len(dicts), "table_entries": nentries, "hellos": len(jh), "hellos_compared": compared, "per_extension_documents": sorted(e["id"][4:] for e in ext_docs), "per_extension_skipped": ext_skipped, "all_values_list_documents": sorted(e["id"][5:] for e in list_docs), "explicit_padding_lengths": PADLENS, "explicit_non_boring_padding_compared": explicit,
           "explicit_padding_by_unpadded_size": unp,
           "not_describable_in_json": {k: sorted(v) for k, v in undescribed.items()},
           "exhaustive": False, "exhaustive_part": "all entries of all %d exported table pairs" % len(dicts)}
    return "model_checking", cov, [
        "the list of table pairs in harness/cmd/gen/dict.go is complete (DictAEADIdentifierValueIndexed has no name-indexed twin and is not covered)",
        "hellos carrying a code point without a name in the value-indexed tables (e.g. X25519MLKEM768, encrypted_client_hello) cannot be described in the JSON format and are only checked for that (TLC decides describability from the dumped tables)",
        "the JSON field names used by the renderer are those of u_tls_extensions.go / testdata/ClientHello-JSON-*.json"]
