"""C20 - injected sessions are used exactly as given, under any legal call order.
TLA+: spec/Session.tla Parts 1 (sessionController mechanism), 2 (Legal/forbidden/unspecified from the documentation)
and 4 (C20Why); Session_MC enumerates the call sequences, Session_Trace judges the recorded outcomes."""
import copy, json
import vlib
import session_common as sc


def sig_of(row, why):
    cd, ev = row["cd"], row["ev"]
    if row["role"] != "target":
        return "C20/seed/%s/%s/%s/%s" % (why, sc.spec_label(cd["spec"]), sc.srv_label(cd["srv"]), sc.first_failure(ev))
    env = row["env"]
    ops = cd["ops"]
    flags = []
    first_build = next((i for i, o in enumerate(ops) if o["op"] in ("Build", "Handshake")), len(ops))
    if any(o["op"] == "BuildNoSess" for o in ops[:first_build]):
        flags.append("bns")
    if cd["spec"]["custom"]:
        p = next((i for i, o in enumerate(ops) if o["op"] == "Preset"), None)
        if p is not None and any(o["op"] in ("SetTicket", "SetPsk") and o["arg"] not in ("nil",) for o in ops[p + 1:first_build]):
            flags.append("setter-after-preset")
    return "C20/%s/%s/T%dP%d/%s/%s/%s" % (
        why, "custom" if cd["spec"]["custom"] else "predef", int(env["specT"]), int(env["specP"]), sc.srv_label(cd["srv"]),
        sc.failure_for(why, ev), "+".join(flags) or "-")


def given_of(ev):
    """what the first session-carrying setter call of this connection handed to the library (logged input)"""
    return next((o["given"] for o in ev["ops"] if o["given"]["set"]), {"set": False, "ticket": [], "pskid": [], "binder": []})


def run(ctx):
    if getattr(ctx, "replay", None):
        return sc.replay_only(ctx, sig_of)
    import time
    t0 = time.time()
    def lap(what):
        ctx.note("%s: %.1fs" % (what, time.time() - t0))
    maxlen, postlen, deep = (5, 3, False) if ctx.quick else (6, 4, True)
    res, scns = sc.run_mc(ctx, "C20", maxlen, postlen, deep, prune=True, workers=8 if ctx.quick else 14, timeout=3000)
    lap("model checking done")
    for i, s in enumerate(scns, 1):
        s["sid"] = i
    by_sid = {s["sid"]: s for s in scns}
    classes = {}
    for s in scns:
        classes[s["class"]] = classes.get(s["class"], 0) + 1
    mviol = [s for s in scns if s["mviol"]]
    # ---- replay on the real library, validate with TLC (batch by batch)
    acc = {"init": 0, "real": 0, "fake": 0, "init*": 0, "real*": 0, "forbidden": 0, "unspec": 0, "legal": 0}
    seen = {"resumed": 0}
    keep = {}        # canary material: first accepted legal injected-and-resumed scenarios (ticket / psk), with their events
    samples = []
    def visit(s, es, rejected_ks):
        t, ev = s["conns"][-1], es[-1]
        seen["resumed"] += sum(1 for e in es if e["c_resumed"] and e["s_resumed"])
        if len(samples) < 3 and s["sid"] % max(1, len(scns) // 3) == 1:
            samples.append({"spec": sc.spec_label(t["spec"]), "server": sc.srv_label(t["srv"]), "class": s["class"],
                            "calls": sc.ops_str(t), "results": [o["res"] for o in ev["ops"]], "resumed": [ev["c_resumed"], ev["s_resumed"]]})
        if len(s["conns"]) in rejected_ks:
            return
        acc[s["class"]] += 1
        if s["class"] == "legal" and ev["hs_ok"] and given_of(ev)["set"]:
            o = next(o for o in t["ops"] if o["op"] in ("SetTicket", "SetPsk") and o["arg"] in ("init", "real", "fake"))
            acc[o["arg"] + ("*" if o["forge"] else "")] += 1
            if ev["c_resumed"]:
                kind = "ticket" if given_of(ev)["ticket"] else "psk"
                keep.setdefault(kind, (s, es))
    rej, drift, n = sc.process(ctx, scns, "c20", visit)
    lap("replay + validation done")
    ctx.traces += n
    # ---- vacuity: the branches the property needs must have been exercised and accepted
    # (when TLC rejected scenarios, an empty class is part of that verdict, not a reason to withhold it)
    missing = [k for k, v in acc.items() if v == 0]
    if missing and not rej:
        raise vlib.Machinery("C20 vacuous: no accepted scenario of kind %s (accepted: %r)" % (missing, acc))
    if not seen["resumed"] and not rej:
        raise vlib.Machinery("C20 vacuous: no connection resumed at all")
    # ---- binding canaries: a corrupted observation of an accepted scenario must be rejected
    canaries = []
    if ("ticket" not in keep or "psk" not in keep) and not rej:
        raise vlib.Machinery("C20: no accepted injected-and-resumed scenario to build the canaries from")
    good, goodp = keep.get("ticket"), keep.get("psk")
    def mutate(pair, f, what):
        if pair is None:
            ctx.note("canary '%s' skipped: every scenario it could be built from was rejected (see findings)" % what)
            return
        rs = copy.deepcopy(sc.rows_of(pair[0], pair[1]))
        for r in rs:
            r["sid"] = 900000 + len(canaries)
        f(rs[-1]["ev"])
        canaries.append((what, rs))
    def flip_wire_ticket(ev):
        # change one byte inside the session_ticket body of the recorded wire hello
        raw, t = ev["hellos"][0], given_of(ev)["ticket"]
        for i in range(len(raw) - len(t)):
            if raw[i:i + len(t)] == t:
                raw[i + len(t) // 2] ^= 1
                return
        raise vlib.Machinery("canary: ticket not found in the wire hello")
    mutate(good, flip_wire_ticket, "wire ticket byte changed")
    mutate(good, lambda ev: ev.__setitem__("s_resumed", False), "server DidResume flipped")
    mutate(goodp, lambda ev: given_of(ev)["pskid"].__setitem__(0, given_of(ev)["pskid"][0] ^ 1), "given psk identity changed")
    mutate(goodp, lambda ev: ev["ops"][-1].update(res="panic", msg=[ord(c) for c in "runtime error: index out of range"], rterr=True), "runtime panic injected")
    mutate(good, lambda ev: ev["ops"][0].update(res="err", msg=[ord(c) for c in "tls: boom"]), "legal call error injected")
    crow = [r for _, rs in canaries for r in rs]
    crej, _, _ = sc.validate(ctx, crow, "c20canary", nshards=1) if crow else ([], [], 0)
    caught = {r["sid"] for r, _ in crej}
    for what, rs in canaries:
        if rs[0]["sid"] not in caught:
            raise vlib.Machinery("C20 binding canary accepted by TLC: %s" % what)
    # ---- findings: only reproduced rejections
    lap("canaries done")
    rej2 = sc.confirm(ctx, rej, by_sid, "c20")
    lap("confirmation done")
    for row, why in rej2:
        s = by_sid[row["sid"]]
        ctx.finding(sig_of(row, why), "%s: spec %s vs %s, calls [%s] -> %s" % (
            why, sc.spec_label(row["cd"]["spec"]), sc.srv_label(row["cd"]["srv"]), sc.ops_str(row["cd"]), sc.first_failure(row["ev"])),
            {"scenario": s, "class": s.get("class"), "why": why, "k": row["k"]})
    nd = len(drift)
    if nd:
        ex = drift[0]
        ctx.note("mechanism model drift (diagnostic, not a verdict): %d of %d target connections match neither the as-coded nor the repaired controller model, e.g. [%s] on %s observed %s predicted %s / %s" % (
            nd, len(scns), sc.ops_str(ex["cd"]), sc.spec_label(ex["cd"]["spec"]), [o["res"] for o in ex["ev"]["ops"]], ex["pred0"], ex["pred1"]))
    cov = {"evaluations": len(scns), "distinct_nontrivial": len({(json.dumps(s["cfg"]["sd"]), s["cfg"]["srvmax"], s["cfg"]["hrr"], s["cfg"]["cfgcache"], s["cfg"]["cached"], sc.ops_str(s["conns"][-1])) for s in scns}),
           "rule": "every call sequence TLC enumerates over {SetSessionCache, BuildHandshakeStateWithoutSession, SetSessionTicketExtension(init|uninit|nil), SetPskExtension(real|fake|uninit|nil), BuildHandshakeState, Handshake, ApplyPreset for custom specs} up to length %d (calls after Handshake up to %d) x spec kinds x TLS 1.2/1.3 server x cache in config x session origin (previous connection / MakeClientSessionState); distinct = (spec, server, cache-in-config, cache content, call sequence incl. session origin)" % (maxlen, postlen),
           "classes": classes, "accepted": acc, "model_level_counterexamples_as_coded": len(mviol), "mechanism_drift": nd,
           "connections_replayed": n, "canaries": [w for w, _ in canaries], "samples": samples, "exhaustive": True}
    return "model_checking", cov, ["Go tls.Server of the same repository acts as the compliant server (ticket store via WrapSession/UnwrapSession)",
                                   "Legal/forbidden/unspecified is read off the doc comments quoted in Session.tla Part 2",
                                   "quick tier prunes: one no-op setter per sequence, only Build/Handshake after leaving the documented orders"]
