"""Shared runner code of the record-layer family (C25, C27, C28).

TLA+: spec/Record.tla (the record layer), spec/Record_MC.tla (bounded exhaustive exploration, emits scenarios),
spec/Record_Grid.tla (configuration grids from the dumped suite tables), spec/Record_Trace.tla (judges what
harness/cmd/record observed on real connections). Nothing here decides whether the code is right: this module
only moves scenarios from TLC to the harness and observations from the harness to TLC."""
import concurrent.futures as cf
import json, random, re
import vlib

PROG = "record"

MC_CFG = """CONSTANTS
  Classes = {classes}
  Forged = {forged}
  Sizes = {sizes}
  ReadSizes = {reads}
  KsSizes = {kssizes}
  KsSides = {kssides}
  MaxOps = {maxops}
  MaxW = {maxw}
  MaxKU = {maxku}
  MaxMut = {maxmut}
  MaxClose = {maxclose}
  MaxKs = {maxks}
  BurstSizes = {bursts}
  UploadRounds = {uprounds}
  UploadSizes = {upsizes}
  MaxBurst = {maxburst}
  DynChoices = {dyns}
  HalfOps = {halfops}
  PadSizes = {padsizes}
  PadLens = {padlens}
  MaxPad = {maxpad}
  MaxHalf = {maxhalf}
  Paths = {paths}
INIT Init
NEXT Next
VIEW View
INVARIANT InvStreamPrefix
INVARIANT InvNothingPastMutation
INVARIANT InvNoSpuriousError
INVARIANT InvInSync
INVARIANT InvReadsSurvive
INVARIANT Emit
PROPERTY PropSticky
PROPERTY PropKsPure
CHECK_DEADLOCK FALSE
"""


def tla_set(xs):
    def one(x):
        if isinstance(x, bool):
            return "TRUE" if x else "FALSE"
        if isinstance(x, str):
            return '"%s"' % x
        return str(x)
    return "{" + ", ".join(one(x) for x in xs) + "}"


def tables(ctx):
    """Dumps the code's suite tables (one process without, one with EnableWeakCiphers) for TLC and lets
    TLC compute the configuration grids from them."""
    off = ctx.drv("suites", {"weak": False}, prog=PROG, name="suites_off")[0]
    on = ctx.drv("suites", {"weak": True}, prog=PROG, name="suites_on")[0]
    t = {"base": off["supported"], "weak": on["supported"], "tls13": off["tls13"], "std": off["std"]}
    ctx.write_json("suites.json", t)
    res = ctx.tlc("Record_Grid", timeout=300)
    if "WeakOnlyAdds" in res.violated:
        # the union law is what the trace specification uses; the model-level violation itself is not a verdict
        ctx.note("model level: the table dumped after EnableWeakCiphers is not a superset of the one before")
    g = res.tagged("GRID")
    if not g:
        raise vlib.Machinery("Record_Grid printed no grid:\n" + res.out[-2000:])
    return t, g[0]


def mc(ctx, name, **kw):
    """Runs Record_MC with the given bounds; returns (TLCResult, scenarios sorted canonically)."""
    d = dict(classes=tla_set(kw["classes"]), forged="TRUE" if kw.get("forged") else "FALSE",
             sizes=tla_set(kw["sizes"]), reads=tla_set(kw["reads"]), kssizes=tla_set(kw.get("kssizes", [])),
             kssides=tla_set(kw.get("kssides", [])), maxops=kw["maxops"], maxw=kw["maxw"], maxku=kw.get("maxku", 0),
             maxmut=kw.get("maxmut", 0), maxclose=kw.get("maxclose", 0), maxks=kw.get("maxks", 0),
             paths="TRUE" if kw.get("paths") else "FALSE",
             bursts=tla_set(kw.get("bursts", [])), uprounds=tla_set(kw.get("uprounds", [])),
             upsizes=tla_set(kw.get("upsizes", [])), maxburst=kw.get("maxburst", 0),
             dyns=tla_set(kw.get("dyns", [False])), halfops=tla_set(kw.get("halfops", [])), maxhalf=kw.get("maxhalf", 0),
             padsizes=tla_set(kw.get("padsizes", [])), padlens=tla_set(kw.get("padlens", [])), maxpad=kw.get("maxpad", 0))
    with open("%s/%s.cfg" % (ctx.scratch, name), "w") as f:
        f.write(MC_CFG.format(**d))
    res = ctx.tlc("Record_MC", cfg=name, workers=kw.get("workers", 8), timeout=kw.get("timeout", 1500),
                  simulate=kw.get("simulate"), depth=kw.get("depth"),
                  extra=(["-seed", str(ctx.seed)] if kw.get("simulate") else None))
    if res.violated:
        raise vlib.Machinery("Record_MC (%s): the model itself violates %s - the specification is broken, "
                             "nothing can be concluded about the code\n%s" % (name, res.violated, res.out[-3000:]))
    seen, scns = set(), []
    for s in res.tagged("SCN"):
        key = json.dumps(s, sort_keys=True)
        if key not in seen:
            seen.add(key)
            scns.append(s)
    scns.sort(key=lambda s: json.dumps(s, sort_keys=True))
    if not scns:
        raise vlib.Machinery("Record_MC (%s) emitted no scenario" % name)
    return res, scns


MUT_KINDS = [("flip", "type"), ("flip", "ver"), ("flip", "len"), ("flip", "first"), ("flip", "mid"), ("flip", "last"),
             ("trunc_keep", ""), ("trunc_fix", "")]


def concretise(ops, rng, mutctr):
    """Abstract TLC operations -> harness operations. The model's Mutate(x, i) stands for ANY alteration of
    that record; which byte is hit is drawn here (all kinds are cycled through, see mutctr)."""
    out = []
    for o in ops:
        o = dict(o)
        if o["op"] == "M":
            kind, where = MUT_KINDS[mutctr[0] % len(MUT_KINDS)]
            mutctr[0] += 1
            o.update(kind=kind, where=where, pos=rng.randrange(1 << 20),
                     mask=(1 if where == "len" else rng.choice([1, 2, 4, 8, 16, 32, 64, 128, 255, rng.randrange(1, 256)])))
        if o["op"] == "KUB":      # k key updates in a row
            out += [{"op": "KU", "x": o["x"], "req": o["req"]} for _ in range(o["k"])]
            continue
        if o["op"] == "UPS":      # k x (write; a KeyUpdate of the same side)
            for _ in range(o["k"]):
                out += [{"op": "W", "x": o["x"], "n": o["n"]}, {"op": "KU", "x": o["x"], "req": o["req"]}]
            continue
        if o["op"] == "UPL":      # k x (write; the receiver sends a KeyUpdate)
            py = "s" if o["x"] == "c" else "c"
            for _ in range(o["k"]):
                out += [{"op": "W", "x": o["x"], "n": o["n"]}, {"op": "KU", "x": py, "req": o["req"]}]
            continue
        out.append(o)
    return out


def job(sc_id, mode, cfg, ops, rng, dyn=True, ct=False, drains=True, to=25):
    ops = list(ops)
    if drains:
        # read both directions dry at the end (a side that called Close does not read any more)
        closed = {o["x"] for o in ops if o["op"] == "C"}
        ops += [{"op": "D", "x": x} for x in ("s", "c") if x not in closed]
    return {"sc": sc_id, "mode": mode, "vers": cfg["vers"], "suite": cfg["suite"], "weak": cfg["weak"], "dyn": dyn,
            "ecsign": bool(cfg.get("ecsign", False)),
            "pat": {"c": [rng.randrange(256) for _ in range(251)], "s": [rng.randrange(256) for _ in range(251)]},
            "run": rng.choice([7, 61]), "ct": ct, "to": to, "ops": ops}


def execute(ctx, jobs, name):
    """Runs the jobs on the real library: one process for the weak=off jobs, a separate one for weak=on
    (EnableWeakCiphers is global and irreversible). Returns {sc: [events]}."""
    by = {}
    for weak in (False, True):
        part = [j for j in jobs if j["weak"] == weak]
        if not part:
            continue
        evs = ctx.drv("run", {"weak": weak, "scenarios": part}, prog=PROG, name="%s_%s" % (name, "weak" if weak else "std"), timeout=1500)
        for e in evs:
            by.setdefault(e["sc"], []).append(e)
    missing = [j["sc"] for j in jobs if j["sc"] not in by]
    if missing:
        raise vlib.Machinery("harness returned no events for scenarios %s" % missing[:10])
    return by


_REJ = re.compile(r'^<<"REJ", (\d+), (-?\d+), "(.*)">>$')


def validate(ctx, by, order, name, nshards):
    """TLC validates the events of the scenarios in `order` (sharded, each shard its own copy of the trace
    module). Returns ({sc: why} for rejected scenarios, summed STATS, number of events judged)."""
    nshards = max(1, min(nshards, len(order)))
    per = (len(order) + nshards - 1) // nshards
    src = open(ctx.scratch + "/Record_Trace.tla").read()

    def shard(k):
        scs = order[k * per:(k + 1) * per]
        if not scs:
            return None
        rows = [e for sc in scs for e in by[sc]]
        mod = "Record_Trace_%s_%d" % (name, k)
        open("%s/%s.tla" % (ctx.scratch, mod), "w").write(
            src.replace("MODULE Record_Trace", "MODULE " + mod).replace("record_trace.ndjson", mod + ".ndjson"))
        ctx.write_ndjson(mod + ".ndjson", rows)
        res = ctx.tlc(mod, cfg="Record_Trace", timeout=1500)
        done = res.tagged("DONE")
        if not done or done[0] != len(rows):
            raise vlib.Machinery("%s: trace validation did not reach the end of the batch (%r of %d)\n%s" % (mod, done, len(rows), res.out[-2000:]))
        rej = {}
        for line in res.out.splitlines():
            m = _REJ.match(line.strip())
            if m:
                rej[int(m.group(2))] = m.group(3)
        st = res.tagged("STATS")
        return rej, (st[0] if st else {}), len(rows)

    rej, stats, n = {}, {}, 0
    with cf.ThreadPoolExecutor(max_workers=nshards) as ex:
        for r in ex.map(shard, range(nshards)):
            if r is None:
                continue
            rej.update(r[0])
            for k, v in r[1].items():
                stats[k] = stats.get(k, 0) + v
            n += r[2]
    return rej, stats, n


def canaries(by, good_sc, base_id):
    """Corrupted copies of one accepted scenario: TLC must reject every one of them (binding canary)."""
    evs = by[good_sc]
    out = {}

    def clone(k):
        c = json.loads(json.dumps(evs))
        for e in c:
            e["sc"] = base_id + k
        return c
    # 1: one returned byte altered
    c = clone(1)
    for e in c:
        if e["ev"] == "Read" and e["m"] > 0:
            e["data"][0][0] = (e["data"][0][0] + 1) % 256
            out[base_id + 1] = c
            break
    # 2: a Write event dropped
    c = clone(2)
    for i, e in enumerate(c):
        if e["ev"] == "Write" and e["ret"] > 0:
            del c[i]
            out[base_id + 2] = c
            break
    # 3: a record header length changed by one
    c = clone(3)
    for e in c:
        if e["ev"] == "Write" and e["wrote"][e["x"]]:
            h = e["wrote"][e["x"]][0]
            h["n"] += 1
            h["raw"] += 1
            out[base_id + 3] = c
            break
    # 4: an error reported where data was returned
    c = clone(4)
    for e in c:
        if e["ev"] == "Read" and e["m"] > 0 and e["err"] == "":
            e["err"] = "local error: tls: bad record MAC"
            out[base_id + 4] = c
            break
    return out


def judge(ctx, jobs, name, nshards, canary_pick=None, extra_canaries=None):
    """execute + validate + canary + confirmation of every rejection in a fresh process.
    Returns dict(rej={sc: why} (confirmed), stats, events, by)."""
    jb = {j["sc"]: j for j in jobs}
    by = execute(ctx, jobs, name)
    order = [j["sc"] for j in jobs]
    rej, stats, n = validate(ctx, by, order, name, nshards)
    # ---- binding canary: corrupt an accepted scenario, TLC must reject each corruption
    good = [sc for sc in order if sc not in rej and (canary_pick is None or canary_pick(jb[sc], by[sc]))]
    can = {}
    if good:
        can = canaries(by, good[0], 10 ** 7)
        if extra_canaries:
            can.update(extra_canaries(by, good, 10 ** 7 + 100))
    if len(can) < 3:
        # without a canary a clean result would mean nothing; with reproduced rejections the verdict stands on those
        if not rej:
            raise vlib.Machinery("%s: no accepted scenario to build the binding canary from" % name)
        ctx.note("%s: binding canary skipped, every suitable scenario was rejected" % name)
    else:
        cby = dict(can)
        cby[good[0]] = by[good[0]]
        crej, _, _ = validate(ctx, cby, [good[0]] + sorted(can), name + "_canary", 1)
        if good[0] in crej:
            raise vlib.Machinery("%s: the canary's uncorrupted original was rejected on re-validation" % name)
        accepted = [k for k in can if k not in crej]
        if accepted:
            raise vlib.Machinery("%s: binding canary accepted by TLC (corruptions %s not rejected): the trace machinery is broken" % (name, accepted))
    # ---- confirm rejections: replay the rejected scenarios alone in fresh processes and validate again
    confirmed = {}
    if rej:
        rjobs = [jb[sc] for sc in sorted(rej)]
        by2 = execute(ctx, rjobs, name + "_confirm")
        rej2, _, _ = validate(ctx, by2, [j["sc"] for j in rjobs], name + "_confirm", min(nshards, 4))
        for sc, why in rej.items():
            if rej2.get(sc) == why:
                confirmed[sc] = why
                by[sc] = by2[sc]
        lost = sorted(set(rej) - set(confirmed))
        if lost:
            import os
            d = os.path.join(vlib.VERIF, "replays", ctx.pid)
            os.makedirs(d, exist_ok=True)
            with open(os.path.join(d, "unreproduced-seed%d-sc%d.json" % (ctx.seed, lost[0])), "w") as f:
                json.dump({"job": jb[lost[0]], "why_first": rej[lost[0]], "why_second": rej2.get(lost[0], ""),
                           "first_run": by[lost[0]], "second_run": by2[lost[0]]}, f)
            raise vlib.Machinery("%s: rejection of scenarios %s did not reproduce (%s vs %s)" % (
                name, lost[:5], [rej[s] for s in lost[:5]], [rej2.get(s) for s in lost[:5]]))
    return dict(rej=confirmed, stats=stats, events=n, by=by, canaries=len(can))


def need(stats, tags, what):
    """Vacuity: every listed kind of step must have been matched at least once in validation."""
    miss = [t for t in tags if stats.get(t, 0) == 0]
    if miss:
        raise vlib.Machinery("%s: vacuous - these steps were never matched in trace validation: %s (stats %s)" % (what, miss, stats))


def first_bad_event(evs, why):
    """A short description of the scenario for the replay file (the judgement itself is TLC's)."""
    init = evs[0]
    tail = [{k: v for k, v in e.items() if k in ("ev", "x", "n", "k", "m", "err", "ret", "req", "i", "kind", "where", "cerr", "serr", "cnil", "snil")}
            for e in evs[:12]]
    return {"mode": init.get("mode"), "vers": init.get("vers"), "suite": "0x%04x" % init.get("suite", 0), "weak": init.get("weak"),
            "why": why, "first_events": tail}
