"""C28 - GetOutKeystream(n) XOR the next n plaintext bytes = the first n ciphertext bytes (after any explicit nonce)
of the next application-data record; the call is a pure query.

TLA+: Record!DoKeystream returns the state unchanged and stands for the keystream of the writer's current
(epoch, seq) (Record!Keystream). spec/Record_MC.tla (Paths = TRUE: every operation sequence is a scenario) enumerates
where the query is made: before/after writes of 1, 1000 and 16385 bytes, after key updates by either side (with and
without update_requested, so also after the answer the client sends while reading), twice in a row, for the lengths
0,1,15,16,17,1000,16384. harness/cmd/record replays them on a real UConn for every AEAD suite at TLS 1.2 and 1.3
and logs the returned bytes and the complete next record. spec/Record_Trace.tla evaluates the XOR law on the bytes
(Bitwise), checks that the query changed neither connection's counters, that the next record is framed and numbered
as if the query had not happened (explicit nonce = sequence number), that the peer reads the data intact, that equal
(epoch, seq) give equal keystream and different (epoch, seq) different keystream."""
import random
import record_lib as rl
import vlib

KS = [0, 1, 8, 15, 16, 17, 64, 1000, 1300, 16384, 16385, 20000]


def complete(ops):
    """Every query must be judged: a query whose position ends without a Write (the client sends a KeyUpdate, or may answer one
    while reading) is repeated at once with the same length (pure query: same position, same bytes); the last position
    gets a write of the client (the record the keystream is for)."""
    out = []
    for i, o in enumerate(ops):
        out.append(o)
        nxt = ops[i + 1] if i + 1 < len(ops) else None
        if o["op"] == "K" and nxt is not None and nxt["x"] == "c" and nxt["op"] in ("KU", "R"):
            out.append(dict(o))
    ops = out
    last_k = max([i for i, o in enumerate(ops) if o["op"] == "K"], default=-1)
    if last_k >= 0 and not any(o["op"] == "W" and o["x"] == "c" and o["n"] > 0 for o in ops[last_k + 1:]):
        ops.append({"op": "W", "x": "c", "n": 16385})
    return ops


def shape3(ops):
    """three consecutive queries with lengths a > b < c (what a reused scratch buffer gets wrong)"""
    ks = [o["n"] if o["op"] == "K" else None for o in ops]
    return any(None not in ks[i:i + 3] and ks[i] > ks[i + 1] < ks[i + 2] for i in range(len(ks) - 2))


def run(ctx):
    rng = random.Random(ctx.seed * 7919 + 28)
    t, grid = rl.tables(ctx)
    res, scns = rl.mc(ctx, "Record_MC_ks", classes=["tls12", "tls13"], sizes=[1, 1000, 16385], reads=[32768],
                      kssizes=KS, kssides=["c"], maxops=3, maxw=2, maxku=1, maxks=3, paths=True,
                      dyns=[False, True], workers=8)
    if not ctx.quick:
        # four operations (three queries with a write / key update anywhere in between) over the shorter lengths
        _, more = rl.mc(ctx, "Record_MC_ks4", classes=["tls12", "tls13"], sizes=[1, 16385], reads=[32768],
                        kssizes=[0, 1, 8, 17, 64, 1300], kssides=["c"], maxops=4, maxw=2, maxku=1, maxks=3, paths=True,
                        dyns=[False, True], workers=8, timeout=1700)
        scns = scns + more
    by_class = {"tls12": [], "tls13": []}
    for s in scns:
        if any(o["op"] == "K" for o in s["ops"]):
            by_class[s["class"]].append((s["ops"], s["dyn"]))
    seen_n = {o["n"] for c in by_class.values() for ops, _ in c for o in ops if o["op"] == "K"}
    if {d for c in by_class.values() for _, d in c} != {False, True}:
        raise vlib.Machinery("Record_MC (keystream): dynamic record sizing was not explored both on and off")
    if seen_n != set(KS) or not by_class["tls12"] or not by_class["tls13"]:
        raise vlib.Machinery("Record_MC (keystream): lengths explored %s, classes %s" % (sorted(seen_n), {k: len(v) for k, v in by_class.items()}))
    if not any(o["op"] == "KU" for ops, _ in by_class["tls13"] for o in ops):
        raise vlib.Machinery("Record_MC (keystream): no scenario queries around a key update")
    cells = sorted([c for c in grid["hs"] if not c["weak"]], key=lambda c: (c["vers"], c["suite"]))
    aead = [c for c in cells if c["kind"] == "aead"]
    other = [c for c in cells if c["kind"] != "aead"]
    other = [next(c for c in other if c["kind"] == k) for k in sorted({c["kind"] for c in other})]
    per = 24 if ctx.quick else 250
    jobs, n = [], 0
    for c in aead:
        pool = by_class[c["class"]]
        # stratify over the queried length so that every length meets every suite
        picks = []
        # ... with dynamic record sizing on and off (TLC chose it: it is part of the scenario)
        for k in KS:
            for d in (False, True):
                cand = [sc for sc in pool if sc[1] == d and any(o["op"] == "K" and o["n"] == k for o in sc[0])]
                picks += rng.sample(cand, min(max(1, per // (4 * len(KS))), len(cand)))
        # sequences of three queries at one position, in particular long, short, longer-than-short
        tri = [sc for sc in pool if shape3(sc[0])]
        picks += rng.sample(tri, min(max(4, per // 3), len(tri)))
        picks += rng.sample(pool, min(max(0, per - len(picks)), len(pool)))
        for ops, d in picks:
            n += 1
            jobs.append(rl.job(n, "hs", c, complete(ops), rng, dyn=d, ct=True))
    for c in other:      # not an AEAD suite: the query must fail and still change nothing
        for ops, d in rng.sample(by_class["tls12"], 3):
            n += 1
            jobs.append(rl.job(n, "hs", c, complete(ops), rng, dyn=d, ct=True))

    def ks_canaries(by, good, base):
        out = {}
        for sc in good:
            evs = by[sc]
            idx = [i for i, e in enumerate(evs) if e["ev"] == "Keystream" and e["n"] >= 16 and e["err"] == ""]
            idx = [i for i in idx if i + 1 < len(evs) and evs[i + 1]["ev"] == "Write" and evs[i + 1]["x"] == "c" and evs[i + 1]["ret"] >= 1000]
            if not idx:
                continue
            import json
            a = json.loads(json.dumps(evs))        # a keystream byte altered
            a[idx[0]]["ks"][0] ^= 1
            b = json.loads(json.dumps(evs))        # a ciphertext byte of the next record altered (offset 8: inside the compared
            body = b[idx[0] + 1]["wrote"]["c"][0]["b"]   # range with and without an 8-byte explicit nonce, since n >= 16)
            body[8] ^= 1
            for k, c in ((0, a), (1, b)):
                for e in c:
                    e["sc"] = base + k
                out[base + k] = c
            return out
        return out

    out = rl.judge(ctx, jobs, "c28", 8 if ctx.quick else 16,
                   canary_pick=lambda j, evs: any(e["ev"] == "Keystream" and e["n"] >= 16 and e["err"] == "" for e in evs) and any(e["ev"] == "Read" and e["m"] > 0 for e in evs),
                   extra_canaries=ks_canaries)
    if out["canaries"] < 6 and not out["rej"]:
        raise vlib.Machinery("C28: the keystream canaries could not be built")
    ctx.traces += len(jobs)
    jb = {j["sc"]: j for j in jobs}
    cell = {(c["vers"], c["suite"]): c for c in cells}
    for sc, why in sorted(out["rej"].items()):
        j = jb[sc]
        c = cell[(j["vers"], j["suite"])]
        sig = "ks:%s:%s:%s" % (why, c["kind"], c["class"]) if not why.startswith("handshake") else "ks:%s:0x%04x" % (why, j["suite"])
        ctx.finding(sig, "version 0x%04x suite 0x%04x: %s" % (j["vers"], j["suite"], why),
                    dict(rl.first_bad_event(out["by"][sc], why), scenario=j["ops"], dyn=j["dyn"]))
    # ---- vacuity: the XOR law must have been evaluated exactly where a query is followed by a record of the client
    expect, lens, dips = 0, {}, 0
    for sc, evs in out["by"].items():
        if sc in out["rej"]:
            continue
        pend = []
        for e in evs:
            if e["ev"] == "Keystream" and e["err"] == "":
                pend.append(e["n"])
                if len(pend) >= 3 and pend[-3] > pend[-2] < pend[-1]:
                    dips += 1
            elif e["wrote"]["c"]:
                if pend and e["ev"] == "Write":
                    expect += 1
                    for k in pend:
                        lens[k] = lens.get(k, 0) + 1
                pend = []
    # (with reproduced rejections the verdict stands on those; the counts below only cover accepted scenarios)
    if not out["rej"]:
        rl.need(out["stats"], ["Init.hs", "Keystream", "Keystream.err", "KsLaw", "Nonce", "KeyUpdate", "Read.kuresp", "Read.data", "Write.multi",
                               "Ramp.grow", "Ramp.off", "Keystream.again"], "C28")
        # the query must have been followed by a multi-record Write while the ramp was still growing (record boundaries
        # after the call are then a function of packetsSent), and by one with record sizing off
        after = {False: 0, True: 0}
        for sc, evs in out["by"].items():
            pend = False
            for e in evs:
                if e["ev"] == "Keystream" and e["err"] == "":
                    pend = True
                elif e["ev"] == "Write" and e["x"] == "c" and pend:
                    if len(e["wrote"]["c"]) > 1:
                        after[jb[sc]["dyn"]] += 1
                    pend = False
        if not after[False] or not after[True]:
            raise vlib.Machinery("C28: multi-record writes right after a query: %s" % after)
        if out["stats"].get("KsLaw", 0) != expect:
            raise vlib.Machinery("C28: XOR law evaluated %d times, %d query->record pairs were recorded" % (out["stats"].get("KsLaw", 0), expect))
        if set(lens) != set(KS):
            raise vlib.Machinery("C28: lengths whose keystream was compared with a record: %s" % sorted(lens))
        if dips < len(aead):
            raise vlib.Machinery("C28: only %d query sequences long, short, longer at one position were replayed" % dips)
    cov = {"evaluations": out["stats"].get("KsLaw", 0), "distinct_nontrivial": len({(j["vers"], j["suite"], str(j["ops"])) for j in jobs}),
           "rule": "every AEAD suite at TLS 1.2 (incl. legacy ChaCha20) and 1.3 x %d TLC-enumerated operation sequences containing the query "
                   "(stratified over the 7 lengths); evaluations = XOR-law evaluations on recorded bytes, distinct = (suite, sequence) pairs" % per,
           "aead_cells": len(aead), "non_aead_cells": len(other), "mc_paths_with_query": sum(len(v) for v in by_class.values()), "multi_record_writes_after_query_by_dyn": {str(k): v for k, v in after.items()} if not out["rej"] else {},
           "long_short_longer_sequences": dips, "law_evaluations_by_length": {str(k): v for k, v in sorted(lens.items())}, "events_judged": out["events"],
           "matched_steps": out["stats"], "canaries_rejected": out["canaries"],
           "samples": [{"vers": j["vers"], "suite": j["suite"], "dyn": j["dyn"], "ops": j["ops"][:5]} for j in jobs[:3]],
           "exhaustive": False}
    return "model_checking", cov, ["the plaintext written is the scenario's stream pattern (the harness logs the head of every buffer, TLC checks it)",
                                   "the first min(n, first record) bytes are compared; the 16 trailing bytes GetOutKeystream returns are not specified",
                                   "suite tables dumped through the verif accessors are the code's tables"]
