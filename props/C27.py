"""C27 - connections forged by MakeConnWithCompleteHandshake from shared secrets interoperate; unsupported suite => nil.

TLA+: Record!InitForged as the initial state, the data phase is the ordinary Record model.
 * spec/Record_Grid.tla computes, from the suite tables dumped from the code (before and after EnableWeakCiphers),
   what every (version 1.0-1.2, suite id incl. unknown ids, weak off/on) must yield: work / nil / unspecified;
 * spec/Record_MC.tla (Forged = TRUE) explores every write/read sequence of both forged ends and emits scenarios;
 * harness/cmd/record forges client+server with random secrets and replays them (weak-on cases in their own process);
 * spec/Record_Trace.tla judges nil-ness, record framing, sequence numbers and the byte streams."""
import json
import random
import record_lib as rl
import vlib

BULK = 70000     # three of these per direction: 210 000 bytes > recordSizeBoostThreshold (128 KB) + ramp-up


def proc_histories(ctx, rng):
    """Record_Proc enumerates every history of <= MaxLen calls (forge never-supported / AEAD / CBC / each weak suite, handshake,
    EnableWeakCiphers) in one process; cmd/record replays each in a fresh process; Record_Trace follows the process state."""
    maxlen = 3 if ctx.quick else 4
    with open(ctx.scratch + "/Record_Proc_run.cfg", "w") as f:
        f.write(open(ctx.scratch + "/Record_Proc.cfg").read().replace("MaxLen = 3", "MaxLen = %d" % maxlen))
    res = ctx.tlc("Record_Proc", cfg="Record_Proc_run", workers=4, timeout=900)
    if res.violated:
        raise vlib.Machinery("Record_Proc: the model violates %s\n%s" % (res.violated, res.out[-2000:]))
    hists = sorted(res.tagged("HIST"), key=lambda h: json.dumps(h, sort_keys=True))
    kinds = {o["op"] for h in hists for o in h}
    if not hists or kinds != {"forge", "hs", "enable"} or not any(
            [o["op"] for o in h[:2]] == ["forge", "enable"] and h[0]["nil"] and h[2]["op"] == "forge" and not h[2]["nil"] for h in hists):
        raise vlib.Machinery("Record_Proc: vacuous enumeration (%d histories, calls %s)" % (len(hists), kinds))
    jobs = [{"h": i + 1, "ops": [{"op": o["op"], "id": o["id"], "vers": o["vers"], "ecsign": o["ecsign"]} for o in h]} for i, h in enumerate(hists)]

    def replay(js, name):
        by = {}
        for e in ctx.drv("procs", {"histories": js}, prog=rl.PROG, name=name, timeout=1500):
            by.setdefault(e["sc"] // 100, []).append(e)
        if set(by) != {j["h"] for j in js}:
            raise vlib.Machinery("procs: events missing for some histories")
        return by
    by = replay(jobs, "c27_procs")
    order = [j["h"] for j in jobs]
    rej_sc, stats, nev = rl.validate(ctx, by, order, "c27proc", 8 if ctx.quick else 16)
    rej = {}
    for sc, why in rej_sc.items():
        rej.setdefault(sc // 100, (sc, why))
    # ---- binding canaries: (1) drop the Enable event before a weak suite that forged, (2) claim a connection where nil was observed
    def weak_ok(evs):
        if sum(1 for e in evs if e["ev"] == "Enable") != 1:
            return None
        seen = False
        for k, e in enumerate(evs):
            if e["ev"] == "Enable":
                seen = k
            if seen is not False and e["ev"] == "Init" and e["mode"] == "forged" and not e["cnil"] and any(
                    o["op"] == "forge" and o["id"] == e["suite"] and o["nil"] for h in hists for o in h[:1]):
                return seen
        return None
    can = {}
    for h in order:
        if h in rej:
            continue
        k = weak_ok(by[h])
        if k is not None and 10 ** 6 not in can:
            c = json.loads(json.dumps(by[h]))
            del c[k]
            for e in c:
                e["sc"] += 10 ** 8
            can[10 ** 6] = c
        nil = [i for i, e in enumerate(by[h]) if e["ev"] == "Init" and e["cnil"] and e["snil"]]
        if nil and 10 ** 6 + 1 not in can:
            c = json.loads(json.dumps(by[h]))
            c[nil[0]]["cnil"] = c[nil[0]]["snil"] = False
            for e in c:
                e["sc"] += 2 * 10 ** 8
            can[10 ** 6 + 1] = c
        if len(can) == 2:
            break
    if len(can) < 2:
        if not rej:
            raise vlib.Machinery("C27 process histories: canaries could not be built")
    else:
        crej, _, _ = rl.validate(ctx, can, sorted(can), "c27proc_canary", 1)
        hit = {sc // 10 ** 8 for sc in crej}
        if hit != {1, 2}:
            raise vlib.Machinery("C27 process histories: binding canary accepted by TLC (%s)" % sorted(hit))
    # ---- confirm rejections in fresh processes
    if rej:
        rjobs = [j for j in jobs if j["h"] in rej]
        by2 = replay(rjobs, "c27_procs_confirm")
        rej2_sc, _, _ = rl.validate(ctx, by2, [j["h"] for j in rjobs], "c27proc_confirm", 4)
        rej2 = {}
        for sc, why in rej2_sc.items():
            rej2.setdefault(sc // 100, (sc, why))
        lost = [h for h in rej if rej2.get(h) != rej[h]]
        if lost:
            raise vlib.Machinery("C27 process histories: rejection of %s did not reproduce" % lost[:5])
        for h, (sc, why) in sorted(rej.items()):
            hist = hists[h - 1]
            pos = sc % 100
            call = hist[pos - 1]
            before = [o["op"] if o["op"] == "enable" else "%s(0x%04x)" % (o["op"], o["id"]) for o in hist[:pos - 1]]
            ctx.finding("proc:%s:0x%04x" % (why, call["id"]),
                        "in one process, after the calls %s: %s(0x%04x) -> %s" % (before, call["op"], call["id"], why),
                        {"history": hist, "failing_call": pos, "events": [{k: v for k, v in e.items() if k in ("ev", "mode", "suite", "cnil", "snil", "cerr", "serr", "m", "err")} for e in by2[h][:30]]})
    else:
        rl.need(stats, ["Proc", "Enable", "Enable.again", "Init.weakforged", "Init.forged", "Init.nil", "Init.hs", "Read.data"], "C27 process histories")
    ctx.traces += len(jobs)
    return {"histories": len(jobs), "max_calls": maxlen, "events_judged": nev, "matched_steps": {k: v for k, v in stats.items() if v}}


def run(ctx):
    rng = random.Random(ctx.seed * 7919 + 27)
    t, grid = rl.tables(ctx)
    res, scns = rl.mc(ctx, "Record_MC_forged", classes=["cbc10", "tls12"], forged=True,
                      sizes=[0, 1, 100, 16385, 20000], reads=[0, 1, 100, 32768],
                      maxops=3 if ctx.quick else 4, maxw=3, workers=1 if ctx.quick else 8)
    by_class = {}
    for s in scns:
        by_class.setdefault(s["class"], []).append(s["ops"])
    if not by_class.get("nil") or not by_class.get("cbc10") or not by_class.get("tls12"):
        raise vlib.Machinery("Record_MC (forged) did not reach every class: %s" % {k: len(v) for k, v in by_class.items()})
    for cl in ("cbc10", "tls12"):
        if not any(o["op"] == "W" and o["x"] == x for ops in by_class[cl] for o in ops for x in ("c",)) or \
           not any(o["op"] == "W" and o["x"] == "s" for ops in by_class[cl] for o in ops):
            raise vlib.Machinery("Record_MC (forged): class %s has no scenario writing in both directions" % cl)
    per = 6 if ctx.quick else 40
    jobs, mutctr, n = [], [0], 0
    cells = sorted(grid["forged"], key=lambda c: (c["weak"], c["vers"], c["suite"]))
    # Bulk exchange: the forged connections keep dynamic record sizing on, so full 2^14-byte records only appear
    # after ~128 KB in one direction. >= 200 KB each way in three writes, then one write of exactly 2^14 and one of
    # 2^14+1 bytes at full record size, everything read back and judged by Record_Trace like any other scenario.
    # quick: one cell per (protection class = kind, MAC size, explicit nonce) x version x weak; thorough: every cell.
    bulk_cells, seen_cls = [], set()
    for c in cells:
        if c["expect"] != "work":
            continue
        key = (c["kind"], c["mac"], c["expl"], c["vers"], c["weak"])
        if ctx.quick and key in seen_cls:
            continue
        seen_cls.add(key)
        bulk_cells.append(c)
    for c in bulk_cells:
        ops = []
        for x, y in (("c", "s"), ("s", "c")):
            ops += [{"op": "W", "x": x, "n": BULK}] * 3 + [{"op": "D", "x": y},
                    {"op": "W", "x": x, "n": 16384}, {"op": "W", "x": x, "n": 16385}, {"op": "D", "x": y}]
        n += 1
        j = rl.job(n, "forged", c, ops, rng)
        j["run"] = 61          # long runs keep the (lossless) run-length log of 2 x 240 KB small
        jobs.append(j)
    nbulk = len(jobs)
    for c in cells:
        if c["expect"] == "work":
            # always one scenario that moves data both ways at several sizes, the rest drawn from TLC's
            both = [ops for ops in by_class[c["class"]] if {o["x"] for o in ops if o["op"] == "W" and o["n"] > 0} == {"c", "s"}]
            picks = [rng.choice(both)] + rng.sample(by_class[c["class"]], min(per - 1, len(by_class[c["class"]])))
        else:
            picks = [[]]     # nil / unspecified: only the constructor's result is judged
        for ops in picks:
            n += 1
            jobs.append(rl.job(n, "forged", c, rl.concretise(ops, rng, mutctr), rng, drains=bool(ops)))
    out = rl.judge(ctx, jobs, "c27", 8 if ctx.quick else 16, canary_pick=lambda j, evs: any(e["ev"] == "Read" and e["m"] > 0 for e in evs))
    ctx.traces += len(jobs)
    jb = {j["sc"]: j for j in jobs}
    kind = {(c["vers"], c["suite"], c["weak"]): c["kind"] for c in cells}
    for sc, why in sorted(out["rej"].items()):
        j = jb[sc]
        k = kind[(j["vers"], j["suite"], j["weak"])]
        if why in ("supported-suite-nil", "unsupported-suite-not-nil"):
            sig = "forged:%s:0x%04x:weak=%d" % (why, j["suite"], j["weak"])
        else:
            sig = "forged:%s:%s" % (why, k)
        ctx.finding(sig, "MakeConnWithCompleteHandshake(version 0x%04x, suite 0x%04x, weak=%s): %s" % (j["vers"], j["suite"], j["weak"], why),
                    dict(rl.first_bad_event(out["by"][sc], why), scenario=j["ops"]))
    if not out["rej"]:    # (with reproduced rejections the verdict stands on those)
        # the bulk scenarios must really have reached full-size records in both directions
        full = {}
        for j in jobs[:nbulk]:
            for e in out["by"][j["sc"]]:
                if e["ev"] == "Read" and e["m"] == 16384:
                    full[(j["sc"], e["x"])] = True
        short = [j["sc"] for j in jobs[:nbulk] if not (full.get((j["sc"], "c")) and full.get((j["sc"], "s")))]
        if short or not nbulk:
            raise vlib.Machinery("C27: bulk scenarios %s never delivered a full 16384-byte record in both directions" % short[:5])
        rl.need(out["stats"], ["Init.forged", "Init.nil", "Init.free", "Write", "Write.multi", "Write.split", "Read.data", "Read.partial", "Read.timeout", "Nonce"], "C27")
    # ---- the suite table is process-global: histories of calls in ONE process (Record_Proc), each in a fresh process
    proc = proc_histories(ctx, rng)
    work = [c for c in cells if c["expect"] == "work"]
    cov = {"evaluations": out["events"], "distinct_nontrivial": len({(j["vers"], j["suite"], j["weak"], str(j["ops"])) for j in jobs}),
           "rule": "every (version 1.0-1.2, suite id of any table + neighbours + extremes, weak off/on) cell forged on both ends; %d TLC-generated "
                   "read/write sequences per working cell + a bulk exchange (243 KB each way, then writes of 2^14 and 2^14+1 bytes at full record size) "
                   "for one cell per protection class x version (quick) / every working cell (thorough); evaluations = events judged by TLC, distinct = distinct (cell, scenario) pairs" % per,
           "bulk_cells": nbulk, "bulk_bytes_each_way": 3 * BULK + 16384 + 16385,
           "process_histories": proc,
           "cells": len(cells), "cells_must_work": len(work), "cells_must_be_nil": len([c for c in cells if c["expect"] == "nil"]),
           "mc_scenarios": len(scns), "matched_steps": out["stats"], "canaries_rejected": out["canaries"],
           "samples": [{"vers": j["vers"], "suite": j["suite"], "weak": j["weak"], "ops": j["ops"][:4]} for j in jobs[:3]],
           "exhaustive": False}
    return "model_checking", cov, ["abstract AEAD: a record opens iff unaltered and (epoch, seq) agree",
                                   "suite tables dumped through the verif accessors are the code's tables",
                                   "EnableWeakCiphers is meant to add suites (supported set after the call = union)",
                                   "process histories use one never-supported id, one AEAD and one CBC suite, every EnableWeakCiphers suite, TLS 1.2"]
