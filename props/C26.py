"""C26 - concurrent use of a UConn is race-free, deadlock-free and consistent.

TLA+: spec/UConnConc.tla (mechanism-level model cut at the verifGate hooks H10),
      UConnConc_MC (exhaustive interleavings, emits schedules, explains hook-free outcomes),
      UConnConc_Live (every call returns), UConnConc_Trace (validates recorded per-goroutine logs).
Go:   harness/cmd/conc (built with -race; performs and logs only).

Pipeline: bare (hook-free) seeded random-delay runs under the race detector -> MC (schedules + outcome
explanation) -> replay of TLC schedules through the gates + ordered stress runs -> trace validation ->
reproduction of every rejection -> canaries / vacuity."""
import concurrent.futures as cf
import glob, json, os, random, re
import vlib

KEYS = ["h1", "h2", "h3", "h1.i", "h2.i", "h3.i", "canc.h1", "canc.h2", "canc.h3",
        "reader", "writer", "closer", "peer", "main"]
PARROTS = ["HelloGolang", "HelloChrome_Auto", "HelloFirefox_Auto"]
DL_ANSWER, DL_STALL, DL_POST, DL_RENEG, SLACK = 4000, 250, 10000, 1200, 3000     # ms; a race-built handshake takes ~5-20 ms here


NEED_ACTIONS = ["FastPath", "Begin", "Lock", "CheckDone", "FnOk", "FnErr", "Finish", "Unlock", "CloseDone", "HsOut", "RecvIntr",
                "IntrSelCtx", "IntrSelDone", "IntrClose", "IntrNil", "CancelEff", "ReadOk", "ReadErr", "WEnter", "WriteOk", "WriteErr",
                "CEnter", "CCheck", "CNotify", "CClose", "CWCheck", "CWNotify"]


def C(hs, cancellable, cancels, reader=False, writer=False, closer="none", peer="answer"):
    return dict(hs=hs, cancellable=cancellable, cancels=cancels, reader=reader, writer=writer, closer=closer, peer=peer)


def process_sets(quick):
    """Bounded process sets explored exhaustively (measured: quick four together ~65k distinct states; thorough adds
    25k-56k two-handshaker sets and 0.3-1.5M reader/writer/three-handshaker sets; the full set h1,h2,reader,writer,Close has 7.6M
    states and three handshakers with two cancels and Close 7.0M: both were run once by hand, no violation)."""
    if quick:
        # the three shapes that matter most, each small (a few thousand to ~35k states), plus one stalling peer
        return [
            C(["h1", "h2"], ["h1", "h2"], ["h2"]),                          # two handshakers + canceller (cancelled waiter, late cancel of h1)
            C(["h1"], ["h1"], ["h1"], closer="Close"),                      # handshaker + canceller + closer
            C(["h1"], ["h1"], ["h1"], reader=True, writer=True),            # handshaker + reader + writer
            C(["h1"], ["h1"], ["h1"], peer="stall"),                        # deadline path
        ]
    s = [
        C(["h1", "h2"], ["h1", "h2"], ["h2"]),
        C(["h1"], ["h1"], ["h1"], closer="Close"),
        C(["h1"], ["h1"], ["h1"], reader=True, writer=True),
        C(["h1"], ["h1"], ["h1"], peer="stall"),
        C(["h1", "h2"], ["h2"], ["h2"], closer="Close"),
        C(["h1", "h2"], ["h2"], ["h2"], closer="Close", peer="stall"),
        C(["h1", "h2"], ["h1", "h2"], ["h1", "h2"]),
        C(["h1", "h2"], ["h1", "h2"], ["h2"], closer="CloseWrite"),
        C(["h1"], ["h1"], ["h1"], reader=True, closer="CloseWrite"),
        C(["h1"], ["h1"], ["h1"], writer=True, closer="Close"),
    ]
    s += [
        C(["h1", "h2"], ["h1", "h2"], ["h1", "h2"], peer="stall"),
        C(["h1", "h2"], ["h2"], [], closer="Close"),
        C(["h1"], ["h1"], ["h1"], reader=True, writer=True, closer="Close"),
        C(["h1", "h2"], ["h2"], ["h2"], reader=True, closer="CloseWrite"),
        C(["h1", "h2"], ["h2"], ["h2"], writer=True, closer="Close"),
        C(["h1", "h2", "h3"], ["h2", "h3"], ["h2"]),
        C(["h1", "h2", "h3"], ["h2", "h3"], ["h2", "h3"]),
        C(["h1", "h2", "h3"], ["h2"], ["h2"], closer="Close"),
    ]
    return s


def full_cfg(c, gated, ordered):
    d = dict(c)
    d.update(gated=gated, ordered=ordered, deadline=DL_STALL if c["peer"] == "stall" else DL_ANSWER, slack=SLACK)
    return d


def cfg_key(c):
    return json.dumps([sorted(c["hs"]), sorted(c["cancellable"]), sorted(c["cancels"]), c["reader"], c["writer"], c["closer"], c["peer"]])


def norm_cfg(c):
    """cfg as printed by TLC (sets became arrays) -> harness cfg"""
    return C(sorted(c["hs"]), sorted(c["cancellable"]), sorted(c["cancels"]), c["reader"], c["writer"], c["closer"], c["peer"])


# ---------------------------------------------------------------- harness

def run_harness(ctx, scs, name, par):
    racedir = os.path.join(ctx.scratch, "race-" + name)
    os.makedirs(racedir, exist_ok=True)
    env = {"GORACE": "halt_on_error=0 exitcode=0 log_path=%s/r" % racedir}
    res = ctx.drv("run", {"scenarios": scs, "par": par}, race=True, prog="conc", name=name, env_extra=env, timeout=1500)
    races = []
    for f in glob.glob(racedir + "/r*"):
        races += parse_races(open(f).read())
    byid = {r["sc"]: r for r in res}
    for sc in scs:
        r = byid.get(sc["id"])
        if r is None:
            raise vlib.Machinery("harness returned no result for scenario %d" % sc["id"])
        if "panic" in r["meta"]:
            raise vlib.Machinery("harness panic in scenario %d: %s" % (sc["id"], r["meta"]["panic"]))
        r["scen"] = sc
    return [byid[sc["id"]] for sc in scs], races


def parse_races(text):
    """-> [{frames: top frame of each access, sig_frame: first utls frame of the writing access (else of any access)}]"""
    out = []
    for blk in text.split("WARNING: DATA RACE")[1:]:
        accesses = []   # (kind, [functions of that stack])
        for m in re.finditer(r"^(Write|Read|Previous write|Previous read|Atomic \w+|Previous atomic \w+) at [^\n]*\n((?:  \S[^\n]*\n      [^\n]*\n)+)", blk, re.M):
            accesses.append((m.group(1), re.findall(r"^  (\S+)\(", m.group(2), re.M)))
        tops = [fr[0] for (_, fr) in accesses if fr]
        # first method of a connection type in the stack (the state owner), else first function of the package
        lib = lambda fr: next((f for f in fr if "utls.(*" in f), None) or next((f for f in fr if "/utls." in f or f.startswith("utls.")), None)
        writes = [lib(fr) for (k, fr) in accesses if "rite" in k]
        anyf = [lib(fr) for (_, fr) in accesses]
        sig = next((f for f in writes if f), None) or next((f for f in anyf if f), None) or (tops[0] if tops else "unknown")
        out.append({"frames": tops, "sig_frame": sig, "text": blk[:3000]})
    return out


def row(r, idx):
    return dict(sc=idx, cfg=r["cfg"], ev={k: r["ev"].get(k, []) for k in KEYS})


def flat_events(r):
    evs = [e for k in r["ev"] for e in r["ev"][k]]
    return sorted(evs, key=lambda e: e["seq"])


# ---------------------------------------------------------------- TLC helpers

def module_copy(ctx, module, suffix, repl):
    src = open(os.path.join(ctx.scratch, module + ".tla")).read()
    for a, b in repl.items():
        src = src.replace(a, b)
    src = src.replace("MODULE " + module, "MODULE %s_%s" % (module, suffix))
    open(os.path.join(ctx.scratch, "%s_%s.tla" % (module, suffix)), "w").write(src)
    return "%s_%s" % (module, suffix)


POST_KEYS = ["writer", "reader", "srvsend", "srvrecv", "main"]


RENEG_KEYS = ["reader", "h", "writer", "peer", "main"]


def validate(ctx, results, tag, nshards, diag=False, post=False, reneg=False):
    """-> set of indexes (into results) accepted by UConnConc_Trace (post: UConnConcPost_Trace), list of TLC results"""
    if not results:
        return set(), []
    per = (len(results) + nshards - 1) // nshards

    def shard(k):
        part = results[k * per:(k + 1) * per]
        if not part:
            return k, None
        fn = "conc_trace_%s_%d.ndjson" % (tag, k)
        if reneg:
            rc = lambda c: dict(h=c["h"], writer=c["writer"], rehs=c["rehs"], deadline=c["deadline"], slack=c["slack"])
            ctx.write_ndjson(fn, [dict(sc=i + 1, cfg=rc(r["cfg"]), ev={k_: r["ev"].get(k_, []) for k_ in RENEG_KEYS}) for i, r in enumerate(part)])
            mod = module_copy(ctx, "UConnConcReneg_Trace", "%s_%d" % (tag, k), {"conc_reneg_trace.ndjson": fn})
            return k, ctx.tlc(mod, cfg="UConnConcReneg_Trace", workers=3, timeout=1500)
        if post:
            ctx.write_ndjson(fn, [dict(sc=i + 1, cfg=r["cfg"], ev={k_: r["ev"].get(k_, []) for k_ in POST_KEYS}) for i, r in enumerate(part)])
            mod = module_copy(ctx, "UConnConcPost_Trace", "%s_%d" % (tag, k), {"conc_post_trace.ndjson": fn})
            return k, ctx.tlc(mod, cfg="UConnConcPost_Trace", workers=3, timeout=1500)
        ctx.write_ndjson(fn, [row(r, i + 1) for i, r in enumerate(part)])
        mod = module_copy(ctx, "UConnConc_Trace", "%s_%d" % (tag, k), {"conc_trace.ndjson": fn})
        return k, ctx.tlc(mod, cfg="UConnConc_TraceDiag" if diag else "UConnConc_Trace", workers=1 if diag else 3, timeout=1500)
    acc, outs = set(), []
    with cf.ThreadPoolExecutor(max_workers=max(1, min(nshards, 8))) as ex:
        for k, res in ex.map(shard, range(nshards)):
            if res is None:
                continue
            if res.violated:
                raise vlib.Machinery("UConnConc_Trace: model invariant %s violated during validation (the model itself is broken)" % res.violated)
            outs.append(res)
            for v in res.tagged("DONE"):
                acc.add(k * per + int(v) - 1)
    return acc, outs


def diagnose(ctx, r, tag):
    """Validate one trace alone with the high-water mark: -> (accepted, description of the first unexplained event)"""
    acc, outs = validate(ctx, [r], tag, 1, diag=True)
    if acc:
        return True, ""
    hw = 0
    for v in outs[0].tagged("HW"):
        nums = re.findall(r"\d+", json.dumps(v))
        if nums:
            hw = max(hw, int(nums[-1]))
    evs = flat_events(r)
    if hw < len(evs):
        e = evs[hw]
        cls = ""
        if e["ev"] == "ret":
            cls = "nil" if e["isnil"] else ("ctx" if e["ctxerr"] and e["err"] == e["ctxerr"] else "err")  # label only, not a judgement
        role = re.sub(r"\d", "", e["p"])
        return False, "%s:%s%s%s" % (e["ev"], role, ".i" if e["i"] else "", (":" + (e["g"] or cls)) if (e["g"] or cls) else "")
    return False, "end"


def run_mc(ctx, cfgs, obs, tag, workers, sim=None, coverage=False, sched=False):
    fn = "conc_mc_%s.json" % tag
    ctx.write_json(fn, {"cfgs": cfgs, "obs": obs})
    mod = module_copy(ctx, "UConnConc_MC", tag, {"conc_mc.json": fn})
    if sim:
        return ctx.tlc(mod, cfg="UConnConc_Sim", workers=workers, simulate="num=%d" % sim[0], depth=400,
                       extra=["-seed", str(sim[1])], timeout=1500, count=False)
    if sched:
        return ctx.tlc(mod, cfg="UConnConc_Sched", workers=workers, timeout=1500, count=False)
    return ctx.tlc(mod, cfg="UConnConc_MC", workers=workers, timeout=2400, coverage=coverage)


def scns_of(res):
    seen, out = set(), []
    for v in res.tagged("SCN"):
        k = json.dumps(v, sort_keys=True)
        if k not in seen and isinstance(v, dict):
            seen.add(k)
            out.append(v)
    return out


# ---------------------------------------------------------------- the check

def run(ctx):
    quick = ctx.quick
    rnd = random.Random(ctx.seed * 7919 + 17)
    sets = process_sets(quick)
    bykey = {cfg_key(c): c for c in sets}
    next_id = [0]

    def scen(mode, c, hist=None, max_us=0):
        next_id[0] += 1
        gated = mode != "bare"
        return dict(id=next_id[0], mode=mode, cfg=full_cfg(c, gated, gated), hist=hist or [],
                    seed=rnd.randrange(1 << 30), max_us=max_us, parrot=rnd.choice(PARROTS))

    findings_races = []
    # ---- 1. hook-free runs under the race detector (seeded random delays)
    n_bare = 8 if quick else 60
    bare_scs = [scen("bare", c, max_us=rnd.choice([0, 100, 500, 2000, 6000])) for c in sets for _ in range(n_bare)]
    # post-handshake phase: reader + writer on an established TLS 1.3 UConn while the peer sends KeyUpdates
    def post_scen():
        next_id[0] += 1
        c = dict(C([], [], [], reader=True, writer=True), gated=False, ordered=True, deadline=DL_POST, slack=SLACK)
        return dict(id=next_id[0], mode="post", cfg=c, hist=[], seed=rnd.randrange(1 << 30), max_us=rnd.choice([0, 0, 30, 200]),
                    parrot=rnd.choice(PARROTS), kus=[rnd.random() < 0.7 for _ in range(rnd.choice([8, 14, 20]))], max_wr=150)
    post_scs = [post_scen() for _ in range(10 if quick else 80)]
    both, races = run_harness(ctx, bare_scs + post_scs, "bare", par=12)
    bare, post = both[:len(bare_scs)], both[len(bare_scs):]
    findings_races += [("hook-free", x) for x in races]
    for r in post:
        if "setup_err" in r["meta"]:
            raise vlib.Machinery("post-handshake scenario %d: TLS 1.3 handshake did not complete: %s" % (r["sc"], r["meta"]["setup_err"]))

    def summary(r):
        rets, tmax = {}, 0
        for p in ["h1", "h2", "h3", "reader", "writer", "closer"]:
            ev = [e for e in r["ev"].get(p, []) if e["ev"] == "ret"]
            rets[p] = ev[0] if ev else dict(isnil=False, err="absent", ctxerr="", t=0)
            tmax = max(tmax, rets[p]["t"])
        fin = [e for e in r["ev"].get("main", []) if e["ev"] == "final"]
        hung = bool(r["meta"].get("hung")) or not fin
        return dict(cfg=r["scen"]["cfg"], ret=rets, complete=bool(fin and fin[0]["complete"]), closed=bool(fin and fin[0]["closed"]),
                    tmax=tmax, hung=hung, deadline=r["cfg"]["deadline"], slack=r["cfg"]["slack"])
    obs_all = [summary(r) for r in bare]

    # ---- 2-4. model runs, all started together:
    #   MC    every interleaving per process set: invariants, action properties, deadlock; explains the bare outcomes
    #   Sched schedules a gate scheduler can follow (one per distinct terminal state of the scheduler-paced relation)
    #   Sim   more schedules by random simulation of the same relation
    #   Live  every call returns (the state graph is acyclic, so this is cheap)
    groups = [list(range(len(sets)))] if quick else [[i] for i in range(len(sets))]

    def mc_shard(g):
        idx = [j for j, o in enumerate(obs_all) if any(cfg_key(o["cfg"]) == cfg_key(sets[i]) for i in g)]
        obs = [obs_all[j] for j in idx]
        # binding canary for the outcome check: "h1 returned nil although the handshake never completed" is
        # never a reachable outcome and must stay unexplained
        canary = None
        if obs:
            canary = json.loads(json.dumps(obs[0]))
            canary["complete"] = False
            canary["ret"]["h1"] = dict(canary["ret"]["h1"], isnil=True, err="", ctxerr="")
            obs = obs + [canary]
        res = run_mc(ctx, [sets[i] for i in g], obs, "s%d" % g[0], workers=8 if quick else 5)
        return g, idx, res, canary is not None
    n_sim = 120 if quick else 1500
    live_sets = [sets[0], sets[3]] if quick else sets[:12]

    def live_run():
        ctx.write_json("conc_mc.json", {"cfgs": live_sets, "obs": []})
        return ctx.tlc("UConnConc_Live", workers=3, timeout=1500)
    with cf.ThreadPoolExecutor(max_workers=5 if quick else 4) as ex:
        f_sched = ex.submit(run_mc, ctx, sets, [], "sched", 3, None, False, True)
        f_sim = ex.submit(run_mc, ctx, sets, [], "sim", 3, (n_sim, ctx.seed))
        f_live = ex.submit(live_run)
        f_pmc = ex.submit(lambda: ctx.tlc("UConnConcPost_MC", workers=3))
        f_pmut = ex.submit(lambda: ctx.tlc("UConnConcPost_MC", cfg="UConnConcPost_Mut", workers=2, count=False))
        f_pval = ex.submit(validate, ctx, post, "post", 1 if quick else 6, False, True)
        f_rmc = ex.submit(lambda: ctx.tlc("UConnConcReneg_MC", workers=3))
        f_rmut = ex.submit(lambda: ctx.tlc("UConnConcReneg_MC", cfg="UConnConcReneg_Mut", workers=2, count=False))
        f_rsched = ex.submit(lambda: ctx.tlc("UConnConcReneg_MC", cfg="UConnConcReneg_Sched", workers=2, count=False))
        f_mc = [ex.submit(mc_shard, g) for g in groups]
        sched, sim, live = f_sched.result(), f_sim.result(), f_live.result()
        pmc, pmut, (pacc, _) = f_pmc.result(), f_pmut.result(), f_pval.result()
        mc_results = [f.result() for f in f_mc]
        rmc, rmut, rsched = f_rmc.result(), f_rmut.result(), f_rsched.result()
    if rmc.violated:
        raise vlib.Machinery("model-level violation in UConnConcReneg_MC (lock orders as coded): %s" % rmc.violated)
    if not ({"NoLockCycle", "DEADLOCK"} & set(rmut.violated)):
        raise vlib.Machinery("vacuity: UConnConcReneg with the hello rebuilt before handshakeMutex is taken shows no lock cycle")
    reneg_sched = scns_of(rsched)
    if not any(x.get("win") for x in reneg_sched):
        raise vlib.Machinery("no renegotiation schedule enters handshakeContext during the rebuild window")
    if pmc.violated:
        raise vlib.Machinery("model-level violation in UConnConcPost_MC (mechanism as coded): %s" % pmc.violated)
    if "SafetyPost" not in pmut.violated:
        raise vlib.Machinery("vacuity: UConnConcPost with reply and rotation in separate steps does not violate SafetyPost")
    ctx.traces += len(pacc)
    post_rejected = [i for i in range(len(post)) if i not in pacc]
    for g, idx, res, has_canary in mc_results:
        if res.violated:
            raise vlib.Machinery("model-level violation in UConnConc_MC for set(s) %s: %s (the as-is model is expected to satisfy its properties; "
                                 "a change of the model must be replayed on the code first)" % ([cfg_key(sets[i]) for i in g], res.violated))
    unexplained, explained = [], 0
    for g, idx, res, has_canary in mc_results:
        hits = {int(h) for h in res.tagged("HIT")}
        if has_canary and (len(idx) + 1) in hits:
            raise vlib.Machinery("outcome canary accepted (nil return without completed handshake was explained) for set(s) %s" % g)
        for n, j in enumerate(idx):
            if (n + 1) in hits:
                explained += 1
            else:
                unexplained.append(j)
    if sched.violated:
        raise vlib.Machinery("model-level violation in UConnConc_Sched: %s" % sched.violated)
    schedules = scns_of(sched)
    if not schedules:
        raise vlib.Machinery("no schedule emitted")
    ctx.traces += explained
    mc_terminal = len(schedules)
    if live.violated:
        raise vlib.Machinery("model-level liveness violation in UConnConc_Live: %s" % live.violated)
    if sim.violated:
        raise vlib.Machinery("model-level violation in simulation: %s" % sim.violated)
    sim_scn = scns_of(sim)
    # vacuity of the model runs: every internal action of the mechanism occurs on an emitted path
    taken = set()
    for s_ in schedules + sim_scn:
        taken |= set(s_.get("taken", []))
    missing = [a for a in NEED_ACTIONS if a not in taken and not (quick and a in ("CWCheck", "CWNotify"))]   # no CloseWrite set in quick
    if missing:
        raise vlib.Machinery("vacuity: internal actions on no emitted model path: %s" % missing)
    rnd.shuffle(schedules)
    cap = 150 if quick else 2500
    replay_list = (schedules + sim_scn)[:cap] if len(schedules) + len(sim_scn) > cap else schedules + sim_scn
    if len(schedules) > cap // 2:   # keep both kinds
        replay_list = schedules[:cap // 2] + sim_scn[:cap - cap // 2]

    # ---- 5. replay through the gates + ordered stress runs, all under the race detector
    rep_scs = [scen("replay", norm_cfg(s["cfg"]), hist=s["hist"]) for s in replay_list]
    n_stress = 5 if quick else 40
    stress_scs = [scen("stress", c, max_us=rnd.choice([0, 50, 300, 1500, 5000])) for c in sets for _ in range(n_stress)]
    # renegotiation phase: reader || Handshake caller || writer, the peer sends HelloRequest; TLC schedules
    # through the gates (those that enter handshakeContext while the reader rebuilds the hello first) + stress
    def reneg_scen(mode, c, hist=None, max_us=0):
        next_id[0] += 1
        cfg_ = dict(C([], [], [], reader=True, writer=c["writer"]), h=c["h"], rehs=c["rehs"], gated=True, ordered=True, deadline=DL_RENEG, slack=SLACK)
        return dict(id=next_id[0], mode=mode, cfg=cfg_, hist=hist or [], seed=rnd.randrange(1 << 30), max_us=max_us, parrot="")
    rnd.shuffle(reneg_sched)
    inwin = [x for x in reneg_sched if x.get("win")]
    other = [x for x in reneg_sched if not x.get("win")]
    pick = (inwin[:30] + other[:20]) if quick else reneg_sched
    reneg_scs = [reneg_scen("reneg", x["cfg"], hist=x["hist"]) for x in pick]
    reneg_scs += [reneg_scen("reneg-stress", dict(h=True, writer=rnd.random() < 0.7, rehs=rnd.random() < 0.5), max_us=rnd.choice([0, 50, 500, 3000]))
                  for _ in range(8 if quick else 80)]
    all_ordered, races = run_harness(ctx, rep_scs + stress_scs + reneg_scs, "ordered", par=24)
    ordered, reneg = all_ordered[:len(rep_scs) + len(stress_scs)], all_ordered[len(rep_scs) + len(stress_scs):]
    for r in reneg:
        if "setup_err" in r["meta"]:
            raise vlib.Machinery("renegotiation scenario %d: TLS 1.2 setup failed: %s" % (r["sc"], r["meta"]["setup_err"]))
    findings_races += [("ordered", x) for x in races]
    faithful = sum(1 for r in ordered if r["mode"] == "replay" and r["meta"].get("diverged_at", -1) < 0)
    n_replay = len(rep_scs)
    if faithful < 0.6 * n_replay:
        raise vlib.Machinery("only %d of %d TLC schedules could be followed through the gates" % (faithful, n_replay))

    # ---- 6. trace validation
    with cf.ThreadPoolExecutor(max_workers=2) as ex:
        f_rv = ex.submit(validate, ctx, reneg, "rn", 1 if quick else 4, False, False, True)
        acc, _ = validate(ctx, ordered, "v", 4 if quick else 14)
        racc, _ = f_rv.result()
    ctx.traces += len(racc)
    reneg_rejected = [i for i in range(len(reneg)) if i not in racc]
    ctx.traces += len(acc)
    rejected = [i for i in range(len(ordered)) if i not in acc]

    # ---- 7. reproduce rejections (re-run the same scenario alone, re-validate alone)
    seen_sigs, unrepro = {}, []
    for i in sorted(rejected, key=lambda i: ordered[i]["mode"] != "replay")[:10]:   # replayed TLC schedules first; bounded work
        r = ordered[i]
        ok0, why0 = diagnose(ctx, r, "rej%d" % i)
        if ok0:
            raise vlib.Machinery("scenario %d rejected in the batch but accepted alone" % r["sc"])
        if seen_sigs.get(why0, 0) >= 2:
            continue
        seen_sigs[why0] = seen_sigs.get(why0, 0) + 1
        repro = 0
        as_observed = dict(r["scen"], id=1, mode="replay", hist=observed_schedule(r))
        # the same gate schedule several times, then the observed order as a schedule; reproduced = recurs at least once
        attempts = [dict(r["scen"], id=1)] * 5 + [as_observed] * 3
        for k, sc_again in enumerate(attempts):
            again, races2 = run_harness(ctx, [sc_again], "re%d_%d" % (i, k), par=1)
            ok, why = diagnose(ctx, again[0], "re%d_%d" % (i, k))
            if not ok:
                repro += 1
                why0 = why
                break
        if not repro:
            unrepro.append("rejection of scenario %d (%s, first unexplained event %s) did not reproduce in 8 re-runs (5 under the same gate schedule, 3 along the observed order)" % (r["sc"], r["mode"], why0))
            continue
        ctx.finding("reject:%s:%s" % (r["cfg"]["peer"], why0),
                    "recorded execution is not a behaviour of UConnConc; first unexplained event: %s (mode %s)" % (why0, r["mode"]),
                    {"scenario": r["scen"], "events": flat_events(r)})
    # hook-free outcomes the model cannot reach: re-run a batch of fresh seeds of the same process set and let the
    # model judge again; any outcome that is again unreachable reproduces the finding
    done_sets = set()
    for j in unexplained:
        r, o = bare[j], obs_all[j]
        k = cfg_key(o["cfg"])
        if k in done_sets or len(done_sets) >= 3:
            continue
        done_sets.add(k)
        batch = [dict(r["scen"], id=n + 1, seed=rnd.randrange(1 << 30)) for n in range(40)]
        batch[0]["seed"] = r["scen"]["seed"]
        again, _ = run_harness(ctx, batch, "reb%d" % j, par=8)
        obs2 = [summary(x) for x in again]
        res = run_mc(ctx, [bykey[k]], obs2, "reb%d" % j, workers=4)
        hits = {int(h) for h in res.tagged("HIT")}
        bad = [obs2[n] for n in range(len(obs2)) if (n + 1) not in hits]
        if not bad:
            unrepro.append("unexplained hook-free outcome of scenario %d did not reproduce in 40 re-runs: %s" % (r["sc"], json.dumps(o)[:600]))
            continue
        o = bad[0]
        cls = {p: ("nil" if e["isnil"] else "ctx" if e["ctxerr"] and e["err"] == e["ctxerr"] else "err") for p, e in o["ret"].items() if e["err"] != "absent"}
        ctx.finding("outcome:%s:%s" % (o["cfg"]["peer"], "hang" if o["hung"] else "inconsistent"),
                    "outcome of a hook-free run is not a reachable outcome of UConnConc (%d of 40 re-runs): rets=%s complete=%s closed=%s tmax=%dms hung=%s" % (len(bad), cls, o["complete"], o["closed"], o["tmax"], o["hung"]),
                    {"scenario": r["scen"], "outcome": o})

    # renegotiation runs the model does not explain (a hang is never explained): the same gate schedule again, several
    # times; reproduced when the rejection recurs at least once
    done_sig = set()
    for i in reneg_rejected:
        r = reneg[i]
        hung0 = sorted(e["p"] for e in r["ev"].get("main", []) if e["ev"] == "hang")
        label = ("hang:" + "+".join(hung0)) if hung0 else "reject"     # label only
        if label in done_sig or len(done_sig) >= 3:
            continue
        done_sig.add(label)
        batch = [dict(r["scen"], id=n + 1) for n in range(5)]
        again, races2 = run_harness(ctx, batch, "rern%d" % i, par=5)
        findings_races += [("renegotiation", x) for x in races2]
        acc2, _ = validate(ctx, again, "rern%d" % i, 1, False, False, True)
        bad = [again[n] for n in range(len(again)) if n not in acc2]
        if not bad:
            unrepro.append("rejection of renegotiation scenario %d (%s) did not recur in 5 re-runs under the same gate schedule" % (r["sc"], label))
            continue
        b = bad[0]
        hung = sorted(e["p"] for e in b["ev"].get("main", []) if e["ev"] == "hang")
        ctx.finding("reneg:%s" % (("hang:" + "+".join(hung)) if hung else "reject"),
                    "renegotiation run (reader || Handshake caller || writer, peer sends HelloRequest) is not a behaviour of UConnConcReneg: "
                    "%s; recurred in %d of 5 re-runs under the same gate schedule (%d of %d runs rejected in the batch)"
                    % (("calls that never returned (watchdog = I/O deadline %d ms + slack): %s" % (b["cfg"]["deadline"], hung)) if hung else "unexplained event",
                       len(bad), len(reneg_rejected), len(reneg)),
                    {"scenario": b["scen"], "events": flat_events(b)})

    # post-handshake runs the model does not explain: re-run the scenario and fresh seeds of it, judge again
    if post_rejected:
        r = post[post_rejected[0]]
        batch = [dict(r["scen"], id=n + 1, seed=(r["scen"]["seed"] if n < 3 else rnd.randrange(1 << 30))) for n in range(12)]
        again, races2 = run_harness(ctx, batch, "repost", par=6)
        findings_races += [("hook-free", x) for x in races2]
        acc2, _ = validate(ctx, again, "repost", 2, False, True)
        bad = [again[n] for n in range(len(again)) if n not in acc2]
        if not bad:
            unrepro.append("rejection of post-handshake scenario %d did not reproduce in 12 re-runs" % r["sc"])
        else:
            b = bad[0]
            evs = flat_events(b)
            odd = [e for e in evs if e["ev"] in ("srverr", "hang", "panic") or (e["ev"] == "ret" and not e["isnil"] and e["err"] != "EOF")]
            what = ("%s:%s" % (odd[0]["ev"], re.sub(r"[^a-zA-Z]+", "_", odd[0]["err"])[:40])) if odd else "stream"   # label only
            ctx.finding("post:%s" % what,
                        "post-handshake run (reader + writer + peer KeyUpdates) is not a behaviour of UConnConcPost (%d of the first batch, %d of 12 re-runs): "
                        "written=%s received=%s first odd event %s" % (len(post_rejected), len(bad), b["meta"].get("written"), b["meta"].get("received"),
                                                                        json.dumps(odd[0]) if odd else "none"),
                        {"scenario": b["scen"], "events": evs[-60:]})
    if unrepro and not ctx.findings:
        raise vlib.Machinery(unrepro[0])
    for u in unrepro:
        ctx.note(u)

    # ---- 8. binding canaries on accepted traces (must be rejected)
    good = [ordered[i] for i in sorted(acc)]
    canaries = make_canaries(good)
    if len(canaries) < 4 and not ctx.findings:
        raise vlib.Machinery("could not build the binding canaries (%d)" % len(canaries))
    cacc, _ = validate(ctx, [c for (_, c) in canaries], "canary", 1)
    if cacc:
        raise vlib.Machinery("binding canary accepted: %s" % [canaries[i][0] for i in sorted(cacc)])

    pgood = [post[i] for i in sorted(pacc)]
    pcan = make_post_canaries(pgood)
    if len(pcan) < 3 and not ctx.findings:
        raise vlib.Machinery("could not build the post-handshake canaries (%d)" % len(pcan))
    if pcan:
        pcacc, _ = validate(ctx, [c for (_, c) in pcan], "pcanary", 1, False, True)
        if pcacc:
            raise vlib.Machinery("post-handshake binding canary accepted: %s" % [pcan[i][0] for i in sorted(pcacc)])
    pseen = set()
    for r in pgood:
        for e in flat_events(r):
            if e["ev"] == "ku":
                pseen.add("ku_requested" if e["req"] else "ku_not_requested")
            if e["ev"] == "got":
                pseen.add("got")
    if {"ku_requested", "ku_not_requested", "got"} - pseen and not ctx.findings:
        raise vlib.Machinery("vacuity: post-handshake behaviours never observed in an accepted run: %s" % sorted({"ku_requested", "ku_not_requested", "got"} - pseen))

    rgood = [reneg[i] for i in sorted(racc)]
    rcan = make_reneg_canaries(rgood)
    if len(rcan) < 3 and not ctx.findings:
        raise vlib.Machinery("could not build the renegotiation canaries (%d)" % len(rcan))
    if rcan:
        rcacc, _ = validate(ctx, [c for (_, c) in rcan], "rcanary", 1, False, False, True)
        if rcacc:
            raise vlib.Machinery("renegotiation binding canary accepted: %s" % [rcan[i][0] for i in sorted(rcacc)])
    rseen = set()
    for r in rgood:
        evs = flat_events(r)
        if any(e["ev"] == "arrive" and e["g"] == "reneg_build" for e in evs):
            rseen.add("reneg_build")
            a = next(n for n, e in enumerate(evs) if e["ev"] == "arrive" and e["g"] == "reneg_build")
            b_ = next((n for n, e in enumerate(evs) if e["ev"] == "pass" and e["g"] == "reneg_build"), len(evs))
            if any(e["ev"] == "pass" and e["g"] == "entry" and e["p"] in ("h", "writer") for e in evs[a:b_]):
                rseen.add("entered_during_rebuild")
        if any(e["ev"] == "ret" and e["p"] == "h" and not e["isnil"] for e in evs):
            rseen.add("h_err")
    rwant = {"reneg_build", "entered_during_rebuild", "h_err"}
    if rwant - rseen and not ctx.findings:
        raise vlib.Machinery("vacuity: renegotiation behaviours never observed in an accepted run: %s" % sorted(rwant - rseen))

    # ---- 9. vacuity of the validation: the interesting behaviours were really observed and accepted
    seen = set()
    for r in good:
        for e in flat_events(r):
            if e["ev"] == "ret" and e["p"] in ("h1", "h2", "h3"):
                seen.add("ret_nil" if e["isnil"] else ("ret_ctx" if e["ctxerr"] and e["err"] == e["ctxerr"] else "ret_err"))
            if e["ev"] == "arrive" and e["i"]:
                seen.add(e["g"])
            if e["ev"] == "connclose":
                seen.add("close_by_intr" if e["i"] else "close_by_closer")
            if e["ev"] == "latecancel":
                seen.add("latecancel")
            if e["ev"] == "arrive" and e["g"] == "post_fn":
                seen.add("post_fn")
        if r["cfg"]["peer"] == "stall":
            seen.add("stall")
    want = {"ret_nil", "ret_ctx", "ret_err", "intr_ctx", "intr_done", "close_by_intr", "close_by_closer", "latecancel", "post_fn", "stall"}
    if want - seen and not ctx.findings:
        raise vlib.Machinery("vacuity: never observed in an accepted trace: %s" % sorted(want - seen))

    # ---- 10. race reports (the one judgement not made by TLC)
    for where, x in findings_races:
        fr = x["frames"]
        if fr and all(f.startswith("main.") or f.startswith("verif/harness") for f in fr[:2]):
            raise vlib.Machinery("data race inside the harness itself:\n" + x["text"])
        top = x.get("sig_frame") or (fr[0] if fr else "unknown")
        ctx.finding("race:%s" % top.split("/")[-1], "data race reported by the Go race detector (%s runs)" % where, {"report": x["text"]})

    outcomes = {json.dumps([cfg_key(o["cfg"]), {p: (e["isnil"], e["err"] == e["ctxerr"] and e["ctxerr"] != "") for p, e in o["ret"].items()}, o["complete"], o["closed"]], sort_keys=True) for o in obs_all}
    gate_orders = {json.dumps([(e["ev"], e["p"], e["g"], e["i"]) for e in flat_events(r) if e["ev"] in ("arrive", "pass", "call", "ret", "connclose")]) for r in ordered}
    sample = []
    for r in ordered[:2]:
        sample.append({"mode": r["mode"], "cfg": r["scen"]["cfg"], "schedule_head": r["scen"]["hist"][:12],
                       "observed_head": [[e["ev"], e["p"], e["g"]] for e in flat_events(r)[:14]]})
    if bare:
        o = obs_all[0]
        sample.append({"mode": "bare", "cfg": o["cfg"], "rets": {p: (e["err"] or "nil") for p, e in o["ret"].items() if e["err"] != "absent"},
                       "complete": o["complete"], "closed": o["closed"]})
    cov_out = {
        "evaluations": len(bare) + len(ordered) + len(post) + len(reneg),
        "distinct_nontrivial": len(gate_orders) + len(outcomes),
        "rule": "evaluations = executions of a real UConn (race build) whose log was judged by TLC; distinct = distinct observed "
                "call/gate/close orders among gated runs + distinct (process set, return classes, complete, closed) outcomes among hook-free runs",
        "process_sets": len(sets), "mc_terminal_states": mc_terminal, "schedules_from_mc": len(schedules), "schedules_from_simulation": len(sim_scn),
        "schedules_replayed": n_replay, "replayed_without_divergence": faithful, "stress_runs_ordered": len(stress_scs),
        "bare_runs": len(bare), "reneg_runs": len(reneg), "reneg_runs_accepted": len(racc), "reneg_schedules_from_mc": len(reneg_sched), "reneg_schedules_entering_rebuild_window": len(inwin), "reneg_model_states": rmc.distinct, "post_handshake_runs": len(post), "post_runs_accepted": len(pacc), "post_key_updates": sum(len(x["scen"]["kus"]) for x in post), "post_model_states": pmc.distinct, "bare_outcomes_explained": explained, "traces_accepted": len(acc), "traces_rejected": len(rejected),
        "canaries_rejected": len(canaries), "race_reports": len(findings_races), "model_actions_on_emitted_paths": len(taken), "behaviours_seen": sorted(seen),
        "liveness_states": live.distinct, "samples": sample, "exhaustive": True,
        "exhaustive_note": "exhaustive over interleavings of the listed bounded process sets at gate granularity (model level); real-code binding is by sampling schedules",
    }
    return "model_checking", cov_out, [
        "the code between two gates behaves as the single internal action the model gives it (checked only through the recorded logs)",
        "handshakeFn fails only because of a closed transport or the deadline in these scenarios (compliant peer, valid config)",
        "the run-wide lock that orders the gated logs adds happens-before edges, so data races are looked for in the hook-free runs",
        "Go race detector: only races on executed interleavings are reported",
    ]


def make_reneg_canaries(good):
    """Corrupt accepted renegotiation runs; each must be rejected by UConnConcReneg_Trace."""
    import copy
    out = []
    for r in good:
        hev = r["ev"].get("h", [])
        rev = r["ev"].get("reader", [])
        # a run in which the peer refuses, the Handshake caller entered after the reader had started to rebuild the
        # hello and got the renegotiation's error: nil is impossible for it (other flips can be legitimate)
        arr = [e["seq"] for e in rev if e["ev"] == "arrive" and e["g"] == "reneg_build"]
        ent = [e["seq"] for e in hev if e["ev"] == "pass" and e["g"] == "entry"]
        if r["cfg"]["rehs"] or not arr or not ent or ent[0] < arr[0] or not any(e["ev"] == "ret" and not e["isnil"] for e in hev) \
                or not any(e["ev"] == "pass" and e["g"] == "reneg_build" for e in rev):
            continue
        c = copy.deepcopy(r)
        n = next(i for i, e in enumerate(c["ev"]["h"]) if e["ev"] == "ret")
        c["ev"]["h"][n]["isnil"] = True; c["ev"]["h"][n]["err"] = ""
        out.append(("Handshake returned nil during a refused renegotiation", c))
        c = copy.deepcopy(r)
        n = next(i for i, e in enumerate(c["ev"]["reader"]) if e["ev"] == "pass" and e["g"] == "reneg_build")
        del c["ev"]["reader"][n]; renumber(c)
        out.append(("rebuild gate never left", c))
        c = copy.deepcopy(r)
        last = max(e["seq"] for k in c["ev"] for e in c["ev"][k])
        fin = next(i for i, e in enumerate(c["ev"]["main"]) if e["ev"] == "final")
        c["ev"]["main"].insert(fin, dict(c["ev"]["main"][fin], ev="hang", p="h"))
        renumber_by_order(c, last)
        out.append(("a call never returned", c))
        c = copy.deepcopy(r)
        n = next(i for i, e in enumerate(c["ev"]["reader"]) if e["ev"] == "ret")
        c["ev"]["reader"][n]["t"] = r["cfg"]["deadline"] + r["cfg"]["slack"] + 1
        out.append(("late return", c))
        break
    return out


def renumber_by_order(r, last):
    """main's log got one more line before its last one: give it the next sequence numbers"""
    m = r["ev"]["main"]
    m[-2]["seq"], m[-1]["seq"] = last, last + 1


def make_post_canaries(good):
    """Corrupt accepted post-handshake runs; each must be rejected by UConnConcPost_Trace."""
    import copy
    out = []
    for r in good:
        got = r["ev"].get("srvrecv", [])
        wr = r["ev"].get("writer", [])
        if len(got) < 3 or len(wr) < 6:
            continue
        c = copy.deepcopy(r); c["ev"]["srvrecv"][1]["sum"] ^= 1
        out.append(("delivered digest differs from written", c))
        c = copy.deepcopy(r); del c["ev"]["srvrecv"][len(got) // 2]; renumber(c)
        out.append(("a message never arrived", c))
        c = copy.deepcopy(r)
        n = next(i for i, e in enumerate(c["ev"]["writer"]) if e["ev"] == "ret")
        c["ev"]["writer"][n]["isnil"] = False; c["ev"]["writer"][n]["err"] = "canary"
        out.append(("a Write failed", c))
        c = copy.deepcopy(r); c["ev"]["srvrecv"][len(got) - 1]["n"] += 1
        out.append(("peer sequence number not contiguous", c))
        break
    return out


def observed_schedule(r):
    """The order in which things were observed to happen, as a schedule for the gate scheduler (used to
    reproduce a rejected run)."""
    hist, dl, waited = [], r["cfg"]["deadline"], False
    for e in flat_events(r):
        if e["t"] >= dl and not waited:
            hist.append(dict(k="timeout", p="env", g="", i=False))
            waited = True
        if e["ev"] == "call":
            hist.append(dict(k="cancel", p=e["tgt"], g="", i=False) if e["p"] == "canc" else dict(k="call", p=e["p"], g="", i=False))
        elif e["ev"] == "peer":
            hist.append(dict(k="peer", p="peer", g="", i=False))
        elif e["ev"] in ("arrive", "pass"):
            hist.append(dict(k=e["ev"], p=e["p"], g=e["g"], i=e["i"]))
        elif e["ev"] == "ret" and e["p"] != "canc":
            hist.append(dict(k="ret", p=e["p"], g="", i=False))
    return hist


def make_canaries(good):
    """Corrupt accepted traces; each result must be rejected by UConnConc_Trace."""
    import copy
    out = []

    def find(pred):
        for r in good:
            for k in r["ev"]:
                for n, e in enumerate(r["ev"][k]):
                    if pred(r, k, e):
                        return r, k, n
        return None
    # (a) a handshaker's nil turned into an error
    f = find(lambda r, k, e: e["ev"] == "ret" and k in ("h1", "h2") and e["isnil"])
    if f:
        r, k, n = f
        c = copy.deepcopy(r); c["ev"][k][n]["isnil"] = False; c["ev"][k][n]["err"] = "canary"
        out.append(("ret nil->err", c))
    # (b) a handshaker's error turned into nil
    f = find(lambda r, k, e: e["ev"] == "ret" and k in ("h1", "h2") and not e["isnil"])
    if f:
        r, k, n = f
        c = copy.deepcopy(r); c["ev"][k][n]["isnil"] = True; c["ev"][k][n]["err"] = ""
        out.append(("ret err->nil", c))
    # (c) the transport-close event of an interrupter dropped (ctx error without a closed connection)
    f = find(lambda r, k, e: e["ev"] == "connclose" and e["i"])
    if f:
        r, k, n = f
        c = copy.deepcopy(r); del c["ev"][k][n]
        renumber(c)
        out.append(("interrupter close dropped", c))
    # (d) final `closed` flipped
    f = find(lambda r, k, e: e["ev"] == "final")
    if f:
        r, k, n = f
        c = copy.deepcopy(r); c["ev"][k][n]["closed"] = not c["ev"][k][n]["closed"]
        out.append(("final.closed flipped", c))
    # (e) final `complete` flipped, in a run where a handshaker got nil (otherwise both values can be legitimate)
    f = find(lambda r, k, e: e["ev"] == "final" and any(x["ev"] == "ret" and x["isnil"] for h in ("h1", "h2") for x in r["ev"].get(h, [])))
    if f:
        r, k, n = f
        c = copy.deepcopy(r); c["ev"][k][n]["complete"] = not c["ev"][k][n]["complete"]
        out.append(("final.complete flipped", c))
    # (f) a gate passage dropped
    f = find(lambda r, k, e: e["ev"] == "pass" and e["g"] == "locked")
    if f:
        r, k, n = f
        c = copy.deepcopy(r); del c["ev"][k][n]
        renumber(c)
        out.append(("pass(locked) dropped", c))
    # (g) a return later than deadline + slack
    f = find(lambda r, k, e: e["ev"] == "ret" and k in ("h1", "h2"))
    if f:
        r, k, n = f
        c = copy.deepcopy(r); c["ev"][k][n]["t"] = r["cfg"]["deadline"] + r["cfg"]["slack"] + 1
        out.append(("late return", c))
    # (h) a ctx-error return whose context error is somebody else's
    f = find(lambda r, k, e: e["ev"] == "ret" and e["ctxerr"] and e["err"] == e["ctxerr"])
    if f:
        r, k, n = f
        c = copy.deepcopy(r); c["ev"][k][n]["ctxerr"] = ""
        out.append(("ctx error without own ctx done", c))
    return out


def renumber(r):
    evs = sorted([e for k in r["ev"] for e in r["ev"][k]], key=lambda e: e["seq"])
    for n, e in enumerate(evs):
        e["seq"] = n + 1
