"""C19 - session resumption works and never breaks the next handshake.
TLA+: spec/Session.tla Part 3 (cache / history model, C19ModelOK) and Part 4 (C19Why); Session_MC (Mode "C19")
enumerates the connection histories over one ClientSessionCache, Session_Trace judges the recorded connections."""
import copy, json, time
import vlib
import session_common as sc


# clauses of other properties that need connection histories and are therefore judged (and reported) by this check
OTHER_PROPERTY = {"cs-disagree-": "C11", "session-id-repeats": "C18", "client-random-repeats": "C18", "key-share-repeats": "C18"}


def prop_of(why):
    return next((p for k, p in OTHER_PROPERTY.items() if why.startswith(k)), "C19")


def sig_of(row, why):
    cd, ev = row["cd"], row["ev"]
    return "%s/%s/%s/%s/%s" % (prop_of(why), why, sc.spec_label(cd["spec"]), sc.srv_label(cd["srv"]), sc.failure_for(why, ev))


def run(ctx):
    if getattr(ctx, "replay", None):
        return sc.replay_only(ctx, sig_of)
    t0 = time.time()
    def lap(what):
        ctx.note("%s: %.1fs" % (what, time.time() - t0))
    deep = not ctx.quick
    res, scns = sc.run_mc(ctx, "C19", 3, 0, deep, workers=8 if ctx.quick else 14, timeout=3000)
    lap("model checking done")
    for i, s in enumerate(scns, 1):
        s["sid"] = i
    by_sid = {s["sid"]: s for s in scns}
    mviol = [s for s in scns if s["mviol"]]
    acc = {"resumed12": 0, "resumed13": 0, "full": 0, "offered_ticket": 0, "second_name": 0, "late_clock": 0, "rotated_keys": 0,
           "same_as_previous": 0, "no_ems_spec": 0, "hrr": 0, "doc_panic": 0,
           "hrr_cookie_resumed": 0, "build_then_handshake_resumed": 0, "build_edit_handshake_resumed13": 0,
           "ticket_nonce_resumed": 0, "sha384_suite_resumed": 0, "other_hash_not_resumed": 0, "alpn_negotiated": 0, "resumed12_without_alpn_after_alpn": 0, "built_side_by_side": 0, "one_session_given_to_several": 0}
    keep = {}       # canary material: accepted connections (scenario, events, k) by kind
    samples = []
    def same(p, cd):
        return all(p[f] == cd[f] for f in ("spec", "name", "srv", "clock"))
    def visit(s, es, rejected_ks):
        if len(samples) < 3 and s["sid"] % max(1, len(scns) // 3) == 1:
            samples.append({"history": ["%s %s %s keys%d day%d" % (sc.spec_label(c["spec"]), c["name"], sc.srv_label(c["srv"]), c["srv"]["keys"], c["clock"]) for c in s["conns"]],
                            "resumed": [[e["c_resumed"], e["s_resumed"]] for e in es], "model_as_coded": s["pred0"], "model_repaired": s["pred1"]})
        roles = [c["role"] for c in s["conns"]]
        if "par" in roles and not rejected_ks and all(e["hs_ok"] for e in es):
            acc["one_session_given_to_several" if roles[0] == "seedB" else "built_side_by_side"] += 1
            if roles[0] == "conn" and es[1]["c_vers"] == 771 and es[1]["c_resumed"]:
                keep.setdefault("par", (s, es, len(es)))
        for k, (cd, ev) in enumerate(zip(s["conns"], es), 1):
            if k in rejected_ks or cd["role"] != "conn":
                continue
            acc["alpn_negotiated"] += len(ev["c_alpn"]) > 0
            if k > 1 and ev["c_resumed"] and ev["c_vers"] == 771 and not ev["c_alpn"] and es[k - 2]["c_alpn"]:
                acc["resumed12_without_alpn_after_alpn"] += 1
                keep.setdefault("noalpn", (s, es, k))
            if ev["c_resumed"] and ev["s_resumed"]:
                acc["resumed13" if ev["c_vers"] == 772 else "resumed12"] += 1
                acc["hrr_cookie_resumed"] += cd["srv"]["cookie"] > 0 and len(ev["hellos"]) == 2
                acc["ticket_nonce_resumed"] += cd["srv"]["nonce"] > 0
                acc["sha384_suite_resumed"] += cd["srv"]["suite13"] == 4866
                acc["build_then_handshake_resumed"] += cd["use"] == "build"
                acc["build_edit_handshake_resumed13"] += cd["use"] == "edit" and ev["c_vers"] == 772
            elif ev["hs_ok"]:
                acc["full"] += 1
                acc["other_hash_not_resumed"] += k > 1 and cd["srv"]["suite13"] > 0 and ev["before"]["present"] and (ev["before"]["suite"] == 4866) != (cd["srv"]["suite13"] == 4866)
            if ev["before"]["present"] and ev["hs_ok"]:
                acc["offered_ticket"] += 1
            acc["second_name"] += cd["name"] != "a.example"
            acc["late_clock"] += cd["clock"] > 0
            acc["rotated_keys"] += cd["srv"]["keys"] != 1
            acc["no_ems_spec"] += "ExtendedMasterSecretExtension" in cd["spec"]["drop"]
            acc["hrr"] += len(ev["hellos"]) == 2
            acc["doc_panic"] += any(o["res"] == "panic" for o in ev["ops"])
            if k > 1:
                req = same(s["conns"][k - 2], cd) and ev["c_resumed"] and ev["s_resumed"]
                acc["same_as_previous"] += same(s["conns"][k - 2], cd)
                if req:
                    keep.setdefault("required", (s, es, k))
                if ev["c_resumed"]:
                    keep.setdefault("resumed", (s, es, k))
                if ev["hs_ok"] and ev["ctl_ok"]:
                    keep.setdefault("ok", (s, es, k))
                if ev["c_resumed"] and ev["c_vers"] == 771 and ev["before"]["ems"]:
                    keep.setdefault("ems", (s, es, k))
    rej, _, n = sc.process(ctx, scns, "c19", visit)
    lap("replay + validation done")
    ctx.traces += n
    missing = [k for k, v in acc.items() if v == 0]
    if missing and not rej:     # when TLC rejected connections, an empty class is part of that verdict
        raise vlib.Machinery("C19 vacuous: nothing accepted for %s (accepted: %r)" % (missing, acc))
    # ---- binding canaries
    canaries = []
    def mutate(kind, f, what):
        if kind not in keep:
            if not rej:
                raise vlib.Machinery("C19: no accepted connection to build canary '%s' from" % what)
            ctx.note("canary '%s' skipped: every connection it could be built from was rejected (see findings)" % what)
            return
        s, es, k = keep[kind]
        rs = copy.deepcopy(sc.rows_of(s, es))
        for r in rs:
            r["sid"] = 900000 + len(canaries)
        f(rs[k - 1]["ev"])
        canaries.append((what, rs, k))
    def flip_offer(ev):
        raw, t = ev["hellos"][0], ev["before"]["ticket"]
        for i in range(len(raw) - len(t)):
            if raw[i:i + len(t)] == t:
                raw[i + len(t) // 2] ^= 1
                return
        raise vlib.Machinery("canary: offered ticket not found in the wire hello")
    def drop_ems(ev):
        # rename extended_master_secret (00 17 00 00) into an unknown empty extension in the recorded hello
        raw = ev["hellos"][0]
        for i in range(len(raw) - 4):
            if raw[i:i + 4] == [0, 23, 0, 0]:
                raw[i + 1] = 0x7b
                raw[i] = 0x7b
                return
        raise vlib.Machinery("canary: no extended_master_secret in the wire hello")
    mutate("required", lambda ev: ev.__setitem__("c_resumed", False), "client DidResume flipped on a required resumption")
    mutate("required", lambda ev: ev.__setitem__("s_resumed", False), "server DidResume flipped on a required resumption")
    mutate("resumed", flip_offer, "offered ticket byte changed")
    mutate("ok", lambda ev: ev.update(hs_ok=False, c_resumed=False), "client handshake failure injected")
    mutate("ok", lambda ev: ev.update(s_ok=False), "server abort injected")
    mutate("ems", drop_ems, "extended_master_secret removed from a hello offering an EMS session")
    mutate("noalpn", lambda ev: ev.__setitem__("c_alpn", [104, 50]), "client NegotiatedProtocol changed to h2 on a resumption without ALPN")
    mutate("ok", lambda ev: ev.__setitem__("s_suite", ev["s_suite"] ^ 1), "server cipher suite changed")
    if "par" in keep:
        s0, es0, k0 = keep["par"]
        rs = copy.deepcopy(sc.rows_of(s0, es0))
        for r in rs:
            r["sid"] = 900000 + len(canaries)
        rs[-1]["ev"]["hellos"][0][39:71] = rs[-2]["ev"]["hellos"][0][39:71]     # legacy_session_id (32 bytes after the length byte)
        canaries.append(("legacy_session_id of the previous side-by-side connection copied into the last hello", rs, k0))
    elif not rej:
        raise vlib.Machinery("C19: no accepted side-by-side history to build the session-id canary from")
    crow = [r for _, rs, _ in canaries for r in rs]
    crej, _, _ = sc.validate(ctx, crow, "c19canary", nshards=1) if crow else ([], [], 0)
    caught = {(r["sid"], r["k"]) for r, _ in crej}
    for what, rs, k in canaries:
        if (rs[0]["sid"], k) not in caught:
            raise vlib.Machinery("C19 binding canary accepted by TLC: %s" % what)
    lap("canaries done")
    rej2 = sc.confirm(ctx, rej, by_sid, "c19")
    lap("confirmation done")
    for row, why in rej2:
        s = by_sid[row["sid"]]
        ctx.finding(sig_of(row, why), "%s%s: connection %d of history [%s] -> %s" % (
            "" if prop_of(why) == "C19" else "[property %s, judged by ./check C19 because it needs connection histories] " % prop_of(why), why, row["k"], "; ".join("%s %s %s keys%d day%d" % (sc.spec_label(c["spec"]), c["name"], sc.srv_label(c["srv"]), c["srv"]["keys"], c["clock"]) + ("" if c["role"] == "conn" else " <%s: %s>" % (c["role"], sc.ops_str(c))) for c in s["conns"]),
            sc.first_failure(row["ev"])),
            {"scenario": s, "why": why, "k": row["k"]})
    cov = {"evaluations": n, "distinct_nontrivial": len(scns),
           "rule": "every history of 3 connections over one ClientSessionCache that Session_MC enumerates: parrots {ticket-only, PSK with/without OmitEmptyPsk, no session extension, TLS 1.2 EMS parrot, the same spec minus extended_master_secret, PSK without ticket extension, custom ticket-only without PreferSkip%s} x servers {TLS 1.2, TLS 1.3, TLS 1.3 + HelloRetryRequest, + HRR cookie of 1 / 32 bytes, TLS 1.3 tickets with a ticket_nonce of 1 / 8 / 32 bytes, TLS 1.3 server selecting suite 1301 / 1302 / 1303} x client usage {Handshake, Build+Handshake, Build+SetClientRandom+Handshake} x ticket keys {1,2} x names {a,b} x clock {0, +8 days}; first connection name a/day 0/keys 1, third connection %s; second connections also with a different ALPN offer (none / http/1.1 only; C11: both ConnectionStates agree after every connection); plus histories in which 2-3 connections are built from one cache entry before any handshake, or are given one session through SetSessionTicketExtension (C18: legacy_session_id, random, key shares of any two hellos differ); each connection also runs against an empty cache (control); evaluations = connections judged, distinct = histories" % (
               ", more PSK/PQ/Firefox/360 parrots" if deep else "", "over the parrots/servers/names of the first two" if deep else "repeats the second or the first"),
           "accepted": acc, "model_level_counterexamples_as_coded": len(mviol), "canaries": [w for w, _, _ in canaries], "samples": samples, "exhaustive": True}
    return "model_checking", cov, ["Go tls.Server of the same repository acts as the compliant server",
                                   "a connection is compatible with its server iff the same connection succeeds with an empty cache (control run, judged by TLC)",
                                   "the model cache is bound to the recorded ClientSessionCache content after every connection"]
