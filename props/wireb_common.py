"""Shared runner code of the wire family B (C05 padding policy, C06 fingerprint round trip).
Nothing in here judges the library: the helpers build inputs (server names, crafted captures, canary corruptions),
run the harness binary `wireb`, shard the recorded hellos over several TLC processes and collect what TLC printed."""
import concurrent.futures as cf
import json, random, re
import vlib

PROG = "wireb"


def dump_specs(ctx):
    evs = ctx.drv("dumpspecs", {"ids": []}, prog=PROG)
    d = {"specs": evs[0]["specs"], "shuffling": evs[0]["shuffling"]}
    ctx.write_json("specs.json", d)
    return d


def sni_name(n, salt=0):
    """A syntactically ordinary host name of exactly n bytes (labels <= 63), varied by salt."""
    if n <= 0:
        return ""
    alphabet = "abcdefghijklmnopqrstuvwxyz0123456789"
    rnd = random.Random(n * 7919 + salt)
    labs = []
    left = n
    while left > 63:
        lab = 63 if left - 64 >= 1 else left - 2      # leave room for ".x"
        labs.append(lab)
        left -= lab + 1
    labs.append(left)
    name = ".".join("".join(rnd.choice(alphabet) for _ in range(k)) for k in labs)
    assert len(name) == n, (n, len(name))
    return name


# ---------------------------------------------------------------- byte-level crafting of inputs (captures, canaries)

def split_hello(msg):
    """msg: list of ints, a ClientHello handshake message -> (prefix_before_ext_len, [(type, body)])"""
    m = bytes(msg)
    p = 4 + 2 + 32
    p += 1 + m[p]
    p += 2 + int.from_bytes(m[p:p + 2], "big")
    p += 1 + m[p]
    exts = []
    if p < len(m):
        q = p + 2
        while q < len(m):
            t = int.from_bytes(m[q:q + 2], "big")
            n = int.from_bytes(m[q + 2:q + 4], "big")
            exts.append((t, m[q + 4:q + 4 + n]))
            q += 4 + n
    return m[4:p], exts


def join_hello(prefix, exts):
    body = b"".join(t.to_bytes(2, "big") + len(b).to_bytes(2, "big") + bytes(b) for t, b in exts)
    inner = bytes(prefix) + len(body).to_bytes(2, "big") + body
    return list(b"\x01" + len(inner).to_bytes(3, "big") + inner)


def with_padding(msg, plen, where="end"):
    """The hello with its padding extension (if any) replaced by one of plen zero bytes (before PSK when present)."""
    prefix, exts = split_hello(msg)
    exts = [(t, b) for t, b in exts if t != 21]
    pad = (21, bytes(plen))
    if where == "end":
        if exts and exts[-1][0] == 41:
            exts.insert(len(exts) - 1, pad)
        else:
            exts.append(pad)
    else:
        exts.insert(min(where, len(exts)), pad)
    return join_hello(prefix, exts)


def with_ech_sizes(msg, enc_len, pay_len):
    """The hello with the enc and payload fields of its (outer) ECH extension replaced by fillers of the given sizes."""
    prefix, exts = split_hello(msg)
    out = []
    for t, b in exts:
        if t == 65037 and len(b) >= 10 and b[0] == 0:
            b = bytes(b[:6]) + enc_len.to_bytes(2, "big") + bytes((0x40 + i * 7) % 256 for i in range(enc_len)) \
                + pay_len.to_bytes(2, "big") + bytes((0x90 + i * 5) % 256 for i in range(pay_len))
        out.append((t, b))
    return join_hello(prefix, out)


def craft(msg, what, n):
    """A capture derived from a real hello in which one opaque, sender-chosen length is n:
    gks = key_exchange of the GREASE key_share entry, gext / gext2 = body of the first / second GREASE extension,
    sid = legacy_session_id, ticket = session_ticket body."""
    fill = lambda k, salt: bytes((salt + i * 13) % 256 for i in range(k))
    grease = lambda v: (v & 0x0f0f) == 0x0a0a and (v >> 8) == (v & 0xff)
    if what == "sid":
        m = bytes(msg)
        p = 4 + 2 + 32
        inner = m[4:p] + bytes([n]) + fill(n, 0x21) + m[p + 1 + m[p]:]
        return list(b"\x01" + len(inner).to_bytes(3, "big") + inner)
    prefix, exts = split_hello(msg)
    out, seen_g = [], 0
    for t, b in exts:
        if grease(t):
            seen_g += 1
        if (what == "gext" and grease(t) and seen_g == 1) or (what == "gext2" and grease(t) and seen_g == 2):
            b = fill(n, 0x31)
        elif what == "ticket" and t == 35:
            b = fill(n, 0x41)
        elif what == "gks" and t == 51:
            q, ents = 2, b""
            while q < len(b):
                g = int.from_bytes(b[q:q + 2], "big")
                k = int.from_bytes(b[q + 2:q + 4], "big")
                data = fill(n, 0x51) if grease(g) else b[q + 4:q + 4 + k]
                ents += b[q:q + 2] + len(data).to_bytes(2, "big") + data
                q += 4 + k
            b = len(ents).to_bytes(2, "big") + ents
        out.append((t, b))
    return join_hello(prefix, out)


def ext_types(msg):
    return [t for t, _ in split_hello(msg)[1]]


def unknown_findings(ctx):
    """Findings recorded so far that no open entry of known_findings.json explains (same matching rule as vlib.finish).
    A check keeps running its vacuity checks and canaries when only known findings were seen."""
    import os
    known = []
    kf = os.path.join(vlib.VERIF, "known_findings.json")
    if os.path.exists(kf):
        known = [e for e in json.load(open(kf)).get("findings", []) if e.get("property") == ctx.pid and e.get("status", "open") == "open"]
    return [f for f in ctx.findings if not any(re.fullmatch(e["signature"], f["sig"]) for e in known)]


# ---------------------------------------------------------------- reading what TLC printed

def tagged(res, tag):
    """All values printed as PrintT(<<"tag", v>>) in a TLC run. TLC's pretty printer breaks tuples that are wider than
    its line width over several lines (<< "TAG",\n   "..." >>), which vlib's line-based parser does not see: parse the
    whole output instead. v is a JSON string produced by ToJson (decoded twice) or a plain TLA+ value."""
    out, vals, pos = res.out, [], 0
    pat = re.compile(r'<<\s*"%s",\s*' % re.escape(tag))
    dec = json.JSONDecoder()
    while True:
        m = pat.search(out, pos)
        if not m:
            break
        i = m.end()
        if out[i] == '"':
            inner, j = dec.raw_decode(out, i)
            k = re.compile(r'\s*>>').match(out, j)
            if not k:
                raise vlib.Machinery("cannot parse TLC output after tag %s: %r" % (tag, out[m.start():j + 40]))
            try:
                vals.append(json.loads(inner))
            except ValueError:
                vals.append(inner)
            pos = k.end()
        else:
            depth, k = 1, i                 # we are inside the outer << ... >>: find its end
            while depth:
                a, b = out.find("<<", k), out.find(">>", k)
                if b < 0:
                    raise vlib.Machinery("unterminated tuple after tag %s in TLC output" % tag)
                if 0 <= a < b:
                    depth, k = depth + 1, a + 2
                else:
                    depth, k = depth - 1, b + 2
            vals.append(vlib._tla_value(" ".join(out[i:k - 2].split())))
            pos = k
    return vals


# ---------------------------------------------------------------- sharded TLC validation

def validate(ctx, module, trace_file, rows, shards, timeout=1700, count=True, tag=""):
    """Runs <module>.tla (which reads <trace_file>) over rows split into shards. Returns the list of TLCResults, in order,
    and the shard partition. Raises Machinery if a shard did not consume its whole batch."""
    rows = list(rows)
    if not rows:
        return [], []
    shards = max(1, min(shards, len(rows)))
    per = (len(rows) + shards - 1) // shards
    parts = [rows[i:i + per] for i in range(0, len(rows), per)]
    src = open(ctx.scratch + "/%s.tla" % module).read()
    stem = trace_file.rsplit(".", 1)[0]

    def one(k):
        mod = "%s_%s%d" % (module, tag, k)
        name = "%s_%s%d.ndjson" % (stem, tag, k)
        open(ctx.scratch + "/%s.tla" % mod, "w").write(
            src.replace(trace_file, name).replace("MODULE " + module + " ", "MODULE " + mod + " "))
        ctx.write_ndjson(name, parts[k])
        res = ctx.tlc(mod, cfg=module, timeout=timeout, count=count)
        done = tagged(res, "DONE")
        if not done or done[0] != len(parts[k]):
            raise vlib.Machinery("%s shard %d consumed %r of %d rows\n%s" % (module, k, done, len(parts[k]), res.out[-2500:]))
        if res.violated:
            raise vlib.Machinery("%s: invariant %s violated while validating traces (the specification contradicts itself)\n%s"
                                 % (module, res.violated, res.out[-2500:]))
        return res

    with cf.ThreadPoolExecutor(max_workers=min(len(parts), 12)) as ex:
        results = list(ex.map(one, range(len(parts))))
    return results, parts


def run_cases(ctx, cases, name="roundtrip", timeout=1500):
    for i, c in enumerate(cases):
        c["sc"] = i
    evs = ctx.drv("roundtrip", {"cases": cases}, prog=PROG, timeout=timeout, name=name)
    evs = [e for e in evs if e.get("ev") == "RT"]
    if len(evs) != len(cases):
        raise vlib.Machinery("harness returned %d events for %d cases" % (len(evs), len(cases)))
    return {e["sc"]: e for e in evs}
