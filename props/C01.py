"""C01 - the ClientHello on the wire is exactly the hello the caller built and inspected.
TLA+: spec/UConnBuild.tla (life-cycle of a UConn, invariants WireIsRaw / EditsVisible / RawIsLastSent),
UConnBuild_MC enumerates the paths (mutator sequences x explicit build mode x server x class of id) and the values of the
edits, harness/cmd/uconn replays them on real UConns, UConnBuild_Trace judges the recorded bytes."""
import concurrent.futures as cf
import copy, hashlib, json, random
import vlib

PROG = "uconn"
VIOLATION_KINDS = {"WireIsRaw", "EditsVisible", "RawIsLastSent", "norm", "RebuildMustFail"}
VIOLATION_ORDER = {"hello-written-without-rebuild", "hello-written-unasked"}
MUTATORS = ["SetClientRandom", "SetSNI", "RemoveSNI", "EditSuites", "EditSessionId", "ExtInsert", "ExtRemove", "ExtALPN", "ExtSNIField", "InPlace", "Break"]
CLAIMS = ["random", "sid", "suites", "sni", "nosni", "ext", "noext", "front"]


# ---------------------------------------------------------------- scenarios
def gen_paths(ctx, cfg, workers, timeout):
    res = ctx.tlc("UConnBuild_MC", cfg=cfg, workers=workers, timeout=timeout)
    if res.violated:
        raise vlib.Machinery("model-level invariant %s violated in %s: the model of the repaired mechanism contradicts the property\n%s"
                             % (res.violated, cfg, res.out[-2000:]))
    seen, out = set(), []
    for s in res.tagged("SCN"):
        k = json.dumps(s, sort_keys=True)
        if k not in seen:          # the model reaches a path through several shuffles / cookie positions
            seen.add(k)
            out.append(s)
    if not out:
        raise vlib.Machinery("%s produced no scenario" % cfg)
    return out, res


def nmut(p):
    return sum(1 for o in p["ops"] if o["op"] in MUTATORS)


def classify(ids):
    """class of ClientHelloID (the model's Classes) -> ids, from what the harness reports about each spec"""
    by = {"parrot": [], "shuffle": [], "psk": [], "randomized": [], "custom": []}
    for e in ids:
        if e["kind"] == "randomized":
            by["randomized"].append(e["id"])
        elif e["kind"] == "custom":
            by["custom"].append(e["id"])
        elif e["psk"]:
            by["psk"].append(e["id"])
        elif e["shuffles"]:
            by["shuffle"].append(e["id"])
        else:
            by["parrot"].append(e["id"])
    return by


def brief(s):
    return {"id": s["id"], "cls": s["cls"], "server": s["server"], "mode": s["mode"], "cached_session": s.get("sess", False),
            "calls": [o["op"] + ("(" + o.get("kind", o.get("what")) + ")" if ("kind" in o or "what" in o) else "") for o in s["ops"]]}


# ---------------------------------------------------------------- transport to TLC
def forward(e):
    """What UConnBuild_Trace reads of an event: every byte string through its length and SHA-256 digest (the harness
    logs the full hex as well; it stays in the replay files and feeds the canary), the rebuilt hello also as bytes."""
    ev = e["ev"]
    if ev == "Call":
        return {k: v for k, v in e.items() if k not in ("random", "hex")}
    if ev == "Done":
        return {k: e[k] for k in ("ev", "sc", "cok", "sok", "cerr", "sha", "n")}
    if ev in ("Rec", "Rebuilt", "AtSend", "New"):
        return {k: v for k, v in e.items() if k != "hex"}
    return e


def group(events):
    gs, cur = [], []
    for e in events:
        if e["ev"] == "Scn" and cur:
            gs.append(cur)
            cur = []
        cur.append(e)
    if cur:
        gs.append(cur)
    return gs


def validate(ctx, rows, name, count=True, file=None, nrows=None):
    """One TLC run of UConnBuild_Trace over rows (or over an event file already in the scratch dir); returns (rejections, stats)."""
    src = open(ctx.scratch + "/UConnBuild_Trace.tla").read()
    mod = "UConnBuild_Trace_" + name
    if file is None:
        file = "uconn_trace_%s.ndjson" % name
        ctx.write_ndjson(file, rows)
        nrows = len(rows)
    open(ctx.scratch + "/%s.tla" % mod, "w").write(
        src.replace("uconn_trace.ndjson", file).replace("MODULE UConnBuild_Trace", "MODULE " + mod))
    res = ctx.tlc(mod, cfg="UConnBuild_Trace", timeout=2400, count=count)
    done = res.tagged("DONE")
    if not done or done[0] != nrows:
        raise vlib.Machinery("UConnBuild_Trace %s consumed %r of %d events\n%s" % (name, done, nrows, res.out[-2000:]))
    st = res.tagged("STATS")
    if not st:
        raise vlib.Machinery("UConnBuild_Trace %s printed no statistics" % name)
    return res.tagged("REJ"), st[0]


def replay(ctx, scns, name, full):
    events = ctx.drv("build", {"scenarios": scns, "full": full}, prog=PROG, timeout=1800, name="build_" + name)
    errs = [e for e in events if e["ev"] == "Error"]
    if errs:
        raise vlib.Machinery("harness errors: %r" % errs[:3])
    gs = group(events)
    if len(gs) != len(scns):
        raise vlib.Machinery("harness returned %d scenarios for %d" % (len(gs), len(scns)))
    return events, gs


def replay_and_validate(ctx, scns, name, full=False):
    """Replays scns on the real library (one harness process), validates the recorded events. Without full the harness
    logs every byte string by length and digest only and TLC reads its output file as it is."""
    events, gs = replay(ctx, scns, name, full)
    if full:
        rej, st = validate(ctx, [forward(e) for e in events], name)
    else:
        rej, st = validate(ctx, None, name, file="build_%s.out.ndjson" % name, nrows=len(events))
    return gs, rej, st


# ---------------------------------------------------------------- binding canary
def canary(ctx, good):
    """good: the recorded events of an accepted scenario (explicit build, SetClientRandom, HelloRetryRequest, two hellos).
    Each corruption of one logged field / dropped event must be rejected with the matching invariant."""
    def variant(sc, f):
        g = copy.deepcopy(good)
        for e in g:
            e["sc"] = sc
        f(g)
        return g

    def flip(e):
        # one bit of one recorded byte; the digest is recomputed the way the harness computes it
        b = bytearray(bytes.fromhex(e["hex"]))
        b[50] ^= 0x04
        e["hex"], e["sha"] = bytes(b).hex(), hashlib.sha256(bytes(b)).hexdigest()

    def flip_first_hello(g):
        flip(next(x for x in g if x["ev"] == "Rec"))

    def flip_last_hello(g):
        flip([x for x in g if x["ev"] == "Rec"][1])

    def drop_rebuilt(g):
        g[:] = [x for x in g if x["ev"] != "Rebuilt"]

    def flip_final(g):
        flip(g[-1])

    def flip_raw_at_second_send(g):
        flip([x for x in g if x["ev"] == "AtSend"][1])

    def other_random(g):
        o = next(x for x in g[0]["ops"] if x["op"] == "SetClientRandom")
        o["r"][0] = (o["r"][0] + 1) % 256

    vs = [("good", lambda g: None, None),
          ("first-hello-byte", flip_first_hello, ("WireIsRaw", None)),
          ("second-hello-byte", flip_last_hello, ("RawIsLastSent", None)),
          ("rebuilt-dropped", drop_rebuilt, ("order", "hello-written-without-rebuild")),
          ("final-raw-byte", flip_final, ("RawIsLastSent", None)),
          ("raw-when-second-hello-written", flip_raw_at_second_send, ("WireIsRaw", "hello-differs-from-raw-when-written")),
          ("claimed-random", other_random, ("EditsVisible", "random"))]
    rows = []
    for i, (tag, f, _) in enumerate(vs):
        rows += [forward(e) for e in variant(900000 + i, f)]
    rej, _ = validate(ctx, rows, "canary", count=False)
    for i, (tag, _, want) in enumerate(vs):
        got = [(r[1], r[2]) for r in rej if r[0] == 900000 + i]
        if want is None:
            if got:
                return "good trace rejected: %r" % got
        elif not any(k == want[0] and (want[1] is None or d == want[1]) for k, d in got):
            raise vlib.Machinery("binding canary %s: expected a %s rejection, got %r" % (tag, want, got))
    return None


def canary_refused(ctx, good):
    """good: an accepted scenario whose hello was made unbuildable after an explicit build (Handshake refused)."""
    def variant(sc, f):
        g = copy.deepcopy(good)
        for e in g:
            e["sc"] = sc
        f(g)
        return g

    def success(g):
        g[-1]["cok"], g[-1]["cerr"] = True, ""

    def raw_changed(g):
        g[-1]["sha"] = hashlib.sha256(b"another hello").hexdigest()

    vs = [("good", lambda g: None, None), ("refusal-forged-to-success", success, ("RebuildMustFail", "success-reported")),
          ("raw-changed", raw_changed, ("RebuildMustFail", "raw-changed-by-failed-rebuild"))]
    rows = []
    for i, (tag, f, _) in enumerate(vs):
        rows += [forward(e) for e in variant(910000 + i, f)]
    rej, _ = validate(ctx, rows, "canary_refused", count=False)
    for i, (tag, _, want) in enumerate(vs):
        got = [(r[1], r[2]) for r in rej if r[0] == 910000 + i]
        if want is None:
            if got:
                return "good refused trace rejected: %r" % got
        elif want not in got:
            raise vlib.Machinery("binding canary %s: expected a %s rejection, got %r" % (tag, want, got))
    return None


def is_refused_material(s, g):
    return (s["cls"] in ("parrot", "shuffle") and s["mode"] == "before" and any(o["op"] == "Break" for o in s["ops"])
            and g[-1]["ev"] == "Done" and not g[-1]["cok"] and not any(e["ev"] in ("Rebuilt", "Rec") for e in g))


def is_canary_material(s, g):
    d = g[-1]
    return (s["cls"] in ("parrot", "shuffle") and s["mode"] == "before" and any(o["op"] == "SetClientRandom" for o in s["ops"])
            and d["ev"] == "Done" and d["cok"] and sum(1 for e in g if e["ev"] == "Rec") == 2 and any(e["ev"] == "Rebuilt" for e in g))


# ---------------------------------------------------------------- the check
def run(ctx):
    import time
    t0 = time.time()
    def lap(what):
        ctx.note("%s: %.0fs" % (what, time.time() - t0))
    rng = random.Random(ctx.seed)
    ids = ctx.drv("ids", {}, prog=PROG)
    by = classify(ids)
    all_ids = [e["id"] for e in ids]
    if ctx.quick:
        reps = {"parrot": ["Firefox-120", "Chrome-100"], "shuffle": ["Chrome-133"], "psk": ["Chrome-100_PSK"],
                "randomized": ["Randomized-ALPN-0"], "custom": ["Custom"]}
    else:
        reps = {"parrot": ["Firefox-120", "Chrome-100"], "shuffle": ["Chrome-133"], "psk": ["Chrome-112_PSK"],
                "randomized": ["Randomized-0"], "custom": ["Custom"]}
        by["custom"] += ["Custom:" + x for x in rng.sample(by["parrot"] + by["shuffle"], 3)]
    for c, l in reps.items():
        for i in l:
            if i not in by[c]:
                raise vlib.Machinery("representative id %s is not of class %s any more: %r" % (i, c, by[c]))

    # ---- model checking: the repaired mechanism satisfies the invariants; the mechanism with RemoveSNIExtension as a
    # mere flag does not (sensitivity of EditsVisible); paths
    def mc_asis():
        asis = ctx.tlc("UConnBuild_MC", cfg="UConnBuild_MC_asis", workers=2, timeout=600)
        if "EditsVisible" not in asis.violated:
            raise vlib.Machinery("UConnBuild_MC_asis: EditsVisible is expected to fail for the flag-only RemoveSNIExtension, TLC says %r" % asis.violated)
        return []
    # SNI configuration: SetSNI over every argument class (other name, same name, IPv4 / IPv6 literals, "", trailing dot,
    # 253 bytes), the direct edit of SNIExtension.ServerName, RemoveSNIExtension; sequences of length <= 2
    # "brk" configuration: edits that make the hello unbuildable (+ SetClientRandom, ExtInsert), PSK parrots without
    # OmitEmptyPsk: Handshake must return the build error and write nothing
    brk = lambda: gen_paths(ctx, "UConnBuild_MC_brk", 2, 900)[0]
    # "inp" configuration: same-length edits in place of extension objects already in the list (+ SetClientRandom, SetSNI)
    inp = lambda: gen_paths(ctx, "UConnBuild_MC_inp", 2, 900)[0]
    # "two" configuration: a second connection built from the same spec value / from a spec sharing its slices acts
    # (build, in-place cipher-suite edit) between the build and the handshake of the connection under test
    two = lambda: gen_paths(ctx, "UConnBuild_MC_two", 2, 900)[0]
    sni = lambda: gen_paths(ctx, "UConnBuild_MC_sni" if ctx.quick else "UConnBuild_MC_sni_full", 4, 1500)[0]
    if ctx.quick:
        jobs = [mc_asis, lambda: gen_paths(ctx, "UConnBuild_MC", 9, 1500)[0], lambda: gen_paths(ctx, "UConnBuild_MC_nosess", 2, 600)[0], sni, brk, inp, two]
    else:
        jobs = [mc_asis, lambda: gen_paths(ctx, "UConnBuild_MC_deep", 10, 3000)[0], lambda: gen_paths(ctx, "UConnBuild_MC_alt", 3, 1500)[0], sni, brk, inp, two]
    with cf.ThreadPoolExecutor(max_workers=7) as ex:
        _, paths, deep_paths, sni_paths, brk_paths, inp_paths, two_paths = [f.result() for f in [ex.submit(j) for j in jobs]]
    if ctx.quick:
        inp_paths = [p for p in inp_paths if p["server"] == "plain" or nmut(p) <= 1]
    brk_paths = brk_paths + inp_paths
    # the second connection needs a caller-applied spec: only the hand-written custom spec
    two_scns = [dict(p, id="Custom") for p in two_paths]
    reps["pskstrict"], by["pskstrict"] = reps["psk"], by["psk"]
    if ctx.quick:
        sni_paths = [p for p in sni_paths if p["mode"] != "both" and
                     (p["server"] == "plain" or (p["server"] == "hrr" and p["mode"] == "before" and nmut(p) <= 1))]
    lap("model checking done")
    scns = []
    def add(p, i):
        s = dict(p)
        s["id"] = i
        s["sc"] = len(scns)
        scns.append(s)
    for p in paths + deep_paths + sni_paths + brk_paths:
        for i in reps[p["cls"]]:
            add(p, i)
    if not ctx.quick:
        for p in sni_paths + brk_paths:
            if p["server"] == "plain":
                for i in by[p["cls"]]:
                    if i not in reps[p["cls"]]:
                        add(p, i)
        # every other id: all paths with at most two mutators (all build modes, all servers)
        for p in paths + deep_paths:
            if nmut(p) <= 2:
                for i in by[p["cls"]]:
                    if i not in reps[p["cls"]]:
                        add(p, i)
    for t in two_scns:
        t["sc"] = len(scns)
        scns.append(t)
    by_sc = scns

    # ---- replay + validation, chunk by chunk (harness process -> TLC process), several chunks side by side
    par = 12
    waves = max(1, -(-len(scns) // (par * 2500)))
    per = max(200, -(-len(scns) // (par * waves)))        # equal chunks, a whole number of waves
    chunks = [scns[i:i + per] for i in range(0, len(scns), per)]
    ctx.build(prog=PROG)
    totals, rejs, samples, material, material2, outcome = {}, [], [], [], [], {}

    def one(k):
        gs, rej, st = replay_and_validate(ctx, chunks[k], "c%d" % k)
        mat = next((s for s, g in zip(chunks[k], gs) if is_canary_material(s, g)), None)
        mat2 = next((g for s, g in zip(chunks[k], gs) if is_refused_material(s, g)), None)
        res = {}
        for g in gs:
            res[g[0]["sc"]] = {"cerr": g[-1].get("cerr", ""), "cok": g[-1].get("cok", False), "hrr_group": g[0].get("hrr_group", 0)}
        return rej, st, mat, res, mat2

    with cf.ThreadPoolExecutor(max_workers=par) as ex:
        for rej, st, mat, res, mat2 in ex.map(one, range(len(chunks))):
            rejs += rej
            for k, v in st.items():
                totals[k] = totals.get(k, 0) + v
            if mat is not None and len(material) < 1:
                material.append(mat)
            if mat2 is not None and len(material2) < 1:
                material2.append(mat2)
            outcome.update(res)
    ctx.traces += len(scns)
    lap("replay and validation done")

    # ---- rejections: reproduce each rejected scenario alone in a fresh process, then classify
    machinery = [r for r in rejs if not (r[1] in VIOLATION_KINDS or (r[1] == "order" and r[2] in VIOLATION_ORDER))]
    if machinery:
        raise vlib.Machinery("events the trace specification could not bind: %r" % machinery[:5])
    nrej = len(rejs)
    bysig = {}
    for r in rejs:
        s = by_sc[r[0]]
        sig = "%s:%s:%s:%s" % (r[1], r[2], s["mode"], "custom" if s["cls"] == "custom" else "byid")
        bysig.setdefault(sig, []).append(r[0])
    for sig, scs in sorted(bysig.items()):
        scs = sorted(set(scs))
        pick = scs[:40]
        again = [dict(by_sc[x], sc=j) for j, x in enumerate(pick)]
        gs, rej2, _ = replay_and_validate(ctx, again, "repro%d" % (abs(hash(sig)) % 100000), full=True)
        kind, detail = sig.split(":")[0], sig.split(":")[1]
        ok = sorted({r[0] for r in rej2 if r[1] == kind and r[2] == detail})
        if not ok:
            raise vlib.Machinery("rejection %s (%d scenarios) did not reproduce in a fresh process" % (sig, len(scs)))
        j = ok[0]
        g = gs[j]
        ctx.finding(sig, "%s: %s (%d of %d rejected scenarios re-run, %d rejected again; first: %s)"
                    % (kind, explain(kind, detail), len(pick), len(scs), len(ok), json.dumps(brief(by_sc[pick[j]]))),
                    {"scenario": by_sc[pick[j]], "events": [slim(e) for e in g], "ids": sorted({by_sc[x]["id"] for x in scs})[:50]})
        for _ in range(len(scs) - 1):
            ctx.findings.append(dict(ctx.findings[-1]))

    # ---- honesty: vacuity and canary (after the findings: a broken tree must not end as a machinery error)
    need = MUTATORS + CLAIMS + ["Build", "BuildNoSess", "ApplyPreset", "rebuilt", "ch1", "ch2", "hrr", "hrr_cookie", "done", "done_hrr", "seeded", "psk", "sni_literal", "refused", "unbuildable", "build_failed", "inplace_found", "BBuild", "BPoke"]
    missing = [k for k in need if totals.get(k, 0) == 0]
    if missing and not ctx.findings:
        raise vlib.Machinery("vacuous: never exercised / never judged: %r (statistics %r)" % (missing, totals))
    why = "no accepted scenario with an explicit build, SetClientRandom and a retried hello is available"
    if material:
        # the same scenario once more, every byte string logged in full: the canary corrupts recorded bytes
        _, gs = replay(ctx, [dict(material[0], sc=0)], "canary_material", True)
        why = canary(ctx, gs[0]) if is_canary_material(material[0], gs[0]) else "the canary scenario did not complete again"
    if not why:
        why = canary_refused(ctx, material2[0]) if material2 else "no accepted scenario with a refused handshake is available"
    if why and not ctx.findings:
        raise vlib.Machinery("binding canary: " + why)
    if totals.get("rebuilt", 0) != len(scns) and not ctx.findings:
        # every scenario has a server name and a usable spec: the internal rebuild must have been observed each time
        noreb = len(scns) - totals.get("rebuilt", 0)
        ctx.note("%d scenarios never reached the internal rebuild (BuildHandshakeState failed before the handshake)" % noreb)

    failed = {}
    for sc, o in outcome.items():
        if not o["cok"]:
            s = by_sc[sc]
            k = "%s/%s: %s" % (s["mode"], s["cls"], o["cerr"][:70])
            failed[k] = failed.get(k, 0) + 1
    top_failed = dict(sorted(failed.items(), key=lambda kv: -kv[1])[:8])
    judged = totals.get("ch1", 0)
    cov = {"evaluations": len(scns),
           "distinct_nontrivial": judged,
           "rule": "one evaluation = one TLC-generated path (mutator sequence of length <= %d x build mode x server x class) replayed on one real "
                   "UConn of a ClientHelloID of that class and judged by TLC; non-trivial = the replay put a ClientHello on the wire, so "
                   "that WireIsRaw and EditsVisible were evaluated on recorded bytes (paths are distinct by construction; the rest failed before sending)"
                   % (3 if ctx.quick else 4),
           "paths_from_model": len(paths) + len(deep_paths) + len(sni_paths) + len(brk_paths),
           "second_connection_steps": {k: totals.get(k, 0) for k in ("BBuild", "BPoke")},
           "in_place_edits_claimed": totals.get("inplace_found", 0),
           "unbuildable_hellos": {k: totals.get(k, 0) for k in ("Break", "refused", "unbuildable", "build_failed", "build_err_unexplained")},
           "sni_claims_of_a_literal_or_empty_name_judged": totals.get("sni_literal", 0), "ids": sorted({s["id"] for s in scns}), "n_ids": len({s["id"] for s in scns}),
           "claims_judged_by_kind": {k: totals.get(k, 0) for k in CLAIMS},
           "calls_by_kind": {k: totals.get(k, 0) for k in MUTATORS + ["Build", "BuildNoSess", "ApplyPreset"]},
           "edits_made_on_an_unprotected_hello_not_claimed": totals.get("unprotected", 0),
           "handshakes": {k: totals.get(k, 0) for k in ("ch1", "hrr", "hrr_cookie", "ch2", "done", "done_hrr", "failed")},
           "rebuilt_hellos_with_pre_shared_key": totals.get("psk", 0),
           "failed_handshakes_not_judged": top_failed,
           "rejections": nrej, "model_asis_counterexample": "EditsVisible violated by Build; RemoveSNI; Handshake when RemoveSNIExtension only sets a flag",
           "samples": [brief(s) for s in (scns[1], scns[len(scns) // 2], scns[-1])], "exhaustive": False}
    return "model_checking", cov, [
        "hook H1 reports Hello.Raw right after the internal BuildHandshakeState; the recording transport sees every byte the client writes",
        "the abstract content model of UConnBuild_MC (what ApplyPreset / MarshalClientHello do) is checked against the code only through the replayed paths",
        "edits made before BuildHandshakeState, or after BuildHandshakeStateWithoutSession only, are overwritten by the preset as documented and are not claimed",
        "a failing handshake is not judged here (C10/C19/C20)"]


def explain(kind, detail):
    if kind == "EditsVisible":
        return {"nosni": "RemoveSNIExtension was called on a built hello but the rebuilt Hello.Raw still carries server_name",
                "random": "the client random set with SetClientRandom is not in the rebuilt Hello.Raw",
                "sni": "the name given to SetSNI / assigned to SNIExtension.ServerName is not what the rebuilt Hello.Raw indicates (hostnameInSNI: literals and the empty name mean no server_name extension)",
                "suites": "Hello.CipherSuites as edited is not the cipher suite list of the rebuilt Hello.Raw",
                "sid": "Hello.SessionId as edited is not the session id of the rebuilt Hello.Raw",
                "ext": "an extension inserted / changed in UConn.Extensions is not in the rebuilt Hello.Raw with that body",
                "noext": "an extension removed from UConn.Extensions is still in the rebuilt Hello.Raw",
                "front": "the extensions inserted at the head of UConn.Extensions do not lead the rebuilt Hello.Raw"}.get(detail, detail)
    if kind == "WireIsRaw":
        return ("the first ClientHello record differs from Hello.Raw as rebuilt at handshake start" if detail.startswith("first")
                else "a ClientHello record differs from what Hello.Raw held when it was written")
    if kind == "RawIsLastSent":
        return "after Handshake, Hello.Raw is not the last ClientHello sent (%s)" % detail
    if kind == "RebuildMustFail":
        return ("the hello cannot be marshalled any more (an edit after the build, or an empty PSK without OmitEmptyPsk): the build / "
                "Handshake has to return that error, write no ClientHello and leave Hello.Raw alone, but: " + detail)
    if kind == "norm":
        return "hostnameInSNI does not just drop the trailing dots of a host name"
    return "a ClientHello record was written that no step of the life-cycle explains (%s)" % detail


def slim(e):
    r = dict(e)
    if "raw" in r and len(r["raw"]) > 64:
        r["raw"] = r["raw"][:64] + ["..."]
    return r
