"""C17 - a HelloRetryRequest changes only what RFC 8446 allows.
TLA+: spec/Negotiation.tla CH2Problems / CheckHRR, NegoMC Mode c17 (valid HRRs: every offered classical group without a
share x cookie {none, 1, 255 bytes}) plus the invalid HRR selections of Mode c12, NegoTrace kinds ch2 / safety / progress."""
import nego_common as nc, vlib

def run(ctx):
    def partner(i):
        return "Firefox-120" if i.startswith("Chrome") or i.startswith("Edge") else "Chrome-120"
    def with_interleave(xs):
        # the same HelloRetryRequests while another fingerprint is built on the same *Config between the first
        # ClientHello and the server's answer (what the hello offered, not what a shared Config says now, is what counts)
        seen, out = set(), list(xs)
        for x in xs:
            if (x["id"], x["group"], x.get("hrr_group", 0), x.get("force_group", 0)) in seen or x["hrr_cookie"] not in (0,):
                continue
            seen.add((x["id"], x["group"], x.get("hrr_group", 0), x.get("force_group", 0)))
            out.append(dict(x, interleave_id=partner(x["id"])))
        return out
    scns, events, rej, unadv, mc = nc.run_nego(ctx, "c17", shards=8, subset=with_interleave)
    for r in rej:
        d = nc.sig_detail(r["detail"])
        s = r["scn"]
        if r["kind"] in ("order", "timeout", "calibration"):
            raise vlib.Machinery("trace problem: %r" % (r,))
        if r["kind"] == "ch2":
            ctx.finding("ch2:%s:%s" % (d, s["id"]), "second ClientHello of %s deviates from the first beyond key_share/cookie/padding: %s" % (s["id"], d),
                        {"scenario": nc.scn_brief(s), "result": r["result"]})
        elif r["kind"] == "progress":
            ctx.finding("hrr-progress:%s:%s" % (d, s["id"]), "handshake of %s does not complete after a valid HelloRetryRequest: %s (%s)" % (s["id"], d, (r["result"] or {}).get("cerr")),
                        {"scenario": nc.scn_brief(s), "result": r["result"]})
        elif r["kind"] == "safety" and "hrr" in d:
            ctx.finding("hrr-safety:%s:%s" % (d, s["id"]), "client went on after an invalid HelloRetryRequest: %s" % d, {"scenario": nc.scn_brief(s)})
    # invalid HRR selections (unoffered group, already shared group): from the adversarial grid
    def only_hrr(xs):
        return with_interleave([x for x in xs if x["hrr_group"] or (x["force_group"] and x["ver"] == 772)])
    scns2, events2, rej2, _, _ = nc.run_nego(ctx, "c12", subset=only_hrr, shards=4)
    for r in rej2:
        d = nc.sig_detail(r["detail"])
        if r["kind"] == "safety":
            ctx.finding("hrr-safety:%s:%s" % (d, r["scn"]["id"]), "client went on after an invalid HelloRetryRequest: %s" % d, {"scenario": nc.scn_brief(r["scn"])})
        elif r["kind"] in ("order", "timeout"):
            raise vlib.Machinery("trace problem: %r" % (r,))
    res = {e["sc"]: e for e in events if e["ev"] == "Result"}
    two = sum(1 for s in scns if res[s["sc"]]["nch"] == 2 and res[s["sc"]]["cok"])
    cookies = sum(1 for s in scns if s["hrr_cookie"] and res[s["sc"]]["cok"])
    inval = sum(1 for e in events2 if e["ev"] == "Result" and not e["cok"])
    if (two == 0 or cookies == 0 or inval == 0) and not ctx.findings:
        # (with findings on record the missing class is explained by them: report those, not a vacuous run)
        raise vlib.Machinery("vacuous: completed-after-hrr=%d with-cookie=%d invalid-hrr-aborts=%d" % (two, cookies, inval))
    cov = {"evaluations": len(scns) + len(scns2), "distinct_nontrivial": len(scns) + len(scns2),
           "rule": "per TLS 1.3 parrot: every offered classical group without a share x cookie length {0,1,255} (hooks H5/H6), both ClientHellos diffed by TLC (CH2Problems); plus HRRs naming an unoffered or already shared group; distinct = scenarios",
           "samples": [nc.scn_brief(s) for s in scns[:2]] + [nc.scn_brief(s) for s in scns2[:1]],
           "completed_after_hrr": two, "completed_with_cookie": cookies, "invalid_hrr_aborted": inval, "exhaustive": True}
    return "model_checking", cov, ["PSK and real-ECH hellos are out of the property's scope (C19, C15)", "hybrid groups are out of scope by the statement"]
