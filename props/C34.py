"""C34 - arbitrary (structured) client input never crashes or hangs the server.
Same engine as C33 with the roles swapped: the uTLS client's outgoing handshake messages are rewritten
(VerifOverride.Outgoing on the client's Config) against tls.Server of the same package."""
import random
import flight, vlib


def cases_for(ctx):
    ids = flight.parrots(ctx)
    rep = [("Chrome-133", ["mtls", "alps", "cku", "echkeys"]), ("Firefox-120", ["hrr"]), ("Chrome-58", ["v12", "mtls"]),
           ("Chrome-100_PSK", ["psk"]), ("iOS-14", []), ("Firefox-120", ["v12"])]
    if ctx.quick:
        rnd = random.Random(ctx.seed)
        rep.append((rnd.choice([i for i in ids if i not in {p for p, f in rep}]), []))
        sel = rep
    else:
        sel = list(rep)
        for i in ids:
            for fl in ([], ["hrr"], ["v12", "mtls"], ["mtls", "alps", "cku", "echkeys"]):
                if (i, fl) not in sel:
                    sel.append((i, fl))
            if "PSK" in i:
                sel.append((i, ["psk"]))
    # the first ClientHello of a parrot is mutated once (in its first case); the other cases of the same parrot
    # start at the second client message
    seen, out = set(), []
    for p, f in sel:
        out.append({"name": "%s[%s]" % (p, "+".join(f)), "parrot": p, "flags": f, "from": 2 if (p in seen and "psk" not in f) else 1})
        seen.add(p)
    # the server configuration dimension: ECH-enabled servers (one / two configs) receive the ClientHello again, mutated
    # inside its encrypted_client_hello extension only (the rest of the hello was mutated in the parrot's first case)
    ech = ["Firefox-120", "Chrome-120"] if ctx.quick else ids
    for p in ech:
        for fl in (["echkeys"], ["echkeys2"]):
            if (p, fl) != ("Chrome-120", ["echkeys"]) or not ctx.quick:
                out.append({"name": "%s[%s]" % (p, "+".join(fl)), "parrot": p, "flags": fl, "from": 1, "focus": 65037})
    # post-handshake phase with the roles swapped: client sequences x server->client transport x server Read/Write/Close
    for c in out:
        if c["flags"] == [] and (c["parrot"] == "iOS-14" or not ctx.quick):
            c["post"] = 2
        if c["parrot"] == "Chrome-133" and "cku" in c["flags"]:
            c["post"] = 2 if ctx.quick else 3
    for c in out:
        if (c["parrot"], c["flags"]) in (("Chrome-58", ["v12", "mtls"]), ("Firefox-120", ["v12"]), ("iOS-14", [])):
            c["recs"] = True   # raw records in place of the client's Finished record (TLS 1.2) / after the handshake
    # the same raw records under every TLS <= 1.2 cipher suite class (AEAD with explicit nonce, AEAD without, CBC, 3DES)
    suites = ["c02f", "cca8", "c013", "000a"] if ctx.quick else ["c02f", "c030", "cca8", "c013", "009c", "002f", "000a"]
    for p in (["Chrome-58"] if ctx.quick else ["Chrome-58", "Firefox-120", "iOS-14"]):
        for cs in suites:
            out.append({"name": "%s[v12+cs=%s]" % (p, cs), "parrot": p, "flags": ["v12", "cs=" + cs], "from": 99, "recs": True})
    return out


def run(ctx):
    cov = flight.run_connection_family(ctx, "C34", "c", cases_for(ctx), deadline_ms=700)
    return "exploration", cov, [
        "only STRUCTURED hostile input is explored: one grammar-node mutation or one inserted message per connection, derived from the captured flights of real parrots; arbitrary byte streams, raw records and coverage-guided fuzzing are not covered by this technique family",
        "a mutated ClientHello is the captured hello of the parrot (sent in place of the live one, because shuffling parrots change layout per connection); later client messages are mutated live with consistent transcripts",
        "raw records: content types {0,20,21,22,23,24,255} x body 0..20 bytes sent by the client in place of its Finished record after ChangeCipherSpec (TLS 1.2, one case per cipher suite class: AES-GCM, ChaCha20-Poly1305, AES-CBC, 3DES) and right after the completed handshake (TLS 1.2 and 1.3)",
        "post-handshake phase: after a TLS 1.3 handshake + ping/pong the client sends every sequence (bounded length) over {KeyUpdate requested / not requested, application data, a record that does not authenticate, raw garbage, close}, never reads again, the server's outgoing direction is ok / blocked until the deadline / failing, then the server calls Read (until an error), Write, Close (Close may take the library's 5 s close_notify allowance)",
        "server configuration: plain servers and ECH-enabled servers (Config.EncryptedClientHelloKeys with one / two configs, ids 7 and 107); the ClientHello's encrypted_client_hello extension is mutated with registry-id values for kdf_id / aead_id, config_id equal and unequal to the server's, enc and payload resized to boundary lengths (0, 31, 32, 33, ...), so that the server's HPKE setup is reached",
        "uTLS never sends a client CompressedCertificate; that kind (and client EncryptedExtensions where not negotiated) reaches the server only through the insert operator, at every server state",
        "deadline verdicts: transport deadline %d ms, tolerance 1000 ms, watchdog 3 s later; allocation verdicts as in C33" % cov["deadline_ms"],
        "TLC, the Go toolchain and the hooks' faithful placement are trusted",
    ]
