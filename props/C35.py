"""C35 - session tickets are authenticated and round-trip; TicketKeyFromBytes; forged ClientSessionState.

TLA+: spec/Tickets.tla (key list incl. automatic rotation, tickets as <<sealing key, state>> + modifications,
Decrypt / Indep results, ForgeOutcome), spec/Tickets_MC.tla (all histories of length L, scenario emission; the grid of
forged sessions), spec/Tickets_Trace.tla (validation of what the real API did).  Harness: harness/cmd/lru
(commands tickets, forge) - performs and logs, compares nothing.

 1. TLC enumerates every history of L steps over {SetKeys, Advance, Encrypt, Flip, Truncate, Extend, Decrypt, Indep}
    and checks the model invariants; histories ending in an observation are replayed on the real
    Config.EncryptTicket/DecryptTicket/SetSessionTicketKeys/TicketKeyFromBytes, the recorded results (did a state come
    back, its SessionState.Bytes()) are judged by TLC.
 1b. values kept by the caller (spec/Tickets_Hold.cfg): all histories over {Encrypt, Decrypt, Recheck, Reread} with states of equal and of
    different sizes - the state object a DecryptTicket returned and the slice an EncryptTicket returned are re-examined after later calls
    (Tickets!Recheck / Reread: they must still be what they were).
 2. random long histories (TLC -simulate) over more keys / states; exhaustive single-bit and prefix sweeps of real tickets.
 3. the TLC-enumerated grid of forged ClientSessionStates (TLS 1.0-1.2 master secrets, TLS 1.3 PSKs of every 1.3 suite, secret via
    constructor or SetMasterSecret) is handshaken against the in-tree server with known keys; MasterSecret() accessor round trip
    for secret lengths 0..64.
"""
import concurrent.futures as cf
import re
import vlib

NEED = ["TSetKeys", "TAdvance", "TEncrypt", "TFlip", "TTruncate", "TExtend", "TDecryptOpens", "TDecryptKeyGone",
        "TDecryptModified", "TIndepOpens", "TIndepRefuses", "TRecheck", "TReread"]
NEED_FORGE = ["TForgeResumed", "TForgeResumed13", "TForgeNotResumed", "TSecret"]


def _cfg(ctx, name, base, **repl):
    txt = open("%s/%s.cfg" % (ctx.scratch, base)).read()
    for k, v in repl.items():
        txt, n = re.subn(r"(?m)^(\s*%s\s*=).*$" % k, r"\1 %s" % v, txt)
        if n != 1:
            raise vlib.Machinery("cfg %s: constant %s not found" % (base, k))
    open("%s/%s.cfg" % (ctx.scratch, name), "w").write(txt)
    return name


def _validate(ctx, tag, events, coverage=False, count=True):
    mod = "Tickets_Trace_%s" % tag
    src = open(ctx.scratch + "/Tickets_Trace.tla").read()
    src = src.replace("MODULE Tickets_Trace", "MODULE " + mod).replace("tickets_trace.ndjson", "tickets_trace_%s.ndjson" % tag)
    open("%s/%s.tla" % (ctx.scratch, mod), "w").write(src)
    ctx.write_ndjson("tickets_trace_%s.ndjson" % tag, events)
    res = ctx.tlc(mod, cfg="Tickets_Trace", coverage=coverage, timeout=1700, count=count)
    done = res.tagged("DONE")
    if not done or done[0] != len(events):
        raise vlib.Machinery("Tickets_Trace(%s) did not consume the whole batch (%r of %d events)\n%s" % (tag, done, len(events), res.out[-1500:]))
    if res.violated:
        raise vlib.Machinery("Tickets_Trace(%s): unexpected TLC violation %r" % (tag, res.violated))
    return set(res.tagged("OK")), {r["id"]: r for r in res.tagged("REJ")}, res


def _split(events):
    d, cur = {}, None
    for e in events:
        if e["ev"] == "Reset":
            cur = d.setdefault(e["id"], [])
        cur.append(e)
    return d


def _sharded(ctx, tag, events, nshards, coverage=False):
    per = _split(events)
    ids = list(per.keys())
    if not ids:
        raise vlib.Machinery("no executions recorded for " + tag)
    nshards = max(1, min(nshards, len(ids)))
    parts = [[] for _ in range(nshards)]
    for n, i in enumerate(ids):
        parts[n * nshards // len(ids)].extend(per[i])
    ok, rejs, cov = set(), {}, {}
    with cf.ThreadPoolExecutor(max_workers=nshards) as ex:
        for o, r, res in ex.map(lambda k: _validate(ctx, "%s%d" % (tag, k), parts[k], coverage), range(nshards)):
            ok |= o
            rejs.update(r)
            for a, c in res.coverage.items():
                cov[a] = cov.get(a, 0) + c
    rejected = [i for i in ids if i not in ok]
    for i in rejected:
        if i not in rejs:
            raise vlib.Machinery("execution %r neither accepted nor rejected by Tickets_Trace" % i)
    return per, rejected, rejs, cov


def _sig(r):
    w = r["why"]
    if r["kind"] in ("Decrypt", "Indep"):
        if w["implok"] and not w["modelok"]:
            d = "opened-" + ("modified" if not w["intact"] else "without-key")
        elif not w["implok"] and w["modelok"]:
            d = "refused-intact-ticket"
        else:
            d = "state-differs"
        return "%s:%s" % (r["kind"], d)
    if r["kind"] == "Forge":
        return "Forge:%s" % ("resumed-with-other-parameters" if not w["carries"] else
                              ("accepted-ticket-did-not-resume" if w["accepted"] else "outcome"))
    if r["kind"] == "Recheck":
        return "Recheck:state-returned-by-DecryptTicket-changed-later:%s" % ("became-another-session" if w["becameOther"] else "garbled")
    if r["kind"] == "Reread":
        return "Reread:ticket-returned-by-EncryptTicket-changed-later"
    if r["kind"] == "Secret":
        return "Secret:MasterSecret()-differs-from-supplied:via=%s:len=%d->%d" % (w["secvia"], w["suppliedlen"], w["gotlen"])
    return "%s:unexplained" % r["kind"]


def _short(e):
    return {k: (v if not isinstance(v, list) or len(v) <= 8 else "<%d bytes>" % len(v)) for k, v in e.items()}


def _lap(ctx, what):
    import time
    now = time.time()
    ctx.laps.append((what, round(now - ctx.lap0, 1)))
    ctx.lap0 = now


def run(ctx):
    import time
    ctx.laps, ctx.lap0 = [], time.time()
    q = ctx.quick
    vacuous = []        # needed spec branches that no recorded event matched (judged at the end, see _vacuity)
    assumptions = [
        "session states are valid encodings (secret of 1..255 bytes); they are built through MakeClientSessionState + setters + Extra/EarlyData",
        "ticket keys are SHA-256 derived 32-byte strings per key id; automatic keys come from the library's own randomness",
        "the 'Indep' observation opens a ticket in the harness with HMAC-SHA256/AES-CTR from the Go standard library and the public "
        "TicketKey fields; whether it should open and what it should contain is decided by TLC",
        "forged sessions: TLS 1.0-1.3 against the in-tree server (tls.Server) with known ticket keys; the ticket's secret is spliced into "
        "SessionState.Bytes() at its documented offset (not built through the constructor under test); TLS 1.3: the verif hook ForceSuite13 makes "
        "the server pick the session's suite, and the PSK binder check is the witness for the secret; TLS <= 1.2: master secrets are read from the "
        "session the client stores after the handshake and from the state the server hands to WrapSession",
        "'unmodified' excludes the 2^-8 chance per byte that an appended byte restores a cut one (Extend is never applied to a cut ticket)",
    ]
    # ------------------------------------------------------------------ 1. all histories
    L = 4 if q else 5
    mc = ctx.tlc("Tickets_MC", cfg=_cfg(ctx, "Tickets_MC_run", "Tickets_MC", MaxLen=L), workers=4 if q else 8, timeout=1500)
    if mc.violated:
        raise vlib.Machinery("Tickets_MC: model-level invariant %r violated" % mc.violated)
    scen = [dict(s, id=i + 1) for i, s in enumerate(mc.tagged("SCN"))]
    nexh = len(scen)
    if nexh < 1000:
        raise vlib.Machinery("Tickets_MC emitted only %d scenarios" % nexh)
    # values kept by the caller: all histories over {Encrypt, Decrypt, Recheck, Reread} with several states (same / different sizes):
    # a state DecryptTicket returned, and a ticket EncryptTicket returned, are re-examined after later calls
    LH = 5 if q else 6
    hold = ctx.tlc("Tickets_MC", cfg=_cfg(ctx, "Tickets_Hold_run", "Tickets_Hold", MaxLen=LH, States="{21, 22, 3}" if q else "{21, 22, 3, 5}"),
                   workers=4 if q else 8, timeout=1500)
    if hold.violated:
        raise vlib.Machinery("Tickets_MC (hold): model-level invariant %r violated" % hold.violated)
    hs = hold.tagged("SCN")
    nhold = len(hs)
    if nhold < 1000 or not any(sum(1 for o in h["ops"] if o["op"] == "Decrypt") >= 2 and h["ops"][-1]["op"] == "Recheck" for h in hs):
        raise vlib.Machinery("Tickets_MC (hold) emitted %d scenarios, none re-examining a state after a second DecryptTicket" % nhold)
    scen += [dict(h, id=len(scen) + i + 1) for i, h in enumerate(hs)]
    _lap(ctx, "model checking")
    # ------------------------------------------------------------------ 2. random long histories, more keys and states
    sims = []
    for (keys, states, ln, num) in ([("{1, 2, 3}", "{1, 2, 3, 4}", 12, 40)] if q else
                                    [("{1, 2, 3}", "{1, 2, 3, 4, 5, 6, 7, 8}", 14, 600), ("{1, 2}", "{9, 10, 11, 12, 13, 14, 15, 16, 17, 18, 19, 20}", 25, 200)]):
        cn = _cfg(ctx, "Tickets_MC_sim%d" % len(sims), "Tickets_MC", MaxLen=ln, KeyIds=keys, States=states, MaxTix=8,
                  Bits="{0, 5, 127, 128, 300, 1000000, 1000002, 1000255, 1000256}", Cuts="{1, 31, 32, 33, 1000}", Hours="{1, 23, 25, 100, 170}")
        sm = ctx.tlc("Tickets_MC", cfg=cn, simulate="num=%d" % num, depth=ln + 1, extra=["-seed", str(ctx.seed)], timeout=1500)
        if sm.violated:
            raise vlib.Machinery("Tickets_MC simulation: model-level invariant %r violated" % sm.violated)
        got = sm.tagged("SCN")
        sims.append(dict(keys=keys, states=states, length=ln, histories=len(got)))
        scen += [dict(s, id=len(scen) + i + 1) for i, s in enumerate(got)]
    if sum(s["histories"] for s in sims) < 20:
        raise vlib.Machinery("Tickets_MC simulation emitted too few histories: %r" % sims)
    # exhaustive single-bit / prefix sweeps of real tickets (the events are judged one by one like all others)
    sweeps = []
    for st, stride in ([(1, 1)] if q else [(1, 1), (2, 1), (3, 7), (5, 7), (8, 11), (13, 13)]):
        for pre in ([], [{"op": "SetKeys", "keys": [1, 2]}]):
            sweeps.append({"id": len(scen) + len(sweeps) + 1, "ops": pre + [{"op": "Encrypt", "st": st}, {"op": "FlipAll", "src": 1, "n": stride}]})
            sweeps.append({"id": len(scen) + len(sweeps) + 1, "ops": pre + [{"op": "Encrypt", "st": st}, {"op": "TruncateAll", "src": 1, "n": stride}]})
    scen += sweeps
    byid = {s["id"]: s for s in scen}
    _lap(ctx, "simulation")
    evs = ctx.drv("tickets", {"scenarios": scen}, prog="lru", name="tickets")
    _lap(ctx, "ticket replay")
    per, rejected, rejs, cov = _sharded(ctx, "t", evs, 4 if q else 12, coverage=True)
    ctx.traces += len(per)
    for a in NEED:
        if cov.get(a, 0) == 0:
            vacuous.append("vacuity: trace action %s never matched a recorded event" % a)

    _lap(ctx, "ticket validation")
    # ------------------------------------------------------------------ 3. forged client sessions
    fg = ctx.tlc("Tickets_MC", cfg=_cfg(ctx, "Tickets_Forge_run", "Tickets_Forge",
                                        **({"Suites": "{49199, 49171}", "Hellos": '{"Golang-0", "Chrome-100"}',
                                            "Hellos13": '{"Golang-0"}', "ExtraLens13": "{1, 64}"} if q else {})), timeout=600)
    cases = [dict(g, id=i + 1) for i, g in enumerate(fg.tagged("FRG"))]
    if len(cases) < 100:
        raise vlib.Machinery("Tickets_MC (forge) emitted only %d cases" % len(cases))
    n13 = sum(1 for c in cases if c["vers"] == 772)
    if n13 < 50:
        raise vlib.Machinery("Tickets_MC (forge) emitted only %d TLS 1.3 cases" % n13)
    # the accessor round trip: MasterSecret() of a state whose secret (lengths from TLC) went through the constructor / setter
    secs = [dict(g, id=len(cases) + i + 1) for i, g in enumerate(fg.tagged("SEC"))]
    if len(secs) < 16:
        raise vlib.Machinery("Tickets_MC (forge) emitted only %d accessor cases" % len(secs))
    fevs = ctx.drv("forge", {"cases": cases}, prog="lru", name="forge")
    fevs += ctx.drv("secrets", {"cases": secs}, prog="lru", name="secrets")
    fper, frejected, frejs, fcov = _sharded(ctx, "f", fevs, 1 if q else 4, coverage=True)
    ctx.traces += len(fper)
    for a in NEED_FORGE:
        if fcov.get(a, 0) == 0:
            vacuous.append("vacuity: trace action %s never matched a recorded handshake" % a)
    cbyid = {c["id"]: c for c in cases}
    sbyid = {c["id"]: c for c in secs}

    _lap(ctx, "forge grid, handshakes, validation")
    # ------------------------------------------------------------------ reproduce rejections in a fresh process
    groups = {}
    for i in rejected:
        groups.setdefault(_sig(rejs[i]), []).append((len(per[i]), i))
    for s, lst in sorted(groups.items()):
        lst.sort()
        cand = [dict(byid[i], id=n + 1) for n, (_, i) in enumerate(lst[:3])]
        ev1 = ctx.drv("tickets", {"scenarios": cand}, prog="lru", name="tickets_re")
        ok1, rej1, _ = _validate(ctx, "re", ev1, count=False)
        hit = [c for c in cand if c["id"] not in ok1 and _sig(rej1[c["id"]]) == s]
        if not hit:
            raise vlib.Machinery("ticket rejection %s not reproduced in a fresh process" % s)
        c = hit[0]
        r = rej1[c["id"]]
        es = _split(ev1)[c["id"]]
        what = "history %s: event %d %s is not explained by Tickets (%s)" % (c["ops"], r["at"], _short(es[r["at"]]), r["why"])
        for _ in lst:
            ctx.finding(s, what, {"scenario": c, "events": [_short(e) for e in es], "rejection": r})
    fgroups, sgroups = {}, {}
    for i in frejected:
        if i in sbyid:
            sgroups.setdefault(_sig(frejs[i]), []).append(i)
            continue
        c = cbyid[i]
        o = fper[i][1].get("o", {})
        cls = "client-panic" if "panic" in o.get("cerr", "") else _sig(frejs[i]).split(":", 1)[1]
        s = "Forge:%s:tls%s:via=%s:certs=%s" % (cls, "1.3" if c["vers"] == 772 else "1.0-1.2", c["via"], "given" if c["certs"] else "none")
        fgroups.setdefault(s, []).append(i)
    for s, lst in sorted(sgroups.items()):
        cand = [dict(sbyid[i], id=n + 1) for n, i in enumerate(lst[:3])]
        ev1 = ctx.drv("secrets", {"cases": cand}, prog="lru", name="secrets_re")
        ok1, rej1, _ = _validate(ctx, "sre", ev1, count=False)
        hit = [c for c in cand if c["id"] not in ok1 and _sig(rej1[c["id"]]) == s]
        if not hit:
            raise vlib.Machinery("accessor rejection %s not reproduced in a fresh process" % s)
        c = hit[0]
        e = _split(ev1)[c["id"]][1]
        what = ("a %d-byte secret supplied through %s comes back from ClientSessionState.MasterSecret() as %d bytes %s"
                % (len(e["supplied"]), "MakeClientSessionState" if c["secvia"] == "make" else "SetMasterSecret", len(e["got"]),
                   "(supplied %s..., got %s...)" % (e["supplied"][:6], e["got"][:6])))
        for _ in lst:
            ctx.finding(s, what, {"case": c, "event": e, "rejection": rej1[c["id"]]})
    for s, lst in sorted(fgroups.items()):
        cand = [dict(cbyid[i], id=n + 1) for n, i in enumerate(lst[:3])]
        ev1 = ctx.drv("forge", {"cases": cand}, prog="lru", name="forge_re")
        ok1, rej1, _ = _validate(ctx, "fre", ev1, count=False)
        hit = [c for c in cand if c["id"] not in ok1]
        if not hit:
            raise vlib.Machinery("forge rejection %s not reproduced in a fresh process" % s)
        c = hit[0]
        e = _split(ev1)[c["id"]][1]
        what = "forged session %s: observed %s; model: %s" % ({k: v for k, v in c.items() if k != "id"}, _short(e["o"]), rej1[c["id"]]["why"])
        for _ in lst:
            ctx.finding(s, what, {"case": c, "event": {"p": _short(e["p"]), "o": _short(e["o"])}, "rejection": rej1[c["id"]]})

    _lap(ctx, "reproduction")
    if vacuous:
        # a needed branch that never matched is a machinery problem - unless the implementation's deviation is the reason
        # (then the rejections above are the finding and the unmatched branches are only noted)
        if not ctx.findings:
            raise vlib.Machinery("; ".join(vacuous))
        for v in vacuous:
            ctx.note(v + " (rejections reported instead)")
    canaries = _canaries(ctx, per, set(rejected), fper, set(frejected))
    _lap(ctx, "canaries")
    print("laps:", ctx.laps)
    resumed = sum(1 for es in fper.values() if es[1]["ev"] == "Forge" and es[1]["o"]["cresumed"])
    samples = [{"scenario": byid[i]["ops"], "recorded": [_short(e) for e in per[i][1:]]} for i in (scen[7]["id"], scen[nexh // 2]["id"])]
    samples.append({"forged": cases[0], "observed": _short(fper[cases[0]["id"]][1]["o"])})
    covd = {
        "evaluations": len(per) + len(fper),
        "distinct_nontrivial": len(per) + len(fper),
        "rule": "evaluations = ticket histories replayed on the real Config and judged by TLC + forged-session handshakes judged by TLC; "
                "every history ends in a DecryptTicket / independent-open observation and all are pairwise different, every forge case is a different grid point",
        "exhaustive": True,
        "exhaustive_scope": "all %d observation-terminated histories of %d steps over 2 keys, 1 state, 2 bit positions, 2 cuts, 2 clock steps, <= 3 tickets; "
                            "all single-bit flips and all prefixes of the tickets of %d compact states (every 7th..13th of 4 large ones in the thorough tier); the forge grid; longer histories are sampled" % (nexh, L, 1 if q else 2),
        "tickets": {"history_length": L, "scenarios_exhaustive": nexh, "hold_history_length": LH, "hold_scenarios_exhaustive": nhold, "simulated": sims, "sweeps": len(sweeps),
                    "events_matched": {a: cov.get(a, 0) for a in NEED}, "rejected": len(rejected), "rejection_signatures": {s: len(l) for s, l in groups.items()}},
        "forge": {"cases": len(cases), "tls13_cases": n13, "accessor_cases": len(secs), "resumed": resumed,
                  "resumed_tls13": sum(1 for es in fper.values() if es[1]["ev"] == "Forge" and es[1]["o"]["cresumed"] and es[1]["p"]["vers"] == 772), "rejected": len(frejected), "rejection_signatures": {s: len(l) for s, l in fgroups.items()},
                  "matched": {a: fcov.get(a, 0) for a in NEED_FORGE}},
        "canaries_rejected": canaries,
        "wall_s_by_phase": dict(ctx.laps),
        "samples": samples,
    }
    return "model_checking", covd, assumptions


def _canaries(ctx, per, bad, fper, fbad):
    good = [es for i, es in per.items() if i not in bad]
    fgood = [es for i, es in fper.items() if i not in fbad]
    muts = []

    def find(pool, pred):
        for es in pool:
            for n, e in enumerate(es):
                if pred(e):
                    return es, n
        return None, None
    es, n = find(good, lambda e: e["ev"] == "Decrypt" and e["ok"])
    if es:
        st = list(es[n]["state"])
        st[len(st) // 2] ^= 1
        muts.append(("decrypt-state-byte", [dict(e, state=st) if k == n else e for k, e in enumerate(es)]))
        muts.append(("decrypt-ok->nil", [dict(e, ok=False, state=[]) if k == n else e for k, e in enumerate(es)]))
    es, n = find(good, lambda e: e["ev"] == "Decrypt" and not e["ok"])
    if es:
        enc = next(e for e in es if e["ev"] == "Encrypt")
        muts.append(("decrypt-nil->ok", [dict(e, ok=True, state=enc["state"]) if k == n else e for k, e in enumerate(es)]))
    es, n = find(good, lambda e: e["ev"] == "Indep" and e["ok"])
    if es:
        muts.append(("indep-ok->refused", [dict(e, ok=False, state=[]) if k == n else e for k, e in enumerate(es)]))
    es, n = find(good, lambda e: e["ev"] == "Recheck")
    if es:
        st = list(es[n]["state"]); st[len(st) // 2] ^= 1
        muts.append(("recheck-state-byte", [dict(e, state=st) if k == n else e for k, e in enumerate(es)]))
    es, n = find(good, lambda e: e["ev"] == "Reread")
    if es:
        rw = list(es[n]["raw"]); rw[0] ^= 1
        muts.append(("reread-ticket-byte", [dict(e, raw=rw) if k == n else e for k, e in enumerate(es)]))
    es, n = find(good, lambda e: e["ev"] == "Encrypt")
    if es:
        muts.append(("drop-encrypt", [e for k, e in enumerate(es) if k != n]))
    es, n = find(fgood, lambda e: e["ev"] == "Forge" and e["o"]["cresumed"] and e["p"]["vers"] == 772)
    if es:
        o = dict(es[n]["o"]); o["ssuite"] = 4865 if o["ssuite"] != 4865 else 4867
        muts.append(("forge13-server-suite", [dict(e, o=o) if k == n else e for k, e in enumerate(es)]))
        o = dict(es[n]["o"]); o["sresumed"] = False
        muts.append(("forge13-server-not-resumed", [dict(e, o=o) if k == n else e for k, e in enumerate(es)]))
        o = dict(es[n]["o"]); o["cresumed"] = False; o["sresumed"] = False
        muts.append(("forge13-full-handshake", [dict(e, o=o) if k == n else e for k, e in enumerate(es)]))
    es, n = find(fgood, lambda e: e["ev"] == "Secret" and len(e["got"]) == 32)
    if es:
        muts.append(("secret-padded", [dict(e, got=e["got"] + [0] * 16) if k == n else e for k, e in enumerate(es)]))
        muts.append(("secret-byte", [dict(e, got=[e["got"][0] ^ 1] + e["got"][1:]) if k == n else e for k, e in enumerate(es)]))
    es, n = find(fgood, lambda e: e["ev"] == "Forge" and e["o"]["cresumed"] and e["p"]["vers"] != 772)
    if es:
        o = dict(es[n]["o"]); o["cmaster"] = [x ^ 1 for x in o["cmaster"]]
        muts.append(("forge-master", [dict(e, o=o) if k == n else e for k, e in enumerate(es)]))
        o = dict(es[n]["o"]); o["ssuite"] = o["ssuite"] + 1
        muts.append(("forge-suite", [dict(e, o=o) if k == n else e for k, e in enumerate(es)]))
        o = dict(es[n]["o"]); o["cresumed"] = False
        muts.append(("forge-notresumed", [dict(e, o=o) if k == n else e for k, e in enumerate(es)]))
    if len(muts) < 5:
        if bad or fbad:
            return [m[0] for m in muts]     # findings are being reported; not enough accepted executions to mutate
        raise vlib.Machinery("canary: accepted executions lack the events needed (%d mutants)" % len(muts))
    batch = []
    for k, (_, es) in enumerate(muts):
        batch += [dict(es[0], id=k + 1)] + es[1:]
    ok, rejs, _ = _validate(ctx, "canary", batch, count=False)
    for k, (name, _) in enumerate(muts):
        if (k + 1) in ok:
            raise vlib.Machinery("binding canary %r was ACCEPTED by Tickets_Trace: the trace binding is broken" % name)
    return [m[0] for m in muts]
