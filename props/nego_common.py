"""Shared driver of the Negotiation family (spec/Negotiation.tla, NegoMC.tla, NegoTrace.tla).

run_nego(ctx, mode) does:  dump constants -> TLC NegoMC_<mode> (scenario grid + model-level invariants)
 -> replay every scenario on the real code (harness cmd nego) -> TLC NegoTrace over the recorded events
 -> list of rejections (scenario, kind, detail).  Each property keeps the kinds it is about."""
import concurrent.futures as cf
import json, random
import data, vlib


def dump_suites(ctx):
    evs = ctx.drv("dumpsuites", {})
    ctx.write_json("suites.json", evs[0]["suites"])
    return evs[0]["suites"]


def gen_scenarios(ctx, mode, timeout=900):
    res = ctx.tlc("NegoMC", cfg="NegoMC_" + mode, workers=4, timeout=timeout)
    if res.violated:
        raise vlib.Machinery("model-level invariant %s violated in NegoMC_%s: the specification contradicts itself\n%s"
                             % (res.violated, mode, res.out[-2500:]))
    scns = res.tagged("SCN")
    unadv = res.tagged("UNADVERTISED")
    return scns, (unadv[0] if unadv else []), res


def validate(ctx, events, shards):
    """Splits the event stream at scenario boundaries into shards, runs NegoTrace on each, returns rejections."""
    groups, cur = [], []
    for e in events:
        if e["ev"] == "Scn" and cur:
            groups.append(cur)
            cur = []
        cur.append(e)
    if cur:
        groups.append(cur)
    per = max(1, (len(groups) + shards - 1) // shards)
    parts = [sum(groups[i:i + per], []) for i in range(0, len(groups), per)]
    src = open(ctx.scratch + "/NegoTrace.tla").read()

    def one(k):
        name = "nego_trace_%d" % k
        open(ctx.scratch + "/NegoTrace_%d.tla" % k, "w").write(
            src.replace("nego_trace.ndjson", name + ".ndjson").replace("MODULE NegoTrace", "MODULE NegoTrace_%d" % k))
        ctx.write_ndjson(name + ".ndjson", parts[k])
        res = ctx.tlc("NegoTrace_%d" % k, cfg="NegoTrace", timeout=1500)
        done = res.tagged("DONE")
        if not done or done[0] != len(parts[k]):
            raise vlib.Machinery("NegoTrace shard %d consumed %r of %d events\n%s" % (k, done, len(parts[k]), res.out[-2000:]))
        return res.tagged("REJ")

    rej = []
    with cf.ThreadPoolExecutor(max_workers=min(shards, 12)) as ex:
        for r in ex.map(one, range(len(parts))):
            rej.extend(r)
    ctx.traces += len(groups)
    return rej


def canary(ctx, events):
    """Binding canary: a good scenario with its Result forged to 'client completed' although the ServerHello was
    rewritten to an unoffered suite must be rejected; and a good trace must be accepted."""
    good = None
    groups, cur = [], []
    for e in events:
        if e["ev"] == "Scn" and cur:
            groups.append(cur)
            cur = []
        cur.append(e)
    if cur:
        groups.append(cur)
    # the designated plainly compliant scenario is the last one of the batch (appended by run_nego)
    g = groups[-1]
    r = g[-1]
    if r["ev"] == "Result" and r["cok"] and r["sok"] and any(e["ev"] == "SMSG" and e["t"] == 2 for e in g):
        good = g
    if good is None:
        raise vlib.Machinery("canary: the plain compliant handshake of the batch did not succeed: %r" % (r,))
    bad = json.loads(json.dumps(good))
    for e in bad:
        if e["ev"] == "SMSG" and e["t"] == 2:
            sidlen = e["raw"][38]
            p = 39 + sidlen
            e["raw"][p], e["raw"][p + 1] = 0x12, 0x34      # a suite nobody offered
    bad2 = json.loads(json.dumps(good))
    bad2[-1]["cs"]["version"] = 0x0305                      # client reports a version nobody has
    for tag, tr, want in (("good", good, False), ("forged-suite", bad, True), ("forged-version", bad2, True)):
        rej = validate_quiet(ctx, tr, tag)
        if bool(rej) != want:
            raise vlib.Machinery("binding canary %s: expected rejection=%s, got %r" % (tag, want, rej))


def validate_quiet(ctx, events, tag):
    src = open(ctx.scratch + "/NegoTrace.tla").read()
    name = "nego_canary_" + tag.replace("-", "_")
    open(ctx.scratch + "/%s.tla" % name, "w").write(
        src.replace("nego_trace.ndjson", name + ".ndjson").replace("MODULE NegoTrace", "MODULE " + name))
    ctx.write_ndjson(name + ".ndjson", events)
    res = ctx.tlc(name, cfg="NegoTrace", timeout=300, count=False)
    return res.tagged("REJ")


def randomized_ids(ctx, n):
    """n seeded randomized fingerprints per variant; the seeds depend on VERIF_SEED so that different runs see different ones"""
    return ["%s@%d" % (v, ctx.seed * 1000 + k) for v in ("Randomized", "Randomized-ALPN", "Randomized-NoALPN") for k in range(n)]


def run_nego(ctx, mode, ekm=0, subset=None, extra_scn=None, shards=8, extra_ids=None):
    if extra_ids is None:
        # besides the predefined parrots every grid also covers seeded randomized fingerprints
        extra_ids = randomized_ids(ctx, 2 if ctx.quick else 16)
    data.dump_specs(ctx, extra=extra_ids)
    dump_suites(ctx)
    scns, unadv, mcres = gen_scenarios(ctx, mode)
    if not scns:
        raise vlib.Machinery("NegoMC_%s produced no scenario (vacuous)" % mode)
    if subset is not None:
        scns = subset(scns)
    if callable(extra_scn):
        extra_scn = extra_scn()      # generated after the specs were dumped (e.g. another NegoMC mode)
    if extra_scn:
        scns = scns + extra_scn
    # one plainly compliant handshake per batch: the binding canary corrupts its recorded trace
    can = dict(scns[0])
    can.update({"mode": "compliant", "id": "Chrome-133", "ver": 772, "suite": 4865, "group": 29, "cert": "ecdsa", "alpn": [],
                "force_suite": 0, "force_group": 0, "force_alpn": "", "hrr_cookie": 0, "legacy_only": False, "canary": 0,
                "sid_echo": "", "compression": 0, "psk_index": 0, "hrr_group": 0,
                "alps_cp": 0, "alps12": False, "client_alps": "", "alps_settings": [], "remove_sni": False, "client_auth": 0, "resume": False,
                "no_reneg": False, "ks_reverse": False, "ks_list": [], "kx_share": "", "kx_secret": "", "kx_kem": "", "edit": "", "groups_first": 0, "srv_groups": [], "sigalgs_cert": False, "sv_list": [], "rand_fe0d": False, "resume_ver": 0, "fp_copy": False, "prior_id": "", "extra_exts": []})
    scns = scns + [can]
    for i, s in enumerate(scns):
        s["sc"] = i
        s["ekm"] = ekm
    events = ctx.drv("nego", {"scenarios": scns}, timeout=1500)
    errs = [e for e in events if e["ev"] == "Error"]
    if errs:
        raise vlib.Machinery("harness errors: %r" % errs[:3])
    canary(ctx, events)
    rej = validate(ctx, events, shards)
    byid = {s["sc"]: s for s in scns}
    results = {e["sc"]: e for e in events if e["ev"] == "Result"}
    out = []
    for r in rej:
        sc, kind, detail = r[0], r[1], r[2]
        out.append({"scn": byid.get(sc), "kind": kind, "detail": detail, "result": _brief(results.get(sc))})
    return scns, events, out, unadv, mcres


def _brief(r):
    if not r:
        return None
    return {k: r[k] for k in ("cerr", "serr", "corigin", "sorigin", "cok", "sok", "echo", "nch")}


def sig_detail(d):
    if isinstance(d, str):
        return d.replace("\"", "").replace("<<", "").replace(">>", "").replace(", ", "/")
    if isinstance(d, list):
        return "/".join(str(x) for x in d)
    return str(d)


def scn_brief(s):
    keep = ("id", "ver", "suite", "group", "cert", "alpn", "mode", "force_suite", "force_group", "force_alpn", "hrr_cookie",
            "legacy_only", "canary", "sid_echo", "compression", "psk_index", "hrr_group", "ks_reverse", "ks_list",
            "kx_share", "kx_secret", "kx_kem", "edit", "groups_first", "srv_groups", "sigalgs_cert", "sv_list", "rand_fe0d")
    return {k: s[k] for k in keep if k in s and s[k] not in (0, "", False, [], None)}
