"""X12 - extension check (not a listed property): the TLS <= 1.2 client handshake of utls as a state machine.

TLA+: spec/TLS12.tla (client machine: processServerHello, doFullHandshake, resumption, tickets, Finished order, EMS rules,
secure renegotiation and Config.Renegotiation, client certificates, OCSP / SCT delivery), spec/TLS12_MC.tla (bounded
exhaustive exploration against an abstract server that may deviate anywhere in its flight; invariants restate C12 C13 C14 C19;
emits scenarios), spec/TLS12_Trace.tla (validates what the real client did, event by event).
Harness: harness/cmd/tls12 (replays the scenarios on real UConns against the hooked in-tree server; needs the add-only hook
file verif_tls12.go = patches/hook-tls12.diff, which lets the server side renegotiate).

Findings carry the property they concern as a prefix of their signature: C10 C11 C12 C13 C14 C19 C33, or X12 for
state-machine / renegotiation rules that no listed property names."""
import collections, concurrent.futures as cf, json, os, random, re
import vlib

PROG = "tls12"
# connection deadline: generous where the model says every call returns by itself, short where the model says the client is
# left waiting for a message that never comes (its call then returns exactly at the deadline)
DEADLINE_MS, DEADLINE_WAITING_MS = 6000, 1000
WAITING = ("WaitSH", "WaitCert", "AfterCert", "AfterStatus", "AfterSKE", "AfterCR", "WaitNST", "WaitCCS", "R_WaitNST", "R_WaitCCS")
# TLS 1.2-only parrots, old and new ones that negotiate 1.2 with a 1.2 server, a PSK parrot, the Go default
QUICK_IDS = ["Chrome-58", "Firefox-55", "iOS-111", "iOS-14", "Chrome-133", "Firefox-120", "Chrome-100_PSK", "Golang-0"]
# custom-spec variants: an extension removed from the parrot's spec, another renegotiation policy
VARIANTS = [("Chrome-58", ["no_ems"], ""), ("Chrome-58", ["no_ticket"], ""), ("Firefox-120", ["no_ems"], ""), ("Chrome-133", ["no_ri"], ""),
            ("Chrome-58", [], "never"), ("Chrome-58", [], "freely"), ("Firefox-120", [], "freely")]
MORE_VARIANTS = [("iOS-14", ["no_ems"], ""), ("Firefox-55", ["no_ticket"], ""), ("Chrome-133", ["no_ems"], ""), ("Chrome-133", [], "freely"),
                 ("Firefox-55", ["no_alpn"], ""), ("Chrome-58", ["no_status", "no_sct"], ""), ("Edge-106", [], "never")]
INVARIANTS = ["InvOffered", "InvIdentity", "InvResumed", "InvFinished", "InvFatal", "InvCompliant", "InvIdentityStable", "InvNoInsecureResume"]
# every class of server deviation the model must have explored and the replay must have exercised
REQUIRED_DEVS = ["sh-suite-unoffered", "sh-compression", "sh-alpn-unoffered", "sh-duplicate", "sh-hello-request-before", "sh-hello-request-after",
                 "sh-ems-removed", "sh-ticket-ext-removed", "sh-ri-nonempty", "sh-ri-removed", "reneg-ri-wrong", "reneg-ri-empty", "reneg-ri-absent",
                 "reneg-ri-swapped", "reneg-ri-client_only", "reneg-tls13", "res-sid-not-echoed", "res-other-suite", "cert-dropped", "cert-empty",
                 "cert-duplicate", "cert-other-valid", "cert-wrongname", "cert-expired", "cert-untrusted", "status-unsolicited", "ske-dropped",
                 "ske-signature-flipped", "ske-after-hello-done", "cr-dropped", "cr-types-none", "cr-types-3", "cr-sigalgs-1-2055", "shd-dropped",
                 "shd-finished-after", "nst-dropped", "nst-duplicate", "nst-finished-instead", "nst-other-ticket", "fin-wrong-verify-data",
                 "fin-hello-request-before", "hreq-certificate-instead"]
SHAPES = ["full", "resume", "reneg", "resreneg", "mixed", "insecure"]


def mc_cfg(ctx, name, k, tier, rowsel):
    with open("%s/%s.cfg" % (ctx.scratch, name), "w") as f:
        f.write("CONSTANT K = %d\nCONSTANT Tier = \"%s\"\nCONSTANT RowSel = {%s}\nINIT Init\nNEXT Next\n" % (k, tier, ", ".join(str(r) for r in rowsel)))
        for inv in INVARIANTS + ["Emit"]:
            f.write("INVARIANT %s\n" % inv)


def mc_run(ctx, name, k, tier, rowsel, workers):
    mc_cfg(ctx, name, k, tier, rowsel)
    res = ctx.tlc("TLS12_MC", cfg=name, workers=workers, timeout=1500, heap="6g")
    if res.violated:
        raise vlib.Machinery("model-level property %s fails in TLS12_MC (%s): the specification contradicts itself\n%s"
                             % (res.violated, name, res.out[-3000:]))
    return res.tagged("SCN"), res


def sample(scns, n, rnd):
    """every (shape, deviations) class at least once, the rest seed-chosen"""
    if len(scns) <= n:
        return list(scns)
    by = collections.defaultdict(list)
    for s in scns:
        by[(s["shape"], tuple(sorted(s["devs"])), s["ccert"] != "", s["conns"][0]["hs"][0]["srv"]["ver"],
            bool(s["conns"][0]["variant"]) and s["shape"] == "resume",
            # the undisturbed scenarios of every client identity (they are the baselines of progress and of the canaries)
            s["conns"][0]["id"] if not s["devs"] else "")].append(s)
    out, rest = [], []
    for key in sorted(by):
        g = by[key]
        rnd.shuffle(g)
        out.append(g[0])
        rest.extend(g[1:])
    rnd.shuffle(rest)
    return (out + rest[:max(0, n - len(out))])


def split_scn(events):
    groups, cur = [], []
    for e in events:
        if e["ev"] == "Scn" and cur:
            groups.append(cur)
            cur = []
        cur.append(e)
    if cur:
        groups.append(cur)
    return groups


def tlc_trace(ctx, events, name):
    """TLS12_Trace over one event list; returns the rejections [sc, prop, kind, detail]"""
    src = open(ctx.scratch + "/TLS12_Trace.tla").read()
    open("%s/%s.tla" % (ctx.scratch, name), "w").write(
        src.replace("tls12_trace.ndjson", name + ".ndjson").replace("MODULE TLS12_Trace", "MODULE " + name))
    ctx.write_ndjson(name + ".ndjson", events)
    res = ctx.tlc(name, cfg="TLS12_Trace", timeout=1500, count=not name.startswith("X12canary"))
    done = res.tagged("DONE")
    if not done or done[0] != len(events):
        raise vlib.Machinery("TLS12_Trace (%s) consumed %r of %d events\n%s" % (name, done, len(events), res.out[-2500:]))
    return res.tagged("REJ")


def validate(ctx, groups, shards, tag):
    parts = [sum(groups[k::shards], []) for k in range(shards)]
    parts = [p for p in parts if p]
    rej = []
    with cf.ThreadPoolExecutor(max_workers=min(len(parts), 12)) as ex:
        for r in ex.map(lambda k: tlc_trace(ctx, parts[k], "X12tr_%s_%d" % (tag, k)), range(len(parts))):
            rej.extend(r)
    ctx.traces += len(groups)
    return rej


def norm(detail):
    d = detail if isinstance(detail, str) else json.dumps(detail)
    d = d.replace("\\\"", "").replace("\"", "").replace("<<", "").replace(">>", "").replace(", ", "/")
    return re.sub(r"\d{4,}", "N", d)


def signature(r, scn):
    """short and stable: property, kind and what was wrong; not the scenario (one defect shows under many deviations)"""
    prop, kind, detail = r[1], r[2], norm(r[3])
    if kind == "panic":
        m = re.search(r"([a-z_0-9]+\.go:\d+)", detail)
        return "%s:panic:%s" % (prop, m.group(1) if m else re.sub(r"[^A-Za-z]+", "-", detail)[:48].strip("-"))
    if kind == "cache":
        return "%s:cache:real-and-model-cache-differ" % prop
    if kind == "deadline":
        return "%s:deadline:call-returned-late" % prop
    detail = re.sub(r"\d{3,}", "N", detail)
    detail = re.sub(r"tls: .*", "", detail)              # error texts of the library are not part of the signature
    return "%s:%s:%s" % (prop, kind, detail[:100].rstrip("/"))


def canaries(ctx, groups, scns, rejected):
    """Binding canaries: recorded traces the specification accepted, with one observation forged, must be rejected
    (and accepted again unforged). Baselines are taken from scenarios of the first batch that were not rejected; if the code
    under test is so wrong that a kind of baseline does not exist, the canaries that need it are skipped (the rejections
    themselves are reported); without any rejection a missing baseline is a vacuity error."""
    byid = {s["sc"]: s for s in scns}

    def find(pred):
        for g in groups:
            s = byid[g[0]["sc"]]
            if g[0]["sc"] not in rejected and pred(s, g):
                return json.loads(json.dumps(g))
        return None

    def rets(g, call):
        return [e for e in g if e["ev"] == "Ret" and e["call"] == call]

    base = {
        "full": find(lambda s, g: s["shape"] == "full" and not s["devs"] and s["ccert"] == "" and all(e["ok"] for e in rets(g, "Handshake")) and rets(g, "Echo")),
        "resume": find(lambda s, g: s["shape"] == "resume" and not s["devs"] and len(rets(g, "Handshake")) >= 2 and rets(g, "Handshake")[1]["ok"] and rets(g, "Handshake")[1]["cs"]["resumed"]),
        "reneg": find(lambda s, g: s["shape"] == "reneg" and not s["devs"] and s["ccert"] == "" and any(e["ok"] for e in rets(g, "Read"))
                      and len({h["srv"]["cert"] for h in s["conns"][0]["hs"]}) == 1),
        "badsuite": find(lambda s, g: s["devs"] == ["sh-suite-unoffered"] and s["shape"] == "full" and rets(g, "Handshake") and not rets(g, "Handshake")[0]["ok"]),
    }
    missing = [k for k, g in base.items() if g is None]
    if missing and not rejected:
        raise vlib.Machinery("canary: no recorded scenario of kind %r in the first batch (vacuous)" % missing)
    for k in missing:
        ctx.note("binding canaries that need an accepted '%s' trace are skipped: every such scenario of the first batch was rejected" % k)

    def copy(k):
        return json.loads(json.dumps(base[k]))

    tests = []
    tests.append(("good", sum([g for g in base.values() if g is not None], []), None, []))
    if base["badsuite"]:
        g = copy("badsuite")
        for e in g:
            if e["ev"] == "Ret" and e["call"] == "Handshake":
                e["ok"], e["origin"], e["err"] = True, "none", ""
        tests.append(("forged-success-after-unoffered-suite", g, ("C12", "accepted")))
    if base["full"]:
        g = [e for e in copy("full") if not (e["ev"] == "CMSG" and e["t"] == 20)]
        tests.append(("client-finished-dropped", g, ("X12", "flight")))
        g = copy("full")
        for e in g:
            if e["ev"] == "Ret" and e["call"] == "Handshake":
                e["cs"]["version"] = 768          # a version no handshake of the batch negotiated
        tests.append(("forged-version", g, ("C11", "state")))
    if base["resume"]:
        g = copy("resume")
        # in the resumed connection put the client's Finished before the server's
        idx = [i for i, e in enumerate(g) if e["ev"] in ("CMSG", "SMSG") and e["t"] == 20 and e["conn"] == 1]
        if len(idx) >= 2 and g[idx[0]]["ev"] == "SMSG" and g[idx[1]]["ev"] == "CMSG":
            g[idx[0]], g[idx[1]] = g[idx[1]], g[idx[0]]
        else:
            raise vlib.Machinery("canary: resumed connection without the expected Finished pair")
        tests.append(("resumed-client-finished-first", g, ("X12", "flight")))
        g = copy("resume")
        for e in g:
            if e["ev"] == "Cache" and e["conn"] == 0:
                e["present"] = False
        tests.append(("forged-cache-state", g, ("C19", "cache")))
        g = copy("resume")
        for e in g:
            if e["ev"] == "Ret" and e["call"] == "Handshake" and e["conn"] == 1:
                e["cs"]["leaf"] = "B"
        tests.append(("forged-peer-certificate-on-resumption", g, ("C14", "state")))
    if base["reneg"]:
        g = copy("reneg")
        done = False
        for e in g:
            if e["ev"] == "SMSG" and e["t"] == 2 and e["h"] == 1 and not done:
                raw = e["raw"]
                # flip one byte of the renegotiation_info body (type ff01) of the renegotiation ServerHello
                for i in range(len(raw) - 4):
                    if raw[i] == 0xff and raw[i + 1] == 0x01 and raw[i + 2] == 0 and raw[i + 3] == 25:
                        raw[i + 6] ^= 0x55
                        done = True
                        break
        if not done:
            raise vlib.Machinery("canary: no renegotiation_info in the recorded renegotiation ServerHello")
        tests.append(("forged-renegotiation-info", g, ("X12", "accepted")))

    def one(t):
        name, evs, want = t[0], t[1], t[2]
        rej = tlc_trace(ctx, evs, "X12canary_" + re.sub(r"[^a-z0-9]", "_", name))
        return name, want, rej

    with cf.ThreadPoolExecutor(max_workers=8) as ex:
        for name, want, rej in ex.map(one, tests):
            if want is None and rej:
                raise vlib.Machinery("binding canary '%s': traces accepted in the batch are rejected alone: %r" % (name, rej[:3]))
            if want is not None and not any((r[1], r[2]) == want for r in rej):
                raise vlib.Machinery("binding canary '%s': expected a %s rejection, got %r" % (name, want, rej[:3]))
    return len(tests)


def run(ctx):
    rnd = random.Random(ctx.seed)
    try:
        ctx.build(prog=PROG)
    except vlib.Machinery as e:
        if "VerifTLS12" in str(e):
            raise vlib.Machinery("the checkout lacks the add-only hook file verif_tls12.go (apply /verif/patches/hook-tls12.diff):\n" + str(e)[-600:])
        raise
    ids = ctx.drv("ids", {}, prog=PROG)[0]["ids"]
    if ctx.quick:
        others = [i for i in ids if i not in QUICK_IDS]
        rnd.shuffle(others)
        names = [i for i in QUICK_IDS if i in ids] + others[:2]
        rows = [{"id": i, "variant": [], "reneg": ""} for i in names] + [{"id": i, "variant": v, "reneg": r} for i, v, r in VARIANTS]
    else:
        lim = int(os.environ.get("VERIF_X12_LIMIT_IDS", "0"))       # development aid: a thorough run over the first n parrots only
        some = [i for i in ids if i in QUICK_IDS] + [i for i in ids if i not in QUICK_IDS]
        rows = [{"id": i, "variant": [], "reneg": ""} for i in (some[:lim] if lim else ids)] + [{"id": i, "variant": v, "reneg": r} for i, v, r in VARIANTS + MORE_VARIANTS]
    rows = [r for r in rows if r["id"] in ids]
    offers = ctx.drv("offers", {"ids": rows}, prog=PROG)
    bad = [o for o in offers if not o["ok"]]
    if bad:
        raise vlib.Machinery("cannot build the ClientHello of %r" % [(o["id"], o["variant"], o["err"]) for o in bad[:3]])
    ctx.write_json("tls12_offers.json", offers)
    ctx.write_json("suites.json", ctx.drv("suites", {}, prog=PROG)[0]["suites"])
    ctx.write_json("specs.json", {"specs": {}, "shuffling": []})      # module Parrots is extended but its table is not used here

    # ---- 1. bounded exhaustive exploration of the model; scenarios
    mc_stats = {"runs": 0, "scenarios_generated": 0}
    scns = []
    if ctx.quick:
        got, res = mc_run(ctx, "X12mc_quick", 1, "quick", [], 8)
        mc_stats["runs"], mc_stats["scenarios_generated"] = 1, len(got)
        allshapes = collections.Counter(s["shape"] for s in got)
        alldevs = collections.Counter(d for s in got for d in s["devs"])
        scns = sample(got, 2000, rnd)
    else:
        allshapes, alldevs = collections.Counter(), collections.Counter()
        n = len(rows)
        chunks = [list(range(a + 1, min(a + 6, n) + 1)) for a in range(0, n, 6)]
        jobs = [("X12mc_t%d" % i, 1, "thorough", c) for i, c in enumerate(chunks)]
        deep_rows = [i + 1 for i, r in enumerate(rows) if not r["variant"] and not r["reneg"] and r["id"] in ("Chrome-58", "Firefox-120", "iOS-14")]
        jobs += [("X12mc_deep%d" % r, 2, "quick", [r]) for r in deep_rows]
        per = max(1200, 40000 // len(jobs))

        def job(j):
            got, res = mc_run(ctx, j[0], j[1], j[2], j[3], 5)
            sh = collections.Counter(s["shape"] for s in got)
            dv = collections.Counter(d for s in got for d in s["devs"])
            return len(got), sh, dv, sample(got, per, random.Random(ctx.seed * 7919 + sum(j[3])))

        with cf.ThreadPoolExecutor(max_workers=3) as ex:
            for cnt, sh, dv, keep in ex.map(job, jobs):
                mc_stats["runs"] += 1
                mc_stats["scenarios_generated"] += cnt
                allshapes.update(sh)
                alldevs.update(dv)
                scns.extend(keep)
    for sname in SHAPES:
        if not allshapes.get(sname):
            raise vlib.Machinery("vacuous: the model produced no scenario of shape %s" % sname)
    missing = [d for d in REQUIRED_DEVS if not alldevs.get(d)]
    if missing:
        raise vlib.Machinery("vacuous: the model never took the server deviations %r" % missing)
    rnd.shuffle(scns)
    for i, s in enumerate(scns):
        s["sc"], s["deadline_ms"], s["sni"] = i, (DEADLINE_WAITING_MS if s["final"] in WAITING else DEADLINE_MS), "example.com"
    byid = {s["sc"]: s for s in scns}

    # ---- 2./3./4. replay on the real client, canaries, validation (in batches: the event lists are big)
    stats = collections.Counter()
    dev_ok = collections.Counter()          # deviation classes replayed with every edit applied
    rejections = []
    ncanary = 0
    B = 3000
    for b0 in range(0, len(scns), B):
        batch = scns[b0:b0 + B]
        events = ctx.drv("run", {"scenarios": batch}, prog=PROG, timeout=1500, name="run%d" % (b0 // B))
        errs = [e for e in events if e["ev"] == "Error"]
        if errs:
            raise vlib.Machinery("harness errors: %r" % errs[:3])
        groups = split_scn(events)
        if len(groups) != len(batch):
            raise vlib.Machinery("harness returned %d scenario logs for %d scenarios" % (len(groups), len(batch)))
        got = validate(ctx, groups, 12 if len(batch) > 600 else 4, "b%d" % (b0 // B))
        rejections.extend(got)
        if b0 == 0:
            ncanary = canaries(ctx, groups, scns, {r[0] for r in got})
        for g in groups:
            s = byid[g[0]["sc"]]
            unused = any(e["ev"] == "Unused" for e in g)
            if not unused:
                for d in s["devs"]:
                    dev_ok[d] += 1
            stats["unused_scenarios"] += unused
            for e in g:
                if e["ev"] == "Ret":
                    stats["calls"] += 1
                    if e["call"] == "Handshake":
                        stats["handshake_ok" if e["ok"] else "handshake_failed"] += 1
                        stats["resumed_ok"] += e["ok"] and e["cs"]["resumed"]
                        stats["ocsp_delivered"] += e["ok"] and len(e["cs"]["ocsp"]) > 0
                        stats["scts_delivered"] += e["ok"] and len(e["cs"]["scts"]) > 0
                        stats["alpn_negotiated"] += e["ok"] and len(e["cs"]["proto"]) > 0
                    elif e["call"] == "Read":
                        stats["renegotiation_ok" if e["ok"] else "renegotiation_failed"] += 1
                        stats["renegotiation_refused"] += (not e["ok"]) and "no renegotiation" in e["err"]
                        stats["renegotiation_resumed"] += e["ok"] and e["cs"]["resumed"]
                    elif e["call"] == "Echo":
                        stats["echo_ok"] += e["ok"]
                elif e["ev"] == "CMSG":
                    stats["client_messages"] += 1
                    stats["client_certificate_sent"] += e["t"] == 11 and len(e["certs"]) > 0
                    stats["client_certificate_empty"] += e["t"] == 11 and len(e["certs"]) == 0
                    stats["certificate_verify_sent"] += e["t"] == 15
                elif e["ev"] == "SMSG":
                    stats["server_messages"] += 1
                    stats["server_messages_not_natural"] += e["k"] != "self" or len(e["mut"]) > 0
        del events, groups

    # ---- vacuity of the replay. The counters are observations of the client; a client that is wrong may fail to show one of
    # them (e.g. never delivers a stapled response): then the rejections are the verdict, and the gap is only noted.
    vacuous = ["the replay never showed '%s'" % key for key in
               ("handshake_ok", "handshake_failed", "resumed_ok", "renegotiation_ok", "renegotiation_refused", "renegotiation_failed",
                "client_certificate_sent", "client_certificate_empty", "certificate_verify_sent", "ocsp_delivered", "scts_delivered",
                "alpn_negotiated", "echo_ok", "server_messages_not_natural") if not stats.get(key)]
    never = [d for d in REQUIRED_DEVS if not dev_ok.get(d)]
    if never:
        vacuous.append("server deviations never applied completely on the real server: %r" % never)
    if stats["unused_scenarios"] * 10 > len(scns):
        vacuous.append("the model's idea of the server's natural flight is off: %d of %d scenarios had edits whose anchor never came"
                       % (stats["unused_scenarios"], len(scns)))
    if vacuous and not rejections:
        raise vlib.Machinery("vacuous: " + "; ".join(vacuous))
    for v in vacuous:
        ctx.note("not exercised in this run (the code under test is rejected anyway): " + v)

    # ---- 5. every class of rejection is reproduced alone before it is reported
    bysig = collections.defaultdict(list)
    for r in rejections:
        bysig[signature(r, byid[r[0]])].append(r)
    for sig in sorted(bysig):
        rs = bysig[sig]
        prop, kind = rs[0][1], rs[0][2]
        reproduced = None
        for r in rs[:3]:
            s = dict(byid[r[0]])
            for attempt in range(2):
                evs = ctx.drv("run", {"scenarios": [s]}, prog=PROG, timeout=300, name="repro")
                again = tlc_trace(ctx, evs, "X12repro")
                ctx.traces += 1
                if any((a[1], a[2]) == (prop, kind) for a in again):
                    reproduced = (s, [a for a in again if (a[1], a[2]) == (prop, kind)][0], evs)
                    break
            if reproduced:
                break
        if not reproduced:
            # a call that ran into the transport deadline on the shared machine and completes when run alone is no verdict
            if all("timeout" in norm(x[3]) for x in rs) and len(rs) * 200 <= len(scns):
                ctx.note("%d scenario(s) hit the transport deadline in the batch and completed when run alone (machine load): %s" % (len(rs), sig))
                stats["deadline_artefacts"] += len(rs)
                continue
            raise vlib.Machinery("rejection %s (%d case(s)) did not reproduce when its scenario was run alone: %r" % (sig, len(rs), rs[0]))
        s, a, evs = reproduced
        brief = [{k: e[k] for k in ("ev", "conn", "h", "call", "t", "k", "mut", "ok", "err", "origin", "stack") if k in e} for e in evs if e["ev"] in ("Ret", "SRet", "SMSG", "CMSG")]
        where = collections.Counter("%s/%s" % (byid[x[0]]["shape"], "+".join(sorted(byid[x[0]]["devs"])) or "none") for x in rs)
        for _ in rs:
            ctx.finding(sig, "%s %s: %s (shape/server deviations: %s; clients %s)" % (prop, kind, norm(a[3])[:200], ", ".join(k for k, _ in where.most_common(6)),
                                                                                     sorted({c["id"] for x in rs for c in byid[x[0]]["conns"]})[:8]),
                        {"scenario": {k: s[k] for k in ("ccert", "cache", "conns", "deadline_ms", "sni", "shape", "devs")}, "rejection": a, "events": brief[:60]})

    cov = {"evaluations": len(scns),
           "distinct_nontrivial": len({(s["shape"], tuple(sorted(s["devs"])), s["ccert"], tuple((c["id"], tuple(c["variant"]), c["reneg"]) for c in s["conns"]),
                                        tuple(json.dumps(c["hs"], sort_keys=True) for c in s["conns"])) for s in scns}),
           "rule": "TLC explores TLS12_MC exhaustively within the bounds (rows of the offers table x server configurations x shapes "
                   "full/resume/reneg/resreneg/mixed/insecure x at most K server deviations in one handshake) and checks the restated properties on "
                   "every state; every terminal state is a scenario; a seed-chosen sample that contains every (shape, deviation set) class is "
                   "replayed on real UConns against the hooked in-tree server and every recorded event is judged by TLS12_Trace; distinct = "
                   "scenarios that differ in client identity, server configuration, shape or deviations",
           "client_rows": len(rows), "model": mc_stats, "model_shapes": dict(allshapes), "model_deviation_classes": len(alldevs),
           "replay": dict(stats), "deviation_classes_replayed": len(dev_ok), "binding_canaries": ncanary,
           "rejection_signatures": {k: len(v) for k, v in bysig.items()},
           "samples": [{k: s[k] for k in ("shape", "devs", "ccert")} | {"client": s["conns"][0]["id"]} for s in scns[:3]],
           "exhaustive": False}
    return "model_checking", cov, ["the in-tree server, driven through the add-only verif hooks, stays self-consistent: its transcript contains the rewritten / "
                                   "injected / dropped messages, so only the client's own checks can stop a deviating flight",
                                   "validity of signatures, verify_data and certificates is not recomputed in TLA+: the log says which certificate was listed and "
                                   "which bytes the harness changed, the specification derives validity from that",
                                   "ChangeCipherSpec is not observed as an event: the server's Finished hook call is preceded by its ChangeCipherSpec",
                                   "replay is a seeded sample of the model's scenarios (every deviation class included); the model itself is exhaustive within its bounds"]
