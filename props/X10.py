"""X10 - extension check: C10 / C11 / C17 (and the key-share rules of C18) against an INDEPENDENT server, `openssl s_server`.

TLA+ stays the oracle and TLC the judge:
  spec/NegotiationExt.tla  OsslCanSelect (what an external compliant server can select, differences to the in-tree server listed),
                           XAgreeProblems, XEchoOK, CH2KeepsShares
  spec/NegoMCExt.tla       the grids (x10 compliant product, x17 -stateless HelloRetryRequests with real cookies, x11 agreement
                           variants), filtered by ossl_caps.json = what the OpenSSL builds of this machine implement, probed at
                           run time by the harness (cmd ossl / osslprobe); model-level invariants XOffered, XCompletes, XHRR
  spec/NegoTraceExt.tla    trace rules for a black-box server (what replaces FlightComplete is stated there)
  harness/cmd/ossl         starts s_server per server configuration, real UConn over TCP through a recording conn

Findings carry the property they belong to as a prefix (C10: / C11: / C17: / C18: / C12:) followed by the signature scheme of that
property's own check, so that known findings recorded for the property (known_findings.json) are recognised here as well."""
import concurrent.futures as cf
import json, os, random, re
import data, nego_common as nc, vlib

KINDS_MACHINERY = ("order", "binding", "calibration")


# ---------------------------------------------------------------------------------------------- capabilities
def probe(ctx):
    evs = ctx.drv("osslprobe", {"tmpdir": ctx.scratch}, prog="ossl", timeout=900, name="osslprobe")
    errs = [e for e in evs if e["ev"] == "Error"]
    if errs:
        raise vlib.Machinery("openssl probe failed: %r" % errs[:3])
    caps = sorted([e for e in evs if e["ev"] == "Caps"], key=lambda c: c["k"])
    if not caps:
        raise vlib.Machinery("no openssl binary found (set VERIF_OPENSSL=/path/to/openssl[:...])")
    for i, c in enumerate(caps):
        if c["k"] != i + 1:
            raise vlib.Machinery("capability records are not numbered 1..n: %r" % [c["k"] for c in caps])
        if not c["versions"]:
            raise vlib.Machinery("%s completes no handshake with itself at any version" % c["label"])
    keep = ("k", "label", "versions", "suites", "groups", "certs", "stateless", "alpn", "exporter")
    ctx.write_json("ossl_caps.json", {"servers": [{k: c[k] for k in keep} for c in caps]})
    return caps


# ---------------------------------------------------------------------------------------------- TLC trace validation
def _groups(events):
    groups, cur = [], []
    for e in events:
        if e["ev"] == "Scn" and cur:
            groups.append(cur)
            cur = []
        cur.append(e)
    if cur:
        groups.append(cur)
    return groups


def validate(ctx, events, shards, tag="negox", count=True):
    """NegoTraceExt over the event stream, sharded at scenario boundaries; returns (rejections, summed STAT counters)"""
    groups = _groups(events)
    per = max(1, (len(groups) + shards - 1) // shards)
    parts = [sum(groups[i:i + per], []) for i in range(0, len(groups), per)]
    src = open(ctx.scratch + "/NegoTraceExt.tla").read()

    def one(k):
        name = "%s_trace_%d" % (tag, k)
        mod = "NegoTraceExt_%s_%d" % (tag, k)
        open(ctx.scratch + "/%s.tla" % mod, "w").write(
            src.replace("negox_trace.ndjson", name + ".ndjson").replace("MODULE NegoTraceExt", "MODULE " + mod))
        ctx.write_ndjson(name + ".ndjson", parts[k])
        res = ctx.tlc(mod, cfg="NegoTraceExt", timeout=2400, count=count)
        done = res.tagged("DONE")
        if not done or done[0] != len(parts[k]):
            raise vlib.Machinery("NegoTraceExt shard %d consumed %r of %d events\n%s" % (k, done, len(parts[k]), res.out[-2000:]))
        st = res.tagged("STAT")
        return res.tagged("REJ"), (st[0] if st else None)

    rej, stat = [], {}
    with cf.ThreadPoolExecutor(max_workers=min(shards, 12)) as ex:
        for r, st in ex.map(one, range(len(parts))):
            rej.extend(r)
            if st is None:
                raise vlib.Machinery("NegoTraceExt printed no STAT record")
            for k, v in st.items():
                if isinstance(v, list):
                    stat[k] = [a + b for a, b in zip(stat.get(k, [0] * len(v)), v)]
                else:
                    stat[k] = stat.get(k, 0) + v
    if count:
        ctx.traces += len(groups)
    return rej, stat


def canary(ctx, good):
    """Binding canary on the recorded trace of the plain scenario appended to every batch: accepted as recorded; rejected when
    the ServerHello carries an unoffered suite, when the client reports a version nobody has, when the data did not come back,
    when the ServerHello event is dropped."""
    r = good[-1]
    if not (r["ev"] == "Result" and r["cok"] and r["sok"] and any(e["ev"] == "SMSG" and e["t"] == 2 for e in good)):
        raise vlib.Machinery("canary: the plain handshake with openssl did not succeed: %r" % ({k: r.get(k) for k in ("cerr", "serr", "srv_args")},))
    cp = lambda: json.loads(json.dumps(good))
    bad1 = cp()
    for e in bad1:
        if e["ev"] == "SMSG" and e["t"] == 2:
            p = 39 + e["raw"][38]
            e["raw"][p], e["raw"][p + 1] = 0x12, 0x34
    bad2 = cp()
    bad2[-1]["cs"]["version"] = 0x0305
    bad3 = cp()
    bad3[-1]["crecv"] = bad3[-1]["crecv"][:-2] + [0x58, 0x0a]
    bad4 = [e for e in cp() if not (e["ev"] == "SMSG" and e["t"] == 2)]
    bad5 = cp()
    bad5[-1]["ss"]["suite"] = 4866 if bad5[-1]["ss"]["suite"] != 4866 else 4865
    cases = (("good", good, False), ("suite", bad1, True), ("version", bad2, True), ("echo", bad3, True),
             ("nosh", bad4, True), ("sview", bad5, True))
    with cf.ThreadPoolExecutor(max_workers=6) as ex:
        got = list(ex.map(lambda c: validate(ctx, c[1], 1, tag="canary_" + c[0], count=False)[0], cases))
    for (tag, _, want), rej in zip(cases, got):
        if bool(rej) != want:
            raise vlib.Machinery("binding canary %s: expected rejection=%s, got %r" % (tag, want, rej))


# ---------------------------------------------------------------------------------------------- known findings of the attributed property
def known_for(prop):
    p = os.path.join(vlib.VERIF, "known_findings.json")
    if not os.path.exists(p):
        return []
    return [e for e in json.load(open(p)).get("findings", []) if e.get("property") == prop and e.get("status", "open") == "open"]


class Reporter:
    """Signatures are '<property>:<signature as that property's check builds it>'. A signature whose tail matches an open known
    finding of that property is reported as KNOWN-FINDING (as ./check <property> would), everything else goes to ctx.finding."""

    def __init__(self, ctx):
        self.ctx, self.known_seen, self.cache = ctx, {}, {}

    def report(self, prop, sig, what, replay):
        kf = self.cache.setdefault(prop, known_for(prop))
        k = next((e for e in kf if re.fullmatch(e["signature"], sig)), None)
        if k is not None:
            self.known_seen.setdefault((prop, k["signature"]), [k, 0])[1] += 1
            return
        self.ctx.finding("%s:%s" % (prop, sig), what, replay)

    def finish(self):
        out = {}
        for (prop, s), (k, n) in sorted(self.known_seen.items()):
            print("KNOWN-FINDING: property=%s (seen by X10 with openssl) %s (%d case(s) this run, signature %s)" % (prop, k["what"], n, s))
            out["%s:%s" % (prop, s)] = n
        return out


def xbrief(s):
    keep = ("id", "ver", "suite", "group", "cert", "alpn", "ossl", "stateless", "no_reneg", "sni_cb", "remove_sni", "client_auth")
    return {k: s[k] for k in keep if k in s and s[k] not in (0, "", False, [], None)}


def rbrief(r):
    if not r:
        return None
    return {k: r.get(k) for k in ("cerr", "corigin", "cok", "hsok", "nch", "sok", "serr", "salert", "srv_args", "build")}


# ---------------------------------------------------------------------------------------------- the check
def run(ctx):
    import time
    t0 = [time.time()]
    phases = {}

    def lap(name):
        phases[name] = round(time.time() - t0[0], 1)
        print("phase %s: %.1f s" % (name, phases[name]), flush=True)
        t0[0] = time.time()
    caps = probe(ctx)
    lap("probe")
    servers = [{"k": c["k"], "path": c["path"]} for c in caps]
    label = {c["k"]: c["label"].split(" (")[0] for c in caps}
    extra_ids = nc.randomized_ids(ctx, 2 if ctx.quick else 8)
    data.dump_specs(ctx, extra=extra_ids)
    nc.dump_suites(ctx)

    # TLC enumerates the three (disjoint) grids and checks the model-level invariants on every point; one TLC process per
    # openssl build (CONSTANT XOnly), side by side
    base_cfg = open(ctx.scratch + "/NegoMCExt_all.cfg").read()

    def grid_of(k):
        open(ctx.scratch + "/NegoMCExt_all_%d.cfg" % k, "w").write(base_cfg.replace("XOnly = 0", "XOnly = %d" % k))
        res = ctx.tlc("NegoMCExt", cfg="NegoMCExt_all_%d" % k, workers=2, timeout=1500, heap="4g")
        if res.violated:
            raise vlib.Machinery("model-level invariant %s violated in NegoMCExt_all (build %d): the specification contradicts itself\n%s"
                                 % (res.violated, k, res.out[-2500:]))
        return res.tagged("SCN")
    with cf.ThreadPoolExecutor(max_workers=4) as ex:
        all_scn = sum(ex.map(grid_of, [c["k"] for c in caps]), [])
    grids = {"x10": [], "x17": [], "x11": []}
    for s in all_scn:
        grids["x17" if s["stateless"] else "x11" if (s["no_reneg"] or s["sni_cb"]) else "x10"].append(s)
    if not grids["x10"]:
        raise vlib.Machinery("NegoMCExt_x10 produced no scenario (vacuous): capabilities %r" % [(c["label"], c["versions"]) for c in caps])
    full = {m: len(g) for m, g in grids.items()}
    lap("tlc_grids")

    # ---- quick: a few hundred scenarios chosen by VERIF_SEED (TLC still enumerates everything); thorough: everything
    rnd = random.Random(ctx.seed * 7919 + 13)
    if ctx.quick:
        pick = []
        for mode, keyf, n in (("x10", lambda s: (s["ossl"], s["id"], s["ver"]), 1), ("x17", lambda s: (s["ossl"], s["id"]), 1),
                              ("x11", lambda s: (s["ossl"], s["ver"], s["no_reneg"], s["sni_cb"], s["remove_sni"], s["client_auth"]), 3)):
            buckets = {}
            for s in grids[mode]:
                buckets.setdefault(keyf(s), []).append(s)
            for k in sorted(buckets, key=str):
                pick += rnd.sample(buckets[k], min(n, len(buckets[k])))
        scns = pick
    else:
        scns = grids["x10"] + grids["x17"] + grids["x11"]
    can = dict(grids["x10"][0])
    can.update({"id": "Chrome-133", "ver": 772, "suite": 4865, "group": 29, "cert": "ecdsa", "alpn": [], "ossl": 1, "stateless": False,
                "no_reneg": False, "sni_cb": False, "remove_sni": False, "client_auth": 0, "x_can": True, "expect": "done", "why": ""})
    scns = [dict(s) for s in scns] + [can]
    for i, s in enumerate(scns):
        s["sc"] = i
        s["ekm"] = 24
    byid = {s["sc"]: s for s in scns}

    def execute(batch, par, name):
        evs = ctx.drv("ossl", {"scenarios": batch, "servers": servers, "tmpdir": ctx.scratch, "par": par}, prog="ossl", timeout=3000, name=name)
        errs = [e for e in evs if e["ev"] == "Error"]
        if errs:
            raise vlib.Machinery("harness errors (%d): %r" % (len(errs), errs[:3]))
        return evs

    events = execute(scns, 12, "ossl")
    lap("openssl_handshakes")
    canary(ctx, _groups(events)[-1])
    lap("canary")
    rej, stat = validate(ctx, events, 6 if ctx.quick else 12)
    lap("tlc_validation")
    results = {e["sc"]: e for e in events if e["ev"] == "Result"}

    # ---- only a reproduced rejection is reported: the rejected scenarios are run again, on fresh server processes and with
    #      low parallelism, and validated again; a rejection that does not come back is exit 2, not a verdict
    first = {}
    for r in rej:
        first.setdefault(r[0], set()).add((r[1], r[2]))
    again = [dict(byid[sc]) for sc in sorted(first)]
    confirmed = {}
    if again:
        if len(again) > max(400, len(scns) // 4):
            raise vlib.Machinery("%d of %d scenarios rejected: something systematic is wrong, e.g. %r" % (len(again), len(scns), rej[:5]))
        ev2 = execute(again, 4, "ossl_again")
        rej2, _ = validate(ctx, ev2, max(1, min(6, len(again) // 40 + 1)), tag="again", count=False)
        res2 = {e["sc"]: e for e in ev2 if e["ev"] == "Result"}
        for r in rej2:
            if (r[1], r[2]) in first.get(r[0], ()):
                confirmed.setdefault(r[0], []).append((r[1], r[2]))
        lost = [(sc, k) for sc, ks in first.items() for k in ks if k not in confirmed.get(sc, [])]
        if lost:
            raise vlib.Machinery("%d rejection(s) did not reproduce when re-run alone (not a verdict): %r"
                                 % (len(lost), [(xbrief(byid[sc]), k, rbrief(results.get(sc))) for sc, k in lost[:4]]))
        results.update(res2)

    lap("reproduction")
    rep = Reporter(ctx)
    seen = {}
    for sc in sorted(confirmed):
        s, r = byid[sc], results.get(sc)
        for kind, detail in confirmed[sc]:
            seen[kind] = seen.get(kind, 0) + 1
            d = nc.sig_detail(detail)
            rp = {"scenario": xbrief(s), "result": rbrief(r), "server": label[s["ossl"]]}
            idn = re.sub(r"@\d+", "@seed", s["id"])
            if kind in KINDS_MACHINERY:
                raise vlib.Machinery("trace problem (%s/%s): %r %r" % (kind, d, xbrief(s), rbrief(r)))
            if kind == "progress":
                err = (r or {}).get("cerr", "")
                grp = ("shared-group-%d" % s["group"] if "invalid server key share" in err
                       else "hrr-to-hybrid-group-%d" % s["group"] if "CurvePreferences includes unsupported curve" in err else "other")
                rep.report("C10", "progress:%s:%s:%s:v%d" % (d, grp, idn, s["ver"]),
                           "choice of a compliant independent server (%s) offered by %s is not completed: %s (client error: %s)" % (label[s["ossl"]], s["id"], d, err), rp)
            elif kind == "stall":
                rep.report("C10", "progress:%s:stall:%s:v%d" % (d, idn, s["ver"]),
                           "connection of %s ends or stalls after an acceptable ServerHello of %s without any complaint of the server" % (s["id"], label[s["ossl"]]), rp)
            elif kind == "refusal":
                # the reason text of openssl's first error line ("...:error:0A00006C:SSL routines:extract_keyshares:bad key share:file:line:")
                f = ((r or {}).get("serr", "") or "").split(" | ")[0].split(":")
                reason = re.sub(r"[^a-z0-9]+", "-", f[5].lower()).strip("-") if len(f) > 5 else "no-error-text"
                if "share-outside-supported-groups" in d:
                    reason = "bad-key-share"   # the class is decided by TLC from the wire hello; openssl's text is only quoted
                rep.report("C10", "refusal:%s:%s:%s:v%d" % (d, reason, idn, s["ver"]),
                           "%s refuses an offer of %s that OsslCanSelect says it can select (client hello at fault, or the rule): %s; e.g. suite=%d group=%d cert=%s"
                           % (label[s["ossl"]], s["id"], (r or {}).get("serr", "")[-160:], s["suite"], s["group"], s["cert"]), rp)
            elif kind == "ch2":
                rep.report("C17", "ch2:%s:%s" % (d, idn), "second ClientHello of %s after a HelloRetryRequest of %s deviates: %s" % (s["id"], label[s["ossl"]], d), rp)
            elif kind == "safety":
                prop = "C17" if "hrr" in d else "C12"
                rep.report(prop, ("hrr-safety:%s:%s" if prop == "C17" else "safety:%s:%s") % (d, idn), "client went on although it had to abort: %s" % d, rp)
            elif kind == "agree":
                rep.report("C11", "agree:%s:%s:sni_removed=%s" % (d, "any-parrot" if s.get("remove_sni") else idn, bool(s.get("remove_sni"))),
                           "client view differs from the wire / from what %s reports after a successful handshake of %s: %s" % (label[s["ossl"]], s["id"], d), rp)
            elif kind == "share":
                if d == "share-not-in-groups/4588" and s["id"].startswith("Randomized"):
                    # the wire image of the generator defect recorded for C09 (D14), under C09's own signature
                    rep.report("C09", "mlkem-share-without-group", "wire hello of %s carries an X25519MLKEM768 key share without the group in supported_groups" % s["id"], rp)
                else:
                    rep.report("C18", "share:%s:%s" % (d, idn), "key shares of %s: %s" % (s["id"], d), rp)
            elif kind == "extsrv":
                rep.report("X10", "extsrv:%s:%s" % (d, label[s["ossl"]].replace(" ", "-")),
                           "%s sent a message the specification says a client must refuse (%s): server or specification at fault" % (label[s["ossl"]], d), rp)
            else:
                raise vlib.Machinery("unknown rejection kind %r" % ((kind, detail),))
    ctx.note("rejection kinds (reproduced): %r" % seen)
    known_seen = rep.finish()

    # ---- the same grid points on the in-tree server: where do the two servers, or the two rules, disagree?
    def klass(e):
        return "done" if e["cok"] else "client-local" if e["corigin"] == "local" else "refused"
    gos = [s for s in scns if not s["stateless"] and not s["sni_cb"]]
    gevs = ctx.drv("nego", {"scenarios": [dict(s, ekm=0) for s in gos]}, timeout=1500, name="nego_same_points")
    gerr = [e for e in gevs if e["ev"] == "Error"]
    if gerr:
        raise vlib.Machinery("in-tree harness errors: %r" % gerr[:3])
    gres = {e["sc"]: e for e in gevs if e["ev"] == "Result"}
    # Classes are aggregated over parrots and cipher suites; every class carries its explanation:
    #   rules      the two selection rules (OsslCanSelect / GoCanSelect) differ at the point and each server follows its rule
    #   hello      the client's hello breaks RFC 8446 4.2.8 (share outside supported_groups): OpenSSL checks, the in-tree server
    #              does not (the rejection itself is reported above as a C10 refusal)
    #   client     the client fails locally against one of the servers (reported above as a C10 progress finding); the other
    #              server stopped earlier for a reason both rules agree on
    #   NONE       nobody can explain it: reported in the evidence and as a note, to be examined
    dis, unexplained = {}, []
    for s in gos:
        a, b = results.get(s["sc"]), gres.get(s["sc"])
        if not a or not b:
            continue
        ka, kb = klass(a), klass(b)
        if ka == kb:
            continue
        kinds = {k for k, _ in confirmed.get(s["sc"], [])}
        details = " ".join(d for _, d in confirmed.get(s["sc"], []))
        if (ka == "done") == bool(s["x_can"]) and (kb == "done") == bool(s["go_can"]) and s["x_can"] != s["go_can"]:
            why = "rules"
        elif "share-outside-supported-groups" in details:
            why = "hello"
        elif "client-local" in (ka, kb):
            why = "client"
        else:
            why = "NONE"
        oreason = ((a.get("serr") or "").split(" | ")[0].split(":") + [""] * 6)[5] or a.get("cerr", "")
        key = "v%d group=%d cert=%s alpn=%d: %s=%s (%s) in-tree=%s (%s) | OsslCanSelect=%s GoCanSelect=%s | explained by: %s" % (
            s["ver"], s["group"], s["cert"], len(s["alpn"]), label[s["ossl"]], ka, oreason, kb, (b.get("cerr") or b.get("serr") or "")[-60:],
            s["x_can"], s["go_can"], why)
        d = dis.setdefault(key, {"n": 0, "ids": set(), "suites": set()})
        d["n"] += 1
        d["ids"].add(re.sub(r"@\d+", "@seed", s["id"]))
        d["suites"].add(s["suite"])
        if why == "NONE":
            unexplained.append(key)
    disagreements = [{"point": k, "cases": v["n"], "ids": sorted(v["ids"])[:6], "suites": sorted(v["suites"])} for k, v in sorted(dis.items())]
    ctx.note("grid points where openssl and the in-tree server end differently: %d classes (%d scenarios), %d classes unexplained"
             % (len(dis), sum(v["n"] for v in dis.values()), len(set(unexplained))))

    lap("in_tree_same_points")
    ctx.note("phase seconds: %r" % phases)
    # ---- vacuity
    vers_done = dict(zip((769, 770, 771, 772), stat.get("done", [0, 0, 0, 0])))
    need = {v for c in caps for v in c["versions"]}
    missing = [v for v in sorted(need) if vers_done.get(v, 0) == 0 and any(s["ver"] == v and s["x_can"] for s in scns)]
    if missing:
        raise vlib.Machinery("vacuous: no completed handshake at version(s) %r: %r" % (missing, stat))
    if any(c["stateless"] for c in caps) and any(s["stateless"] for s in scns):
        if stat.get("hrrCookie", 0) == 0 or stat.get("hrrCookieOnly", 0) == 0:
            raise vlib.Machinery("vacuous: no completed handshake through a HelloRetryRequest with a real cookie: %r" % stat)
    if stat.get("hrrGroup", 0) == 0 or stat.get("agree", 0) == 0 or stat.get("ekm", 0) == 0 or stat.get("sni", 0) == 0:
        raise vlib.Machinery("vacuous: %r" % stat)

    cov = {"evaluations": len(scns), "distinct_nontrivial": len(scns),
           "rule": "TLC enumerates, per openssl build found on this machine and per parrot, version x suite x group x certificate kind x ALPN over what the dumped spec offers, the client library implements and the build implements (probed at run time, ossl_caps.json), plus every offered classical group with s_server -stateless (HelloRetryRequest with a real cookie) and agreement variants; quick replays a VERIF_SEED-chosen sample (one point per build x parrot x version), thorough every point; each replayed point is one real UConn against one openssl s_server, its wire/observations validated by TLC (NegoTraceExt); distinct = replayed scenarios",
           "grid_sizes_enumerated_by_tlc": full, "openssl_builds": [{"label": c["label"], "path": c["path"], "versions": c["versions"], "groups_tls13": next((g["ids"] for g in c["groups"] if g["ver"] == 772), []), "stateless": c["stateless"], "probes": c["probes"]} for c in caps],
           "samples": [xbrief(s) for s in scns[:3]], "completed_by_version": vers_done, "trace_stats": stat,
           "rejections_reproduced": seen, "known_findings_seen_attributed": known_seen,
           "server_disagreements": disagreements[:60], "server_disagreement_classes": len(dis), "server_disagreements_unexplained": sorted(set(unexplained))[:20],
           "phase_seconds": phases, "exhaustive": not ctx.quick}
    return "model_checking", cov, [
        "openssl s_server is taken to be a compliant TLS server; in TLS 1.3 its encrypted flight is not observed: completion + data round trip in both directions stands in for it (spec/NegoTraceExt.tla)",
        "s_server -stateless does not accept the compatibility ChangeCipherSpec before the second ClientHello: the recording transport removes that record in -stateless scenarios (not part of the transcript; both ClientHellos reach the server unmodified)",
        "the server's view is what s_server prints (cipher, ALPN, session reuse, SNI, exporter), translated by the harness, compared by TLC",
        "security level 0 is set on the s_server command line so that TLS 1.0/1.1 and SHA-1 signatures are available where the build has them"]
